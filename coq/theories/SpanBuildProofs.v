(* Proofs of SpanBuildSpec.v. *)
From HclV Require Import Base Expr Machine Graph GraphSpec GraphProofs Build Lexer Parser LexParseSpec TriviaSpec Yo
                         Region RegionSpec LexLocSpec LexLocProofs Generated SpanParser SpanParserLemmas
                         SpanParserSpec SpanParserProofs SpanBuild SpanBuildLemmas SpanBuildSpec.
From HclV Require LoopProofs FaultDiagSpec FaultDiagProofs.
Open Scope string_scope.
Open Scope list_scope.
Open Scope N_scope.

(* ====================================================================================== *)
(* (a) erasure                                                                             *)
(* ====================================================================================== *)
Theorem check_sp_erases_holds : stmt_check_sp_erases.
Proof. intros f G C e. apply check_sp_erase. Qed.

Theorem eval_sp_erases_holds : stmt_eval_sp_erases.
Proof. intros f rho e. apply eval_sp_erase. Qed.

Theorem build_sp_erases_holds : stmt_build_sp_erases.
Proof. intros f fixed lo up stmts. apply build_program_sp_erase. Qed.

Theorem front_sp_erases_holds : stmt_front_sp_erases.
Proof.
  intros f fixed lo up uc tiers bytes. unfold front_sp.
  rewrite <- (erase_parse_text_sp_holds uc tiers bytes).
  destruct (parse_text_sp uc tiers bytes) as [stmts|]; cbn [option_map]; [|reflexivity].
  f_equal. apply build_program_sp_erase.
Qed.

(* ====================================================================================== *)
(* nodes                                                                                   *)
(* ====================================================================================== *)
Lemma enodes_eq e : enodes e =
  e :: match e with
       | SEConst _ _ | SEWire _ _ => []
       | SEBin _ _ l r | SECat _ l r => enodes l ++ enodes r
       | SEUn _ _ e1 | SESlice _ e1 _ _ => enodes e1
       | SEMux _ a => anodes a
       | SEIn _ e1 xs => enodes e1 ++ xnodes xs
       end.
Proof. destruct e; reflexivity. Qed.
Lemma anodes_cons c v rest : anodes (SACons c v rest) = enodes c ++ enodes v ++ anodes rest.
Proof. reflexivity. Qed.
Lemma xnodes_cons e rest : xnodes (SXCons e rest) = enodes e ++ xnodes rest.
Proof. reflexivity. Qed.

Lemma enodes_self e : In e (enodes e).
Proof. rewrite enodes_eq. left. reflexivity. Qed.

Lemma enodes_trans_all :
  (forall root n, In n (enodes root) -> forall m, In m (enodes n) -> In m (enodes root)) /\
  (forall a n, In n (anodes a) -> forall m, In m (enodes n) -> In m (anodes a)) /\
  (forall xs n, In n (xnodes xs) -> forall m, In m (enodes n) -> In m (xnodes xs)).
Proof.
  apply sexpr_sarms_sexprs_ind.
  - intros sp v n Hn m Hm. rewrite enodes_eq in Hn. destruct Hn as [<-|[]]. exact Hm.
  - intros sp op l IHl r IHr n Hn m Hm. rewrite enodes_eq in Hn. destruct Hn as [<-|Hn]; [exact Hm|].
    rewrite enodes_eq. right. apply in_app_or in Hn. apply in_or_app.
    destruct Hn as [Hn|Hn]; [left; exact (IHl n Hn m Hm) | right; exact (IHr n Hn m Hm)].
  - intros sp op e IH n Hn m Hm. rewrite enodes_eq in Hn. destruct Hn as [<-|Hn]; [exact Hm|].
    rewrite enodes_eq. right. exact (IH n Hn m Hm).
  - intros sp a IH n Hn m Hm. rewrite enodes_eq in Hn. destruct Hn as [<-|Hn]; [exact Hm|].
    rewrite enodes_eq. right. exact (IH n Hn m Hm).
  - intros sp nm n Hn m Hm. rewrite enodes_eq in Hn. destruct Hn as [<-|[]]. exact Hm.
  - intros sp e IH lo hi n Hn m Hm. rewrite enodes_eq in Hn. destruct Hn as [<-|Hn]; [exact Hm|].
    rewrite enodes_eq. right. exact (IH n Hn m Hm).
  - intros sp l IHl r IHr n Hn m Hm. rewrite enodes_eq in Hn. destruct Hn as [<-|Hn]; [exact Hm|].
    rewrite enodes_eq. right. apply in_app_or in Hn. apply in_or_app.
    destruct Hn as [Hn|Hn]; [left; exact (IHl n Hn m Hm) | right; exact (IHr n Hn m Hm)].
  - intros sp e IHe xs IHx n Hn m Hm. rewrite enodes_eq in Hn. destruct Hn as [<-|Hn]; [exact Hm|].
    rewrite enodes_eq. right. apply in_app_or in Hn. apply in_or_app.
    destruct Hn as [Hn|Hn]; [left; exact (IHe n Hn m Hm) | right; exact (IHx n Hn m Hm)].
  - intros n [].
  - intros c IHc v IHv rest IHr n Hn m Hm. rewrite anodes_cons in Hn |- *.
    apply in_app_or in Hn. apply in_or_app. destruct Hn as [Hn|Hn]; [left; exact (IHc n Hn m Hm)|right].
    apply in_app_or in Hn. apply in_or_app. destruct Hn as [Hn|Hn]; [left; exact (IHv n Hn m Hm)|right; exact (IHr n Hn m Hm)].
  - intros n [].
  - intros e IHe rest IHr n Hn m Hm. rewrite xnodes_cons in Hn |- *.
    apply in_app_or in Hn. apply in_or_app. destruct Hn as [Hn|Hn]; [left; exact (IHe n Hn m Hm)|right; exact (IHr n Hn m Hm)].
Qed.

Lemma enodes_trans root n m : In n (enodes root) -> In m (enodes n) -> In m (enodes root).
Proof. intros H1 H2. exact (proj1 enodes_trans_all root n H1 m H2). Qed.

Lemma arm_exprs_nodes a : forall x, In x (arm_exprs a) -> In x (anodes a).
Proof.
  induction a as [|c v rest IH]; intros x Hx; [destruct Hx|].
  cbn [arm_exprs] in Hx. rewrite anodes_cons. destruct Hx as [<-|[<-|Hx]].
  - apply in_or_app. left. apply enodes_self.
  - apply in_or_app. right. apply in_or_app. left. apply enodes_self.
  - apply in_or_app. right. apply in_or_app. right. exact (IH x Hx).
Qed.

Lemma item_exprs_nodes xs : forall x, In x (item_exprs xs) -> In x (xnodes xs).
Proof.
  induction xs as [|e rest IH]; intros x Hx; [destruct Hx|].
  cbn [item_exprs] in Hx. rewrite xnodes_cons. destruct Hx as [<-|Hx].
  - apply in_or_app. left. apply enodes_self.
  - apply in_or_app. right. exact (IH x Hx).
Qed.

Lemma arm_value_spans_nodes a : forall sp, In sp (arm_value_spans a) -> In sp (map espan (anodes a)).
Proof.
  induction a as [|c v rest IH]; intros sp Hsp; [destruct Hsp|].
  cbn [arm_value_spans] in Hsp. rewrite anodes_cons, !map_app.
  destruct Hsp as [<-|Hsp].
  - apply in_or_app. right. apply in_or_app. left. apply in_map. apply enodes_self.
  - apply in_or_app. right. apply in_or_app. right. exact (IH sp Hsp).
Qed.

(* children of a node of root are nodes of root *)
Lemma child_node root n c : In n (enodes root) -> In c (children n) -> In c (enodes root).
Proof.
  intros Hn Hc. apply (enodes_trans root n c Hn). rewrite enodes_eq. right.
  destruct n; cbn [children] in Hc.
  - destruct Hc.
  - destruct Hc as [<-|[<-|[]]]; apply in_or_app; [left|right]; apply enodes_self.
  - destruct Hc as [<-|[]]. apply enodes_self.
  - apply arm_exprs_nodes. exact Hc.
  - destruct Hc.
  - destruct Hc as [<-|[]]. apply enodes_self.
  - destruct Hc as [<-|[<-|[]]]; apply in_or_app; [left|right]; apply enodes_self.
  - destruct Hc as [<-|Hc]; apply in_or_app; [left; apply enodes_self | right; apply item_exprs_nodes; exact Hc].
Qed.

(* ====================================================================================== *)
(* the checker: which node                                                                 *)
(* ====================================================================================== *)
Lemma sbind_err {A B} (r : sresult A) (k : A -> sresult B) es :
  sbind r k = SErr es -> r = SErr es \/ exists a, r = SOk a /\ k a = SErr es.
Proof. destruct r as [a|e]; cbn [sbind]; intros H; [right; exists a; split; [reflexivity|exact H] | left; injection H as <-; reflexivity]. Qed.

Lemma sbind_ok {A B} (r : sresult A) (k : A -> sresult B) b :
  sbind r k = SOk b -> exists a, r = SOk a /\ k a = SOk b.
Proof. destruct r as [a|e]; cbn [sbind]; intros H; [exists a; split; [reflexivity|exact H] | discriminate H]. Qed.

Section CheckFaults.
  Variable f : features.
  Variable G : string -> option width.
  Variable C : string -> option wval.

  Notation chk := (check_sp f G C).
  Notation fault := (expr_fault f G C).

  Definition good (root : sexpr) (es : list serr) : Prop := es <> [] /\ Forall (fault root) es.

  Lemma good1 root d : fault root d -> good root [d].
  Proof. intros H. split; [discriminate | constructor; [exact H | constructor]]. Qed.

  Lemma serr1_inj {A} k names spans es : @serr1 A k names spans = SErr es -> es = [mkSErr k names spans].
  Proof. unfold serr1. intros H. injection H as <-. reflexivity. Qed.

  (* the binary operators whose operands must agree *)
  Lemma combine_case root sp op l r es (k : width -> sresult width) :
    In (SEBin sp op l r) (enodes root) -> kind op <> BooleanCombine ->
    (forall es, chk l = SErr es -> good root es) ->
    (forall es, chk r = SErr es -> good root es) ->
    (forall w es, k w = SErr es -> False) ->
    (dos wl <- chk l; dos wr <- chk r; dos w <- combine_exprs_sp l r wl wr; k w) = SErr es ->
    good root es.
  Proof.
    intros Hn Hk IHl IHr Hkk H.
    apply sbind_err in H. destruct H as [H|(wl & El & H)]; [exact (IHl es H)|].
    apply sbind_err in H. destruct H as [H|(wr & Er & H)]; [exact (IHr es H)|].
    apply sbind_err in H. destruct H as [H|(w & _ & H)]; [|exfalso; exact (Hkk w es H)].
    unfold combine_exprs_sp in H. destruct (wcombine wl wr) eqn:Ew; [discriminate H|].
    apply serr1_inj in H. subst es. apply good1. exact (EF_operands f G C root sp op l r wl wr Hn Hk El Er Ew).
  Qed.

  Lemma check_faults_all :
    (forall e root, incl (enodes e) (enodes root) -> forall es, chk e = SErr es -> good root es) /\
    (forall a root, incl (anodes a) (enodes root) -> forall st es, check_arms_sp f G C a st = SErr es -> good root es) /\
    (forall xs root sp e1 all_items wl,
        In (SEIn sp e1 all_items) (enodes root) -> incl (item_exprs xs) (item_exprs all_items) ->
        incl (xnodes xs) (enodes root) -> chk e1 = SOk wl ->
        (forall es, check_items_sp f G C e1 wl xs = SErr es -> good root es) /\
        (forall errs, check_items_sp f G C e1 wl xs = SOk errs -> Forall (fault root) errs)).
  Proof.
    apply sexpr_sarms_sexprs_ind.
    - intros sp v root Hi es H. discriminate H.
    - (* binary *)
      intros sp op l IHl r IHr root Hi es H.
      assert (Hself : In (SEBin sp op l r) (enodes root)) by (apply Hi; apply enodes_self).
      assert (Hil : incl (enodes l) (enodes root)).
      { intros x Hx. apply Hi. rewrite enodes_eq. right. apply in_or_app. left. exact Hx. }
      assert (Hir : incl (enodes r) (enodes root)).
      { intros x Hx. apply Hi. rewrite enodes_eq. right. apply in_or_app. right. exact Hx. }
      specialize (IHl root Hil). specialize (IHr root Hir).
      rewrite check_sp_bin in H. destruct (kind op) eqn:Ek.
      + (* && || *)
        destruct (f_sbo f).
        * apply sbind_err in H. destruct H as [H|(wl & El & H)]; [exact (IHl es H)|].
          destruct (negb (possibly_boolean wl)) eqn:Pl.
          { apply serr1_inj in H. subst es. apply good1.
            apply (EF_nonboolean f G C root sp op l r l wl Hself Ek (or_introl eq_refl) El).
            apply negb_true_iff. exact Pl. }
          apply sbind_err in H. destruct H as [H|(wr & Er & H)]; [exact (IHr es H)|].
          destruct (negb (possibly_boolean wr)) eqn:Pr; [|discriminate H].
          apply serr1_inj in H. subst es. apply good1.
          apply (EF_nonboolean f G C root sp op l r r wr Hself Ek (or_intror eq_refl) Er).
          apply negb_true_iff. exact Pr.
        * apply sbind_err in H. destruct H as [H|(wl & El & H)]; [exact (IHl es H)|].
          apply sbind_err in H. destruct H as [H|(wr & Er & H)]; [exact (IHr es H)|]. discriminate H.
      + (* comparisons *)
        apply (combine_case root sp op l r es (fun _ => SOk (Bits 1)) Hself); try assumption.
        * rewrite Ek. discriminate.
        * intros w es' Hd. discriminate Hd.
      + (* | ^ & << >> *)
        apply (combine_case root sp op l r es (fun w => SOk w) Hself); try assumption.
        * rewrite Ek. discriminate.
        * intros w es' Hd. discriminate Hd.
        * destruct (chk l) as [wl|]; cbn [sbind] in H |- *; [|exact H].
          destruct (chk r) as [wr|]; cbn [sbind] in H |- *; [|exact H].
          destruct (combine_exprs_sp l r wl wr); cbn [sbind]; exact H.
      + (* + - * / *)
        destruct (f_swb f).
        * apply (combine_case root sp op l r es (fun w => SOk w) Hself); try assumption.
          -- rewrite Ek. discriminate.
          -- intros w es' Hd. discriminate Hd.
          -- destruct (chk l) as [wl|]; cbn [sbind] in H |- *; [|exact H].
             destruct (chk r) as [wr|]; cbn [sbind] in H |- *; [|exact H].
             destruct (combine_exprs_sp l r wl wr); cbn [sbind]; exact H.
        * apply sbind_err in H. destruct H as [H|(wl & El & H)]; [exact (IHl es H)|].
          apply sbind_err in H. destruct H as [H|(wr & Er & H)]; [exact (IHr es H)|]. discriminate H.
    - (* unary *)
      intros sp op e IH root Hi es H.
      assert (Hie : incl (enodes e) (enodes root)).
      { intros x Hx. apply Hi. rewrite enodes_eq. right. exact Hx. }
      rewrite check_sp_un in H. destruct op; try exact (IH root Hie es H).
      apply sbind_err in H. destruct H as [H|(w & _ & H)]; [exact (IH root Hie es H) | discriminate H].
    - (* mux *)
      intros sp a IH root Hi es H.
      assert (Hself : In (SEMux sp a) (enodes root)) by (apply Hi; apply enodes_self).
      assert (Hia : incl (anodes a) (enodes root)).
      { intros x Hx. apply Hi. rewrite enodes_eq. right. exact Hx. }
      rewrite check_sp_mux in H.
      apply sbind_err in H. destruct H as [H|(st & _ & H)]; [exact (IH root Hia _ es H)|].
      destruct (f_rmd f && negb (ms_seen st)).
      { apply serr1_inj in H. subst es. apply good1. exact (EF_mux_no_default f G C root sp a Hself). }
      destruct (f_dmd f && ms_twice st).
      { apply serr1_inj in H. subst es. apply good1. exact (EF_mux_multiple_default f G C root sp a Hself). }
      destruct (f_duo f && ms_unreach st).
      { apply serr1_inj in H. subst es. apply good1. exact (EF_mux_unreachable f G C root sp a Hself). }
      destruct (ms_width st); [discriminate H|].
      apply serr1_inj in H. subst es. apply good1. exact (EF_mux_widths f G C root sp a Hself).
    - (* wire *)
      intros sp n root Hi es H. cbn [check_sp] in H. destruct (G n) eqn:En; [discriminate H|].
      apply serr1_inj in H. subst es. apply good1.
      apply (EF_undeclared f G C root sp n); [apply Hi; apply enodes_self | exact En].
    - (* slice *)
      intros sp e IH lo hi root Hi es H.
      assert (Hself : In (SESlice sp e lo hi) (enodes root)) by (apply Hi; apply enodes_self).
      assert (Hie : incl (enodes e) (enodes root)).
      { intros x Hx. apply Hi. rewrite enodes_eq. right. exact Hx. }
      rewrite check_sp_slice in H. destruct (hi <? lo) eqn:Eo.
      { apply serr1_inj in H. subst es. apply good1.
        apply (EF_misordered f G C root sp e lo hi Hself). apply N.ltb_lt. exact Eo. }
      apply sbind_err in H. destruct H as [H|(w & Ew & H)]; [exact (IH root Hie es H)|].
      destruct w as [iw|]; [|discriminate H]. destruct (iw <? hi) eqn:Ei; [|discriminate H].
      apply serr1_inj in H. subst es. apply good1.
      apply (EF_bit_index f G C root sp e lo hi iw Hself Ew). apply N.ltb_lt. exact Ei.
    - (* concatenation *)
      intros sp l IHl r IHr root Hi es H.
      assert (Hself : In (SECat sp l r) (enodes root)) by (apply Hi; apply enodes_self).
      assert (Hil : incl (enodes l) (enodes root)).
      { intros x Hx. apply Hi. rewrite enodes_eq. right. apply in_or_app. left. exact Hx. }
      assert (Hir : incl (enodes r) (enodes root)).
      { intros x Hx. apply Hi. rewrite enodes_eq. right. apply in_or_app. right. exact Hx. }
      rewrite check_sp_cat in H.
      apply sbind_err in H. destruct H as [H|(wl & El & H)]; [exact (IHl root Hil es H)|].
      destruct wl as [lw|].
      2:{ apply serr1_inj in H. subst es. apply good1.
          exact (EF_no_width f G C root sp l r l Hself (or_introl eq_refl) El). }
      apply sbind_err in H. destruct H as [H|(wr & Er & H)]; [exact (IHr root Hir es H)|].
      destruct wr as [rw|].
      2:{ apply serr1_inj in H. subst es. apply good1.
          exact (EF_no_width f G C root sp l r r Hself (or_intror eq_refl) Er). }
      destruct (lw + rw <=? 128) eqn:Ew; [discriminate H|].
      apply serr1_inj in H. subst es. apply good1.
      apply (EF_too_wide f G C root sp l r lw rw Hself El Er). apply N.leb_gt. exact Ew.
    - (* in *)
      intros sp e IHe xs IHx root Hi es H.
      assert (Hself : In (SEIn sp e xs) (enodes root)) by (apply Hi; apply enodes_self).
      assert (Hie : incl (enodes e) (enodes root)).
      { intros x Hx. apply Hi. rewrite enodes_eq. right. apply in_or_app. left. exact Hx. }
      assert (Hix : incl (xnodes xs) (enodes root)).
      { intros x Hx. apply Hi. rewrite enodes_eq. right. apply in_or_app. right. exact Hx. }
      rewrite check_sp_in in H.
      apply sbind_err in H. destruct H as [H|(wl & El & H)]; [exact (IHe root Hie es H)|].
      destruct (IHx root sp e xs wl Hself (incl_refl _) Hix El) as [I1 I2].
      apply sbind_err in H. destruct H as [H|(errs & Ee & H)]; [exact (I1 es H)|].
      destruct errs as [|d errs]; [discriminate H|]. injection H as <-.
      split; [discriminate | exact (I2 _ Ee)].
    - (* no arm *)
      intros root Hi st es H. discriminate H.
    - (* an arm *)
      intros c IHc v IHv rest IHr root Hi st es H.
      assert (Hic : incl (enodes c) (enodes root)).
      { intros x Hx. apply Hi. rewrite anodes_cons. apply in_or_app. left. exact Hx. }
      assert (Hiv : incl (enodes v) (enodes root)).
      { intros x Hx. apply Hi. rewrite anodes_cons. apply in_or_app. right. apply in_or_app. left. exact Hx. }
      assert (Hir : incl (anodes rest) (enodes root)).
      { intros x Hx. apply Hi. rewrite anodes_cons. apply in_or_app. right. apply in_or_app. right. exact Hx. }
      rewrite check_arms_sp_cons in H.
      apply sbind_err in H. destruct H as [H|(wc & _ & H)]; [exact (IHc root Hic es H)|].
      cbv zeta in H.
      apply sbind_err in H. destruct H as [H|(wv & _ & H)]; [exact (IHv root Hiv es H)|].
      exact (IHr root Hir _ es H).
    - (* no item *)
      intros root sp e1 all_items wl Hself Hsub Hi El. split.
      + intros es H. discriminate H.
      + intros errs H. injection H as <-. constructor.
    - (* an item *)
      intros e IHe rest IHr root sp e1 all_items wl Hself Hsub Hi El.
      assert (Hie : incl (enodes e) (enodes root)).
      { intros x Hx. apply Hi. rewrite xnodes_cons. apply in_or_app. left. exact Hx. }
      assert (Hir : incl (xnodes rest) (enodes root)).
      { intros x Hx. apply Hi. rewrite xnodes_cons. apply in_or_app. right. exact Hx. }
      assert (Hsub' : incl (item_exprs rest) (item_exprs all_items)).
      { intros x Hx. apply Hsub. cbn [item_exprs]. right. exact Hx. }
      assert (Hin : In e (item_exprs all_items)) by (apply Hsub; cbn [item_exprs]; left; reflexivity).
      destruct (IHr root sp e1 all_items wl Hself Hsub' Hir El) as [I1 I2].
      rewrite check_items_sp_cons. split.
      + intros es H.
        apply sbind_err in H. destruct H as [H|(wi & Ei & H)]; [exact (IHe root Hie es H)|].
        apply sbind_err in H. destruct H as [H|(more & Em & H)]; [exact (I1 es H)|].
        destruct (wcombine wl wi); discriminate H.
      + intros errs H.
        apply sbind_ok in H. destruct H as (wi & Ei & H).
        apply sbind_ok in H. destruct H as (more & Em & H).
        destruct (wcombine wl wi) eqn:Ew; injection H as <-; [exact (I2 _ Em)|].
        constructor; [|exact (I2 _ Em)].
        exact (EF_item f G C root sp e1 all_items e wl wi Hself Hin El Ei Ew).
  Qed.
End CheckFaults.

Theorem check_sp_faults_holds : stmt_check_sp_faults.
Proof.
  intros f G C e es H. exact (proj1 (check_faults_all f G C) e e (incl_refl _) es H).
Qed.

(* ---- the evaluator ----------------------------------------------------------------------------- *)
Lemma apply_errs f op l r es : apply f op l r = Err es ->
  es = [mkErr RuntimeMismatchedWidths []] \/ es = [mkErr DivisionByZero []].
Proof.
  unfold apply. intros H.
  assert (Hfin : forall fw, (if is_div op && (bits r =? 0) then err1 DivisionByZero []
                             else Ok (mkV (N.land (apply_raw op (bits l) (bits r)) (mask fw)) fw)) = Err es ->
                            es = [mkErr DivisionByZero []]).
  { intros fw Hf. destruct (is_div op && (bits r =? 0)); [|discriminate Hf]. injection Hf as <-. reflexivity. }
  destruct (kind op).
  - right. exact (Hfin _ H).
  - right. exact (Hfin _ H).
  - destruct (wcombine (wd l) (wd r)); cbn [bind] in H; [right; exact (Hfin _ H)|].
    injection H as <-. left. reflexivity.
  - destruct (f_swb f).
    + destruct (wcombine (wd l) (wd r)); cbn [bind] in H; [right; exact (Hfin _ H)|].
      injection H as <-. left. reflexivity.
    + right. exact (Hfin _ H).
Qed.

Section EvalFaults.
  Variable f : features.
  Variable rho : string -> option wval.

  Definition vgood (root : sexpr) (es : list serr) : Prop := es <> [] /\ Forall (eval_fault root) es.

  Lemma vgood1 root d : eval_fault root d -> vgood root [d].
  Proof. intros H. split; [discriminate | constructor; [exact H | constructor]]. Qed.

  Lemma eval_faults_all :
    (forall e root, incl (enodes e) (enodes root) -> forall es, eval_sp f rho e = SErr es -> vgood root es) /\
    (forall a root, incl (anodes a) (enodes root) -> forall es, eval_arms_sp f rho a = SErr es -> vgood root es) /\
    (forall xs root, incl (xnodes xs) (enodes root) -> forall x es, eval_items_sp f rho x xs = SErr es -> vgood root es).
  Proof.
    apply sexpr_sarms_sexprs_ind.
    - intros sp v root Hi es H. discriminate H.
    - intros sp op l IHl r IHr root Hi es H.
      assert (Hil : incl (enodes l) (enodes root)).
      { intros x Hx. apply Hi. rewrite enodes_eq. right. apply in_or_app. left. exact Hx. }
      assert (Hir : incl (enodes r) (enodes root)).
      { intros x Hx. apply Hi. rewrite enodes_eq. right. apply in_or_app. right. exact Hx. }
      rewrite eval_sp_bin in H.
      apply sbind_err in H. destruct H as [H|(lv & _ & H)]; [exact (IHl root Hil es H)|].
      apply sbind_err in H. destruct H as [H|(rv & _ & H)]; [exact (IHr root Hir es H)|].
      destruct (apply f op lv rv) as [v|es'] eqn:Ea; [discriminate H|]. cbn [lift] in H. injection H as <-.
      destruct (apply_errs f op lv rv es' Ea) as [-> | ->]; cbn [map unlocated ek enames]; apply vgood1;
        apply VF_runtime; [left | right]; reflexivity.
    - intros sp op e IH root Hi es H.
      assert (Hie : incl (enodes e) (enodes root)).
      { intros x Hx. apply Hi. rewrite enodes_eq. right. exact Hx. }
      rewrite eval_sp_un in H.
      apply sbind_err in H. destruct H as [H|(v & _ & H)]; [exact (IH root Hie es H) | discriminate H].
    - intros sp a IH root Hi es H.
      assert (Hia : incl (anodes a) (enodes root)).
      { intros x Hx. apply Hi. rewrite enodes_eq. right. exact Hx. }
      rewrite eval_sp_mux in H.
      apply sbind_err in H. destruct H as [H|(v & _ & H)]; [exact (IH root Hia es H) | discriminate H].
    - intros sp n root Hi es H. cbn [eval_sp] in H. destruct (rho n); [discriminate H|].
      injection H as <-. apply vgood1. apply (VF_undeclared root sp n). apply Hi. apply enodes_self.
    - intros sp e IH lo hi root Hi es H.
      assert (Hie : incl (enodes e) (enodes root)).
      { intros x Hx. apply Hi. rewrite enodes_eq. right. exact Hx. }
      rewrite eval_sp_slice in H.
      apply sbind_err in H. destruct H as [H|(v & _ & H)]; [exact (IH root Hie es H) | discriminate H].
    - intros sp l IHl r IHr root Hi es H.
      assert (Hself : In (SECat sp l r) (enodes root)) by (apply Hi; apply enodes_self).
      assert (Hil : incl (enodes l) (enodes root)).
      { intros x Hx. apply Hi. rewrite enodes_eq. right. apply in_or_app. left. exact Hx. }
      assert (Hir : incl (enodes r) (enodes root)).
      { intros x Hx. apply Hi. rewrite enodes_eq. right. apply in_or_app. right. exact Hx. }
      rewrite eval_sp_cat in H.
      apply sbind_err in H. destruct H as [H|(lv & _ & H)]; [exact (IHl root Hil es H)|].
      apply sbind_err in H. destruct H as [H|(rv & _ & H)]; [exact (IHr root Hir es H)|].
      destruct (wd rv).
      + destruct (wd lv); [discriminate H|]. injection H as <-. apply vgood1.
        exact (VF_no_width root sp l r l Hself (or_introl eq_refl)).
      + injection H as <-. apply vgood1. exact (VF_no_width root sp l r r Hself (or_intror eq_refl)).
    - intros sp e IHe xs IHx root Hi es H.
      assert (Hie : incl (enodes e) (enodes root)).
      { intros x Hx. apply Hi. rewrite enodes_eq. right. apply in_or_app. left. exact Hx. }
      assert (Hix : incl (xnodes xs) (enodes root)).
      { intros x Hx. apply Hi. rewrite enodes_eq. right. apply in_or_app. right. exact Hx. }
      rewrite eval_sp_in in H.
      apply sbind_err in H. destruct H as [H|(v & _ & H)]; [exact (IHe root Hie es H) | exact (IHx root Hix _ es H)].
    - intros root Hi es H. discriminate H.
    - intros c IHc v IHv rest IHr root Hi es H.
      assert (Hic : incl (enodes c) (enodes root)).
      { intros x Hx. apply Hi. rewrite anodes_cons. apply in_or_app. left. exact Hx. }
      assert (Hiv : incl (enodes v) (enodes root)).
      { intros x Hx. apply Hi. rewrite anodes_cons. apply in_or_app. right. apply in_or_app. left. exact Hx. }
      assert (Hir : incl (anodes rest) (enodes root)).
      { intros x Hx. apply Hi. rewrite anodes_cons. apply in_or_app. right. apply in_or_app. right. exact Hx. }
      rewrite eval_arms_sp_cons in H.
      apply sbind_err in H. destruct H as [H|(cv & _ & H)]; [exact (IHc root Hic es H)|].
      destruct (is_true cv); [exact (IHv root Hiv es H) | exact (IHr root Hir es H)].
    - intros root Hi x es H. discriminate H.
    - intros e IHe rest IHr root Hi x es H.
      assert (Hie : incl (enodes e) (enodes root)).
      { intros y Hy. apply Hi. rewrite xnodes_cons. apply in_or_app. left. exact Hy. }
      assert (Hir : incl (xnodes rest) (enodes root)).
      { intros y Hy. apply Hi. rewrite xnodes_cons. apply in_or_app. right. exact Hy. }
      rewrite eval_items_sp_cons in H.
      apply sbind_err in H. destruct H as [H|(rv & _ & H)]; [exact (IHe root Hie es H)|].
      destruct (x =? bits rv); [discriminate H | exact (IHr root Hir x es H)].
  Qed.
End EvalFaults.

Theorem eval_sp_faults_holds : stmt_eval_sp_faults.
Proof.
  intros f rho e es H. exact (proj1 (eval_faults_all f rho) e e (incl_refl _) es H).
Qed.

(* ---- spans of faults are spans of nodes ---------------------------------------------------------- *)
Lemma expr_fault_spans f G C root d : expr_fault f G C root d ->
  forall sp, In sp (se_spans d) -> In sp (map espan (enodes root)).
Proof.
  intros H sp Hsp. destruct H; cbn [se_spans] in Hsp.
  - destruct Hsp as [<-|[<-|[]]]; apply in_map; apply (child_node root _ _ H); cbn [children]; [left|right; left]; reflexivity.
  - destruct Hsp as [<-|[<-|[]]]; apply in_map; apply (child_node root _ _ H); cbn [children];
      [left; reflexivity | right; exact H0].
  - destruct Hsp as [<-|[]]. apply in_map. apply (child_node root _ _ H). cbn [children].
    destruct H1 as [-> | ->]; [left | right; left]; reflexivity.
  - pose proof (arm_value_spans_nodes a sp Hsp) as Hn. apply in_map_iff in Hn. destruct Hn as (x & <- & Hx).
    apply in_map. apply (enodes_trans root _ x H). rewrite enodes_eq. right. exact Hx.
  - destruct Hsp as [<-|[]]. exact (in_map espan _ _ H).
  - destruct Hsp as [<-|[]]. exact (in_map espan _ _ H).
  - destruct Hsp as [<-|[]]. exact (in_map espan _ _ H).
  - destruct Hsp as [<-|[]]. exact (in_map espan _ _ H).
  - destruct Hsp as [<-|[]]. exact (in_map espan _ _ H).
  - destruct Hsp as [<-|[]]. exact (in_map espan _ _ H).
  - destruct Hsp as [<-|[]]. exact (in_map espan _ _ H).
  - destruct Hsp as [<-|[]]. apply in_map. apply (child_node root _ _ H). cbn [children].
    destruct H0 as [-> | ->]; [left | right; left]; reflexivity.
Qed.

Lemma eval_fault_spans root d : eval_fault root d ->
  forall sp, In sp (se_spans d) -> In sp (map espan (enodes root)).
Proof.
  intros H sp Hsp. destruct H; cbn [se_spans] in Hsp.
  - destruct Hsp as [<-|[]]. exact (in_map espan _ _ H).
  - destruct Hsp as [<-|[]]. apply in_map. apply (child_node root _ _ H). cbn [children].
    destruct H0 as [-> | ->]; [left | right; left]; reflexivity.
  - destruct Hsp.
Qed.

Theorem check_spans_are_node_spans_holds : stmt_check_spans_are_node_spans.
Proof.
  intros f G C e es H d sp Hd Hsp.
  destruct (check_sp_faults_holds f G C e es H) as [_ Hall].
  rewrite Forall_forall in Hall. exact (expr_fault_spans f G C e d (Hall d Hd) sp Hsp).
Qed.

Theorem eval_spans_are_node_spans_holds : stmt_eval_spans_are_node_spans.
Proof.
  intros f rho e es H d sp Hd Hsp.
  destruct (eval_sp_faults_holds f rho e es H) as [_ Hall].
  rewrite Forall_forall in Hall. exact (eval_fault_spans e d (Hall d Hd) sp Hsp).
Qed.

(* ---- kind by kind, at the level of the checker --------------------------------------------------- *)
Lemma fault_of f G C e es d : check_sp f G C e = SErr es -> In d es -> expr_fault f G C e d.
Proof.
  intros H Hd. destruct (check_sp_faults_holds f G C e es H) as [_ Hall].
  rewrite Forall_forall in Hall. exact (Hall d Hd).
Qed.

Theorem check_span_of_NonBooleanWidth_holds : stmt_check_span_of_NonBooleanWidth.
Proof.
  intros f G C e es d H Hd Hk. pose proof (fault_of f G C e es d H Hd) as Hf.
  destruct Hf; cbn [se_kind] in Hk; try discriminate Hk.
  exists sp, op, l, r, x, w. split; [assumption|]. split.
  { destruct op; cbn [kind] in *; try discriminate; [left | right]; reflexivity. }
  split; [assumption|]. split; [reflexivity|]. split; [assumption|].
  destruct w as [n|]; cbn [possibly_boolean] in *; [|discriminate].
  split; [|discriminate]. intros E. injection E as ->. discriminate.
Qed.

Theorem check_span_of_MismatchedExprWidths_holds : stmt_check_span_of_MismatchedExprWidths.
Proof.
  intros f G C e es d H Hd Hk. pose proof (fault_of f G C e es d H Hd) as Hf.
  destruct Hf; cbn [se_kind] in Hk; try discriminate Hk.
  - exists l, r, wl, wr. repeat (split; [first [reflexivity | assumption]|]). left. exists sp, op. assumption.
  - exists e1, it, wl, wi. repeat (split; [first [reflexivity | assumption]|]). right. exists sp, items. split; assumption.
Qed.

Theorem check_span_of_mux_kinds_holds : stmt_check_span_of_mux_kinds.
Proof.
  intros f G C e es d H Hd. pose proof (fault_of f G C e es d H Hd) as Hf. split.
  - intros Hk. destruct Hf; cbn [se_kind] in Hk; try (destruct Hk as [Hk|[Hk|Hk]]; discriminate Hk);
      exists sp, a; (split; [assumption | reflexivity]).
  - intros Hk. destruct Hf; cbn [se_kind] in Hk; try discriminate Hk. exists sp, a. split; [assumption | reflexivity].
Qed.

Theorem check_span_of_UndeclaredWireRead_holds : stmt_check_span_of_UndeclaredWireRead.
Proof.
  intros f G C e es d H Hd Hk. pose proof (fault_of f G C e es d H Hd) as Hf.
  destruct Hf; cbn [se_kind] in Hk; try discriminate Hk.
  exists sp, n. repeat (split; [first [reflexivity | assumption]|]). reflexivity.
Qed.

Theorem check_span_of_bit_index_kinds_holds : stmt_check_span_of_bit_index_kinds.
Proof.
  intros f G C e es d H Hd. pose proof (fault_of f G C e es d H Hd) as Hf. split.
  - intros Hk. destruct Hf; cbn [se_kind] in Hk; try discriminate Hk.
    exists sp, e1, lo, hi. repeat (split; [first [reflexivity | assumption]|]). reflexivity.
  - intros Hk. destruct Hf; cbn [se_kind] in Hk; try discriminate Hk.
    exists sp, e1, lo, hi, iw. repeat (split; [first [reflexivity | assumption]|]). reflexivity.
Qed.

Theorem check_span_of_concat_kinds_holds : stmt_check_span_of_concat_kinds.
Proof.
  intros f G C e es d H Hd. pose proof (fault_of f G C e es d H Hd) as Hf. split.
  - intros Hk. destruct Hf; cbn [se_kind] in Hk; try discriminate Hk.
    exists sp, l, r, lw, rw. repeat (split; [first [reflexivity | assumption]|]). reflexivity.
  - intros Hk. destruct Hf; cbn [se_kind] in Hk; try discriminate Hk.
    exists sp, l, r, x. repeat (split; [first [reflexivity | assumption]|]). reflexivity.
Qed.

(* ====================================================================================== *)
(* lists: the latest entry for a name                                                      *)
(* ====================================================================================== *)
Fixpoint last_of {A : Type} (l : list (string * A)) (n : string) : option A :=
  match l with
  | [] => None
  | (k, a) :: r =>
      match last_of r n with
      | Some x => Some x
      | None => if String.eqb n k then Some a else None
      end
  end.

Lemma last_of_app {A} (l1 l2 : list (string * A)) n :
  last_of (l1 ++ l2) n = match last_of l2 n with Some x => Some x | None => last_of l1 n end.
Proof.
  induction l1 as [|[k a] l1 IH]; cbn [app last_of].
  - destruct (last_of l2 n); reflexivity.
  - rewrite IH. destruct (last_of l2 n); reflexivity.
Qed.

Lemma last_of_snoc {A} (l : list (string * A)) k a n :
  last_of (l ++ [(k, a)]) n = if String.eqb n k then Some a else last_of l n.
Proof. rewrite last_of_app. cbn [last_of]. destruct (String.eqb n k); reflexivity. Qed.

Lemma last_of_none {A} (l : list (string * A)) n : last_of l n = None -> ~ In n (map fst l).
Proof.
  induction l as [|[k a] l IH]; cbn [last_of map fst]; intros H; [intros []|].
  destruct (last_of l n) eqn:E; [discriminate H|].
  destruct (String.eqb n k) eqn:E2; [discriminate H|].
  intros [Hk|Hin]; [subst k; rewrite String.eqb_refl in E2; discriminate E2 | exact (IH eq_refl Hin)].
Qed.

Lemma last_of_not_in {A} (l : list (string * A)) n : ~ In n (map fst l) -> last_of l n = None.
Proof.
  induction l as [|[k a] l IH]; cbn [last_of map fst]; intros H; [reflexivity|].
  rewrite IH by (intros Hin; apply H; right; exact Hin).
  destruct (String.eqb n k) eqn:E; [|reflexivity].
  apply String.eqb_eq in E. exfalso. apply H. left. symmetry. exact E.
Qed.

Lemma last_of_some {A} (l : list (string * A)) n a : last_of l n = Some a -> latest l n a.
Proof.
  induction l as [|[k b] l IH]; cbn [last_of]; intros H; [discriminate H|].
  destruct (last_of l n) as [x|] eqn:E.
  - injection H as ->. destruct (IH eq_refl) as (l1 & l2 & -> & Hn).
    exists ((k, b) :: l1), l2. split; [reflexivity | exact Hn].
  - destruct (String.eqb n k) eqn:E2; [|discriminate H]. injection H as ->.
    apply String.eqb_eq in E2. subst k. exists [], l. split; [reflexivity | exact (last_of_none l n E)].
Qed.

Lemma latest_last_of {A} (l : list (string * A)) n a : latest l n a -> last_of l n = Some a.
Proof.
  intros (l1 & l2 & -> & Hn). rewrite last_of_app. cbn [last_of].
  rewrite (last_of_not_in l2 n Hn), String.eqb_refl. reflexivity.
Qed.

Lemma latest_in {A} (l : list (string * A)) n a : latest l n a -> In (n, a) l.
Proof. intros (l1 & l2 & -> & _). apply in_or_app. right. left. reflexivity. Qed.

Lemma nodup_latest {A} (l : list (string * A)) n a : NoDup (map fst l) -> In (n, a) l -> latest l n a.
Proof.
  intros Hnd Hin. apply in_split in Hin. destruct Hin as (l1 & l2 & ->).
  exists l1, l2. split; [reflexivity|].
  rewrite map_app in Hnd. cbn [map fst] in Hnd. apply NoDup_remove_2 in Hnd.
  intros H. apply Hnd. apply in_or_app. right. exact H.
Qed.

Lemma consecutive_in {A} (l : list (string * A)) n a b : consecutive l n a b -> In (n, a) l /\ In (n, b) l.
Proof.
  intros (l1 & l2 & l3 & -> & _). split.
  - apply in_or_app. right. left. reflexivity.
  - apply in_or_app. right. right. apply in_or_app. right. left. reflexivity.
Qed.

Lemma mem_str_in k l : mem_str k l = true -> In k l.
Proof.
  induction l as [|x l IH]; cbn [mem_str]; [discriminate|].
  intros H. apply orb_true_iff in H. destruct H as [H|H]; [left; symmetry; apply String.eqb_eq; exact H | right; exact (IH H)].
Qed.

Lemma mem_str_not_in k l : mem_str k l = false -> ~ In k l.
Proof.
  induction l as [|x l IH]; cbn [mem_str]; [intros _ []|].
  intros H. apply orb_false_iff in H. destruct H as [H1 H2]. intros [E|Hin]; [|exact (IH H2 Hin)].
  subst x. rewrite String.eqb_refl in H1. discriminate H1.
Qed.

Lemma in_mem_str k l : In k l -> mem_str k l = true.
Proof.
  intros H. destruct (mem_str k l) eqn:E; [reflexivity|]. exfalso. exact (mem_str_not_in k l E H).
Qed.

Lemma nodup_snoc {A} (l : list A) x : NoDup l -> ~ In x l -> NoDup (l ++ [x]).
Proof.
  induction l as [|y l IH]; intros Hnd Hx; cbn [app]; [constructor; [intros []|constructor]|].
  inversion Hnd as [|? ? Hy Hl]; subst. constructor.
  - intros Hin. apply in_app_or in Hin. destruct Hin as [Hin|[E|[]]]; [exact (Hy Hin)|].
    apply Hx. left. symmetry. exact E.
  - apply IH; [exact Hl|]. intros Hin. apply Hx. right. exact Hin.
Qed.

Lemma nodup_add_set k l : NoDup l -> NoDup (add_set k l).
Proof.
  intros H. unfold add_set. destruct (mem_str k l) eqn:E; [exact H|].
  apply nodup_snoc; [exact H | exact (mem_str_not_in k l E)].
Qed.

Lemma nodup_upd {V} (m : list (string * V)) k v : NoDup (map fst m) -> NoDup (map fst (upd m k v)).
Proof. intros H. rewrite map_fst_upd. apply nodup_add_set. exact H. Qed.

Lemma nodup_lookup {V} (m : list (string * V)) n v : NoDup (map fst m) -> In (n, v) m -> lookup m n = Some v.
Proof.
  induction m as [|[k x] m IH]; intros Hnd Hin; [destruct Hin|].
  cbn [map fst] in Hnd. inversion Hnd as [|? ? Hk Hm]; subst. cbn [lookup].
  destruct Hin as [E|Hin].
  - injection E as -> ->. rewrite String.eqb_refl. reflexivity.
  - destruct (String.eqb n k) eqn:E; [|exact (IH Hm Hin)].
    apply String.eqb_eq in E. subst k. exfalso. apply Hk. exact (in_map fst _ _ Hin).
Qed.

Lemma in_add_set x k l : In x (add_set k l) -> x = k \/ In x l.
Proof.
  unfold add_set. destruct (mem_str k l); intros H; [right; exact H|].
  apply in_app_or in H. destruct H as [H|[E|[]]]; [right; exact H | left; symmetry; exact E].
Qed.

Lemma in_fold_add_set xs : forall l x, In x (fold_left (fun l x => add_set x l) xs l) -> In x xs \/ In x l.
Proof.
  induction xs as [|y xs IH]; intros l x H; cbn [fold_left] in H; [right; exact H|].
  destruct (IH _ _ H) as [H1|H1]; [left; right; exact H1|].
  destruct (in_add_set _ _ _ H1) as [->|H2]; [left; left; reflexivity | right; exact H2].
Qed.

(* ====================================================================================== *)
(* where the constructs of the statements are recorded                                     *)
(* ====================================================================================== *)
Lemma decl_list_app a b : decl_list (a ++ b) = decl_list a ++ decl_list b.
Proof. apply flat_map_app. Qed.
Lemma const_list_app a b : const_list (a ++ b) = const_list a ++ const_list b.
Proof. apply flat_map_app. Qed.
Lemma target_list_app a b : target_list (a ++ b) = target_list a ++ target_list b.
Proof. apply flat_map_app. Qed.
Lemma bank_list_app a b : bank_list (a ++ b) = bank_list a ++ bank_list b.
Proof. apply flat_map_app. Qed.
Lemma wire_list_app a b : wire_list (a ++ b) = wire_list a ++ wire_list b.
Proof. apply flat_map_app. Qed.
Lemma all_spans_app a b : all_spans (a ++ b) = all_spans a ++ all_spans b.
Proof. apply flat_map_app. Qed.
Lemma all_exprs_app a b : all_exprs (a ++ b) = all_exprs a ++ all_exprs b.
Proof. apply flat_map_app. Qed.

Lemma own_span_in stmts s sp : In s stmts -> In sp (stmt_own_spans s) -> In sp (all_spans stmts).
Proof.
  intros Hs Hsp. apply in_flat_map. exists s. split; [exact Hs|]. apply in_or_app. left. exact Hsp.
Qed.

Lemma decl_in_spans stmts n sp : In (n, sp) (decl_list stmts) -> In sp (all_spans stmts).
Proof.
  intros H. apply in_flat_map in H. destruct H as (s & Hs & H). apply (own_span_in stmts s sp Hs).
  destruct s as [d|d|a|b nsp regs bsp]; cbn [decls_of_stmt stmt_own_spans] in *; try destruct H.
  - apply in_map_iff in H. destruct H as (x & E & Hx). injection E as _ <-. apply in_map_iff. exists x. split; [reflexivity|exact Hx].
  - apply in_map_iff in H. destruct H as (x & E & Hx). injection E as _ <-. apply in_map_iff. exists x. split; [reflexivity|exact Hx].
Qed.

Lemma wire_in_decls stmts n sp : In (n, sp) (wire_list stmts) -> In (n, sp) (decl_list stmts).
Proof.
  intros H. apply in_flat_map in H. destruct H as (s & Hs & H). apply in_flat_map. exists s. split; [exact Hs|].
  destruct s; cbn [wire_decls_of_stmt decls_of_stmt] in *; try destruct H. exact H.
Qed.

Lemma decl_cases stmts n sp : In (n, sp) (decl_list stmts) ->
  In (n, sp) (wire_list stmts) \/ In n (map fst (const_list stmts)).
Proof.
  intros H. apply in_flat_map in H. destruct H as (s & Hs & H).
  destruct s as [d|d|a|b nsp regs bsp]; cbn [decls_of_stmt] in H; try destruct H.
  - right. apply in_map_iff in H. destruct H as (x & E & Hx). injection E as <- _.
    apply in_map_iff. exists (fst (fst x), snd x). split; [reflexivity|].
    apply in_flat_map. exists (SSConst d). split; [exact Hs|]. cbn [consts_of_stmt]. apply in_map_iff. exists x. split; [reflexivity | exact Hx].
  - left. apply in_flat_map. exists (SSWire d). split; [exact Hs | exact H].
Qed.

Lemma const_name_in_decls stmts n : In n (map fst (const_list stmts)) -> In n (map fst (decl_list stmts)).
Proof.
  intros H. apply in_map_iff in H. destruct H as ([n' e] & E & H). cbn [fst] in E. subst n'.
  apply in_flat_map in H. destruct H as (s & Hs & H).
  destruct s as [d|d|a|b nsp regs bsp]; cbn [consts_of_stmt] in H; try destruct H.
  apply in_map_iff in H. destruct H as (x & E & Hx). injection E as <- _.
  apply in_map_iff. exists (fst (fst x), snd (fst x)). split; [reflexivity|].
  apply in_flat_map. exists (SSConst d). split; [exact Hs|]. cbn [decls_of_stmt].
  apply in_map_iff. exists x. split; [reflexivity | exact Hx].
Qed.

Lemma const_in_exprs stmts n e : In (n, e) (const_list stmts) -> In e (all_exprs stmts).
Proof.
  intros H. apply in_flat_map in H. destruct H as (s & Hs & H). apply in_flat_map. exists s. split; [exact Hs|].
  destruct s as [d|d|a|b nsp regs bsp]; cbn [consts_of_stmt stmt_exprs] in *; try destruct H.
  apply in_map_iff in H. destruct H as (x & E & Hx). injection E as _ <-. apply in_map_iff. exists x. split; [reflexivity|exact Hx].
Qed.

Lemma target_in stmts n sp e : In (n, (sp, e)) (target_list stmts) -> In sp (all_spans stmts) /\ In e (all_exprs stmts).
Proof.
  intros H. apply in_flat_map in H. destruct H as (s & Hs & H).
  destruct s as [d|d|a|b nsp regs bsp]; cbn [targets_of_stmt] in H; try destruct H.
  apply in_flat_map in H. destruct H as (x & Hx & H). apply in_map_iff in H. destruct H as (nm & E & Hnm).
  injection E as _ <- <-. split.
  - apply (own_span_in stmts (SSAssign a) _ Hs). cbn [stmt_own_spans]. apply in_flat_map. exists x. split; [exact Hx|].
    right. apply in_map. exact Hnm.
  - apply in_flat_map. exists (SSAssign a). split; [exact Hs|]. cbn [stmt_exprs]. apply in_map_iff. exists x. split; [reflexivity|exact Hx].
Qed.

Lemma bank_in stmts b nsp regs : In (b, nsp, regs) (bank_list stmts) ->
  In nsp (all_spans stmts) /\
  forall r w d rsp, In (r, w, d, rsp) regs -> In rsp (all_spans stmts) /\ In d (all_exprs stmts).
Proof.
  intros H. apply in_flat_map in H. destruct H as (s & Hs & H).
  destruct s as [d|d|a|b' nsp' regs' bsp]; cbn [banks_of_stmt] in H; [destruct H | destruct H | destruct H |].
  destruct H as [E|[]]. injection E as -> -> ->. split.
  - apply (own_span_in stmts _ _ Hs). cbn [stmt_own_spans]. right. left. reflexivity.
  - intros r w d rsp Hr. split.
    + apply (own_span_in stmts _ _ Hs). cbn [stmt_own_spans]. right. right.
      apply in_map_iff. exists (r, w, d, rsp). split; [reflexivity | exact Hr].
    + apply in_flat_map. exists (SSBank b nsp regs bsp). split; [exact Hs|]. cbn [stmt_exprs].
      apply in_map_iff. exists (r, w, d, rsp). split; [reflexivity | exact Hr].
Qed.

Lemma register_in stmts bank inp outp r w d rsp : register_of stmts bank inp outp r w d rsp ->
  In rsp (all_spans stmts) /\ In d (all_exprs stmts).
Proof. intros (nsp & regs & Hb & _ & Hr). exact (proj2 (bank_in stmts bank nsp regs Hb) r w d rsp Hr). Qed.

Lemma node_span_in stmts root x : In root (all_exprs stmts) -> In x (enodes root) -> In (espan x) (all_spans stmts).
Proof.
  intros Hr Hx. apply in_flat_map in Hr. destruct Hr as (s & Hs & Hr). apply in_flat_map. exists s. split; [exact Hs|].
  apply in_or_app. right. apply in_map. unfold stmt_nodes. apply in_flat_map. exists root. split; assumption.
Qed.

Lemma node_spans_in stmts root sp : In root (all_exprs stmts) -> In sp (map espan (enodes root)) -> In sp (all_spans stmts).
Proof. intros Hr H. apply in_map_iff in H. destruct H as (x & <- & Hx). exact (node_span_in stmts root x Hr Hx). Qed.

(* the NamedWire nodes listed by wire_nodes are nodes *)
Lemma wire_nodes_in_all :
  (forall e n sp, In (n, sp) (wire_nodes e) -> In (SEWire sp n) (enodes e)) /\
  (forall a n sp, In (n, sp) (wire_nodes_arms a) -> In (SEWire sp n) (anodes a)) /\
  (forall xs n sp, In (n, sp) (wire_nodes_items xs) -> In (SEWire sp n) (xnodes xs)).
Proof.
  apply sexpr_sarms_sexprs_ind.
  - intros sp v n s [].
  - intros sp op l IHl r IHr n s H. change (In (n, s) (wire_nodes l ++ wire_nodes r)) in H.
    rewrite enodes_eq. right. apply in_app_or in H. apply in_or_app. destruct H as [H|H]; [left; exact (IHl _ _ H) | right; exact (IHr _ _ H)].
  - intros sp op e IH n s H. change (In (n, s) (wire_nodes e)) in H. rewrite enodes_eq. right. exact (IH _ _ H).
  - intros sp a IH n s H. change (In (n, s) (wire_nodes_arms a)) in H. rewrite enodes_eq. right. exact (IH _ _ H).
  - intros sp nm n s H. destruct H as [E|[]]. injection E as -> ->. apply enodes_self.
  - intros sp e IH lo hi n s H. change (In (n, s) (wire_nodes e)) in H. rewrite enodes_eq. right. exact (IH _ _ H).
  - intros sp l IHl r IHr n s H. change (In (n, s) (wire_nodes l ++ wire_nodes r)) in H.
    rewrite enodes_eq. right. apply in_app_or in H. apply in_or_app. destruct H as [H|H]; [left; exact (IHl _ _ H) | right; exact (IHr _ _ H)].
  - intros sp e IHe xs IHx n s H. change (In (n, s) (wire_nodes e ++ wire_nodes_items xs)) in H.
    rewrite enodes_eq. right. apply in_app_or in H. apply in_or_app. destruct H as [H|H]; [left; exact (IHe _ _ H) | right; exact (IHx _ _ H)].
  - intros n s [].
  - intros c IHc v IHv rest IHr n s H. change (In (n, s) (wire_nodes c ++ wire_nodes v ++ wire_nodes_arms rest)) in H.
    rewrite anodes_cons. apply in_app_or in H. apply in_or_app. destruct H as [H|H]; [left; exact (IHc _ _ H)|right].
    apply in_app_or in H. apply in_or_app. destruct H as [H|H]; [left; exact (IHv _ _ H) | right; exact (IHr _ _ H)].
  - intros n s [].
  - intros e IHe rest IHr n s H. change (In (n, s) (wire_nodes e ++ wire_nodes_items rest)) in H.
    rewrite xnodes_cons. apply in_app_or in H. apply in_or_app. destruct H as [H|H]; [left; exact (IHe _ _ H) | right; exact (IHr _ _ H)].
Qed.

Lemma ref_spans_nodes r e sp : In sp (ref_spans r e) -> In (SEWire sp r) (enodes e).
Proof.
  unfold ref_spans. intros H. apply in_map_iff in H. destruct H as ([n s] & E & H). cbn [snd] in E. subst s.
  apply filter_In in H. destruct H as [H E]. cbn [fst] in E. apply String.eqb_eq in E. subst n.
  exact (proj1 wire_nodes_in_all e r sp H).
Qed.

(* ====================================================================================== *)
(* the builder: every diagnostic is located at the construct it is about                   *)
(* ====================================================================================== *)
(* "const n = c" where c is the name of a constant whose (only) definition is a literal *)
Definition ref_to_literal (stmts : list sstmt) (root : sexpr) : Prop :=
  exists sp c lit, root = SEWire sp c /\ latest (const_list stmts) c lit /\ is_literal lit.

Section Located.
  Variable f : features.
  Variable fixed : list fixed_fn.
  Variable is_lower : string -> bool.
  Variable is_upper : string -> bool.

  Definition signal_of (stmts : list sstmt) (n : string) (rsp : srcspan) : Prop :=
    exists bank inp outp r w dd, register_of stmts bank inp outp r w dd rsp /\
                                 (n = in_signal inp r \/ n = out_signal outp r).

  Inductive located (stmts : list sstmt) : serr -> Prop :=
  | L_redecl n old new :
      consecutive (decl_list stmts) n old new -> located stmts (mkSErr RedeclaredWire [n] [new; old])
  | L_redecl_bank n old bank new regs inp outp :
      latest (decl_list stmts) n old -> In (bank, new, regs) (bank_list stmts) ->
      utf8_chars bank "" = [inp; outp] -> (n = ("stall_" ++ outp)%string \/ n = ("bubble_" ++ outp)%string) ->
      located stmts (mkSErr RedeclaredWire [n] [new; old])
  | L_redecl_reg n old new :
      latest (decl_list stmts) n old -> signal_of stmts n new ->
      located stmts (mkSErr RedeclaredWire [n] [new; old])
  | L_builtin n sp :
      In (n, sp) (decl_list stmts) -> In n (fixed_names fixed) ->
      located stmts (mkSErr RedeclaredBuiltinWire [n] [sp])
  | L_dassign n old new eold enew :
      consecutive (target_list stmts) n (old, eold) (new, enew) ->
      located stmts (mkSErr DoubleAssignedWire [n] [new; old])
  | L_dfixed n sp e :
      In (n, (sp, e)) (target_list stmts) -> In n (fixed_out_names fixed) ->
      located stmts (mkSErr DoubleAssignedFixedOutWire [n] [sp])
  | L_cassigned n asp csp e :
      latest (target_list stmts) n (asp, e) -> latest (decl_list stmts) n csp ->
      In n (map fst (const_list stmts)) ->
      located stmts (mkSErr ConstantAssigned [n] [asp; csp])
  | L_const_ref k r sp n root :
      k = NonConstantWireRead \/ k = UndeclaredWireRead ->
      In (n, root) (const_list stmts) -> In (SEWire sp r) (enodes root) ->
      ~ In r (map fst (const_list stmts)) ->
      located stmts (mkSErr k [r] [sp])
  | L_default_ref r sp bank inp outp rn w root rsp :
      register_of stmts bank inp outp rn w root rsp -> In (SEWire sp r) (enodes root) ->
      located stmts (mkSErr NonConstantWireRead [r] [sp])
  | L_const_check G C n root d :
      latest (const_list stmts) n root -> NoDup (map fst (const_list stmts)) ->
      expr_fault f G C root d -> ~ ref_to_literal stmts root -> located stmts d
  | L_const_eval n root d :
      latest (const_list stmts) n root -> NoDup (map fst (const_list stmts)) ->
      eval_fault root d -> ~ ref_to_literal stmts root -> located stmts d
  | L_default_check G C bank inp outp rn w root rsp d :
      register_of stmts bank inp outp rn w root rsp -> expr_fault f G C root d -> located stmts d
  | L_default_eval bank inp outp rn w root rsp d :
      register_of stmts bank inp outp rn w root rsp -> eval_fault root d -> located stmts d
  | L_assign_check G C n nsp root d :
      latest (target_list stmts) n (nsp, root) -> expr_fault f G C root d -> located stmts d
  | L_nospan k names : unlocated_kind k = true -> located stmts (mkSErr k names [])
  | L_bankname b sp regs :
      In (b, sp, regs) (bank_list stmts) -> located stmts (mkSErr InvalidRegisterBankName [b] [sp])
  | L_regassigned o rsp asp bank inp outp r w dd e :
      register_of stmts bank inp outp r w dd rsp -> o = out_signal outp r ->
      latest (target_list stmts) o (asp, e) ->
      located stmts (mkSErr DoubleAssignedRegisterWire [o] [rsp; asp])
  | L_regdouble n old new :
      signal_of stmts n old -> signal_of stmts n new ->
      located stmts (mkSErr DoubleDeclaredRegisterOutWire [n] [old; new])
  | L_regwidth bank r inp outp w dd rsp :
      register_of stmts bank inp outp r w dd rsp ->
      located stmts (mkSErr MismatchedRegisterDefaultWidths [bank; r] [espan dd])
  | L_unset n sp :
      latest (decl_list stmts) n sp -> ~ In n (map fst (target_list stmts)) ->
      In (n, sp) (wire_list stmts) ->
      located stmts (mkSErr UnsetWire [n] [sp])
  | L_unsetreg n sp bank inp outp r w dd :
      register_of stmts bank inp outp r w dd sp -> n = in_signal inp r ->
      ~ In n (map fst (target_list stmts)) ->
      located stmts (mkSErr UnsetRegisterInputWire [n] [sp])
  | L_undeclared_assigned n sp e :
      latest (target_list stmts) n (sp, e) -> located stmts (mkSErr UndeclaredWireAssigned [n] [sp])
  | L_wirewidth n nsp e :
      latest (target_list stmts) n (nsp, e) -> located stmts (mkSErr MismatchedWireWidths [n] [espan e]).

  (* ---- pass 1 -------------------------------------------------------------------------------- *)
  Section Pass1.
    Variable DA : list (string * srcspan).
    Variable TA : list (string * (srcspan * sexpr)).
    Variable P : serr -> Prop.
    Hypothesis P_redecl : forall n old new, consecutive DA n old new -> P (mkSErr RedeclaredWire [n] [new; old]).
    Hypothesis P_builtin : forall n sp, In (n, sp) DA -> In n (fixed_names fixed) ->
                                        P (mkSErr RedeclaredBuiltinWire [n] [sp]).
    Hypothesis P_dassign : forall n old new eo en, consecutive TA n (old, eo) (new, en) ->
                                                   P (mkSErr DoubleAssignedWire [n] [new; old]).
    Hypothesis P_dfixed : forall n sp e, In (n, (sp, e)) TA -> In n (fixed_out_names fixed) ->
                                         P (mkSErr DoubleAssignedFixedOutWire [n] [sp]).

    Record inv1 (D : list (string * srcspan)) (T : list (string * (srcspan * sexpr)))
           (K : list (string * sexpr)) (W : list (string * srcspan)) (B : list sbank_decl) (s : sst1) : Prop := {
      i_decl : forall n, lookup (ss_decl_spans s) n = last_of D n;
      i_aspan : forall n, lookup (ss_assign_spans s) n = option_map fst (last_of T n);
      i_assign : forall n, lookup (ss_assigns s) n = option_map snd (last_of T n);
      i_const : forall n, lookup (ss_consts s) n = last_of K n;
      i_banks : ss_banks s = B;
      i_errs : Forall P (ss_errs s);
      i_nd_aspan : NoDup (map fst (ss_assign_spans s));
      i_nd_const : NoDup (map fst (ss_consts s));
      i_needed : forall n, In n (ss_needed s) -> In n (map fst W);
      i_clean : ss_errs s = [] ->
                NoDup (map fst D) /\ NoDup (map fst K) /\ (forall n, In n (map fst K) -> In n (map fst D)) /\
                (forall n, In n (map fst D) -> ~ In n (fixed_names fixed))
    }.

    Lemma cdd_located D T K W B s name sp Drest :
      inv1 D T K W B s -> DA = D ++ (name, sp) :: Drest ->
      Forall P (check_double_declare_sp fixed s name sp) /\
      (check_double_declare_sp fixed s name sp = [] -> ~ In name (map fst D) /\ ~ In name (fixed_names fixed)).
    Proof.
      intros I HDA. unfold check_double_declare_sp. rewrite (i_decl _ _ _ _ _ _ I).
      destruct (last_of D name) as [old|] eqn:E.
      - split; [|discriminate]. constructor; [|constructor].
        apply P_redecl. destruct (last_of_some D name old E) as (l1 & l2 & -> & Hn).
        exists l1, l2, Drest. split; [|exact Hn]. rewrite HDA, <- app_assoc. reflexivity.
      - destruct (mem_str name (fixed_names fixed)) eqn:Em.
        + split; [|discriminate]. constructor; [|constructor]. apply P_builtin; [|exact (mem_str_in _ _ Em)].
          rewrite HDA. apply in_or_app. right. left. reflexivity.
        + split; [constructor|]. intros _. split; [exact (last_of_none D name E) | exact (mem_str_not_in _ _ Em)].
    Qed.

    Lemma app_nil_both {A} (a b : list A) : a ++ b = [] -> a = [] /\ b = [].
    Proof. destruct a; [intros H; split; [reflexivity | exact H] | discriminate]. Qed.

    Lemma step_const D T K W B s name nsp e Drest :
      inv1 D T K W B s -> DA = D ++ (name, nsp) :: Drest ->
      inv1 (D ++ [(name, nsp)]) T (K ++ [(name, e)]) W B (step1_const_sp fixed s (name, nsp, e)).
    Proof.
      intros I HDA. destruct (cdd_located D T K W B s name nsp Drest I HDA) as [Hc1 Hc2].
      unfold step1_const_sp. constructor;
        cbn [ss_wires ss_decl_spans ss_assigns ss_assign_spans ss_needed ss_consts ss_banks ss_types ss_errs].
      - intros n. rewrite lookup_upd, last_of_snoc, (i_decl _ _ _ _ _ _ I). reflexivity.
      - exact (i_aspan _ _ _ _ _ _ I).
      - exact (i_assign _ _ _ _ _ _ I).
      - intros n. rewrite lookup_upd, last_of_snoc, (i_const _ _ _ _ _ _ I). reflexivity.
      - exact (i_banks _ _ _ _ _ _ I).
      - apply Forall_app. split; [exact (i_errs _ _ _ _ _ _ I) | exact Hc1].
      - exact (i_nd_aspan _ _ _ _ _ _ I).
      - apply nodup_upd. exact (i_nd_const _ _ _ _ _ _ I).
      - exact (i_needed _ _ _ _ _ _ I).
      - intros Hnil. apply app_nil_both in Hnil. destruct Hnil as [H1 H2].
        destruct (i_clean _ _ _ _ _ _ I H1) as (N1 & N2 & N3 & N4). destruct (Hc2 H2) as [Hfresh Hnf].
        rewrite !map_app. cbn [map fst]. split; [apply nodup_snoc; assumption|]. split; [|split].
        + apply nodup_snoc; [exact N2|]. intros Hin. exact (Hfresh (N3 name Hin)).
        + intros n Hin. apply in_app_or in Hin. apply in_or_app. destruct Hin as [Hin|Hin]; [left; exact (N3 n Hin) | right; exact Hin].
        + intros n Hin. apply in_app_or in Hin. destruct Hin as [Hin|[<-|[]]]; [exact (N4 n Hin) | exact Hnf].
    Qed.

    Lemma step_wire D T K W B s name w sp Drest :
      inv1 D T K W B s -> DA = D ++ (name, sp) :: Drest ->
      inv1 (D ++ [(name, sp)]) T K (W ++ [(name, sp)]) B (step1_wire_sp fixed s (name, w, sp)).
    Proof.
      intros I HDA. destruct (cdd_located D T K W B s name sp Drest I HDA) as [Hc1 Hc2].
      unfold step1_wire_sp. constructor;
        cbn [ss_wires ss_decl_spans ss_assigns ss_assign_spans ss_needed ss_consts ss_banks ss_types ss_errs].
      - intros n. rewrite lookup_upd, last_of_snoc, (i_decl _ _ _ _ _ _ I). reflexivity.
      - exact (i_aspan _ _ _ _ _ _ I).
      - exact (i_assign _ _ _ _ _ _ I).
      - exact (i_const _ _ _ _ _ _ I).
      - exact (i_banks _ _ _ _ _ _ I).
      - apply Forall_app. split; [exact (i_errs _ _ _ _ _ _ I) | exact Hc1].
      - exact (i_nd_aspan _ _ _ _ _ _ I).
      - exact (i_nd_const _ _ _ _ _ _ I).
      - intros n Hin. rewrite map_app. apply in_or_app. destruct (in_add_set _ _ _ Hin) as [->|H].
        + right. left. reflexivity.
        + left. exact (i_needed _ _ _ _ _ _ I n H).
      - intros Hnil. apply app_nil_both in Hnil. destruct Hnil as [H1 H2].
        destruct (i_clean _ _ _ _ _ _ I H1) as (N1 & N2 & N3 & N4). destruct (Hc2 H2) as [Hfresh Hnf].
        rewrite !map_app. cbn [map fst]. split; [apply nodup_snoc; assumption|]. split; [exact N2|]. split.
        + intros n Hin. apply in_or_app. left. exact (N3 n Hin).
        + intros n Hin. apply in_app_or in Hin. destruct Hin as [Hin|[<-|[]]]; [exact (N4 n Hin) | exact Hnf].
    Qed.

    Lemma step_assign_name D T K W B s e name sp Trest :
      inv1 D T K W B s -> TA = T ++ (name, (sp, e)) :: Trest ->
      inv1 D (T ++ [(name, (sp, e))]) K W B (step1_assign_name_sp fixed e s (name, sp)).
    Proof.
      intros I HTA. unfold step1_assign_name_sp. constructor;
        cbn [ss_wires ss_decl_spans ss_assigns ss_assign_spans ss_needed ss_consts ss_banks ss_types ss_errs].
      - exact (i_decl _ _ _ _ _ _ I).
      - intros n. rewrite lookup_upd, last_of_snoc, (i_aspan _ _ _ _ _ _ I). destruct (String.eqb n name); reflexivity.
      - intros n. rewrite lookup_upd, last_of_snoc, (i_assign _ _ _ _ _ _ I). destruct (String.eqb n name); reflexivity.
      - exact (i_const _ _ _ _ _ _ I).
      - exact (i_banks _ _ _ _ _ _ I).
      - apply Forall_app. split; [exact (i_errs _ _ _ _ _ _ I)|].
        rewrite (i_aspan _ _ _ _ _ _ I). destruct (last_of T name) as [[old eo]|] eqn:E; cbn [option_map fst].
        + constructor; [|constructor]. apply (P_dassign name old sp eo e).
          destruct (last_of_some T name _ E) as (l1 & l2 & -> & Hn).
          exists l1, l2, Trest. split; [|exact Hn]. rewrite HTA, <- app_assoc. reflexivity.
        + destruct (mem_str name (fixed_out_names fixed)) eqn:Em; [|constructor].
          constructor; [|constructor]. apply (P_dfixed name sp e); [|exact (mem_str_in _ _ Em)].
          rewrite HTA. apply in_or_app. right. left. reflexivity.
      - apply nodup_upd. exact (i_nd_aspan _ _ _ _ _ _ I).
      - exact (i_nd_const _ _ _ _ _ _ I).
      - exact (i_needed _ _ _ _ _ _ I).
      - intros Hnil. apply app_nil_both in Hnil. destruct Hnil as [H1 _]. exact (i_clean _ _ _ _ _ _ I H1).
    Qed.

    Lemma fold_consts T W B : forall decls D K s Drest,
      inv1 D T K W B s ->
      DA = D ++ map (fun x : sconst_decl => (fst (fst x), snd (fst x))) decls ++ Drest ->
      inv1 (D ++ map (fun x : sconst_decl => (fst (fst x), snd (fst x))) decls) T
           (K ++ map (fun x : sconst_decl => (fst (fst x), snd x)) decls) W B
           (fold_left (step1_const_sp fixed) decls s).
    Proof.
      induction decls as [|[[name nsp] e] decls IH]; intros D K s Drest I HDA; cbn [map fold_left fst snd].
      - rewrite !app_nil_r. exact I.
      - cbn [map fst snd app] in HDA.
        pose proof (step_const D T K W B s name nsp e _ I HDA) as I'.
        specialize (IH (D ++ [(name, nsp)]) (K ++ [(name, e)]) _ Drest I').
        rewrite <- !app_assoc in IH. cbn [app] in IH. apply IH. exact HDA.
    Qed.

    Lemma fold_wires T K B : forall decls D W s Drest,
      inv1 D T K W B s ->
      DA = D ++ map (fun x : swire_decl => (fst (fst x), snd x)) decls ++ Drest ->
      inv1 (D ++ map (fun x : swire_decl => (fst (fst x), snd x)) decls) T K
           (W ++ map (fun x : swire_decl => (fst (fst x), snd x)) decls) B
           (fold_left (step1_wire_sp fixed) decls s).
    Proof.
      induction decls as [|[[name w] sp] decls IH]; intros D W s Drest I HDA; cbn [map fold_left fst snd].
      - rewrite !app_nil_r. exact I.
      - cbn [map fst snd app] in HDA.
        pose proof (step_wire D T K W B s name w sp _ I HDA) as I'.
        specialize (IH (D ++ [(name, sp)]) (W ++ [(name, sp)]) _ Drest I').
        rewrite <- !app_assoc in IH. cbn [app] in IH. apply IH. exact HDA.
    Qed.

    Lemma fold_names D K W B e : forall names T s Trest,
      inv1 D T K W B s ->
      TA = T ++ map (fun nm : string * srcspan => (fst nm, (snd nm, e))) names ++ Trest ->
      inv1 D (T ++ map (fun nm : string * srcspan => (fst nm, (snd nm, e))) names) K W B
           (fold_left (step1_assign_name_sp fixed e) names s).
    Proof.
      induction names as [|[name sp] names IH]; intros T s Trest I HTA; cbn [map fold_left fst snd].
      - rewrite app_nil_r. exact I.
      - cbn [map fst snd app] in HTA.
        pose proof (step_assign_name D T K W B s e name sp _ I HTA) as I'.
        specialize (IH (T ++ [(name, (sp, e))]) _ Trest I').
        rewrite <- !app_assoc in IH. cbn [app] in IH. apply IH. exact HTA.
    Qed.

    Definition assign_targets (x : sassign) : list (string * (srcspan * sexpr)) :=
      map (fun nm : string * srcspan => (fst nm, (snd nm, snd (fst x)))) (fst (fst x)).

    Lemma fold_assigns D K W B : forall assigns T s Trest,
      inv1 D T K W B s ->
      TA = T ++ flat_map assign_targets assigns ++ Trest ->
      inv1 D (T ++ flat_map assign_targets assigns) K W B
           (fold_left (fun s1 (a : sassign) => fold_left (step1_assign_name_sp fixed (snd (fst a))) (fst (fst a)) s1)
                      assigns s).
    Proof.
      induction assigns as [|a assigns IH]; intros T s Trest I HTA; cbn [flat_map fold_left].
      - rewrite app_nil_r. exact I.
      - cbn [flat_map] in HTA. rewrite <- app_assoc in HTA.
        pose proof (fold_names D K W B (snd (fst a)) (fst (fst a)) T s _ I HTA) as I'.
        fold (assign_targets a) in I'.
        specialize (IH (T ++ assign_targets a) _ Trest I').
        rewrite <- !app_assoc in IH. apply IH. unfold assign_targets at 1. exact HTA.
    Qed.

    Lemma step_stmt done x rest s :
      DA = decl_list (done ++ x :: rest) -> TA = target_list (done ++ x :: rest) ->
      inv1 (decl_list done) (target_list done) (const_list done) (wire_list done) (bank_list done) s ->
      inv1 (decl_list (done ++ [x])) (target_list (done ++ [x])) (const_list (done ++ [x]))
           (wire_list (done ++ [x])) (bank_list (done ++ [x])) (step1_sp fixed s x).
    Proof.
      intros HDA HTA I.
      rewrite decl_list_app in HDA. rewrite target_list_app in HTA.
      change (decl_list (x :: rest)) with (decls_of_stmt x ++ decl_list rest) in HDA.
      change (target_list (x :: rest)) with (targets_of_stmt x ++ target_list rest) in HTA.
      rewrite decl_list_app, target_list_app, const_list_app, wire_list_app, bank_list_app.
      unfold decl_list at 2, target_list at 2, const_list at 2, wire_list at 2, bank_list at 2.
      cbn [flat_map]. rewrite !app_nil_r.
      destruct x as [decls|decls|assigns|name nsp regs bsp];
        cbn [step1_sp decls_of_stmt targets_of_stmt consts_of_stmt wire_decls_of_stmt banks_of_stmt] in *; rewrite ?app_nil_r.
      - apply (fold_consts _ _ _ decls _ _ s (decl_list rest) I HDA).
      - apply (fold_wires _ _ _ decls _ _ s (decl_list rest) I HDA).
      - apply (fold_assigns _ _ _ _ assigns _ s (target_list rest) I HTA).
      - destruct I. constructor;
          cbn [ss_wires ss_decl_spans ss_assigns ss_assign_spans ss_needed ss_consts ss_banks ss_types ss_errs]; try assumption.
        rewrite i_banks0. reflexivity.
    Qed.

    Lemma fold_stmts : forall todo done s,
      DA = decl_list (done ++ todo) -> TA = target_list (done ++ todo) ->
      inv1 (decl_list done) (target_list done) (const_list done) (wire_list done) (bank_list done) s ->
      inv1 (decl_list (done ++ todo)) (target_list (done ++ todo)) (const_list (done ++ todo))
           (wire_list (done ++ todo)) (bank_list (done ++ todo)) (fold_left (step1_sp fixed) todo s).
    Proof.
      induction todo as [|x todo IH]; intros done s HDA HTA I; cbn [fold_left].
      - rewrite app_nil_r. exact I.
      - pose proof (step_stmt done x todo s HDA HTA I) as I'.
        replace (done ++ x :: todo) with ((done ++ [x]) ++ todo) in * by (rewrite <- app_assoc; reflexivity).
        exact (IH (done ++ [x]) _ HDA HTA I').
    Qed.

    Lemma init_inv : inv1 [] [] [] [] [] (init1_sp fixed).
    Proof.
      constructor; cbn [init1_sp ss_wires ss_decl_spans ss_assigns ss_assign_spans ss_needed ss_consts ss_banks ss_types ss_errs].
      - reflexivity.
      - reflexivity.
      - reflexivity.
      - reflexivity.
      - reflexivity.
      - constructor.
      - constructor.
      - constructor.
      - intros n [].
      - intros _. split; [constructor|]. split; [constructor|]. split; intros n [].
    Qed.
  End Pass1.
End Located.

Lemma Forall_flat_map {A B} (P : B -> Prop) (g : A -> list B) l :
  (forall x, In x l -> Forall P (g x)) -> Forall P (flat_map g l).
Proof.
  induction l as [|x l IH]; intros H; cbn [flat_map]; [constructor|].
  apply Forall_app. split; [apply H; left; reflexivity | apply IH; intros y Hy; apply H; right; exact Hy].
Qed.

Lemma nodup_split_eq {A} (x : A) : forall a a' b b', NoDup (a ++ x :: b) -> a ++ x :: b = a' ++ x :: b' -> a = a'.
Proof.
  induction a as [|y a IH]; intros a' b b' Hnd E.
  - destruct a' as [|y' a']; [reflexivity|]. cbn [app] in E. injection E as E1 E2. exfalso.
    cbn [app] in Hnd. inversion Hnd as [|? ? Hx _]; subst. apply Hx. apply in_or_app. right. left. reflexivity.
  - destruct a' as [|y' a'].
    + cbn [app] in E. injection E as E1 E2. exfalso. cbn [app] in Hnd. inversion Hnd as [|? ? Hx _]; subst.
      apply Hx. apply in_or_app. right. left. reflexivity.
    + cbn [app] in E. injection E as E1 E2. subst y'. f_equal. cbn [app] in Hnd. inversion Hnd as [|? ? _ Hnd']; subst.
      exact (IH a' b b' Hnd' E2).
Qed.

Lemma literal_no_fault f G C lit d : is_literal lit -> expr_fault f G C lit d -> False.
Proof.
  intros (sp & v & ->) H.
  assert (Hn : forall x, In x (enodes (SEConst sp v)) -> x = SEConst sp v).
  { intros x Hx. rewrite enodes_eq in Hx. destruct Hx as [<-|[]]. reflexivity. }
  destruct H as [? ? ? ? ? ? Hx|? ? ? ? ? ? Hx|? ? ? ? ? ? Hx|? ? Hx|? ? Hx|? ? Hx|? ? Hx|? ? Hx|? ? ? ? Hx|? ? ? ? ? Hx|? ? ? ? ? Hx|? ? ? ? Hx];
    apply Hn in Hx; discriminate Hx.
Qed.


(* the sorter only fails with Panicked / OutOfFuel; the component pass only reports UnsetBuiltinWire /
   PartialFixedInput: none of them has a location *)
Definition internal_kind (k : ekind) : bool := match k with Panicked | OutOfFuel => true | _ => false end.

Section SorterInternal.
  Variable node : Type.
  Variable eqb : node -> node -> bool.
  Notation ikinds := (LoopProofs.kinds internal_kind).

  Lemma visit_outs_internal cur : forall outs counts visited queue es,
    visit_outs node eqb cur outs counts visited queue = Err es -> ikinds es.
  Proof.
    induction outs as [|out r IH]; intros counts visited queue es H; cbn [visit_outs] in H; [discriminate H|].
    destruct (existsb (pair_eqb node eqb (cur, out)) visited) eqn:E1; [apply IH in H; exact H|].
    destruct ((match assoc node eqb counts out with Some c => c | None => 0 end) =? 0) eqn:E2.
    - unfold err1 in H. injection H as <-. apply LoopProofs.kinds_one. reflexivity.
    - apply IH in H. exact H.
  Qed.

  Lemma kahn_loop_internal g : forall fuel queue counts visited acc es,
    kahn_loop node eqb fuel g queue counts visited acc = Err es -> ikinds es.
  Proof.
    induction fuel as [|fu IH]; intros queue counts visited acc es H.
    - destruct queue as [|cur rest]; cbn [kahn_loop] in H; [discriminate H|].
      unfold err1 in H. injection H as <-. apply LoopProofs.kinds_one. reflexivity.
    - destruct queue as [|cur rest]; cbn [kahn_loop] in H; [discriminate H|].
      destruct (visit_outs node eqb cur (succs node eqb g cur) counts visited rest) as [[[c1 v1] q1]|es1] eqn:E;
        cbn [bind] in H.
      + apply IH in H. exact H.
      + injection H as <-. apply visit_outs_internal in E. exact E.
  Qed.

  Lemma find_cycle_loop_internal g : forall fuel stack ps es,
    find_cycle_loop node eqb fuel g stack ps = Err es -> ikinds es.
  Proof.
    induction fuel as [|fu IH]; intros stack ps es H; cbn [find_cycle_loop] in H.
    - unfold err1 in H. injection H as <-. apply LoopProofs.kinds_one. reflexivity.
    - destruct stack as [|[mp cur] rest].
      + unfold err1 in H. injection H as <-. apply LoopProofs.kinds_one. reflexivity.
      + destruct mp as [parent|].
        * destruct (match assoc node eqb ps cur with Some _ => true | None => false end) eqn:E1.
          -- destruct (back_path node eqb (S (List.length (g_nodes g))) ps cur [parent] parent) eqn:E2;
               [discriminate H | apply IH in H; exact H].
          -- apply IH in H. exact H.
        * apply IH in H. exact H.
  Qed.

  Lemma toposort_err_internal g es : toposort node eqb g = Err es -> ikinds es.
  Proof.
    unfold toposort. intros H.
    destruct (kahn_loop node eqb (S (List.length (g_nodes g))) g (init_queue node eqb g)
                        (init_counts node eqb g) [] []) as [[order visited]|es1] eqn:E; cbn [bind] in H.
    - destruct (N.of_nat (List.length visited) =? g_num_edges g) eqn:E1; [discriminate H|].
      unfold find_cycle in H.
      destruct (find_cycle_loop node eqb (S (List.length (g_nodes g) + edge_total node g)) g
                                (map (fun n => (None, n)) (g_nodes g)) []) as [c|es2] eqn:E2; cbn [bind] in H.
      + discriminate H.
      + injection H as <-. apply find_cycle_loop_internal in E2. exact E2.
    - injection H as <-. apply kahn_loop_internal in E. exact E.
  Qed.
End SorterInternal.

Lemma unlocated_located f fixed stmts es :
  Forall (fun e => unlocated_kind (ek e) = true) es -> Forall (located f fixed stmts) (map unlocated es).
Proof.
  induction es as [|e es IH]; intros H; cbn [map]; constructor.
  - inversion H; subst. apply L_nospan. assumption.
  - inversion H; subst. apply IH. assumption.
Qed.

Lemma internal_unlocated es : LoopProofs.kinds internal_kind es -> Forall (fun e => unlocated_kind (ek e) = true) es.
Proof. apply Forall_impl. intros e. destruct (ek e); cbn; intros H; try reflexivity; discriminate H. Qed.

Section Located2.
  Variable f : features.
  Variable fixed : list fixed_fn.
  Variable is_lower : string -> bool.
  Variable is_upper : string -> bool.
  Variable stmts : list sstmt.

  Notation DA := (decl_list stmts).
  Notation TA := (target_list stmts).
  Notation KA := (const_list stmts).
  Notation WA := (wire_list stmts).
  Notation BA := (bank_list stmts).
  Notation loc := (located f fixed stmts).
  Notation Inv1 := (inv1 fixed loc DA TA KA WA BA).

  Lemma pass1_inv : Inv1 (fold_left (step1_sp fixed) stmts (init1_sp fixed)).
  Proof.
    pose proof (fold_stmts fixed DA TA loc
                  (fun n old new H => L_redecl f fixed stmts n old new H)
                  (fun n sp H1 H2 => L_builtin f fixed stmts n sp H1 H2)
                  (fun n old new eo en H => L_dassign f fixed stmts n old new eo en H)
                  (fun n sp e H1 H2 => L_dfixed f fixed stmts n sp e H1 H2)
                  stmts [] (init1_sp fixed) eq_refl eq_refl (init_inv fixed loc)) as H.
    exact H.
  Qed.

  Variable s : sst1.
  Hypothesis I : Inv1 s.

  Lemma assigned_latest n e : lookup (ss_assigns s) n = Some e ->
    exists sp, latest TA n (sp, e) /\ lookup (ss_assign_spans s) n = Some sp.
  Proof.
    intros H. rewrite (i_assign _ _ _ _ _ _ _ _ I) in H. rewrite (i_aspan _ _ _ _ _ _ _ _ I).
    destruct (last_of TA n) as [[sp e']|] eqn:E; cbn [option_map snd fst] in *; [|discriminate H].
    injection H as ->. exists sp. split; [exact (last_of_some _ _ _ E) | reflexivity].
  Qed.

  Lemma unassigned_not_target n : lookup (ss_assigns s) n = None -> ~ In n (map fst TA).
  Proof.
    intros H. rewrite (i_assign _ _ _ _ _ _ _ _ I) in H.
    destruct (last_of TA n) eqn:E; [discriminate H|]. exact (last_of_none _ _ E).
  Qed.

  Lemma has_assigned_latest n : has (ss_assigns s) n = true ->
    exists sp e, latest TA n (sp, e) /\ lookup (ss_assign_spans s) n = Some sp.
  Proof.
    unfold has. destruct (lookup (ss_assigns s) n) as [e|] eqn:E; [|discriminate].
    intros _. destruct (assigned_latest n e E) as (sp & H1 & H2). exists sp, e. split; assumption.
  Qed.

  Lemma decl_latest n sp : lookup (ss_decl_spans s) n = Some sp -> latest DA n sp.
  Proof. rewrite (i_decl _ _ _ _ _ _ _ _ I). apply last_of_some. Qed.

  Lemma const_latest n e : lookup (ss_consts s) n = Some e -> latest KA n e.
  Proof. rewrite (i_const _ _ _ _ _ _ _ _ I). apply last_of_some. Qed.

  Lemma has_const_name n : has (ss_consts s) n = true -> In n (map fst KA).
  Proof.
    unfold has. destruct (lookup (ss_consts s) n) as [e|] eqn:E; [|discriminate]. intros _.
    apply (in_map fst _ (n, e)). exact (latest_in _ _ _ (const_latest n e E)).
  Qed.

  Lemma no_const_name n : has (ss_consts s) n = false -> ~ In n (map fst KA).
  Proof.
    unfold has. rewrite (i_const _ _ _ _ _ _ _ _ I). destruct (last_of KA n) eqn:E; [discriminate|].
    intros _. exact (last_of_none _ _ E).
  Qed.

  (* ---- the end of pass 1 ---------------------------------------------------------------------- *)
  Lemma const_assigned_located : Forall loc (const_assigned_errors_sp s).
  Proof.
    unfold const_assigned_errors_sp. apply Forall_flat_map. intros [n sp] Hin. cbn [fst snd].
    destruct (has (ss_consts s) n) eqn:Hc; [|constructor]. constructor; [|constructor].
    pose proof (nodup_lookup _ _ _ (i_nd_aspan _ _ _ _ _ _ _ _ I) Hin) as Hl.
    rewrite (i_aspan _ _ _ _ _ _ _ _ I) in Hl.
    destruct (last_of TA n) as [[sp' e]|] eqn:E; cbn [option_map fst] in Hl; [|discriminate Hl]. injection Hl as ->.
    pose proof (has_const_name n Hc) as Hk.
    rewrite (i_decl _ _ _ _ _ _ _ _ I).
    destruct (last_of DA n) as [csp|] eqn:Ed.
    - cbn [unwrap_span]. exact (L_cassigned f fixed stmts n sp csp e (last_of_some _ _ _ E) (last_of_some _ _ _ Ed) Hk).
    - exfalso. exact (last_of_none _ _ Ed (const_name_in_decls stmts n Hk)).
  Qed.

  Lemma const_ref_located : Forall loc (const_ref_errors_sp s).
  Proof.
    unfold const_ref_errors_sp. apply Forall_flat_map. intros [n e] Hin. cbn [fst snd].
    pose proof (latest_in _ _ _ (const_latest n e (nodup_lookup _ _ _ (i_nd_const _ _ _ _ _ _ _ _ I) Hin))) as Hk.
    apply Forall_flat_map. intros r _.
    assert (Hall : forall k, k = NonConstantWireRead \/ k = UndeclaredWireRead -> has (ss_consts s) r = false ->
                             Forall loc (serrs_for k r (ref_spans r e))).
    { intros k Hkind Hnc. unfold serrs_for. apply Forall_forall. intros d Hd. apply in_map_iff in Hd.
      destruct Hd as (sp & <- & Hsp).
      exact (L_const_ref f fixed stmts k r sp n e Hkind Hk (ref_spans_nodes r e sp Hsp) (no_const_name r Hnc)). }
    destruct (has (ss_consts s) r) eqn:Hc; cbn [negb].
    - rewrite andb_false_r. constructor.
    - rewrite andb_true_r. destruct (has (ss_wires s) r); apply Hall; auto.
  Qed.

  (* ---- pass 2 --------------------------------------------------------------------------------- *)
  Hypothesis Hclean : ss_errs s = [].

  Lemma const_names_nodup : NoDup (map fst KA).
  Proof. exact (proj1 (proj2 (i_clean _ _ _ _ _ _ _ _ I Hclean))). Qed.
  Lemma decl_names_nodup : NoDup (map fst DA).
  Proof. exact (proj1 (i_clean _ _ _ _ _ _ _ _ I Hclean)). Qed.
  Lemma decl_names_not_fixed : forall n, In n (map fst DA) -> ~ In n (fixed_names fixed).
  Proof. exact (proj2 (proj2 (proj2 (i_clean _ _ _ _ _ _ _ _ I Hclean)))). Qed.

  Section Pass2.
    Variable order0 : list string.
    Hypothesis Hnd : NoDup order0.
    Hypothesis Hedge : forall c n sp, lookup (ss_consts s) n = Some (SEWire sp c) ->
                                      exists l1 l2 l3, order0 = l1 ++ c :: l2 ++ n :: l3.

    Notation consts := (ss_consts s).

    Lemma eval_consts_located : forall order processed vals errs vals' errs',
      order0 = processed ++ order -> Forall loc errs ->
      (forall c lit, In c processed -> latest KA c lit -> is_literal lit -> lookup vals c <> None) ->
      eval_consts_sp f consts order vals errs = (vals', errs') -> Forall loc errs'.
    Proof.
      induction order as [|n r IH]; intros processed vals errs vals' errs' Ho He Hlit H; cbn [eval_consts_sp] in H.
      - injection H as _ <-. exact He.
      - destruct (lookup consts n) as [e|] eqn:En.
        2:{ injection H as _ <-. apply Forall_app. split; [exact He|]. constructor; [apply L_nospan; reflexivity | constructor]. }
        pose proof (const_latest n e En) as Hlat.
        assert (Ho' : order0 = (processed ++ [n]) ++ r) by (rewrite <- app_assoc; exact Ho).
        (* a reference to a literal constant is checked and evaluated without complaint *)
        assert (Href : ref_to_literal stmts e ->
                  exists v, check_sp f (fun k => match lookup vals k with Some v => Some (wd v) | None => None end)
                                     (lookup vals) e = SOk (wd v) /\ eval_sp f (lookup vals) e = SOk v).
        { intros (sp & c & lit & -> & Hc & Hl).
          destruct (Hedge c n sp En) as (l1 & l2 & l3 & E0).
          assert (Hp : processed = l1 ++ c :: l2).
          { apply (nodup_split_eq n processed (l1 ++ c :: l2) r l3).
            - rewrite <- Ho. exact Hnd.
            - rewrite <- Ho, E0, <- app_assoc. reflexivity. }
          assert (Hin : In c processed) by (rewrite Hp; apply in_or_app; right; left; reflexivity).
          pose proof (Hlit c lit Hin Hc Hl) as Hv. destruct (lookup vals c) as [v|] eqn:Ev; [|contradiction].
          exists v. cbn [check_sp eval_sp]. rewrite Ev. split; reflexivity. }
        (* a literal is checked and evaluated without complaint *)
        assert (Hlite : is_literal e -> exists v,
                  check_sp f (fun k => match lookup vals k with Some v => Some (wd v) | None => None end)
                           (lookup vals) e = SOk (wd v) /\ eval_sp f (lookup vals) e = SOk v).
        { intros (sp & v & ->). exists v. split; reflexivity. }
        assert (Hlit' : forall vals1 : list (string * wval), (forall c, lookup vals c <> None -> lookup vals1 c <> None) ->
                  (forall lit, latest KA n lit -> is_literal lit -> lookup vals1 n <> None) ->
                  forall c lit, In c (processed ++ [n]) -> latest KA c lit -> is_literal lit -> lookup vals1 c <> None).
        { intros vals1 Hmono Hn c lit Hin Hc Hl. apply in_app_or in Hin. destruct Hin as [Hin|[<-|[]]].
          - apply Hmono. exact (Hlit c lit Hin Hc Hl).
          - exact (Hn lit Hc Hl). }
        assert (Hsame : forall lit, latest KA n lit -> lit = e).
        { intros lit Hl. pose proof (latest_last_of _ _ _ Hl) as E1. pose proof (latest_last_of _ _ _ Hlat) as E2.
          rewrite E1 in E2. injection E2 as ->. reflexivity. }
        destruct (check_sp f _ (lookup vals) e) as [wc|es] eqn:Ec.
        + destruct (eval_sp f (lookup vals) e) as [v|es] eqn:Ee.
          * apply (IH (processed ++ [n]) (upd vals n v) errs vals' errs' Ho' He); [|exact H].
            apply Hlit'.
            -- intros c Hc. rewrite lookup_upd. destruct (String.eqb c n); [discriminate | exact Hc].
            -- intros lit _ _. rewrite lookup_upd, String.eqb_refl. discriminate.
          * apply (IH (processed ++ [n]) vals (errs ++ es) vals' errs' Ho'); [| |exact H].
            -- apply Forall_app. split; [exact He|].
               destruct (eval_sp_faults_holds f (lookup vals) e es Ee) as [_ Hall].
               apply Forall_forall. intros d Hd. rewrite Forall_forall in Hall.
               apply (L_const_eval f fixed stmts n e d Hlat const_names_nodup (Hall d Hd)).
               intros Hr. destruct (Href Hr) as (v & _ & Hv). discriminate Hv.
            -- apply Hlit'; [intros c Hc; exact Hc|].
               intros lit Hl Hli. rewrite (Hsame lit Hl) in Hli. destruct (Hlite Hli) as (v & _ & Hv).
               discriminate Hv.
        + apply (IH (processed ++ [n]) vals (errs ++ es) vals' errs' Ho'); [| |exact H].
          * apply Forall_app. split; [exact He|].
            destruct (check_sp_faults_holds f _ _ e es Ec) as [_ Hall].
            apply Forall_forall. intros d Hd. rewrite Forall_forall in Hall.
            apply (L_const_check f fixed stmts _ _ n e d Hlat const_names_nodup (Hall d Hd)).
            intros Hr. destruct (Href Hr) as (v & Hv & _). discriminate Hv.
          * apply Hlit'; [intros c Hc; exact Hc|].
            intros lit Hl Hli. rewrite (Hsame lit Hl) in Hli. destruct (Hlite Hli) as (v & Hv & _).
            discriminate Hv.
    Qed.
  End Pass2.

  (* the errors only grow; a clean run gives every constant of the order a value *)
  Lemma eval_consts_mono consts : forall order vals errs vals' errs',
    eval_consts_sp f consts order vals errs = (vals', errs') -> exists more, errs' = errs ++ more.
  Proof.
    induction order as [|n r IH]; intros vals errs vals' errs' H; cbn [eval_consts_sp] in H.
    - injection H as _ <-. exists []. rewrite app_nil_r. reflexivity.
    - destruct (lookup consts n) as [e|].
      2:{ injection H as _ <-. eexists. reflexivity. }
      destruct (check_sp f _ (lookup vals) e) as [wc|es].
      + destruct (eval_sp f (lookup vals) e) as [v|es].
        * exact (IH _ _ _ _ H).
        * destruct (IH _ _ _ _ H) as (more & ->). exists (es ++ more). rewrite app_assoc. reflexivity.
      + destruct (IH _ _ _ _ H) as (more & ->). exists (es ++ more). rewrite app_assoc. reflexivity.
  Qed.

  Lemma eval_consts_keys consts : forall order vals vals',
    eval_consts_sp f consts order vals [] = (vals', []) ->
    forall n, In n order \/ lookup vals n <> None -> lookup vals' n <> None.
  Proof.
    induction order as [|m r IH]; intros vals vals' H n Hn; cbn [eval_consts_sp] in H.
    - injection H as <-. destruct Hn as [[]|Hn]. exact Hn.
    - destruct (lookup consts m) as [e|].
      2:{ cbn [app] in H. discriminate H. }
      destruct (check_sp f _ (lookup vals) e) as [wc|es] eqn:Ec.
      + destruct (eval_sp f (lookup vals) e) as [v|es] eqn:Ee.
        * apply (IH _ _ H). destruct Hn as [[<-|Hn]|Hn].
          -- right. rewrite lookup_upd, String.eqb_refl. discriminate.
          -- left. exact Hn.
          -- right. rewrite lookup_upd. destruct (String.eqb n m); [discriminate | exact Hn].
        * exfalso. destruct (eval_consts_mono _ _ _ _ _ _ H) as (more & Hm). cbn [app] in Hm.
          destruct (eval_sp_faults_holds f _ e es Ee) as [Hne _]. destruct es; [exact (Hne eq_refl) | discriminate Hm].
      + exfalso. destruct (eval_consts_mono _ _ _ _ _ _ H) as (more & Hm). cbn [app] in Hm.
        destruct (check_sp_faults_holds f _ _ e es Ec) as [Hne _]. destruct es; [exact (Hne eq_refl) | discriminate Hm].
  Qed.

  Lemma resolve_located :
    (forall es, resolve_constants_sp f (ss_consts s) = SErr es -> Forall loc es) /\
    (forall consts, resolve_constants_sp f (ss_consts s) = SOk consts ->
       forall n, In n (map fst KA) -> In n (map fst consts)).
  Proof.
    unfold resolve_constants_sp.
    pose proof (i_nd_const _ _ _ _ _ _ _ _ I) as Hndc.
    assert (Hndc' : NoDup (map fst (amap erase_expr (ss_consts s)))) by (rewrite map_fst_amap; exact Hndc).
    destruct (LoopProofs.const_graph_facts _ Hndc') as (Hwf & Hedges & Hnodes).
    destruct (toposort string String.eqb (const_graph (amap erase_expr (ss_consts s)))) as [[order|cyc]|tes] eqn:Et;
      cbn [lift sbind].
    - destruct (order_valid string String.eqb String.eqb_eq _ order Hwf Et) as (Hnd & Hcover & Hfwd).
      destruct (eval_consts_sp f (ss_consts s) order [] []) as [vals errs] eqn:Ev.
      assert (Hloc : Forall loc errs).
      { apply (eval_consts_located order Hnd) with (order := order) (processed := []) (vals := []) (errs := []) (vals' := vals).
        - intros c n sp Hl. apply Hfwd. apply Hedges. exists (EWire c). split; [|left; reflexivity].
          apply lookup_In in Hl. unfold amap. apply in_map_iff. exists (n, SEWire sp c). split; [reflexivity | exact Hl].
        - reflexivity.
        - constructor.
        - intros c lit [].
        - exact Ev. }
      split.
      + intros es H. destruct errs; [discriminate H|]. injection H as <-. exact Hloc.
      + intros consts H. destruct errs; [|discriminate H]. injection H as <-.
        intros n Hn.
        assert (Hv : lookup vals n <> None).
        { apply (eval_consts_keys _ _ _ _ Ev). left. apply Hcover. apply Hnodes. left.
          rewrite map_fst_amap. apply in_map_iff in Hn. destruct Hn as ([n' e] & E & Hin). cbn [fst] in E. subst n'.
          destruct (nodup_latest KA n e const_names_nodup Hin) as (l1 & l2 & El & Hnl).
          assert (Hl : lookup (ss_consts s) n = Some e).
          { rewrite (i_const _ _ _ _ _ _ _ _ I). apply latest_last_of. exists l1, l2. split; assumption. }
          apply (in_map fst _ (n, e)). exact (lookup_In _ _ _ Hl). }
        destruct (lookup vals n) as [v|] eqn:E; [|contradiction].
        apply (in_map fst _ (n, v)). exact (lookup_In _ _ _ E).
    - split; [|intros consts H; discriminate H].
      intros es H. injection H as <-. constructor; [apply L_nospan; reflexivity | constructor].
    - split; [|intros consts H; discriminate H].
      intros es H. injection H as <-. apply unlocated_located. apply internal_unlocated.
      exact (toposort_err_internal string String.eqb _ tes Et).
  Qed.
End Located2.

Section Located3.
  Variable f : features.
  Variable fixed : list fixed_fn.
  Variable is_lower : string -> bool.
  Variable is_upper : string -> bool.
  Variable stmts : list sstmt.

  Notation DA := (decl_list stmts).
  Notation TA := (target_list stmts).
  Notation KA := (const_list stmts).
  Notation WA := (wire_list stmts).
  Notation BA := (bank_list stmts).
  Notation loc := (located f fixed stmts).
  Notation Inv1 := (inv1 fixed loc DA TA KA WA BA).

  Variable s : sst1.
  Hypothesis I : Inv1 s.
  Variable consts : list (string * wval).

  Notation sigof := (signal_of stmts).

  Definition seen_ok (m : list (string * srcspan)) : Prop := forall n sp, lookup m n = Some sp -> sigof n sp.
  Definition in_ok (m : list (string * srcspan)) : Prop :=
    forall n sp, lookup m n = Some sp ->
      exists bank inp outp r w dd, register_of stmts bank inp outp r w dd sp /\ n = in_signal inp r.
  Definition sig_ok (sg : string * string * width) : Prop := lookup (ss_decl_spans s) (fst (fst sg)) = None.
  Definition banks_ok (bs : list bank) : Prop := forall b, In b bs -> Forall sig_ok (b_signals b).

  Record inv3 (t : sst3) : Prop := {
    j_errs : Forall loc (st_errs t);
    j_seen : seen_ok (st_seen t);
    j_in : in_ok (st_in_spans t);
    j_banks : banks_ok (st_banks t)
  }.

  Lemma seen_ok_add m k sp : seen_ok m -> sigof k sp -> seen_ok (add_first m k sp).
  Proof.
    intros Hm Hk n x H. rewrite lookup_add_first in H. destruct (lookup m n) as [y|] eqn:E.
    - injection H as <-. exact (Hm n y E).
    - destruct (String.eqb n k) eqn:E2; [|discriminate H]. injection H as <-.
      apply String.eqb_eq in E2. subst n. exact Hk.
  Qed.

  Lemma step_register bname nsp regs inp outp t sigs defaults r :
    In (bname, nsp, regs) BA -> utf8_chars bname "" = [inp; outp] -> is_lower inp = true -> In r regs ->
    inv3 t -> Forall sig_ok sigs ->
    inv3 (fst (fst (step3_register_sp f s consts bname inp outp (t, sigs, defaults) r))) /\
    Forall sig_ok (snd (fst (step3_register_sp f s consts bname inp outp (t, sigs, defaults) r))) /\
    st_banks (fst (fst (step3_register_sp f s consts bname inp outp (t, sigs, defaults) r))) = st_banks t.
  Proof.
    intros Hb Hch Hlow Hr J Hsigs. destruct r as [[[rname w] dflt] rsp].
    assert (Hreg : register_of stmts bname inp outp rname w dflt rsp) by (exists nsp, regs; repeat split; assumption).
    unfold step3_register_sp.
    set (in_name := (inp ++ "_" ++ rname)%string). set (out_name := (outp ++ "_" ++ rname)%string).
    assert (Hsin : sigof in_name rsp) by (exists bname, inp, outp, rname, w, dflt; split; [exact Hreg | left; reflexivity]).
    assert (Hsout : sigof out_name rsp) by (exists bname, inp, outp, rname, w, dflt; split; [exact Hreg | right; reflexivity]).
    set (e_redecl := flat_map _ [in_name; out_name]).
    assert (H1 : Forall loc e_redecl).
    { unfold e_redecl. apply Forall_flat_map. intros n Hn.
      assert (Hs : sigof n rsp) by (destruct Hn as [<-|[<-|[]]]; assumption).
      destruct (lookup (ss_decl_spans s) n) as [other|] eqn:E; [|constructor].
      constructor; [|constructor].
      exact (L_redecl_reg f fixed stmts n other rsp (decl_latest f fixed stmts s I n other E) Hs). }
    set (e_nonconst := flat_map _ (nodup_str (refs (erase_expr dflt)))).
    assert (H2 : Forall loc e_nonconst).
    { unfold e_nonconst. apply Forall_flat_map. intros rf _.
      destruct (has (ss_wires s) rf && negb (has consts rf)); [|constructor].
      unfold serrs_for. apply Forall_forall. intros d Hd. apply in_map_iff in Hd. destruct Hd as (sp & <- & Hsp).
      exact (L_default_ref f fixed stmts rf sp bname inp outp rname w dflt rsp Hreg (ref_spans_nodes rf dflt sp Hsp)). }
    set (e_dup := if has defaults out_name then _ else _).
    assert (H3 : Forall loc e_dup).
    { unfold e_dup. destruct (has defaults out_name); [|constructor]. constructor; [apply L_nospan; reflexivity | constructor]. }
    set (e_asg := if has (ss_assigns s) out_name then _ else _).
    assert (H4 : Forall loc e_asg).
    { unfold e_asg. destruct (has (ss_assigns s) out_name) eqn:E; [|constructor]. constructor; [|constructor].
      destruct (has_assigned_latest f fixed stmts s I out_name E) as (asp & e & Hl & Hsp). rewrite Hsp. cbn [unwrap_span].
      exact (L_regassigned f fixed stmts out_name rsp asp bname inp outp rname w dflt e Hreg eq_refl Hl). }
    set (e_out := match lookup (st_seen t) out_name with Some _ => _ | None => _ end).
    assert (H5 : Forall loc e_out).
    { unfold e_out. destruct (lookup (st_seen t) out_name) as [old|] eqn:E; [|constructor]. constructor; [|constructor].
      exact (L_regdouble f fixed stmts out_name old rsp (j_seen t J out_name old E) Hsout). }
    set (seen1 := add_first (st_seen t) out_name rsp).
    assert (Hseen1 : seen_ok seen1) by (apply seen_ok_add; [exact (j_seen t J) | exact Hsout]).
    set (e_in := match lookup seen1 in_name with Some _ => _ | None => _ end).
    assert (H6 : Forall loc e_in).
    { unfold e_in. destruct (lookup seen1 in_name) as [old|] eqn:E; [|constructor]. constructor; [|constructor].
      exact (L_regdouble f fixed stmts in_name old rsp (Hseen1 in_name old E) Hsin). }
    set (seen2 := add_first seen1 in_name rsp).
    assert (Hseen2 : seen_ok seen2) by (apply seen_ok_add; [exact Hseen1 | exact Hsin]).
    set (pre := e_redecl ++ _).
    assert (Hpre : Forall loc pre).
    { unfold pre. repeat (apply Forall_app; split; [assumption|]). assumption. }
    assert (Hnone : pre = [] -> lookup (ss_decl_spans s) in_name = None).
    { unfold pre, e_redecl. cbn [flat_map]. intros Hnil. apply app_nil_both in Hnil. destruct Hnil as [Hnil _].
      destruct (lookup (ss_decl_spans s) in_name); [discriminate Hnil | reflexivity]. }
    clearbody pre.
    assert (Hres : forall errs_new, Forall loc errs_new ->
              inv3 (mkSSt3 (st_banks t) (st_defaulted t)
                           (upd (upd (st_types t) in_name TRegisterBankInput) out_name TRegisterBankOutput)
                           seen2 (st_in_spans t) (st_errs t ++ errs_new))).
    { intros errs_new Hn. constructor; cbn [st_errs st_seen st_in_spans st_banks].
      - apply Forall_app. split; [exact (j_errs t J) | exact Hn].
      - exact Hseen2.
      - exact (j_in t J).
      - exact (j_banks t J). }
    destruct pre as [|p0 pre].
    - destruct (check_sp f _ (lookup consts) dflt) as [wc|es] eqn:Ec.
      + destruct (eval_sp f (lookup consts) dflt) as [v|es] eqn:Ee.
        * cbn [fst snd]. split; [|split; [|reflexivity]].
          -- constructor; cbn [st_errs st_seen st_in_spans st_banks].
             ++ apply Forall_app. split; [exact (j_errs t J)|].
                destruct (wcombine (wd v) w); [constructor|]. constructor; [|constructor].
                exact (L_regwidth f fixed stmts bname rname inp outp w dflt rsp Hreg).
             ++ exact Hseen2.
             ++ intros n sp Hl. rewrite lookup_upd in Hl. destruct (String.eqb n in_name) eqn:E.
                ** injection Hl as <-. apply String.eqb_eq in E. subst n.
                   exists bname, inp, outp, rname, w, dflt. split; [exact Hreg | reflexivity].
                ** exact (j_in t J n sp Hl).
             ++ exact (j_banks t J).
          -- apply Forall_app. split; [exact Hsigs|]. constructor; [|constructor].
             exact (Hnone eq_refl).
        * cbn [fst snd]. split; [|split; [exact Hsigs | reflexivity]]. apply Hres.
          destruct (eval_sp_faults_holds f _ dflt es Ee) as [_ Hall].
          apply Forall_forall. intros d Hd. rewrite Forall_forall in Hall.
          exact (L_default_eval f fixed stmts bname inp outp rname w dflt rsp d Hreg (Hall d Hd)).
      + cbn [fst snd]. split; [|split; [exact Hsigs | reflexivity]]. apply Hres.
        destruct (check_sp_faults_holds f _ _ dflt es Ec) as [_ Hall].
        apply Forall_forall. intros d Hd. rewrite Forall_forall in Hall.
        exact (L_default_check f fixed stmts _ _ bname inp outp rname w dflt rsp d Hreg (Hall d Hd)).
    - cbn [fst snd]. split; [|split; [exact Hsigs | reflexivity]]. apply Hres. exact Hpre.
  Qed.

  Lemma fold_registers bname nsp regs inp outp :
    In (bname, nsp, regs) BA -> utf8_chars bname "" = [inp; outp] -> is_lower inp = true ->
    forall regs' acc, incl regs' regs -> inv3 (fst (fst acc)) -> Forall sig_ok (snd (fst acc)) ->
      inv3 (fst (fst (fold_left (step3_register_sp f s consts bname inp outp) regs' acc))) /\
      Forall sig_ok (snd (fst (fold_left (step3_register_sp f s consts bname inp outp) regs' acc))) /\
      st_banks (fst (fst (fold_left (step3_register_sp f s consts bname inp outp) regs' acc))) = st_banks (fst (fst acc)).
  Proof.
    intros Hb Hch Hlow. induction regs' as [|r regs' IH]; intros acc Hsub J Hs; cbn [fold_left].
    - split; [exact J|]. split; [exact Hs | reflexivity].
    - destruct acc as [[t sigs] defaults]. cbn [fst snd] in J, Hs.
      destruct (step_register bname nsp regs inp outp t sigs defaults r Hb Hch Hlow (Hsub r (or_introl eq_refl)) J Hs)
        as (J' & Hs' & Hbk).
      destruct (IH _ (fun x Hx => Hsub x (or_intror Hx)) J' Hs') as (J'' & Hs'' & Hbk').
      split; [exact J''|]. split; [exact Hs''|]. rewrite Hbk'. exact Hbk.
  Qed.

  Lemma step_bank t b : In b BA -> inv3 t -> inv3 (step3_bank_sp f is_lower is_upper s consts t b).
  Proof.
    intros Hb J. destruct b as [[name nsp] regs]. unfold step3_bank_sp.
    assert (Hbad : inv3 (mkSSt3 (st_banks t) (st_defaulted t) (st_types t) (st_seen t) (st_in_spans t)
                                (st_errs t ++ [mkSErr InvalidRegisterBankName [name] [nsp]]))).
    { constructor; cbn [st_errs st_seen st_in_spans st_banks]; try (apply J).
      apply Forall_app. split; [apply J|]. constructor; [|constructor].
      exact (L_bankname f fixed stmts name nsp regs Hb). }
    destruct (utf8_chars name "") as [|inp [|outp [|x l]]] eqn:Hch; try exact Hbad.
    destruct (negb (is_lower inp) || negb (is_upper outp)) eqn:Hcase; [exact Hbad|].
    apply orb_false_iff in Hcase. destruct Hcase as [Hlow _]. apply negb_false_iff in Hlow.
    set (stall := ("stall_" ++ outp)%string). set (bubble := ("bubble_" ++ outp)%string).
    set (t1 := mkSSt3 _ _ _ _ _ _).
    assert (J1 : inv3 t1).
    { unfold t1. constructor; cbn [st_errs st_seen st_in_spans st_banks]; try (apply J).
      apply Forall_app. split; [apply J|]. apply Forall_flat_map. intros n Hn.
      destruct (lookup (ss_decl_spans s) n) as [other|] eqn:E; [|constructor]. constructor; [|constructor].
      apply (L_redecl_bank f fixed stmts n other name nsp regs inp outp
               (decl_latest f fixed stmts s I n other E) Hb Hch).
      destruct Hn as [<-|[<-|[]]]; [left | right]; reflexivity. }
    destruct (fold_registers name nsp regs inp outp Hb Hch Hlow regs (t1, [], []) (incl_refl _) J1 (Forall_nil _))
      as (J2 & Hs2 & Hbk).
    destruct (fold_left (step3_register_sp f s consts name inp outp) regs (t1, [], [])) as [[t2 sigs] defaults].
    cbn [fst snd] in J2, Hs2, Hbk.
    constructor; cbn [st_errs st_seen st_in_spans st_banks]; try (apply J2).
    intros b Hin. apply in_app_or in Hin. destruct Hin as [Hin|[<-|[]]].
    - exact (j_banks t2 J2 b Hin).
    - exact Hs2.
  Qed.

  Lemma fold_banks : forall banks t, incl banks BA -> inv3 t ->
    inv3 (fold_left (step3_bank_sp f is_lower is_upper s consts) banks t).
  Proof.
    induction banks as [|b banks IH]; intros t Hsub J; cbn [fold_left]; [exact J|].
    apply IH; [intros x Hx; apply Hsub; right; exact Hx|].
    apply step_bank; [apply Hsub; left; reflexivity | exact J].
  Qed.

  (* ---- pass 4 ---------------------------------------------------------------------------------- *)
  Lemma nodup_unique {A} (l : list (string * A)) n a b : NoDup (map fst l) -> In (n, a) l -> In (n, b) l -> a = b.
  Proof.
    intros Hnd Ha Hb. pose proof (nodup_lookup l n a Hnd Ha) as E1. pose proof (nodup_lookup l n b Hnd Hb) as E2.
    rewrite E1 in E2. injection E2 as ->. reflexivity.
  Qed.

  Lemma unset_located t needed :
    inv3 t -> NoDup (map fst DA) ->
    (forall n, In n needed -> In n (map fst WA) \/ lookup (ss_decl_spans s) n = None) ->
    Forall loc (unset_errors_sp s t needed).
  Proof.
    intros J Hnd Hneed. unfold unset_errors_sp. apply Forall_flat_map. intros n Hn.
    unfold has. destruct (lookup (ss_assigns s) n) as [e|] eqn:Ea; [constructor|].
    pose proof (unassigned_not_target f fixed stmts s I n Ea) as Hnt.
    destruct (lookup (ss_decl_spans s) n) as [sp|] eqn:Ed.
    - constructor; [|constructor].
      pose proof (decl_latest f fixed stmts s I n sp Ed) as Hlat.
      apply (L_unset f fixed stmts n sp Hlat Hnt).
      destruct (Hneed n Hn) as [H|H]; [|rewrite Ed in H; discriminate H].
      apply in_map_iff in H. destruct H as ([n' sp'] & E & Hw). cbn [fst] in E. subst n'.
      rewrite (nodup_unique DA n sp sp' Hnd (latest_in _ _ _ Hlat) (wire_in_decls _ _ _ Hw)). exact Hw.
    - destruct (lookup (st_in_spans t) n) as [sp|] eqn:Ei.
      + constructor; [|constructor]. destruct (j_in t J n sp Ei) as (bank & inp & outp & r & w & dd & Hreg & Hname).
        exact (L_unsetreg f fixed stmts n sp bank inp outp r w dd Hreg Hname Hnt).
      + constructor; [apply L_nospan; reflexivity | constructor].
  Qed.

  (* ---- pass 5 ---------------------------------------------------------------------------------- *)
  Lemma schedule_located widths by_out : forall order acts errs und acts' errs' und',
    (forall n, In n order -> lookup (ss_assigns s) n = None -> In n (fixed_names fixed) \/ ~ In n (map fst KA)) ->
    (NoDup (map fst DA) /\ forall n, In n (map fst DA) -> ~ In n (fixed_names fixed)) -> Forall loc errs ->
    schedule_sp f widths consts (ss_assigns s) (ss_assign_spans s) by_out (ss_decl_spans s) order acts errs und
      = (acts', errs', und') ->
    Forall loc errs'.
  Proof.
    induction order as [|n r IH]; intros acts errs und acts' errs' und' Hord Hnd He H; cbn [schedule_sp] in H.
    - injection H as _ <- _. exact He.
    - assert (Hord' : forall m, In m r -> lookup (ss_assigns s) m = None -> In m (fixed_names fixed) \/ ~ In m (map fst KA))
        by (intros m Hm; apply Hord; right; exact Hm).
      destruct (lookup (ss_assigns s) n) as [e|] eqn:Ea.
      + destruct (assigned_latest f fixed stmts s I n e Ea) as (nsp & Hl & Hsp).
        destruct (lookup widths n) as [w|].
        * destruct (check_sp f (lookup widths) (lookup consts) e) as [we|es] eqn:Ec.
          -- apply (IH _ _ _ _ _ _ Hord' Hnd) in H; [exact H|]. apply Forall_app. split; [exact He|].
             destruct (wcombine w we); [constructor|]. constructor; [|constructor].
             exact (L_wirewidth f fixed stmts n nsp e Hl).
          -- apply (IH _ _ _ _ _ _ Hord' Hnd) in H; [exact H|]. apply Forall_app. split; [exact He|].
             destruct (check_sp_faults_holds f _ _ e es Ec) as [_ Hall].
             apply Forall_forall. intros d Hd. rewrite Forall_forall in Hall.
             exact (L_assign_check f fixed stmts _ _ n nsp e d Hl (Hall d Hd)).
        * apply (IH _ _ _ _ _ _ Hord' Hnd) in H; [exact H|]. apply Forall_app. split; [exact He|].
          constructor; [|constructor]. rewrite Hsp. cbn [unwrap_span].
          exact (L_undeclared_assigned f fixed stmts n nsp e Hl).
      + destruct (lookup by_out n) as [ff|]; [exact (IH _ _ _ _ _ _ Hord' Hnd He H)|].
        destruct (lookup (ss_decl_spans s) n) as [sp|] eqn:Ed; [|exact (IH _ _ _ _ _ _ Hord' Hnd He H)].
        apply (IH _ _ _ _ _ _ Hord' Hnd) in H; [exact H|]. apply Forall_app. split; [exact He|].
        constructor; [|constructor].
        pose proof (decl_latest f fixed stmts s I n sp Ed) as Hlat.
        apply (L_unset f fixed stmts n sp Hlat (unassigned_not_target f fixed stmts s I n Ea)).
        destruct (decl_cases stmts n sp (latest_in _ _ _ Hlat)) as [Hw|Hc]; [exact Hw|]. exfalso.
        destruct (Hord n (or_introl eq_refl) Ea) as [Hf|Hnc]; [|exact (Hnc Hc)].
        exact (proj2 Hnd n (in_map fst _ _ (latest_in _ _ _ Hlat)) Hf).
  Qed.
End Located3.

(* ====================================================================================== *)
(* which names the scheduler's order can contain                                           *)
(* ====================================================================================== *)
Section OrderNodes.
  Notation sgraph := (graph string).

  Definition gmentions (g : sgraph) (n : string) : Prop :=
    In n (g_nodes g) \/ exists a l, In (a, l) (g_succ g) /\ In n l.

  Lemma assoc_in {V} (l : list (string * V)) n v : assoc string String.eqb l n = Some v -> exists k, In (k, v) l.
  Proof.
    induction l as [|[k x] l IH]; cbn [assoc]; [discriminate|].
    destruct (String.eqb n k).
    - intros H. injection H as ->. exists k. left. reflexivity.
    - intros H. destruct (IH H) as (k' & Hk). exists k'. right. exact Hk.
  Qed.

  Lemma visit_outs_queue cur : forall outs counts visited queue c v q,
    visit_outs string String.eqb cur outs counts visited queue = Ok (c, v, q) ->
    forall n, In n q -> In n queue \/ In n outs.
  Proof.
    induction outs as [|out r IH]; intros counts visited queue c v q H n Hn; cbn [visit_outs] in H.
    - injection H as _ _ <-. left. exact Hn.
    - destruct (existsb (pair_eqb string String.eqb (cur, out)) visited).
      + destruct (IH _ _ _ _ _ _ H n Hn) as [H1|H1]; [left; exact H1 | right; right; exact H1].
      + destruct ((match assoc string String.eqb counts out with Some c0 => c0 | None => 0 end) =? 0); [discriminate H|].
        destruct (IH _ _ _ _ _ _ H n Hn) as [H1|H1]; [|right; right; exact H1].
        destruct (_ =? 0) in H1; [|left; exact H1].
        apply in_app_or in H1. destruct H1 as [H1|[<-|[]]]; [left; exact H1 | right; left; reflexivity].
  Qed.

  Lemma succs_mentions (g : sgraph) cur n : In n (succs string String.eqb g cur) -> gmentions g n.
  Proof.
    unfold succs. destruct (assoc string String.eqb (g_succ g) cur) as [l|] eqn:E; [|intros []].
    intros Hn. destruct (assoc_in _ _ _ E) as (k & Hk). right. exists k, l. split; assumption.
  Qed.

  Lemma kahn_mentions (g : sgraph) : forall fuel queue counts visited acc order visited',
    (forall n, In n queue -> gmentions g n) -> (forall n, In n acc -> gmentions g n) ->
    kahn_loop string String.eqb fuel g queue counts visited acc = Ok (order, visited') ->
    forall n, In n order -> gmentions g n.
  Proof.
    induction fuel as [|fu IH]; intros queue counts visited acc order visited' Hq Ha H n Hn.
    - destruct queue as [|cur rest]; cbn [kahn_loop] in H; [|discriminate H].
      injection H as <- _. apply Ha. apply in_rev. exact Hn.
    - destruct queue as [|cur rest]; cbn [kahn_loop] in H.
      + injection H as <- _. apply Ha. apply in_rev. exact Hn.
      + destruct (visit_outs string String.eqb cur (succs string String.eqb g cur) counts visited rest)
          as [[[counts1 visited1] queue1]|es] eqn:Ev; cbn [bind] in H; [|discriminate H].
        apply (IH _ _ _ _ _ _) with (n := n) in H; [exact H | | | exact Hn].
        * intros m Hm. destruct (visit_outs_queue cur _ _ _ _ _ _ _ Ev m Hm) as [H1|H1].
          -- apply Hq. right. exact H1.
          -- exact (succs_mentions g cur m H1).
        * intros m [<-|Hm]; [apply Hq; left; reflexivity | exact (Ha m Hm)].
  Qed.

  Lemma toposort_mentions (g : sgraph) order : toposort string String.eqb g = Ok (inl order) ->
    forall n, In n order -> gmentions g n.
  Proof.
    unfold toposort. intros H.
    destruct (kahn_loop string String.eqb (S (List.length (g_nodes g))) g (init_queue string String.eqb g)
                        (init_counts string String.eqb g) [] []) as [[order' visited]|es] eqn:Ek; cbn [bind] in H; [|discriminate H].
    destruct (N.of_nat (List.length visited) =? g_num_edges g).
    - injection H as <-. refine (kahn_mentions g _ _ _ _ _ _ _ _ _ Ek).
      + intros n Hn. left. unfold init_queue in Hn. apply filter_In in Hn. exact (proj1 Hn).
      + intros n [].
    - destruct (find_cycle string String.eqb g); cbn [bind] in H; discriminate H.
  Qed.

  (* the graphs Program::new builds: every successor is a node; every node has property Q *)
  Variable Q : string -> Prop.

  Definition gnodes_ok (g : sgraph) : Prop :=
    (forall n, In n (g_nodes g) -> Q n) /\
    (forall a l, In (a, l) (g_succ g) -> forall b, In b l -> In b (g_nodes g)).

  Lemma in_add_set_r x k l : x = k \/ In x l -> In x (add_set k l).
  Proof.
    unfold add_set. destruct (mem_str k l) eqn:E.
    - intros [->|H]; [exact (mem_str_in _ _ E) | exact H].
    - intros [->|H]; apply in_or_app; [right; left; reflexivity | left; exact H].
  Qed.

  Lemma in_upd {V} (m : list (string * V)) k v x y : In (x, y) (upd m k v) -> In (x, y) m \/ y = v.
  Proof.
    induction m as [|[k' v'] m IH]; cbn [upd].
    - intros [E|[]]. injection E as _ <-. right. reflexivity.
    - destruct (String.eqb k k').
      + intros [E|H]; [injection E as _ <-; right; reflexivity | left; right; exact H].
      + intros [E|H]; [left; left; exact E|]. destruct (IH H) as [H1|H1]; [left; right; exact H1 | right; exact H1].
  Qed.

  Lemma graph_insert_ok g a b : Q a -> Q b -> gnodes_ok g -> gnodes_ok (graph_insert g a b).
  Proof.
    intros Qa Qb [H1 H2]. unfold graph_insert. split; cbn [g_nodes g_succ].
    - intros n Hn. destruct (in_add_set _ _ _ Hn) as [->|Hn1]; [exact Qb|].
      destruct (in_add_set _ _ _ Hn1) as [->|Hn2]; [exact Qa | exact (H1 n Hn2)].
    - assert (Hold : forall x, In x (g_nodes g) -> In x (add_set b (add_set a (g_nodes g)))).
      { intros x Hx. apply in_add_set_r. right. apply in_add_set_r. right. exact Hx. }
      assert (Hb : In b (add_set b (add_set a (g_nodes g)))) by (apply in_add_set_r; left; reflexivity).
      intros x l Hin y Hy. destruct (lookup (g_succ g) a) as [la|] eqn:E.
      + destruct (in_upd _ _ _ _ _ Hin) as [Hin1| ->]; [exact (Hold y (H2 x l Hin1 y Hy))|].
        destruct (in_add_set _ _ _ Hy) as [->|Hy1]; [exact Hb|].
        exact (Hold y (H2 a la (lookup_In _ _ _ E) y Hy1)).
      + apply in_app_or in Hin. destruct Hin as [Hin|[E1|[]]]; [exact (Hold y (H2 x l Hin y Hy))|].
        injection E1 as _ <-. destruct Hy as [<-|[]]. exact Hb.
  Qed.

  Lemma graph_add_node_ok g a : Q a -> gnodes_ok g -> gnodes_ok (graph_add_node g a).
  Proof.
    intros Qa [H1 H2]. unfold graph_add_node. split; cbn [g_nodes g_succ].
    - intros n Hn. destruct (in_add_set _ _ _ Hn) as [->|Hn1]; [exact Qa | exact (H1 n Hn1)].
    - intros x l Hin y Hy. apply in_add_set_r. right. exact (H2 x l Hin y Hy).
  Qed.

  Lemma empty_graph_ok : gnodes_ok empty_graph.
  Proof. split; [intros n [] | intros a l []]. Qed.

  Lemma gnodes_mentions g n : gnodes_ok g -> gmentions g n -> Q n.
  Proof.
    intros [H1 H2] [H|(a & l & Hin & Hn)]; [exact (H1 n H) | exact (H1 n (H2 a l Hin n Hn))].
  Qed.
End OrderNodes.

Lemma fixed_in_names_fixed fixed ff n : In ff fixed -> In n (fixed_in_names ff) -> In n (fixed_names fixed).
Proof.
  intros Hff Hn. unfold fixed_names, fixed_wires, fixed_in_names in *.
  apply in_map_iff in Hn. destruct Hn as ([n' w] & E & Hn). cbn [fst] in E. subst n'.
  apply in_map_iff. exists (n, Bits w). split; [reflexivity|].
  apply in_flat_map. exists ff. split; [exact Hff|]. apply in_or_app. left.
  apply in_map_iff. exists (n, w). split; [reflexivity | exact Hn].
Qed.

Lemma fixed_out_name_fixed fixed ff o w : In ff fixed -> ff_out ff = Some (o, w) -> In o (fixed_names fixed).
Proof.
  intros Hff Ho. unfold fixed_names, fixed_wires.
  apply in_map_iff. exists (o, Bits w). split; [reflexivity|].
  apply in_flat_map. exists ff. split; [exact Hff|]. apply in_or_app. right. rewrite Ho. left. reflexivity.
Qed.

Section SchedulerGraph.
  Variable f : features.
  Variable fixed : list fixed_fn.
  Variable consts : list (string * wval).
  Variable assigns : list (string * expr).
  Variable known : list string.

  Definition Qn (n : string) : Prop :=
    In n (map fst assigns) \/ mem_str n known = false \/ In n (fixed_names fixed).

  Lemma assign_graph_ok : gnodes_ok Qn (assign_graph assigns known).
  Proof.
    unfold assign_graph.
    assert (H : forall l g, incl l assigns -> gnodes_ok Qn g ->
              gnodes_ok Qn (fold_left (fun g ne =>
                 fold_left (fun g1 r => if mem_str r known then g1 else graph_insert g1 r (fst ne))
                           (nodup_str (refs (snd ne))) (graph_add_node g (fst ne))) l g)).
    { induction l as [|ne l IH]; intros g Hsub Hg; cbn [fold_left]; [exact Hg|].
      apply IH; [intros x Hx; apply Hsub; right; exact Hx|].
      assert (Qne : Qn (fst ne)) by (left; apply in_map; apply Hsub; left; reflexivity).
      generalize (graph_add_node_ok Qn g (fst ne) Qne Hg). generalize (graph_add_node g (fst ne)).
      induction (nodup_str (refs (snd ne))) as [|r rs IHr]; intros g1 Hg1; cbn [fold_left]; [exact Hg1|].
      apply IHr. destruct (mem_str r known) eqn:E; [exact Hg1|].
      apply graph_insert_ok; [right; left; exact E | exact Qne | exact Hg1]. }
    apply H; [apply incl_refl | apply empty_graph_ok].
  Qed.

  Lemma preprocess_one_ok acc ff : In ff fixed -> gnodes_ok Qn (fst (fst (fst acc))) ->
    gnodes_ok Qn (fst (fst (fst (preprocess_one f consts assigns acc ff)))).
  Proof.
    intros Hff Hg. destruct acc as [[[g by_out] no_out] errs]. cbn [fst] in Hg.
    assert (Hinst : forall errs1 : list err,
      gnodes_ok Qn (fst (fst (fst (match ff_out ff with
                                   | None => (g, by_out, no_out ++ [ff], errs1)
                                   | Some (o, _) =>
                                       (fold_left (fun g1 n => graph_insert g1 n o) (fixed_in_names ff) g,
                                        upd by_out o ff, no_out, errs1)
                                   end))))).
    { intros errs1. destruct (ff_out ff) as [[o w]|] eqn:Eo; cbn [fst]; [|exact Hg].
      assert (Qo : Qn o) by (right; right; exact (fixed_out_name_fixed fixed ff o w Hff Eo)).
      assert (Hins : forall l g0, incl l (fixed_in_names ff) -> gnodes_ok Qn g0 ->
                gnodes_ok Qn (fold_left (fun g1 n => graph_insert g1 n o) l g0)).
      { induction l as [|n l IH]; intros g0 Hsub Hg0; cbn [fold_left]; [exact Hg0|].
        apply IH; [intros x Hx; apply Hsub; right; exact Hx|].
        apply graph_insert_ok; [|exact Qo | exact Hg0].
        right. right. apply (fixed_in_names_fixed fixed ff n Hff). apply Hsub. left. reflexivity. }
      apply Hins; [apply incl_refl | exact Hg]. }
    unfold preprocess_one. cbv zeta.
    destruct (filter (fun n => negb (has assigns n)) (fixed_in_names ff)) as [|m0 ms]; [apply Hinst|].
    destruct (ff_mandatory ff); [apply Hinst|]. cbn [fst]. exact Hg.
  Qed.

  Lemma preprocess_fold_ok : forall l acc, incl l fixed -> gnodes_ok Qn (fst (fst (fst acc))) ->
    gnodes_ok Qn (fst (fst (fst (fold_left (preprocess_one f consts assigns) l acc)))).
  Proof.
    induction l as [|ff l IH]; intros acc Hsub Hg; cbn [fold_left]; [exact Hg|].
    apply IH; [intros x Hx; apply Hsub; right; exact Hx|].
    apply preprocess_one_ok; [apply Hsub; left; reflexivity | exact Hg].
  Qed.

  Lemma scheduler_order_names g by_out no_out errs0 order :
    fold_left (preprocess_one f consts assigns) fixed (assign_graph assigns known, [], [], []) = (g, by_out, no_out, errs0) ->
    toposort string String.eqb g = Ok (inl order) ->
    forall n, In n order -> Qn n.
  Proof.
    intros Hf Ht n Hn.
    pose proof (preprocess_fold_ok fixed (assign_graph assigns known, [], [], []) (incl_refl _) assign_graph_ok) as Hg.
    rewrite Hf in Hg. cbn [fst] in Hg.
    exact (gnodes_mentions Qn g n Hg (toposort_mentions g order Ht n Hn)).
  Qed.
End SchedulerGraph.

Lemma in_keys_lookup {V} (m : list (string * V)) n : In n (map fst m) -> lookup m n <> None.
Proof.
  induction m as [|[k v] m IH]; cbn [map fst lookup]; [intros []|].
  intros [->|H]; [rewrite String.eqb_refl; discriminate|].
  destruct (String.eqb n k); [discriminate | exact (IH H)].
Qed.

(* ====================================================================================== *)
(* the main invariant: every diagnostic of the builder is located                          *)
(* ====================================================================================== *)
Section Main.
  Variable f : features.
  Variable fixed : list fixed_fn.
  Variable is_lower : string -> bool.
  Variable is_upper : string -> bool.

  Theorem build_located stmts es :
    build_program_sp f fixed is_lower is_upper stmts = SErr es -> Forall (located f fixed stmts) es.
  Proof.
    unfold build_program_sp.
    pose proof (pass1_inv f fixed stmts) as I.
    set (s := fold_left (step1_sp fixed) stmts (init1_sp fixed)) in *.
    destruct (ss_errs s ++ const_assigned_errors_sp s ++ const_ref_errors_sp s) as [|e0 errs1] eqn:E1.
    2:{ intros H. injection H as <-. rewrite <- E1. apply Forall_app. split; [exact (i_errs _ _ _ _ _ _ _ _ I)|].
        apply Forall_app. split.
        - exact (const_assigned_located f fixed stmts s I).
        - exact (const_ref_located f fixed stmts s I). }
    apply app_nil_both in E1. destruct E1 as [Hclean _].
    pose proof (decl_names_nodup f fixed stmts s I Hclean) as Hnd.
    destruct (resolve_located f fixed stmts s I Hclean) as [Hres1 Hres2].
    destruct (resolve_constants_sp f (ss_consts s)) as [consts|res] eqn:Er; cbn [sbind].
    2:{ intros H. injection H as <-. exact (Hres1 res eq_refl). }
    specialize (Hres2 consts eq_refl).
    assert (J : inv3 f fixed stmts s
                     (fold_left (step3_bank_sp f is_lower is_upper s consts) (ss_banks s) (mkSSt3 [] [] (ss_types s) [] [] []))).
    { apply (fold_banks f fixed is_lower is_upper stmts s I consts).
      - rewrite (i_banks _ _ _ _ _ _ _ _ I). apply incl_refl.
      - constructor; cbn [st_errs st_seen st_in_spans st_banks].
        + constructor.
        + intros n sp H. discriminate H.
        + intros n sp H. discriminate H.
        + intros b []. }
    set (t := fold_left (step3_bank_sp f is_lower is_upper s consts) (ss_banks s) (mkSSt3 [] [] (ss_types s) [] [] [])) in *.
    set (needed := fold_left (fun l x => add_set x l) (all_in_names (st_banks t)) (ss_needed s)).
    assert (Hneeded : forall n, In n needed ->
              In n (map fst (wire_list stmts)) \/ lookup (ss_decl_spans s) n = None).
    { intros n Hn. destruct (in_fold_add_set _ _ _ Hn) as [H|H].
      - right. unfold all_in_names in H. apply in_flat_map in H. destruct H as (b & Hb & H).
        apply in_map_iff in H. destruct H as (sg & <- & Hsg).
        pose proof (j_banks _ _ _ _ _ J b Hb) as Hok. rewrite Forall_forall in Hok. exact (Hok sg Hsg).
      - left. exact (i_needed _ _ _ _ _ _ _ _ I n H). }
    pose proof (unset_located f fixed stmts s I t needed J Hnd Hneeded) as Hunset.
    destruct (st_errs t ++ unset_errors_sp s t needed) as [|e4 errs4] eqn:E4.
    2:{ intros H. injection H as <-. rewrite <- E4. apply Forall_app. split; [exact (j_errs _ _ _ _ _ J) | exact Hunset]. }
    set (widths := fold_left _ consts _). set (known := all_out_names (st_banks t) ++ st_defaulted t ++ map fst consts).
    unfold assignments_to_actions_sp.
    destruct (fold_left (preprocess_one f consts (amap erase_expr (ss_assigns s))) fixed
                        (assign_graph (amap erase_expr (ss_assigns s)) known, [], [], [])) as [[[g by_out] no_out] errs0] eqn:Ep.
    destruct errs0 as [|p0 errs0]; cbn [sbind].
    2:{ intros H. injection H as <-. apply (unlocated_located f fixed stmts (p0 :: errs0)).
        pose proof (FaultDiagProofs.preprocess_comp_kinds f fixed consts (amap erase_expr (ss_assigns s))
                      (assign_graph (amap erase_expr (ss_assigns s)) known)) as Hk.
        rewrite Ep in Hk. cbn [snd] in Hk. revert Hk. apply Forall_impl.
        intros e. destruct (ek e); cbn; intros Hx; try reflexivity; discriminate Hx. }
    destruct (toposort string String.eqb g) as [[order|cyc]|tes] eqn:Et; cbn [lift sbind].
    - destruct (schedule_sp f widths consts (ss_assigns s) (ss_assign_spans s) by_out (ss_decl_spans s) order [] [] [])
        as [[acts errs] und] eqn:Es.
      assert (Hloc : Forall (located f fixed stmts) errs).
      { apply (schedule_located f fixed stmts s I consts widths by_out order [] [] [] acts errs und);
          [|split; [exact Hnd | exact (decl_names_not_fixed f fixed stmts s I Hclean)]|constructor|exact Es].
        intros n Hn Hl.
        destruct (scheduler_order_names f fixed consts _ known g by_out no_out [] order Ep Et n Hn) as [H|[H|H]].
        - exfalso. rewrite map_fst_amap in H. exact (in_keys_lookup _ n H Hl).
        - right. intros Hk. apply (mem_str_not_in n known H). unfold known. apply in_or_app. right. apply in_or_app. right.
          exact (Hres2 n Hk).
        - left. exact H. }
      destruct (errs ++ map (fun n => mkSErr UnsetUndeclaredWire [n] []) und) as [|x xs] eqn:Ex; cbn [sbind]; [discriminate|].
      intros H. injection H as <-. rewrite <- Ex. apply Forall_app. split; [exact Hloc|].
      apply Forall_forall. intros d Hd. apply in_map_iff in Hd. destruct Hd as (x0 & <- & _). apply L_nospan. reflexivity.
    - intros H. injection H as <-. constructor; [apply L_nospan; reflexivity | constructor].
    - intros H. injection H as <-. apply unlocated_located. apply internal_unlocated.
      exact (toposort_err_internal string String.eqb g tes Et).
  Qed.
End Main.

(* ====================================================================================== *)
(* (b) every reported span is a recorded span                                              *)
(* ====================================================================================== *)
Section Results.
  Variable f : features.
  Variable fixed : list fixed_fn.
  Variable is_lower : string -> bool.
  Variable is_upper : string -> bool.

  Notation loc := (located f fixed).

  Lemma reported_located stmts d : reported f fixed is_lower is_upper stmts d -> loc stmts d.
  Proof.
    intros (es & H & Hd). pose proof (build_located f fixed is_lower is_upper stmts es H) as Hall.
    rewrite Forall_forall in Hall. exact (Hall d Hd).
  Qed.

  Lemma signal_in stmts n sp : signal_of stmts n sp -> In sp (all_spans stmts).
  Proof. intros (bank & inp & outp & r & w & dd & Hreg & _). exact (proj1 (register_in _ _ _ _ _ _ _ _ Hreg)). Qed.

  Lemma located_spans stmts d : loc stmts d -> forall sp, In sp (se_spans d) -> In sp (all_spans stmts).
  Proof.
    intros H sp Hsp. destruct H; cbn [se_spans] in Hsp.
    - destruct (consecutive_in _ _ _ _ H) as [H1 H2].
      destruct Hsp as [<-|[<-|[]]]; eapply decl_in_spans; eassumption.
    - destruct Hsp as [<-|[<-|[]]].
      + exact (proj1 (bank_in _ _ _ _ H0)).
      + exact (decl_in_spans _ _ _ (latest_in _ _ _ H)).
    - destruct Hsp as [<-|[<-|[]]]; [exact (signal_in _ _ _ H0) | exact (decl_in_spans _ _ _ (latest_in _ _ _ H))].
    - destruct Hsp as [<-|[]]. exact (decl_in_spans _ _ _ H).
    - destruct (consecutive_in _ _ _ _ H) as [H1 H2].
      destruct Hsp as [<-|[<-|[]]]; [exact (proj1 (target_in _ _ _ _ H2)) | exact (proj1 (target_in _ _ _ _ H1))].
    - destruct Hsp as [<-|[]]. exact (proj1 (target_in _ _ _ _ H)).
    - destruct Hsp as [<-|[<-|[]]];
        [exact (proj1 (target_in _ _ _ _ (latest_in _ _ _ H))) | exact (decl_in_spans _ _ _ (latest_in _ _ _ H0))].
    - destruct Hsp as [<-|[]]. exact (node_span_in stmts root _ (const_in_exprs _ _ _ H0) H1).
    - destruct Hsp as [<-|[]]. exact (node_span_in stmts root _ (proj2 (register_in _ _ _ _ _ _ _ _ H)) H0).
    - exact (node_spans_in stmts root sp (const_in_exprs _ _ _ (latest_in _ _ _ H)) (expr_fault_spans _ _ _ _ _ H1 sp Hsp)).
    - exact (node_spans_in stmts root sp (const_in_exprs _ _ _ (latest_in _ _ _ H)) (eval_fault_spans _ _ H1 sp Hsp)).
    - exact (node_spans_in stmts root sp (proj2 (register_in _ _ _ _ _ _ _ _ H)) (expr_fault_spans _ _ _ _ _ H0 sp Hsp)).
    - exact (node_spans_in stmts root sp (proj2 (register_in _ _ _ _ _ _ _ _ H)) (eval_fault_spans _ _ H0 sp Hsp)).
    - exact (node_spans_in stmts root sp (proj2 (target_in _ _ _ _ (latest_in _ _ _ H))) (expr_fault_spans _ _ _ _ _ H0 sp Hsp)).
    - destruct Hsp.
    - destruct Hsp as [<-|[]]. exact (proj1 (bank_in _ _ _ _ H)).
    - destruct Hsp as [<-|[<-|[]]];
        [exact (proj1 (register_in _ _ _ _ _ _ _ _ H)) | exact (proj1 (target_in _ _ _ _ (latest_in _ _ _ H1)))].
    - destruct Hsp as [<-|[<-|[]]]; [exact (signal_in _ _ _ H) | exact (signal_in _ _ _ H0)].
    - destruct Hsp as [<-|[]]. apply (node_span_in stmts dd dd (proj2 (register_in _ _ _ _ _ _ _ _ H))). apply enodes_self.
    - destruct Hsp as [<-|[]]. exact (decl_in_spans _ _ _ (latest_in _ _ _ H)).
    - destruct Hsp as [<-|[]]. exact (proj1 (register_in _ _ _ _ _ _ _ _ H)).
    - destruct Hsp as [<-|[]]. exact (proj1 (target_in _ _ _ _ (latest_in _ _ _ H))).
    - destruct Hsp as [<-|[]]. apply (node_span_in stmts e e (proj2 (target_in _ _ _ _ (latest_in _ _ _ H)))). apply enodes_self.
  Qed.

  Theorem error_spans_are_recorded_spans_holds : stmt_error_spans_are_recorded_spans f fixed is_lower is_upper.
  Proof. intros stmts d sp Hr Hsp. exact (located_spans stmts d (reported_located stmts d Hr) sp Hsp). Qed.

  (* ==================================================================================== *)
  (* (c) kind by kind                                                                      *)
  (* ==================================================================================== *)
  (* a checker / evaluator complaint has one of the kinds of the checker / the evaluator *)
  Ltac fault_kinds Hk :=
    repeat match goal with
           | H : expr_fault _ _ _ _ _ |- _ => destruct H; cbn [se_kind] in Hk; try discriminate Hk
           | H : eval_fault _ _ |- _ =>
               let Hrt := fresh "Hrt" in
               destruct H as [| |? Hrt]; cbn [se_kind] in Hk; try discriminate Hk;
               try (destruct Hrt as [Hrt|Hrt]; rewrite Hrt in Hk; discriminate Hk)
           end.
  (* the cases of [located] that cannot have the kind Hk says *)
  Ltac other_kinds Hk :=
    cbn [se_kind] in Hk; try discriminate Hk;
    try (match goal with H : _ = NonConstantWireRead \/ _ = UndeclaredWireRead |- _ =>
           destruct H as [H|H]; rewrite H in Hk; discriminate Hk end);
    try (match goal with H : unlocated_kind _ = true |- _ => rewrite Hk in H; discriminate H end);
    fault_kinds Hk.

  Theorem span_of_RedeclaredWire_holds : stmt_span_of_RedeclaredWire f fixed is_lower is_upper.
  Proof.
    intros stmts d Hr Hk. pose proof (reported_located stmts d Hr) as Hl.
    destruct Hl; other_kinds Hk.
    - exists n, new, old. repeat (split; [reflexivity|]). left. assumption.
    - exists n, new, old. repeat (split; [reflexivity|]). right. split; [assumption|]. left.
      exists bank, regs, inp, outp. repeat (split; [assumption|]). assumption.
    - exists n, new, old. repeat (split; [reflexivity|]). right. split; [assumption|]. right.
      destruct H0 as (bank & inp & outp & r & w & dd & Hreg & Hn). exists bank, inp, outp, r, w, dd. split; assumption.
  Qed.

  Theorem span_of_RedeclaredBuiltinWire_holds : stmt_span_of_RedeclaredBuiltinWire f fixed is_lower is_upper.
  Proof.
    intros stmts d Hr Hk. pose proof (reported_located stmts d Hr) as Hl.
    destruct Hl; other_kinds Hk. exists n, sp. repeat (split; [first [reflexivity | assumption]|]). assumption.
  Qed.

  Theorem span_of_DoubleAssignedWire_holds : stmt_span_of_DoubleAssignedWire f fixed is_lower is_upper.
  Proof.
    intros stmts d Hr Hk. pose proof (reported_located stmts d Hr) as Hl.
    destruct Hl; other_kinds Hk. exists n, new, old, enew, eold. repeat (split; [reflexivity|]). assumption.
  Qed.

  Theorem span_of_DoubleAssignedFixedOutWire_holds : stmt_span_of_DoubleAssignedFixedOutWire f fixed is_lower is_upper.
  Proof.
    intros stmts d Hr Hk. pose proof (reported_located stmts d Hr) as Hl.
    destruct Hl; other_kinds Hk. exists n, sp, e. repeat (split; [first [reflexivity | assumption]|]). assumption.
  Qed.

  Theorem span_of_ConstantAssigned_holds : stmt_span_of_ConstantAssigned f fixed is_lower is_upper.
  Proof.
    intros stmts d Hr Hk. pose proof (reported_located stmts d Hr) as Hl.
    destruct Hl; other_kinds Hk. exists n, asp, csp, e. repeat (split; [first [reflexivity | assumption]|]). assumption.
  Qed.

  Theorem span_of_NonConstantWireRead_holds : stmt_span_of_NonConstantWireRead f fixed is_lower is_upper.
  Proof.
    intros stmts d Hr Hk. pose proof (reported_located stmts d Hr) as Hl.
    destruct Hl; other_kinds Hk.
    - exists r, sp, root. repeat (split; [first [reflexivity | assumption]|]). left.
      apply (in_map snd _ (n, root)). assumption.
    - exists r, sp, root. repeat (split; [first [reflexivity | assumption]|]). right.
      exists bank, inp, outp, rn, w, rsp. assumption.
  Qed.

  Theorem span_of_UndeclaredWireRead_holds : stmt_span_of_UndeclaredWireRead f fixed is_lower is_upper.
  Proof.
    intros stmts d Hr Hk. pose proof (reported_located stmts d Hr) as Hl.
    destruct Hl; other_kinds Hk.
    - exists r, sp, root. repeat (split; [reflexivity|]). split; [exact (const_in_exprs _ _ _ H0) | assumption].
    - exists n0, sp, root. repeat (split; [reflexivity|]).
      split; [exact (const_in_exprs _ _ _ (latest_in _ _ _ H)) | assumption].
    - exists n0, sp, root. repeat (split; [reflexivity|]).
      split; [exact (const_in_exprs _ _ _ (latest_in _ _ _ H)) | assumption].
    - exists n, sp, root. repeat (split; [reflexivity|]).
      split; [exact (proj2 (register_in _ _ _ _ _ _ _ _ H)) | assumption].
    - exists n, sp, root. repeat (split; [reflexivity|]).
      split; [exact (proj2 (register_in _ _ _ _ _ _ _ _ H)) | assumption].
    - exists n0, sp, root. repeat (split; [reflexivity|]).
      split; [exact (proj2 (target_in _ _ _ _ (latest_in _ _ _ H))) | assumption].
  Qed.

  Theorem span_of_InvalidRegisterBankName_holds : stmt_span_of_InvalidRegisterBankName f fixed is_lower is_upper.
  Proof.
    intros stmts d Hr Hk. pose proof (reported_located stmts d Hr) as Hl.
    destruct Hl; other_kinds Hk. exists b, sp, regs. repeat (split; [reflexivity|]). assumption.
  Qed.

  Theorem span_of_DoubleAssignedRegisterWire_holds : stmt_span_of_DoubleAssignedRegisterWire f fixed is_lower is_upper.
  Proof.
    intros stmts d Hr Hk. pose proof (reported_located stmts d Hr) as Hl.
    destruct Hl; other_kinds Hk. exists o, rsp, asp, bank, inp, outp, r, w, dd, e.
    repeat (split; [first [reflexivity | assumption]|]). assumption.
  Qed.

  Theorem span_of_DoubleDeclaredRegisterOutWire_holds : stmt_span_of_DoubleDeclaredRegisterOutWire f fixed is_lower is_upper.
  Proof.
    intros stmts d Hr Hk. pose proof (reported_located stmts d Hr) as Hl.
    destruct Hl; other_kinds Hk. exists n, old, new. repeat (split; [reflexivity|]). split; assumption.
  Qed.

  Theorem span_of_MismatchedRegisterDefaultWidths_holds : stmt_span_of_MismatchedRegisterDefaultWidths f fixed is_lower is_upper.
  Proof.
    intros stmts d Hr Hk. pose proof (reported_located stmts d Hr) as Hl.
    destruct Hl; other_kinds Hk. exists bank, r, inp, outp, w, dd, rsp. repeat (split; [reflexivity|]). assumption.
  Qed.

  Theorem span_of_UnsetWire_holds : stmt_span_of_UnsetWire f fixed is_lower is_upper.
  Proof.
    intros stmts d Hr Hk. pose proof (reported_located stmts d Hr) as Hl.
    destruct Hl; other_kinds Hk. exists n, sp. repeat (split; [first [reflexivity | assumption]|]). assumption.
  Qed.

  Theorem span_of_UnsetRegisterInputWire_holds : stmt_span_of_UnsetRegisterInputWire f fixed is_lower is_upper.
  Proof.
    intros stmts d Hr Hk. pose proof (reported_located stmts d Hr) as Hl.
    destruct Hl; other_kinds Hk. exists n, sp, bank, inp, outp, r, w, dd.
    repeat (split; [first [reflexivity | assumption]|]). assumption.
  Qed.

  Theorem span_of_UndeclaredWireAssigned_holds : stmt_span_of_UndeclaredWireAssigned f fixed is_lower is_upper.
  Proof.
    intros stmts d Hr Hk. pose proof (reported_located stmts d Hr) as Hl.
    destruct Hl; other_kinds Hk. exists n, sp, e. repeat (split; [reflexivity|]). assumption.
  Qed.

  Theorem span_of_MismatchedWireWidths_holds : stmt_span_of_MismatchedWireWidths f fixed is_lower is_upper.
  Proof.
    intros stmts d Hr Hk. pose proof (reported_located stmts d Hr) as Hl.
    destruct Hl; other_kinds Hk. exists n, nsp, e. repeat (split; [reflexivity|]). assumption.
  Qed.

  Theorem span_of_expression_kinds_holds : stmt_span_of_expression_kinds f fixed is_lower is_upper.
  Proof.
    intros stmts d Hr Hk. pose proof (reported_located stmts d Hr) as Hl.
    destruct Hl; try (cbn [se_kind expr_kind] in Hk; discriminate Hk).
    - destruct H as [-> | ->]; discriminate Hk.
    - exists root. split; [exact (const_in_exprs _ _ _ (latest_in _ _ _ H))|]. left. exists G, C. assumption.
    - exists root. split; [exact (const_in_exprs _ _ _ (latest_in _ _ _ H))|]. right. assumption.
    - exists root. split; [exact (proj2 (register_in _ _ _ _ _ _ _ _ H))|]. left. exists G, C. assumption.
    - exists root. split; [exact (proj2 (register_in _ _ _ _ _ _ _ _ H))|]. right. assumption.
    - exists root. split; [exact (proj2 (target_in _ _ _ _ (latest_in _ _ _ H)))|]. left. exists G, C. assumption.
    - cbn [se_kind] in Hk. destruct k; cbn in H, Hk; discriminate.
  Qed.

  Theorem unlocated_kinds_holds : stmt_unlocated_kinds f fixed is_lower is_upper.
  Proof.
    intros stmts d Hr Hk. pose proof (reported_located stmts d Hr) as Hl.
    destruct Hl; try (cbn [se_kind unlocated_kind] in Hk; discriminate Hk); try reflexivity.
    - destruct H as [-> | ->]; discriminate Hk.
    - destruct H1; cbn [se_kind unlocated_kind] in Hk; discriminate Hk.
    - destruct H1; cbn [se_kind unlocated_kind] in Hk; try discriminate Hk. reflexivity.
    - destruct H0; cbn [se_kind unlocated_kind] in Hk; discriminate Hk.
    - destruct H0; cbn [se_kind unlocated_kind] in Hk; try discriminate Hk. reflexivity.
    - destruct H0; cbn [se_kind unlocated_kind] in Hk; discriminate Hk.
  Qed.
End Results.

(* ====================================================================================== *)
(* (b) composed with the parser and the renderer                                           *)
(* ====================================================================================== *)
Theorem build_diagnostics_located_holds : stmt_build_diagnostics_located.
Proof.
  intros f fixed lo up uc utext fname stmts es Hsc Hparse Hbuild user fc.
  destruct gen_preamble_ok_holds as (ptext & ptoks & Hpre & Hscp & Hlex).
  assert (Htext : preamble_bytes ++ utf8 utext = utf8 ((ptext ++ [10]) ++ utext)).
  { rewrite TriviaProofs.utf8_app, <- Hpre. reflexivity. }
  assert (Hsc' : Forall scalar ((ptext ++ [10]) ++ utext)) by (apply Forall_app; split; assumption).
  pose proof Hparse as Hparse'. rewrite Htext in Hparse'.
  destruct (spans_in_text_holds uc doc_tiers _ stmts Hsc' Hparse') as (toks & Hl & Ho & Hall).
  exists toks. unfold user. rewrite Htext. split; [exact Hl|]. split; [exact Ho|].
  intros d sp Hd Hsp.
  assert (Hrec : In sp (all_spans stmts)).
  { apply (error_spans_are_recorded_spans_holds f fixed lo up stmts d sp); [|exact Hsp]. exists es. split; assumption. }
  apply in_flat_map in Hrec. destruct Hrec as (s0 & Hs0 & Hsp0).
  destruct (Hall s0 sp Hs0 Hsp0) as (Hal & Hlt & Hle).
  split; [exists s0; split; assumption|]. split; [exact Hal|]. split; [exact Hlt|]. split; [exact Hle|].
  intros s1 Hs1 Hsp1.
  exact (user_span_rendered_in_user_file_gen_holds uc utext fname stmts Hsc Hparse s1 sp Hs1 Hsp1).
Qed.

(* ====================================================================================== *)
(* (d) user faults and the preamble                                                        *)
(* ====================================================================================== *)
Lemma all_const_lists pre : Forall (fun s => exists d, s = SSConst d) pre ->
  target_list pre = [] /\ bank_list pre = [] /\ wire_list pre = [] /\
  map fst (decl_list pre) = map fst (const_list pre).
Proof.
  induction 1 as [|s pre (d & ->) _ (I1 & I2 & I3 & I4)].
  - repeat split.
  - unfold target_list, bank_list, wire_list, decl_list, const_list in *. cbn [flat_map targets_of_stmt banks_of_stmt wire_decls_of_stmt].
    rewrite I1, I2, I3. repeat (split; [reflexivity|]).
    rewrite !map_app, I4. f_equal. cbn [decls_of_stmt consts_of_stmt]. rewrite !map_map. reflexivity.
Qed.

Lemma consecutive_split {A} (a b : list (string * A)) n old new :
  consecutive (a ++ b) n old new -> NoDup (map fst a) ->
  In (n, new) b /\ (In (n, old) a \/ In (n, old) b).
Proof.
  intros (l1 & l2 & l3 & E & _) Hnd.
  assert (E' : a ++ b = (l1 ++ (n, old) :: l2) ++ (n, new) :: l3) by (rewrite E, <- app_assoc; reflexivity).
  destruct (app_eq_app _ _ _ _ E') as (l & [[H1 H2]|[H1 H2]]).
  - (* a = (l1 ++ old :: l2) ++ l,  new :: l3 = l ++ b *)
    destruct l as [|x l].
    + rewrite app_nil_r in H1. cbn [app] in H2. split; [rewrite <- H2; left; reflexivity|].
      left. rewrite H1. apply in_or_app. right. left. reflexivity.
    + exfalso. cbn [app] in H2. injection H2 as <- _.
      rewrite H1, !map_app in Hnd. cbn [map fst app] in Hnd.
      rewrite <- app_assoc in Hnd. cbn [app] in Hnd.
      apply NoDup_remove_2 in Hnd. apply Hnd.
      apply in_or_app. right. apply in_or_app. right. left. reflexivity.
  - (* l1 ++ old :: l2 = a ++ l,  b = l ++ new :: l3 *)
    split; [rewrite H2; apply in_or_app; right; left; reflexivity|].
    assert (Hin : In (n, old) (a ++ l)) by (rewrite <- H1; apply in_or_app; right; left; reflexivity).
    apply in_app_or in Hin. destruct Hin as [Hin|Hin]; [left; exact Hin|].
    right. rewrite H2. apply in_or_app. left. exact Hin.
Qed.

Section Preamble.
  Variable f : features.
  Variable fixed : list fixed_fn.
  Variable is_lower : string -> bool.
  Variable is_upper : string -> bool.

  Theorem user_faults_not_attributed_to_preamble_holds :
    stmt_user_faults_not_attributed_to_preamble f fixed is_lower is_upper.
  Proof.
    intros pre user d (P1 & P2 & P3 & P5) Hr.
    pose proof (reported_located f fixed is_lower is_upper (pre ++ user) d Hr) as Hl.
    destruct (all_const_lists pre P1) as (HT & HB & HW & HDK).
    assert (ET : target_list (pre ++ user) = target_list user) by (rewrite target_list_app, HT; reflexivity).
    assert (EB : bank_list (pre ++ user) = bank_list user) by (rewrite bank_list_app, HB; reflexivity).
    assert (EW : wire_list (pre ++ user) = wire_list user) by (rewrite wire_list_app, HW; reflexivity).
    assert (Hreg : forall bank inp outp r w dd rsp, register_of (pre ++ user) bank inp outp r w dd rsp ->
                                                    register_of user bank inp outp r w dd rsp).
    { intros bank inp outp r w dd rsp (nsp & regs & H1 & H2 & H3). rewrite EB in H1. exists nsp, regs. repeat split; assumption. }
    assert (Hsig : forall n sp, signal_of (pre ++ user) n sp -> In sp (all_spans user)).
    { intros n sp (bank & inp & outp & r & w & dd & H & _). exact (proj1 (register_in _ _ _ _ _ _ _ _ (Hreg _ _ _ _ _ _ _ H))). }
    assert (Hdecl : forall n sp, In (n, sp) (decl_list (pre ++ user)) -> In (n, sp) (decl_list pre) \/ In sp (all_spans user)).
    { intros n sp H. rewrite decl_list_app in H. apply in_app_or in H.
      destruct H as [H|H]; [left; exact H | right; exact (decl_in_spans _ _ _ H)]. }
    assert (Htgt : forall n sp e, In (n, (sp, e)) (target_list (pre ++ user)) -> In sp (all_spans user) /\ In e (all_exprs user)).
    { intros n sp e H. rewrite ET in H. exact (target_in _ _ _ _ H). }
    (* a constant of the preamble is flawless *)
    assert (Hpre_const : forall n root, In (n, root) (const_list pre) ->
              (forall sp r, In (SEWire sp r) (enodes root) -> In r (map fst (const_list (pre ++ user)))) /\
              (NoDup (map fst (const_list (pre ++ user))) -> ~ ref_to_literal (pre ++ user) root -> is_literal root)).
    { intros n root Hin. destruct (P5 n root Hin) as [Hlit|(sp0 & c & lit & -> & Hc & Hlit)].
      - split; [|intros _ _; exact Hlit]. destruct Hlit as (sp0 & v & ->).
        intros sp r Hn. rewrite enodes_eq in Hn. destruct Hn as [E|[]]. discriminate E.
      - split.
        + intros sp r Hn. rewrite enodes_eq in Hn. destruct Hn as [E|[]]. injection E as _ <-.
          rewrite const_list_app, map_app. apply in_or_app. left. exact (in_map fst _ _ Hc).
        + intros Hnd Hnot. exfalso. apply Hnot. exists sp0, c, lit. split; [reflexivity|]. split; [|exact Hlit].
          apply (nodup_latest _ _ _ Hnd). rewrite const_list_app. apply in_or_app. left. exact Hc. }
    assert (Hconst : forall n root, In (n, root) (const_list (pre ++ user)) ->
              In (n, root) (const_list pre) \/ In root (all_exprs user)).
    { intros n root H. rewrite const_list_app in H. apply in_app_or in H.
      destruct H as [H|H]; [left; exact H | right; exact (const_in_exprs _ _ _ H)]. }
    assert (Hleft1 : forall sp0, In sp0 (all_spans user) -> forall sp, In sp [sp0] -> In sp (all_spans user)).
    { intros sp0 H sp [<-|[]]. exact H. }
    assert (Hleft2 : forall a b, In a (all_spans user) -> In b (all_spans user) -> forall sp, In sp [a; b] -> In sp (all_spans user)).
    { intros a b Ha Hb sp [<-|[<-|[]]]; assumption. }
    destruct Hl; cbn [se_kind se_names se_spans].
    - (* redeclared: declaration after declaration *)
      rewrite decl_list_app in H. destruct (consecutive_split _ _ _ _ _ H P2) as (Hnew & Hold).
      pose proof (decl_in_spans _ _ _ Hnew) as Hn.
      destruct Hold as [Hold|Hold].
      + right. exists n, new, old. repeat (split; [first [reflexivity | left; reflexivity | assumption]|]). exact Hold.
      + left. apply Hleft2; [exact Hn | exact (decl_in_spans _ _ _ Hold)].
    - (* redeclared: a control signal of a bank *)
      rewrite EB in H0. pose proof (proj1 (bank_in _ _ _ _ H0)) as Hn.
      destruct (Hdecl _ _ (latest_in _ _ _ H)) as [Hold|Hold].
      + right. exists n, new, old. repeat (split; [first [reflexivity | left; reflexivity | assumption]|]). exact Hold.
      + left. apply Hleft2; assumption.
    - (* redeclared: a signal of a register *)
      pose proof (Hsig _ _ H0) as Hn.
      destruct (Hdecl _ _ (latest_in _ _ _ H)) as [Hold|Hold].
      + right. exists n, new, old. repeat (split; [first [reflexivity | left; reflexivity | assumption]|]). exact Hold.
      + left. apply Hleft2; assumption.
    - (* a built-in name *)
      left. apply Hleft1. destruct (Hdecl _ _ H) as [Hp|Hu]; [|exact Hu].
      exfalso. exact (P3 n (in_map fst _ _ Hp) H0).
    - left. destruct (consecutive_in _ _ _ _ H) as [H1 H2].
      apply Hleft2; [exact (proj1 (Htgt _ _ _ H2)) | exact (proj1 (Htgt _ _ _ H1))].
    - left. apply Hleft1. exact (proj1 (Htgt _ _ _ H)).
    - (* a constant is assigned *)
      pose proof (proj1 (Htgt _ _ _ (latest_in _ _ _ H))) as Ha.
      destruct (Hdecl _ _ (latest_in _ _ _ H0)) as [Hc|Hc].
      + right. exists n, asp, csp. repeat (split; [first [reflexivity | right; reflexivity | assumption]|]). exact Hc.
      + left. apply Hleft2; assumption.
    - (* a constant reads a non-constant *)
      left. apply Hleft1. destruct (Hconst _ _ H0) as [Hp|Hu]; [|exact (node_span_in _ _ _ Hu H1)].
      exfalso. apply H2. exact (proj1 (Hpre_const _ _ Hp) sp r H1).
    - left. apply Hleft1. exact (node_span_in _ _ _ (proj2 (register_in _ _ _ _ _ _ _ _ (Hreg _ _ _ _ _ _ _ H))) H0).
    - (* the checker on a constant *)
      left. intros sp Hsp. destruct (Hconst _ _ (latest_in _ _ _ H)) as [Hp|Hu].
      + exfalso. exact (literal_no_fault f G C root d (proj2 (Hpre_const _ _ Hp) H0 H2) H1).
      + exact (node_spans_in _ _ _ Hu (expr_fault_spans _ _ _ _ _ H1 sp Hsp)).
    - (* the evaluator on a constant *)
      left. intros sp Hsp. destruct (Hconst _ _ (latest_in _ _ _ H)) as [Hp|Hu].
      + exfalso. destruct (proj2 (Hpre_const _ _ Hp) H0 H2) as (sp0 & v & ->).
        assert (Hn : forall x, In x (enodes (SEConst sp0 v)) -> x = SEConst sp0 v).
        { intros x Hx. rewrite enodes_eq in Hx. destruct Hx as [<-|[]]. reflexivity. }
        destruct H1 as [? ? Hx|? ? ? ? Hx|]; [apply Hn in Hx; discriminate Hx | apply Hn in Hx; discriminate Hx | destruct Hsp].
      + exact (node_spans_in _ _ _ Hu (eval_fault_spans _ _ H1 sp Hsp)).
    - left. intros sp Hsp.
      exact (node_spans_in _ _ _ (proj2 (register_in _ _ _ _ _ _ _ _ (Hreg _ _ _ _ _ _ _ H))) (expr_fault_spans _ _ _ _ _ H0 sp Hsp)).
    - left. intros sp Hsp.
      exact (node_spans_in _ _ _ (proj2 (register_in _ _ _ _ _ _ _ _ (Hreg _ _ _ _ _ _ _ H))) (eval_fault_spans _ _ H0 sp Hsp)).
    - left. intros sp Hsp.
      exact (node_spans_in _ _ _ (proj2 (Htgt _ _ _ (latest_in _ _ _ H))) (expr_fault_spans _ _ _ _ _ H0 sp Hsp)).
    - left. intros sp [].
    - left. apply Hleft1. rewrite EB in H. exact (proj1 (bank_in _ _ _ _ H)).
    - left. apply Hleft2.
      + exact (proj1 (register_in _ _ _ _ _ _ _ _ (Hreg _ _ _ _ _ _ _ H))).
      + exact (proj1 (Htgt _ _ _ (latest_in _ _ _ H1))).
    - left. apply Hleft2; [exact (Hsig _ _ H) | exact (Hsig _ _ H0)].
    - left. apply Hleft1.
      apply (node_span_in user dd dd (proj2 (register_in _ _ _ _ _ _ _ _ (Hreg _ _ _ _ _ _ _ H)))). apply enodes_self.
    - (* an unassigned wire *)
      left. apply Hleft1. rewrite EW in H1. exact (decl_in_spans _ _ _ (wire_in_decls _ _ _ H1)).
    - left. apply Hleft1. exact (proj1 (register_in _ _ _ _ _ _ _ _ (Hreg _ _ _ _ _ _ _ H))).
    - left. apply Hleft1. exact (proj1 (Htgt _ _ _ (latest_in _ _ _ H))).
    - left. apply Hleft1.
      apply (node_span_in user e e (proj2 (Htgt _ _ _ (latest_in _ _ _ H)))). apply enodes_self.
  Qed.
End Preamble.

(* ---- the draft without the exception is false -------------------------------------------------- *)
Definition ex_lit (sp : srcspan) : sexpr := SEConst sp (mkV 1 Unl).
Definition ex_pre : list sstmt := [SSConst [("K", (0, 1)%nat, ex_lit (4, 5)%nat)]].
Definition ex_redecl : list sstmt := [SSConst [("K", (13, 14)%nat, ex_lit (17, 18)%nat)]].

Lemma ex_pre_like : preamble_like gen_fixed ex_pre.
Proof.
  split; [repeat constructor; eexists; reflexivity|].
  split; [cbn; repeat constructor; intros []|].
  split.
  { intros n [<-|[]]. vm_compute. intuition discriminate. }
  intros n e [E|[]]. injection E as <- <-. left. eexists. eexists. reflexivity.
Qed.

Lemma user_faults_never_show_preamble_refuted :
  ~ stmt_user_faults_never_show_preamble gen_features gen_fixed ascii_lower ascii_upper.
Proof.
  intros H.
  specialize (H ex_pre ex_redecl (mkSErr RedeclaredWire ["K"] [(13, 14)%nat; (0, 1)%nat]) (0, 1)%nat ex_pre_like).
  assert (Hr : reported gen_features gen_fixed ascii_lower ascii_upper (ex_pre ++ ex_redecl)
                        (mkSErr RedeclaredWire ["K"] [(13, 14)%nat; (0, 1)%nat])).
  { eexists. split; [vm_compute; reflexivity | left; reflexivity]. }
  specialize (H Hr (or_intror (or_introl eq_refl))).
  vm_compute in H. intuition discriminate.
Qed.

(* ====================================================================================== *)
(* the compiled preamble                                                                    *)
(* ====================================================================================== *)
Definition preamble_stmts : list sstmt :=
  match parse_text_sp test_uclass doc_tiers preamble_bytes with Some l => l | None => [] end.

Fixpoint nodupb (l : list string) : bool :=
  match l with [] => true | x :: r => negb (mem_str x r) && nodupb r end.

Lemma nodupb_sound l : nodupb l = true -> NoDup l.
Proof.
  induction l as [|x l IH]; cbn [nodupb]; intros H; [constructor|].
  apply andb_true_iff in H. destruct H as [H1 H2]. apply negb_true_iff in H1.
  constructor; [exact (mem_str_not_in x l H1) | exact (IH H2)].
Qed.

Definition is_literalb (e : sexpr) : bool := match e with SEConst _ _ => true | _ => false end.
Lemma is_literalb_sound e : is_literalb e = true -> is_literal e.
Proof. destruct e; cbn; intros H; try discriminate H. eexists. eexists. reflexivity. Qed.

Definition preamble_likeb (fixed : list fixed_fn) (pre : list sstmt) : bool :=
  forallb (fun s => match s with SSConst _ => true | _ => false end) pre &&
  nodupb (map fst (decl_list pre)) &&
  forallb (fun n => negb (mem_str n (fixed_names fixed))) (map fst (decl_list pre)) &&
  forallb (fun ne : string * sexpr =>
             is_literalb (snd ne) ||
             match snd ne with
             | SEWire _ c => existsb (fun ce : string * sexpr => String.eqb c (fst ce) && is_literalb (snd ce)) (const_list pre)
             | _ => false
             end) (const_list pre).

Lemma preamble_likeb_sound fixed pre : preamble_likeb fixed pre = true -> preamble_like fixed pre.
Proof.
  unfold preamble_likeb. intros H.
  apply andb_true_iff in H. destruct H as [H H5].
  apply andb_true_iff in H. destruct H as [H H3]. apply andb_true_iff in H. destruct H as [H1 H2].
  rewrite forallb_forall in H1, H3, H5.
  split.
  { apply Forall_forall. intros s Hs. specialize (H1 s Hs). destruct s; try discriminate H1. eexists. reflexivity. }
  split; [exact (nodupb_sound _ H2)|].
  split.
  { intros n Hn Hf. specialize (H3 n Hn). apply negb_true_iff in H3. exact (mem_str_not_in _ _ H3 Hf). }
  intros n e Hin. specialize (H5 (n, e) Hin). cbn [snd] in H5.
  apply orb_true_iff in H5. destruct H5 as [H5|H5]; [left; exact (is_literalb_sound e H5)|].
  destruct e; try discriminate H5. right.
  apply existsb_exists in H5. destruct H5 as ([c lit] & Hc & Hb). cbn [fst snd] in Hb.
  apply andb_true_iff in Hb. destruct Hb as [Hb1 Hb2]. apply String.eqb_eq in Hb1. subst c.
  exists sp, n0, lit. split; [reflexivity|]. split; [exact Hc | exact (is_literalb_sound lit Hb2)].
Qed.

Lemma gen_preamble_like : preamble_like gen_fixed preamble_stmts.
Proof. apply preamble_likeb_sound. vm_compute. reflexivity. Qed.

(* ---- the statements of a prefix that ends every statement are unchanged in the whole ----------- *)
Section PrefixExact.
  Variable tiers : list tier.

  (* no statement, begun anywhere in a, runs to the very end of a without its ";" *)
  Fixpoint no_open_tail (a : list tok) : bool :=
    match a with
    | [] => true
    | _ :: r =>
        match parse_statement_sp tiers (20 * S (List.length a)) a with
        | Some (_, NeedSemi, []) => false
        | _ => true
        end && no_open_tail r
    end.

  Lemma no_open_tail_sound : forall p a a' s, no_open_tail a = true -> a = p ++ a' ->
    parse_statement_sp tiers (20 * S (List.length a')) a' <> Some (s, NeedSemi, []).
  Proof.
    induction p as [|t p IH]; intros a a' s H E.
    - cbn [app] in E. subst a'. destruct a as [|t a]; [cbn; discriminate|].
      cbn [no_open_tail] in H. apply andb_true_iff in H. destruct H as [H _].
      intros Hp. rewrite Hp in H. discriminate H.
    - destruct a as [|t0 a]; [discriminate E|]. cbn [app] in E. injection E as _ E.
      cbn [no_open_tail] in H. apply andb_true_iff in H. destruct H as [_ H]. exact (IH a a' s H E).
  Qed.

  Lemma stmts_prefix_exact : forall fa a seen acca resa,
    parse_statements_sp tiers fa a seen acca = Some resa ->
    (forall p a' s, a = p ++ a' -> parse_statement_sp tiers (20 * S (List.length a')) a' <> Some (s, NeedSemi, [])) ->
    forall f u acc res, parse_statements_sp tiers f (a ++ u) seen acc = Some res ->
      exists newsa news, resa = rev acca ++ newsa /\ res = rev acc ++ newsa ++ news.
  Proof.
    induction fa as [|fa IH]; intros a seen acca resa Ha Hno f u acc res Hc; [discriminate Ha|].
    cbn [parse_statements_sp] in Ha.
    destruct a as [|t a1].
    { destruct seen; [|discriminate Ha]. injection Ha as <-. cbn [app] in Hc.
      destruct (run_in_tail tiers _ _ _ _ _ Hc) as (news & Hres & _).
      exists [], news. split; [rewrite app_nil_r; reflexivity | exact Hres]. }
    destruct f as [|f]; [discriminate Hc|]. cbn [parse_statements_sp app] in Hc.
    destruct (token_eqb (tk t) TSemicolon) eqn:Esemi.
    { destruct seen; [|discriminate Ha]. apply (IH _ _ _ _ Ha) with (f := f) (u := u) (acc := acc) (res := res); [|exact Hc].
      intros p a' s E. apply (Hno (t :: p)). rewrite E. reflexivity. }
    change (t :: a1 ++ u) with ((t :: a1) ++ u) in Hc.
    set (Fa := (20 * S (List.length (t :: a1)))%nat) in Ha.
    set (F := (20 * S (List.length ((t :: a1) ++ u)))%nat) in Hc.
    assert (HF : (Fa <= F)%nat) by (unfold Fa, F; rewrite app_length; lia).
    destruct (parse_statement_sp tiers Fa (t :: a1)) as [[[sa ka] resta]|] eqn:Esa; [|discriminate Ha].
    destruct (statement_stable tiers _ _ _ _ _ Esa) as (w & Hw & Hwne & St).
    assert (Hsame : forall rest', ka = NoSemi \/ compat resta rest' ->
              parse_statement_sp tiers F ((t :: a1) ++ u) = parse_statement_sp tiers F (w ++ rest') ->
              parse_statement_sp tiers F ((t :: a1) ++ u) = Some (sa, ka, rest')).
    { intros rest' Hk Heq. rewrite Heq. exact (St F rest' HF Hk). }
    assert (Hcons : forall newsa' news', resa = rev (sa :: acca) ++ newsa' -> res = rev (sa :: acc) ++ newsa' ++ news' ->
              exists newsa news, resa = rev acca ++ newsa /\ res = rev acc ++ newsa ++ news).
    { intros newsa' news' H1 H2. exists (sa :: newsa'), news'. cbn [rev] in H1, H2. rewrite <- app_assoc in H1, H2.
      split; [exact H1 | exact H2]. }
    destruct ka.
    - destruct resta as [|t2 r].
      + exfalso. exact (Hno [] (t :: a1) sa eq_refl Esa).
      + destruct (token_eqb (tk t2) TSemicolon) eqn:E2; [|discriminate Ha].
        rewrite (Hsame ((t2 :: r) ++ u)) in Hc; [|right; reflexivity|rewrite Hw, <- app_assoc; reflexivity].
        cbn [app] in Hc. rewrite E2 in Hc.
        assert (Hno' : forall p a' s, r = p ++ a' ->
                  parse_statement_sp tiers (20 * S (List.length a')) a' <> Some (s, NeedSemi, [])).
        { intros p a' s E. apply (Hno ((w ++ [t2]) ++ p)). rewrite Hw, E, <- !app_assoc. reflexivity. }
        destruct (IH _ _ _ _ Ha Hno' _ _ _ _ Hc) as (newsa' & news' & H1 & H2).
        exact (Hcons newsa' news' H1 H2).
    - rewrite (Hsame (resta ++ u)) in Hc; [|left; reflexivity|rewrite Hw, <- app_assoc; reflexivity].
      assert (Hno' : forall p a' s, resta = p ++ a' ->
                parse_statement_sp tiers (20 * S (List.length a')) a' <> Some (s, NeedSemi, [])).
      { intros p a' s E. apply (Hno (w ++ p)). rewrite Hw, E, <- app_assoc. reflexivity. }
      destruct (IH _ _ _ _ Ha Hno' _ _ _ _ Hc) as (newsa' & news' & H1 & H2).
      exact (Hcons newsa' news' H1 H2).
  Qed.

  Lemma parse_sp_prefix_exact a u pstmts stmts :
    no_open_tail a = true -> parse_sp tiers a = Some pstmts -> parse_sp tiers (a ++ u) = Some stmts ->
    exists ustmts, stmts = pstmts ++ ustmts.
  Proof.
    unfold parse_sp. intros Hno Ha Hc.
    destruct (stmts_prefix_exact _ _ _ _ _ Ha (fun p a' s E => no_open_tail_sound p a a' s Hno E) _ _ _ _ Hc)
      as (newsa & news & H1 & H2).
    cbn [rev app] in H1, H2. subst. exists news. reflexivity.
  Qed.
End PrefixExact.

(* every statement of the compiled preamble is unchanged, whatever the user's file *)
Lemma preamble_prefix uc utext stmts :
  Forall scalar utext ->
  parse_text_sp uc doc_tiers (preamble_bytes ++ utf8 utext) = Some stmts ->
  exists ustmts, stmts = preamble_stmts ++ ustmts.
Proof.
  intros Hsc Hw.
  destruct gen_preamble_ok_holds as (ptext & ptoks & Hpre & Hscp & Hlex).
  assert (Hptoks : ptoks = fst (lex test_uclass preamble_bytes)) by (rewrite Hlex; reflexivity).
  assert (Hps : parse_sp doc_tiers ptoks = Some preamble_stmts).
  { unfold preamble_stmts, parse_text_sp. rewrite Hlex.
    destruct (parse_sp doc_tiers ptoks) as [l|] eqn:E; [reflexivity|].
    exfalso. rewrite Hptoks in E. vm_compute in E. discriminate E. }
  assert (Hno : no_open_tail doc_tiers ptoks = true) by (rewrite Hptoks; vm_compute; reflexivity).
  assert (Hsc' : Forall scalar (ptext ++ [10] ++ utext)).
  { rewrite app_assoc. apply Forall_app. split; assumption. }
  unfold parse_text_sp in Hw.
  destruct (lex uc (preamble_bytes ++ utf8 utext)) as [toks [e|]] eqn:Hl; [discriminate Hw|].
  assert (Hl' : lex uc (utf8 ((ptext ++ [10]) ++ utext)) = (toks, None)).
  { rewrite TriviaProofs.utf8_app, <- Hpre. exact Hl. }
  assert (Ha : lex uc (utf8 (ptext ++ [10])) = (ptoks, None)) by (rewrite <- Hpre; apply Hlex).
  destruct (lex_whole uc ptext utext ptoks toks Hsc' Ha Hl') as (toks_b & ->).
  exact (parse_sp_prefix_exact doc_tiers ptoks _ preamble_stmts stmts Hno Hps Hw).
Qed.

Lemma preamble_stmts_length : List.length preamble_stmts = preamble_statement_count.
Proof. reflexivity. Qed.

Theorem build_diagnostics_in_user_file_holds : stmt_build_diagnostics_in_user_file.
Proof.
  intros f uc utext stmts es Hsc Hparse Hbuild d Hd.
  destruct (preamble_prefix uc utext stmts Hsc Hparse) as (ustmts & ->).
  rewrite <- preamble_stmts_length.
  rewrite skipn_app, skipn_all, Nat.sub_diag, firstn_app, firstn_all, Nat.sub_diag. cbn [skipn firstn app].
  rewrite app_nil_r.
  assert (Hr : reported f gen_fixed ascii_lower ascii_upper (preamble_stmts ++ ustmts) d) by (exists es; split; assumption).
  destruct (user_faults_not_attributed_to_preamble_holds f gen_fixed ascii_lower ascii_upper
              preamble_stmts ustmts d gen_preamble_like Hr) as [H|(n & first & second & Hk & Hn & Hs & H1 & H2)].
  - left. intros sp Hsp. apply in_flat_map. exact (H sp Hsp).
  - right. exists n, first, second. repeat (split; [assumption|]). split.
    + apply in_flat_map. exact H1.
    + apply in_flat_map. exact H2.
Qed.

(* ====================================================================================== *)
(* examples: the real preamble followed by a user's text, computed                         *)
(* ====================================================================================== *)
Section Examples.
Open Scope string_scope.

(* the diagnostics of hclrs (kind, names, spans) for a user's file; the spans are offsets into
   compiled preamble (1027 bytes) ++ user's text.  Every example below was also run through the real
   program (hook error_lines): same kinds, names and spans. *)
Definition diags (user : string) : option (list (ekind * list string * list srcspan)) :=
  match parse_text_sp test_uclass doc_tiers (preamble_bytes ++ bytes_of_string user) with
  | Some stmts =>
      match build_program_sp gen_features gen_fixed ascii_lower ascii_upper stmts with
      | SErr es => Some (map (fun d => (se_kind d, se_names d, se_spans d)) es)
      | SOk _ => Some []
      end
  | None => None
  end.

Example ex_redeclared_wire :
  diags "pc = 0; Stat = STAT_AOK; wire x : 8; wire x : 4; x = 1;" =
  Some [(RedeclaredWire, ["x"], [(1069, 1074)%nat; (1057, 1062)%nat])].
Proof. vm_compute. reflexivity. Qed.

Example ex_redeclared_preamble_constant :
  diags "pc = 0; Stat = STAT_AOK; const HALT = 3;" =
  Some [(RedeclaredWire, ["HALT"], [(1058, 1062)%nat; (507, 511)%nat])].
Proof. vm_compute. reflexivity. Qed.

Example ex_redeclared_builtin :
  diags "pc = 0; Stat = STAT_AOK; wire i10bytes : 80;" =
  Some [(RedeclaredBuiltinWire, ["i10bytes"], [(1057, 1070)%nat])].
Proof. vm_compute. reflexivity. Qed.

Example ex_double_assigned :
  diags "pc = 0; Stat = STAT_AOK; wire x : 8, y : 8; x = y = 1; y = 2;" =
  Some [(DoubleAssignedWire, ["y"], [(1082, 1083)%nat; (1075, 1076)%nat])].
Proof. vm_compute. reflexivity. Qed.

Example ex_double_assigned_fixed_out :
  diags "pc = 0; Stat = STAT_AOK; i10bytes = 0;" =
  Some [(DoubleAssignedFixedOutWire, ["i10bytes"], [(1052, 1060)%nat])].
Proof. vm_compute. reflexivity. Qed.

Example ex_constant_assigned :
  diags "pc = 0; Stat = STAT_AOK; HALT = 1; const K = 2; K = 3;" =
  Some [(ConstantAssigned, ["HALT"], [(1052, 1056)%nat; (507, 511)%nat]);
        (ConstantAssigned, ["K"], [(1075, 1076)%nat; (1068, 1069)%nat])].
Proof. vm_compute. reflexivity. Qed.

Example ex_nonconstant_read :
  diags "pc = 0; Stat = STAT_AOK; wire x : 8; x = 1; const K = x + x;" =
  Some [(NonConstantWireRead, ["x"], [(1081, 1082)%nat]);
        (NonConstantWireRead, ["x"], [(1085, 1086)%nat])].
Proof. vm_compute. reflexivity. Qed.

Example ex_undeclared_read_const :
  diags "pc = 0; Stat = STAT_AOK; const K = zz | zz;" =
  Some [(UndeclaredWireRead, ["zz"], [(1062, 1064)%nat]);
        (UndeclaredWireRead, ["zz"], [(1067, 1069)%nat])].
Proof. vm_compute. reflexivity. Qed.

Example ex_const_width :
  diags "pc = 0; Stat = STAT_AOK; const K = 0b11 & 0b111;" =
  Some [(MismatchedExprWidths, [], [(1062, 1066)%nat; (1069, 1074)%nat])].
Proof. vm_compute. reflexivity. Qed.

Example ex_bank_name :
  diags "pc = 0; Stat = STAT_AOK; register abc { x : 8 = 0; }" =
  Some [(InvalidRegisterBankName, ["abc"], [(1061, 1064)%nat])].
Proof. vm_compute. reflexivity. Qed.

Example ex_bank_redeclared :
  diags "pc = 0; Stat = STAT_AOK; wire stall_Y : 1, x_a : 8; register xY { a : 8 = 0; } x_a = Y_a; stall_Y = 0;" =
  Some [(RedeclaredWire, ["stall_Y"], [(1088, 1090)%nat; (1057, 1068)%nat]);
        (RedeclaredWire, ["x_a"], [(1093, 1102)%nat; (1070, 1077)%nat])].
Proof. vm_compute. reflexivity. Qed.

Example ex_bank_default_nonconstant :
  diags "pc = 0; Stat = STAT_AOK; wire w : 8; w = 1; register xY { a : 8 = w; } x_a = Y_a;" =
  Some [(NonConstantWireRead, ["w"], [(1093, 1094)%nat])].
Proof. vm_compute. reflexivity. Qed.

Example ex_bank_regout_assigned :
  diags "pc = 0; Stat = STAT_AOK; register xY { a : 8 = 0; } Y_a = 1; x_a = 1;" =
  Some [(DoubleAssignedRegisterWire, ["Y_a"], [(1066, 1075)%nat; (1079, 1082)%nat])].
Proof. vm_compute. reflexivity. Qed.

Example ex_bank_double_declared :
  diags "pc = 0; Stat = STAT_AOK; register xY { a : 8 = 0; } register zY { a : 8 = 0; } x_a = 0; z_a = 0;" =
  Some [(DoubleDeclaredRegisterOutWire, ["Y_a"], [(1066, 1075)%nat; (1093, 1102)%nat])].
Proof. vm_compute. reflexivity. Qed.

Example ex_bank_default_width :
  diags "pc = 0; Stat = STAT_AOK; register xY { a : 8 = 0b11; } x_a = Y_a;" =
  Some [(MismatchedRegisterDefaultWidths, ["xY"; "a"], [(1074, 1078)%nat])].
Proof. vm_compute. reflexivity. Qed.

Example ex_unset_wire :
  diags "pc = 0; Stat = STAT_AOK; wire x : 8;" =
  Some [(UnsetWire, ["x"], [(1057, 1062)%nat])].
Proof. vm_compute. reflexivity. Qed.

Example ex_unset_register_input :
  diags "pc = 0; Stat = STAT_AOK; register xY { a : 8 = 0; }" =
  Some [(UnsetRegisterInputWire, ["x_a"], [(1066, 1075)%nat])].
Proof. vm_compute. reflexivity. Qed.

Example ex_wire_width :
  diags "pc = 0; Stat = STAT_AOK; wire x : 8; x = 0b11;" =
  Some [(MismatchedWireWidths, ["x"], [(1068, 1072)%nat])].
Proof. vm_compute. reflexivity. Qed.

Example ex_undeclared_assigned :
  diags "pc = 0; Stat = STAT_AOK; zz = 1;" =
  Some [(UndeclaredWireAssigned, ["zz"], [(1052, 1054)%nat])].
Proof. vm_compute. reflexivity. Qed.

Example ex_expr_widths :
  diags "pc = 0; Stat = STAT_AOK; wire b : 1; b = (0b11) == 0b111;" =
  Some [(MismatchedExprWidths, [], [(1069, 1073)%nat; (1078, 1083)%nat])].
Proof. vm_compute. reflexivity. Qed.

Example ex_expr_in :
  diags "pc = 0; Stat = STAT_AOK; wire b : 1; b = 0b11 in { 0b111, 0b11, 0b1 };" =
  Some [(MismatchedExprWidths, [], [(1068, 1072)%nat; (1078, 1083)%nat]);
        (MismatchedExprWidths, [], [(1068, 1072)%nat; (1091, 1094)%nat])].
Proof. vm_compute. reflexivity. Qed.

Example ex_expr_nonboolean :
  diags "pc = 0; Stat = STAT_AOK; wire b : 1; b = 1 || (0b11 + 0b01);" =
  Some [(NonBooleanWidth, [], [(1074, 1085)%nat])].
Proof. vm_compute. reflexivity. Qed.

Example ex_expr_mux_widths :
  diags "pc = 0; Stat = STAT_AOK; wire b : 1, x : 8; b = 1; x = [ b : 0b11; 1 : 0b111 ];" =
  Some [(MismatchedMuxWidths, [], [(1088, 1092)%nat; (1098, 1103)%nat])].
Proof. vm_compute. reflexivity. Qed.

Example ex_expr_mux_no_default :
  diags "pc = 0; Stat = STAT_AOK; wire b : 1, x : 8; b = 1; x = [ b : 1 ];" =
  Some [(NoMuxDefaultOption, [], [(1082, 1091)%nat])].
Proof. vm_compute. reflexivity. Qed.

Example ex_expr_mux_multiple_default :
  diags "pc = 0; Stat = STAT_AOK; wire x : 8; x = [ 1 : 1; 1 : 2 ];" =
  Some [(MultipleMuxDefaultOption, [], [(1068, 1084)%nat])].
Proof. vm_compute. reflexivity. Qed.

Example ex_expr_mux_unreachable :
  diags "pc = 0; Stat = STAT_AOK; wire b : 1, x : 8; b = 1; x = [ 1 : 1; b : 2 ];" =
  Some [(UnreachableOptions, [], [(1082, 1098)%nat])].
Proof. vm_compute. reflexivity. Qed.

Example ex_expr_undeclared :
  diags "pc = 0; Stat = STAT_AOK; wire x : 8; x = qq + 1;" =
  Some [(UndeclaredWireRead, ["qq"], [(1068, 1070)%nat]);
        (UnsetUndeclaredWire, ["qq"], [])].
Proof. vm_compute. reflexivity. Qed.

Example ex_expr_misordered :
  diags "pc = 0; Stat = STAT_AOK; wire x : 8, y : 8; y = 1; x = y[5..3];" =
  Some [(MisorderedBitIndexes, [], [(1082, 1089)%nat])].
Proof. vm_compute. reflexivity. Qed.

Example ex_expr_bit_index :
  diags "pc = 0; Stat = STAT_AOK; wire x : 8, y : 8; y = 1; x = (y)[0..9];" =
  Some [(InvalidBitIndex, [], [(1082, 1091)%nat])].
Proof. vm_compute. reflexivity. Qed.

Example ex_expr_too_wide :
  diags "pc = 0; Stat = STAT_AOK; wire a : 100, c : 64, x : 8; a = 1; c = 1; x = (a .. c);" =
  Some [(WireTooWide, [], [(1099, 1107)%nat])].
Proof. vm_compute. reflexivity. Qed.

Example ex_expr_no_width :
  diags "pc = 0; Stat = STAT_AOK; wire x : 8; x = (1 .. 0b1);" =
  Some [(NoBitWidth, [], [(1069, 1070)%nat])].
Proof. vm_compute. reflexivity. Qed.

Example ex_unlocated :
  diags "wire x : 8; x = 1 / 0;" =
  Some [(UnsetBuiltinWire, ["Stat"], []);
        (UnsetBuiltinWire, ["pc"], [])].
Proof. vm_compute. reflexivity. Qed.

(* (a): the located and the plain builder agree on a rejected and on an accepted program *)
Definition ex_rejected : list N := bytes_of_string "pc = 0; Stat = STAT_AOK; wire x : 8; x = 0b11 && y;".
Definition ex_accepted : list N := bytes_of_string "wire x : 64; x = 1; pc = x; Stat = STAT_AOK;".
Example ex_erases :
  option_map erase_sresult (front_sp gen_features gen_fixed ascii_lower ascii_upper test_uclass doc_tiers
                                     (preamble_bytes ++ ex_rejected)) =
  Some (Err [mkErr NonBooleanWidth []; mkErr UnsetUndeclaredWire ["y"]]) /\
  (exists p, front_sp gen_features gen_fixed ascii_lower ascii_upper test_uclass doc_tiers (preamble_bytes ++ ex_accepted)
             = Some (SOk p) /\
             option_map (build_program gen_features gen_fixed ascii_lower ascii_upper)
                        (parse_text test_uclass doc_tiers (preamble_bytes ++ ex_accepted)) = Some (Ok p)).
Proof. split; [vm_compute; reflexivity|]. eexists. split; vm_compute; reflexivity. Qed.

(* the checker alone:  (a & 0b111) && 1  with a : 2 bits - the operands of "&" disagree *)
Definition ex_G (n : string) : option width := if String.eqb n "a" then Some (Bits 2) else None.
Definition ex_and : sexpr :=
  SEBin (0, 17)%nat LogicalAnd
        (SEBin (1, 10)%nat And (SEWire (1, 2)%nat "a") (SEConst (5, 10)%nat (mkV 7 (Bits 3))))
        (SEConst (16, 17)%nat (mkV 1 Unl)).
Example ex_check_sp :
  check_sp gen_features ex_G (fun _ => None) ex_and = SErr [mkSErr MismatchedExprWidths [] [(1, 2)%nat; (5, 10)%nat]] /\
  check gen_features ex_G (fun _ => None) (erase_expr ex_and) = Err [mkErr MismatchedExprWidths []].
Proof. vm_compute. split; reflexivity. Qed.

(* the evaluator alone: (1 .. 0b1) has no width on the left *)
Example ex_eval_sp :
  eval_sp gen_features (fun _ => None)
          (SECat (0, 10)%nat (SEConst (1, 2)%nat (mkV 1 Unl)) (SEConst (6, 9)%nat (mkV 1 (Bits 1)))) =
  SErr [mkSErr NoBitWidth [] [(1, 2)%nat]].
Proof. vm_compute. reflexivity. Qed.

(* (b) composed: a user's file of three lines; the diagnostic shows line 3 with carets under "0b11 + 1" *)
Definition ex_user3 : list N :=
  bytes_of_string ("pc = 0; Stat = STAT_AOK;" ++ nl ++ "wire x : 8;" ++ nl ++ "x = 0b11 + 1;" ++ nl).
Definition ex_name : list N := bytes_of_string "input.hcl".

Example ex_user3_diagnostic :
  option_map (build_program_sp gen_features gen_fixed ascii_lower ascii_upper)
             (parse_text_sp test_uclass doc_tiers (preamble_bytes ++ ex_user3)) =
  Some (SErr [mkSErr MismatchedWireWidths ["x"] [(1068, 1076)%nat]]) /\
  show_region (new_from_data preamble_bytes ex_user3 ex_name) 1068 1076 =
  Some (one_line_region ex_name 3 (bytes_of_string "x = 0b11 + 1;") 4 8).
Proof. vm_compute. split; reflexivity. Qed.

Example ex_user3_located :
  forall stmts es,
    parse_text_sp test_uclass doc_tiers (preamble_bytes ++ ex_user3) = Some stmts ->
    build_program_sp gen_features gen_fixed ascii_lower ascii_upper stmts = SErr es ->
    forall d sp, In d es -> In sp (se_spans d) ->
      exists s, In s (skipn preamble_statement_count stmts) /\ In sp (stmt_spans s) /\
        exists us ue, fst sp = (List.length preamble_bytes + us)%nat /\ snd sp = (List.length preamble_bytes + ue)%nat /\
          (count_lf (firstn (ue - us) (skipn us ex_user3)) = O ->
             show_region (new_from_data preamble_bytes ex_user3 ex_name) (fst sp) (snd sp) =
             Some (one_line_region ex_name (line_no ex_user3 us) (line_text ex_user3 us) (col_of ex_user3 us) (ue - us))).
Proof.
  destruct (SpanParserProofs.Examples.ascii_text ex_user3 ltac:(vm_compute; reflexivity)) as [Hu Hsc].
  intros stmts es Hp Hb d sp Hd Hsp.
  pose proof Hp as Hp'. rewrite Hu in Hp' at 1.
  destruct (build_diagnostics_in_user_file_holds gen_features test_uclass ex_user3 stmts es Hsc Hp' Hb d Hd)
    as [H|(n & first & second & Hk & _)].
  - destruct (H sp Hsp) as (s & Hs & Hss). exists s. split; [exact Hs|]. split; [exact Hss|].
    destruct (build_diagnostics_located_holds gen_features gen_fixed ascii_lower ascii_upper test_uclass ex_user3 ex_name
                stmts es Hsc Hp' Hb) as (toks & _ & _ & Hall).
    destruct (Hall d sp Hd Hsp) as (_ & _ & _ & _ & Hren).
    destruct (Hren s Hs Hss) as (us & ue & H1 & H2 & _ & _ & _ & H6).
    exists us, ue. rewrite <- Hu in H6. repeat (split; [assumption|]). exact H6.
  - exfalso. revert Hp Hb Hd Hk. clear.
    intros Hp Hb Hd Hk.
    assert (E : stmts = match parse_text_sp test_uclass doc_tiers (preamble_bytes ++ ex_user3) with Some l => l | None => [] end)
      by (rewrite Hp; reflexivity).
    subst stmts. vm_compute in Hb. injection Hb as <-. destruct Hd as [<-|[]]. cbn in Hk. destruct Hk; discriminate.
Qed.

(* (d): redeclaring a constant of the preamble: the first region is the user's, the second is the
   definition in the preamble (bytes 507..511, line 11 of the preamble); the real program prints
   "     -> input.hcl:1" for the first and "     -> <builtin>:11" for the second *)
Example ex_preamble_second_region :
  diags "const HALT = 3; pc = 0; Stat = STAT_AOK;" =
  Some [(RedeclaredWire, ["HALT"], [(1033, 1037)%nat; (507, 511)%nat])] /\
  (exists out rest,
     show_region (new_from_data preamble_bytes (bytes_of_string "const HALT = 3; pc = 0; Stat = STAT_AOK;") ex_name)
                 507 511 = Some out /\
     out = (RegionSpec.sp 5 ++ [45; 62; 32] ++ bytes_of_string "<builtin>:11" ++ rest)%list).
Proof. split; [vm_compute; reflexivity|]. eexists. eexists. split; vm_compute; reflexivity. Qed.
End Examples.
