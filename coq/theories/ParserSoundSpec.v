(* C11, continued: TriviaSpec.renders is the declarative grammar of expressions.  TriviaSpec proves
   completeness (every rendering is read back) and unambiguity; here SOUNDNESS of the model parser:
   whatever it accepts is a rendering of what it returns, so the parser computes exactly the
   expression the grammar assigns and rejects exactly the non-renderings. *)
From HclV Require Import Base Expr Build Lexer Parser LexParseSpec TriviaSpec.
Open Scope list_scope.
Open Scope N_scope.

(* identifier tokens carry bytes (as every token of the lexer does; the parser turns the name into
   a string of 8-bit characters, which loses anything larger) *)
Definition byte_name (t : token) : Prop :=
  match t with TIdentifier name => Forall (fun b => b < 256) name | _ => True end.
Definition byte_names (toks : list tok) : Prop := Forall (fun t => byte_name (tk t)) toks.

(* ====================================================================================== *)
(* 1. soundness                                                                           *)
(* ====================================================================================== *)
(* if the parser returns e and the remaining tokens, then the tokens it consumed are a prefix of
   the input, they are a rendering of e as a whole expression, and e is printable (its slice
   bounds are at most 128) *)
Definition stmt_parser_sound : Prop :=
  forall fuel toks e rest, byte_names toks ->
    parse_expr doc_tiers fuel toks = Some (e, rest) ->
    exists pre, toks = pre ++ rest /\ renders 0 e (map tk pre) /\ printable e.

(* draft without the hypothesis on names: false for a "name" with an element above 255 *)
Definition stmt_parser_sound_any_names : Prop :=
  forall fuel toks e rest,
    parse_expr doc_tiers fuel toks = Some (e, rest) ->
    exists pre, toks = pre ++ rest /\ renders 0 e (map tk pre) /\ printable e.

(* where the parser stops.  An operator of a left-associative tier is always consumed, with one
   exception: after a set membership at the right end (a in {b} + c), where the operators tighter
   than "in" (| ^ & << >> + - * /) are left alone; || and && never are.  The parser may also stop
   before a comparison operator or "in" (these do not chain: a == b == c is read as a == b
   followed by == c, which the caller - expecting a separator - rejects), and before "[" after a
   unary operation, a slice or a set membership (-x[0..1], x[0..1][0..1], a in {b}[0..1]: a slice
   applies to a simple term only). *)
Fixpoint ends_in (e : expr) : bool :=
  match e with EBin _ _ r => ends_in r | EIn _ _ => true | _ => false end.

Definition stmt_parser_stops : Prop :=
  forall fuel toks e rest, byte_names toks -> parse_expr doc_tiers fuel toks = Some (e, rest) ->
    match rest with
    | [] => True
    | t :: _ => forall op, is_nonassoc op = false -> tk t = binop_token op ->
                  (in_level < level_of op)%nat /\ ends_in e = true
    end.

(* ====================================================================================== *)
(* 2. the parser computes exactly what the grammar assigns                                *)
(* ====================================================================================== *)
(* for tokens ts followed by something that cannot continue an expression (or by nothing):
   the parser returns e having consumed exactly ts  iff  ts is a rendering of the printable e *)
Definition stmt_parser_characterised : Prop :=
  forall ts rest e, stops rest -> byte_names (map at_pos ts ++ rest) ->
    ((exists fuel, parse_expr doc_tiers fuel (map at_pos ts ++ rest) = Some (e, rest)) <->
     (renders 0 e ts /\ printable e)).

(* tokens that are no rendering of any expression are rejected, whatever the fuel: the parser
   fails, or stops before the end of ts *)
Definition stmt_parser_rejects_non_renderings : Prop :=
  forall ts rest, stops rest -> byte_names (map at_pos ts ++ rest) ->
    (forall e, printable e -> ~ renders 0 e ts) ->
    forall fuel e, parse_expr doc_tiers fuel (map at_pos ts ++ rest) <> Some (e, rest).

(* ====================================================================================== *)
(* 3. statements and programs                                                             *)
(* ====================================================================================== *)
(* the declarative grammar of statements: the error-free productions of src/parser.lalrpop
   (WireDecls, ConstDecls, Assignments, RegisterBankDecl, Statements), token for token *)
Definition ident (n : string) : token := TIdentifier (bytes_of_string n).

(* Commas<WireDecl> = (ID ":" W ",")* (ID ":" W)?  - W a literal of value at most 128 *)
Inductive renders_wires : list (string * width) -> list token -> Prop :=
| RW_nil : renders_wires [] []
| RW_last n v : bits v <= 128 -> renders_wires [(n, Bits (bits v))] [ident n; TColon; TLit v]
| RW_cons n v rest ts :
    bits v <= 128 -> renders_wires rest ts ->
    renders_wires ((n, Bits (bits v)) :: rest) ([ident n; TColon; TLit v; TComma] ++ ts).

(* Commas<ConstDecl> = (ID "=" Expr ",")* (ID "=" Expr)? *)
Inductive renders_consts : list (string * expr) -> list token -> Prop :=
| RC_nil : renders_consts [] []
| RC_last n e te : renders 0 e te -> renders_consts [(n, e)] ([ident n; TAssign] ++ te)
| RC_cons n e rest te ts :
    renders 0 e te -> renders_consts rest ts ->
    renders_consts ((n, e) :: rest) ([ident n; TAssign] ++ te ++ [TComma] ++ ts).

(* (ID "=")+ *)
Inductive renders_targets : list string -> list token -> Prop :=
| RT_one n : renders_targets [n] [ident n; TAssign]
| RT_cons n ns ts : renders_targets ns ts -> renders_targets (n :: ns) ([ident n; TAssign] ++ ts).

(* Commas1<Assignment> = (A ",")* A ","?  with A = (ID "=")+ Expr *)
Inductive renders_assigns : list (list string * expr) -> list token -> Prop :=
| RG_last names e tn te :
    renders_targets names tn -> renders 0 e te -> renders_assigns [(names, e)] (tn ++ te)
| RG_last_comma names e tn te :
    renders_targets names tn -> renders 0 e te -> renders_assigns [(names, e)] (tn ++ te ++ [TComma])
| RG_cons names e rest tn te ts :
    renders_targets names tn -> renders 0 e te -> renders_assigns rest ts ->
    renders_assigns ((names, e) :: rest) (tn ++ te ++ [TComma] ++ ts).

(* Semicolons<RegisterDecl> = (R ";")* R?  with R = ID ":" W "=" Expr *)
Inductive renders_regs : list (string * width * expr) -> list token -> Prop :=
| RR_nil : renders_regs [] []
| RR_last n v e te :
    bits v <= 128 -> renders 0 e te ->
    renders_regs [(n, Bits (bits v), e)] ([ident n; TColon; TLit v; TAssign] ++ te)
| RR_cons n v e rest te ts :
    bits v <= 128 -> renders 0 e te -> renders_regs rest ts ->
    renders_regs ((n, Bits (bits v), e) :: rest) ([ident n; TColon; TLit v; TAssign] ++ te ++ [TSemicolon] ++ ts).

Inductive renders_stmt : stmt -> list token -> Prop :=
| RS_wire d ts : renders_wires d ts -> renders_stmt (SWire d) ([TWire] ++ ts)
| RS_const d ts : renders_consts d ts -> renders_stmt (SConst d) ([TConst] ++ ts)
| RS_assign a ts : renders_assigns a ts -> renders_stmt (SAssign a) ts
| RS_bank n regs ts :
    renders_regs regs ts -> renders_stmt (SBank n regs) ([TRegister; ident n; TOpenBrace] ++ ts ++ [TCloseBrace]).

(* a register bank needs no ";" after it, every other statement does *)
Definition needs_semi (s : stmt) : bool := match s with SBank _ _ => false | _ => true end.
Definition complete_stmt (s : stmt) (ts : list token) : Prop :=
  if needs_semi s then exists ts0, renders_stmt s ts0 /\ ts = ts0 ++ [TSemicolon] else renders_stmt s ts.

(* Statements = StatementsNotEof StatementNeedSemi? : a first complete statement, then any mix of
   stray ";" and complete statements, then possibly one last statement without its ";" *)
Inductive renders_more : list stmt -> list token -> Prop :=
| RM_nil : renders_more [] []
| RM_semi stmts ts : renders_more stmts ts -> renders_more stmts ([TSemicolon] ++ ts)
| RM_stmt s stmts ts0 ts :
    complete_stmt s ts0 -> renders_more stmts ts -> renders_more (s :: stmts) (ts0 ++ ts)
| RM_last s ts0 : needs_semi s = true -> renders_stmt s ts0 -> renders_more [s] ts0.

Definition renders_program (stmts : list stmt) (ts : list token) : Prop :=
  exists s more ts0 ts1,
    stmts = s :: more /\ complete_stmt s ts0 /\ renders_more more ts1 /\ ts = ts0 ++ ts1.

(* every expression of the statements is printable *)
Definition printable_stmt (s : stmt) : Prop :=
  match s with
  | SWire _ => True
  | SConst d => Forall (fun ne => printable (snd ne)) d
  | SAssign a => Forall (fun ne => printable (snd ne)) a
  | SBank _ regs => Forall (fun r => printable (snd r)) regs
  end.

(* THE PARSER COMPUTES THE GRAMMAR: a token list is read as the statements stmts exactly when it
   is a rendering of them.  The fuel the model gives its loops is always enough. *)
Definition stmt_parse_characterised : Prop :=
  forall toks stmts, byte_names toks ->
    (parse doc_tiers toks = Some stmts <->
     (renders_program stmts (map tk toks) /\ Forall printable_stmt stmts)).
