(* C11, "comments (#, //, /* */), blank space, line-ending style and redundant parentheses never
   change the meaning": the general statements.  Part B: the parser looks at the token sequence
   only (never at positions).  Part C: every admissible parenthesisation of an expression is read
   back as that expression.  Part A: a text made of token spellings separated by comments and
   blank space is lexed to exactly those tokens. *)
From HclV Require Import Base Expr Build Lexer Parser LexParseSpec.
Open Scope list_scope.
Open Scope N_scope.

(* ====================================================================================== *)
(* Part B: the parser never looks at positions                                            *)
(* ====================================================================================== *)

(* two positioned token lists carrying the same tokens in the same order *)
Definition same_tokens (a b : list tok) : Prop := map tk a = map tk b.

(* two parser results: both failures, or the same value and remainders with the same tokens *)
Definition same_result {A : Type} (x y : option (A * list tok)) : Prop :=
  match x, y with
  | Some (a, r1), Some (b, r2) => a = b /\ same_tokens r1 r2
  | None, None => True
  | _, _ => False
  end.

(* whatever the precedence table and the fuel: expressions, statement lists and whole programs *)
Definition stmt_parse_ignores_positions : Prop :=
  forall tiers toks1 toks2, same_tokens toks1 toks2 ->
    (forall fuel, same_result (parse_expr tiers fuel toks1) (parse_expr tiers fuel toks2)) /\
    (forall fuel seen acc,
        parse_statements tiers fuel toks1 seen acc = parse_statements tiers fuel toks2 seen acc) /\
    parse tiers toks1 = parse tiers toks2.

(* hence the meaning of a text depends on its token sequence only: two texts that the lexer turns
   into the same tokens (at whatever offsets) are read as the same statements *)
Definition stmt_text_meaning_by_tokens : Prop :=
  forall uc tiers bytes1 bytes2 toks1 toks2,
    lex uc bytes1 = (toks1, None) -> lex uc bytes2 = (toks2, None) -> same_tokens toks1 toks2 ->
    parse_text uc tiers bytes1 = parse_text uc tiers bytes2.

(* ====================================================================================== *)
(* Part C: redundant parentheses                                                          *)
(* ====================================================================================== *)
(* renders m e ts: the tokens ts are a way of writing e where the grammar expects an operand of
   tier level >= m (0 = a whole expression, level_of op for the operands of op, 10 = a Term,
   11 = a SimpleTerm: the operand of a unary operator or the sliced value).  The rules are those
   of toks_min - a node may stand unparenthesised exactly where its own level is allowed - plus
   one more: wherever anything may stand, "(" any rendering of a whole expression ")" may stand.
   So toks_min 0 e, toks_full e and everything between and beyond, like ((a))+(b), are renderings.
   The forms with fixed delimiters keep them: the brackets of a case expression, the braces of a
   set, the parentheses of a concatenation ( l .. r ) (which may itself be wrapped again:
   (( l .. r )) ), the five tokens of a slice (whose bounds may be any literal of that value).
   The last ";" of a case expression and the last "," of a set are optional. *)
Inductive renders : nat -> expr -> list token -> Prop :=
| R_const m v : renders m (EConst v) [TLit v]
| R_wire m n : renders m (EWire n) [TIdentifier (bytes_of_string n)]
| R_bin m op l r tl tr :
    (m <= level_of op)%nat ->
    renders (if is_nonassoc op then S (level_of op) else level_of op) l tl ->
    renders (S (level_of op)) r tr ->
    renders m (EBin op l r) (tl ++ [binop_token op] ++ tr)
| R_un m u e te :
    (m <= term_level)%nat -> renders (S term_level) e te ->
    renders m (EUn u e) ([unop_token u] ++ te)
| R_mux m a ta :
    renders_arms a ta -> renders m (EMux a) ([TOpenBracket] ++ ta ++ [TCloseBracket])
| R_slice m e te lo hi vlo vhi :
    (m <= term_level)%nat -> renders (S term_level) e te -> bits vlo = lo -> bits vhi = hi ->
    renders m (ESlice e lo hi) (te ++ [TOpenBracket; TLit vlo; TDotDot; TLit vhi; TCloseBracket])
| R_cat m l r tl tr :
    renders 0 l tl -> renders 0 r tr ->
    renders m (ECat l r) ([TOpenParen] ++ tl ++ [TDotDot] ++ tr ++ [TCloseParen])
| R_in m e te items ti :
    (m <= in_level)%nat -> renders (S in_level) e te -> renders_items items ti ->
    renders m (EIn e items) (te ++ [TIn; TOpenBrace] ++ ti ++ [TCloseBrace])
| R_paren m e te :
    renders 0 e te -> renders m e ([TOpenParen] ++ te ++ [TCloseParen])
with renders_arms : arms -> list token -> Prop :=
| RA_nil : renders_arms ANil []
| RA_last c v tc tv :
    renders 0 c tc -> renders 0 v tv -> renders_arms (ACons c v ANil) (tc ++ [TColon] ++ tv)
| RA_cons c v rest tc tv trest :
    renders 0 c tc -> renders 0 v tv -> renders_arms rest trest ->
    renders_arms (ACons c v rest) (tc ++ [TColon] ++ tv ++ [TSemicolon] ++ trest)
with renders_items : exprs -> list token -> Prop :=
| RI_nil : renders_items XNil []
| RI_last e te : renders 0 e te -> renders_items (XCons e XNil) te
| RI_cons e rest te trest :
    renders 0 e te -> renders_items rest trest -> renders_items (XCons e rest) (te ++ [TComma] ++ trest).

(* every rendering of e - whatever redundant parentheses it has - is read back as e *)
Definition stmt_any_parenthesisation : Prop :=
  forall e ts, printable e -> renders 0 e ts -> forall rest, stops rest ->
    exists fuel0, forall fuel, (fuel0 <= fuel)%nat ->
      parse_expr doc_tiers fuel (map at_pos ts ++ rest) = Some (e, rest).

(* two renderings of the same expression mean the same *)
Definition stmt_renderings_agree : Prop :=
  forall e ts1 ts2, printable e -> renders 0 e ts1 -> renders 0 e ts2 -> forall rest, stops rest ->
    exists fuel0, forall fuel, (fuel0 <= fuel)%nat ->
      parse_expr doc_tiers fuel (map at_pos ts1 ++ rest) = Some (e, rest) /\
      parse_expr doc_tiers fuel (map at_pos ts2 ++ rest) = Some (e, rest).

(* the two printers of LexParseSpec are renderings: the round-trip theorems are instances *)
Definition stmt_printers_render : Prop :=
  forall e, (forall m, renders m e (toks_min m e)) /\ (forall m, (m <= term_level)%nat -> renders m e (toks_full e)).

(* a rendering cannot be read back as another expression: the tokens determine the expression *)
Definition stmt_rendering_unambiguous : Prop :=
  forall e1 e2 ts, printable e1 -> printable e2 -> renders 0 e1 ts -> renders 0 e2 ts -> e1 = e2.

(* ====================================================================================== *)
(* Part A: comments, blank space and line endings between tokens                          *)
(* ====================================================================================== *)
(* A text is a sequence of characters (code points); the lexer receives its UTF-8 encoding. *)
Definition scalar (c : N) : Prop := c < 1114112.                 (* 0x110000 *)

Definition utf8_char (c : N) : list N :=
  if c <? 128 then [c]
  else if c <? 2048 then [192 + c / 64; 128 + c mod 64]
  else if c <? 65536 then [224 + c / 4096; 128 + (c / 64) mod 64; 128 + c mod 64]
  else [240 + c / 262144; 128 + (c / 4096) mod 64; 128 + (c / 64) mod 64; 128 + c mod 64].

Definition utf8 (cs : list N) : list N := flat_map utf8_char cs.

(* ---- separators ------------------------------------------------------------------------- *)
(* the character classes are Lexer.v's (is_whitespace: TAB LF VT FF CR SPACE and the non-ASCII
   characters classified UWhite; is_identifier_char: letters, digits, "_"; ...) *)
Definition not_newline (c : N) : bool := negb (c =? 10) && negb (c =? 13).

(* does the text contain "*/" ? *)
Fixpoint has_close (l : list N) : bool :=
  match l with
  | [] => false
  | a :: r => match r with
              | b :: _ => ((a =? 42) && (b =? 47)) || has_close r
              | [] => false
              end
  end.

(* a separator that may stand between two tokens: any sequence of white-space characters, line
   comments "#..." and "//..." closed by LF or CR (CR LF is CR then the white-space LF), and block
   comments "/*...*/" whose body - any characters, even "/*", "#" or line ends - has no "*/" *)
Inductive trivia (uc : N -> uclass) : list N -> Prop :=
| tv_nil : trivia uc []
| tv_white c r : is_whitespace uc c = true -> trivia uc r -> trivia uc (c :: r)
| tv_hash body nl r :
    forallb not_newline body = true -> nl = 10 \/ nl = 13 -> trivia uc r ->
    trivia uc ([35] ++ body ++ [nl] ++ r)
| tv_slashes body nl r :
    forallb not_newline body = true -> nl = 10 \/ nl = 13 -> trivia uc r ->
    trivia uc ([47; 47] ++ body ++ [nl] ++ r)
| tv_block body r :
    has_close body = false -> trivia uc r -> trivia uc ([47; 42] ++ body ++ [42; 47] ++ r).

(* at the very end of the text a line comment needs no line end *)
Inductive trivia_final (uc : N -> uclass) : list N -> Prop :=
| tf_closed s : trivia uc s -> trivia_final uc s
| tf_hash s body : trivia uc s -> forallb not_newline body = true -> trivia_final uc (s ++ [35] ++ body)
| tf_slashes s body : trivia uc s -> forallb not_newline body = true -> trivia_final uc (s ++ [47; 47] ++ body).

(* ---- spellings of tokens ------------------------------------------------------------------ *)
Definition fixed_spelling (t : token) : option string :=
  match t with
  | TAndAnd => Some "&&" | TOrOr => Some "||" | TEqual => Some "==" | TNotEqual => Some "!="
  | TGreaterEqual => Some ">=" | TGreater => Some ">" | TLessEqual => Some "<=" | TLess => Some "<"
  | TAssign => Some "=" | TRightShift => Some ">>" | TLeftShift => Some "<<" | TComma => Some ","
  | TSemicolon => Some ";" | TPlus => Some "+" | TMinus => Some "-" | TAnd => Some "&" | TOr => Some "|"
  | TXor => Some "^" | TTimes => Some "*" | TDivide => Some "/" | TNot => Some "!"
  | TOpenParen => Some "(" | TCloseParen => Some ")" | TOpenBrace => Some "{" | TCloseBrace => Some "}"
  | TOpenBracket => Some "[" | TCloseBracket => Some "]" | TColon => Some ":" | TComplement => Some "~"
  | TDotDot => Some ".."
  | TWire => Some "wire" | TConst => Some "const" | TRegister => Some "register" | TIn => Some "in"
  | TLit _ | TIdentifier _ => None
  end%string.

Definition keywords : list (list N) :=
  map bytes_of_string ["wire"; "const"; "register"; "in"]%string.

(* spells uc t s: the characters s are a way of writing the token t.
   - operators, punctuation and keywords: their fixed spelling;
   - an identifier: a letter or "_" followed by letters, digits and "_" (non-ASCII letters and
     digits as classified by uc), not a keyword; the token carries the UTF-8 bytes of the name;
   - an unsized literal: decimal digits, or "0x" and hexadecimal digits of either case (leading
     zeros allowed), value below 2^128;
   - a literal of width n (1..128): "0b" and n binary digits. *)
Inductive spells (uc : N -> uclass) : token -> list N -> Prop :=
| sp_fixed t s : fixed_spelling t = Some s -> spells uc t (bytes_of_string s)
| sp_ident c cs :
    is_start_identifier_char uc c = true -> forallb (is_identifier_char uc) cs = true ->
    ~ In (utf8 (c :: cs)) keywords ->
    spells uc (TIdentifier (utf8 (c :: cs))) (c :: cs)
| sp_decimal ds :
    ds <> [] -> forallb dec_digit ds = true -> positional 10 ds < two128 ->
    spells uc (TLit (mkV (positional 10 ds) Unl)) ds
| sp_hex ds :
    ds <> [] -> forallb hex_digit ds = true -> positional 16 ds < two128 ->
    spells uc (TLit (mkV (positional 16 ds) Unl)) ([48; 120] ++ ds)
| sp_binary ds :
    ds <> [] -> forallb bin_digit ds = true -> (List.length ds <= 128)%nat ->
    spells uc (TLit (mkV (positional 2 ds) (Bits (N.of_nat (List.length ds))))) ([48; 98] ++ ds).

(* ---- every token the lexer can produce has a spelling ------------------------------------- *)
(* the tokens in question: identifiers as above; unsized literals below 2^128; literals of width
   1..128 whose value fits the width; all operators, punctuation and keywords *)
Definition lexable (uc : N -> uclass) (t : token) : Prop :=
  match t with
  | TIdentifier name =>
      exists c cs, name = utf8 (c :: cs) /\ Forall scalar (c :: cs) /\
        is_start_identifier_char uc c = true /\ forallb (is_identifier_char uc) cs = true /\
        ~ In name keywords
  | TLit (mkV v Unl) => v < two128
  | TLit (mkV v (Bits n)) => 1 <= n <= 128 /\ v < 2 ^ n
  | _ => True
  end.

(* decimal digits, most significant first (39 digits suffice below 2^128) *)
Fixpoint decimal_digits (fuel : nat) (n : N) (acc : list N) : list N :=
  match fuel with
  | O => acc
  | S f => if n <? 10 then (48 + n) :: acc else decimal_digits f (n / 10) ((48 + n mod 10) :: acc)
  end.
Definition decimal (n : N) : list N := decimal_digits 39 n [].

(* k binary digits, most significant first *)
Fixpoint binary (k : nat) (v : N) : list N :=
  match k with O => [] | S j => (48 + (v / 2 ^ N.of_nat j) mod 2) :: binary j v end.

(* the characters of a UTF-8 text *)
Definition decode (bytes : list N) : list N := map snd (char_indices (List.length bytes) bytes 0).

(* the canonical spelling: identifiers by their characters, unsized literals in decimal, sized
   literals as 0b and as many binary digits as the width, everything else as fixed *)
Definition spell (t : token) : list N :=
  match t with
  | TIdentifier name => decode name
  | TLit (mkV v Unl) => decimal v
  | TLit (mkV v (Bits n)) => [48; 98] ++ binary (N.to_nat n) v
  | _ => match fixed_spelling t with Some s => bytes_of_string s | None => [] end
  end.

Definition stmt_canonical_spelling : Prop :=
  forall uc t, lexable uc t -> spells uc t (spell t) /\ Forall scalar (spell t).

(* ---- what may directly follow a token ----------------------------------------------------- *)
(* clash uc t s c: the character c directly after the token t (written s) would be read as part
   of it, or change it, or turn it into an error:
   - an identifier or keyword continues with any letter, digit or "_";
   - a decimal literal continues with a digit, and a ONE-digit literal followed by "x" or "b"
     starts a hexadecimal / binary literal; a hexadecimal literal continues with a hexadecimal
     digit (so with the letters a-f, A-F); a binary literal followed by any decimal digit is longer
     or a lexical error;
   - & && , | || , = == , ! != , > >> >= , < << <= ;
   - "/" followed by "/" or "*" opens a comment.
   Nothing else clashes: 12 abc, 0b1 x, >> = and so on may be written without a separator. *)
Definition clash (uc : N -> uclass) (t : token) (s : list N) (c : N) : bool :=
  match t with
  | TIdentifier _ | TWire | TConst | TRegister | TIn => is_identifier_char uc c
  | TLit _ =>
      match s with
      | [] => false
      | [_] => dec_digit c || (c =? 120) || (c =? 98)
      | _ :: x :: _ => if x =? 120 then hex_digit c else dec_digit c
      end
  | TAnd => c =? 38
  | TOr => c =? 124
  | TAssign | TNot => c =? 61
  | TGreater => (c =? 62) || (c =? 61)
  | TLess => (c =? 60) || (c =? 61)
  | TDivide => (c =? 47) || (c =? 42)
  | _ => false
  end.

(* the token t written s may be followed by the text [next] (the next separator, token, ...) *)
Definition may_follow (uc : N -> uclass) (t : token) (s : list N) (next : list N) : Prop :=
  match next with [] => True | c :: _ => clash uc t s c = false end.

(* ---- texts ------------------------------------------------------------------------------- *)
(* a text: before each token a separator, and a final separator.  An item is (separator, token,
   spelling of the token). *)
Definition item := (list N * token * list N)%type.
Definition item_token (i : item) : token := snd (fst i).

Fixpoint text_of (items : list item) (last : list N) : list N :=
  match items with
  | [] => last
  | (sep, _, s) :: r => sep ++ s ++ text_of r last
  end.

(* every separator is a separator, every spelling spells its token, and no token is directly
   followed by a character that clashes with it (so: where two tokens would merge the separator
   between them is not empty - and after "/" it does not start with a comment) *)
Fixpoint admissible (uc : N -> uclass) (items : list item) (last : list N) : Prop :=
  match items with
  | [] => trivia_final uc last
  | (sep, t, s) :: r =>
      trivia uc sep /\ spells uc t s /\ may_follow uc t s (text_of r last) /\ admissible uc r last
  end.

(* byte offsets of the tokens in the encoded text: each token spans exactly its spelling *)
Fixpoint spans_of (pos : nat) (items : list item) : list tok :=
  match items with
  | [] => []
  | (sep, t, s) :: r =>
      let b := (pos + List.length (utf8 sep))%nat in
      let e := (b + List.length (utf8 s))%nat in
      (b, t, e) :: spans_of e r
  end.

(* THE TRIVIA THEOREM: an admissible text is lexed without error to exactly its tokens *)
Definition stmt_trivia_irrelevant : Prop :=
  forall uc items last,
    admissible uc items last -> Forall scalar (text_of items last) ->
    let r := lex uc (utf8 (text_of items last)) in
    map tk (fst r) = map item_token items /\ snd r = None.

(* ... each at the byte range of its spelling *)
Definition stmt_trivia_spans : Prop :=
  forall uc items last,
    admissible uc items last -> Forall scalar (text_of items last) ->
    lex uc (utf8 (text_of items last)) = (spans_of 0 items, None).

(* two texts made of the same tokens - whatever separators, comments, line-ending style and even
   spellings of the literals - are lexed to the same token sequence ... *)
Definition stmt_same_tokens_any_trivia : Prop :=
  forall uc items1 last1 items2 last2,
    admissible uc items1 last1 -> Forall scalar (text_of items1 last1) ->
    admissible uc items2 last2 -> Forall scalar (text_of items2 last2) ->
    map item_token items1 = map item_token items2 ->
    exists toks1 toks2,
      lex uc (utf8 (text_of items1 last1)) = (toks1, None) /\
      lex uc (utf8 (text_of items2 last2)) = (toks2, None) /\
      same_tokens toks1 toks2.

(* ... and therefore mean the same (with Part B) *)
Definition stmt_same_meaning_any_trivia : Prop :=
  forall uc tiers items1 last1 items2 last2,
    admissible uc items1 last1 -> Forall scalar (text_of items1 last1) ->
    admissible uc items2 last2 -> Forall scalar (text_of items2 last2) ->
    map item_token items1 = map item_token items2 ->
    parse_text uc tiers (utf8 (text_of items1 last1)) = parse_text uc tiers (utf8 (text_of items2 last2)).


(* line-ending style: writing every LF of every separator as CR LF, or as CR, changes nothing *)
Definition with_line_end (le : list N) (s : list N) : list N :=
  flat_map (fun c => if c =? 10 then le else [c]) s.

Definition map_seps (f : list N -> list N) (items : list item) : list item :=
  map (fun i : item => (f (fst (fst i)), snd (fst i), snd i)) items.

Definition stmt_line_endings : Prop :=
  forall uc items last le, le = [13; 10] \/ le = [13] ->
    admissible uc items last -> Forall scalar (text_of items last) ->
    let items' := map_seps (with_line_end le) items in
    let last' := with_line_end le last in
    admissible uc items' last' /\ Forall scalar (text_of items' last') /\
    let r := lex uc (utf8 (text_of items' last')) in
    map tk (fst r) = map item_token items /\ snd r = None.

(* ---- the same in the usual wording ------------------------------------------------------------ *)
(* two tokens that may not touch: the second's first character clashes with the first token *)
Definition must_separate (uc : N -> uclass) (t1 : token) (s1 s2 : list N) : bool :=
  match s2 with c :: _ => clash uc t1 s1 c | [] => false end.

(* every separator is a separator; between two tokens that must be separated it is not empty;
   and the separator after the division sign "/" does not start with "/" (that is with a comment:
   "/" followed by "//..." or "/*...*/" is read as a line comment) *)
Fixpoint separated (uc : N -> uclass) (items : list item) (last : list N) : Prop :=
  match items with
  | [] => trivia_final uc last
  | (sep, t, s) :: r =>
      trivia uc sep /\ spells uc t s /\
      match r with
      | (sep2, _, s2) :: _ =>
          (sep2 = [] -> must_separate uc t s s2 = false) /\ (t = TDivide -> hd_error sep2 <> Some 47)
      | [] => t = TDivide -> hd_error last <> Some 47
      end /\ separated uc r last
  end.

Definition stmt_trivia_irrelevant_separated : Prop :=
  forall uc items last,
    separated uc items last -> Forall scalar (text_of items last) ->
    let r := lex uc (utf8 (text_of items last)) in
    map tk (fst r) = map item_token items /\ snd r = None.

(* ---- a refuted draft ------------------------------------------------------------------------ *)
(* "where two tokens would merge, the separator between them is not empty" is NOT enough:
   the separator after "/" may not start with a comment opener, see may_follow *)
Fixpoint admissible_draft (uc : N -> uclass) (items : list item) (last : list N) : Prop :=
  match items with
  | [] => trivia_final uc last
  | (sep, t, s) :: r =>
      trivia uc sep /\ spells uc t s /\
      match r with
      | (sep2, _, c :: _) :: _ => clash uc t s c = true -> sep2 <> []
      | _ => True
      end /\ admissible_draft uc r last
  end.

Definition stmt_trivia_irrelevant_draft : Prop :=
  forall uc items last,
    admissible_draft uc items last -> Forall scalar (text_of items last) ->
    let r := lex uc (utf8 (text_of items last)) in
    map tk (fst r) = map item_token items /\ snd r = None.
