(* C14, "every diagnostic that shows a source location names the user's file and the line on which
   the offending token or expression really is ... and underlines exactly the offending span":
   the diagnostics of the PARSER's own diagnostic productions (ParseDiag.v: parse_diag /
   parse_text_diag, the spanned model parser extended with the productions of src/parser.lalrpop
   that accept a malformed construct, push an error and go on with a placeholder).

   Statements, in the vocabulary of Lexer.v (tokens with byte offsets), SpanParserSpec.v
   (token_aligned, inside, extent, layout, tokens_ordered) and RegionSpec.v (what the renderer
   shows for a span).  Definitions only.

     (a) conservative: parse_diag accepts without diagnostics exactly the texts parse_sp accepts,
         and builds the same spanned statements;
     (b) every diagnostic span runs from the start of a token to the end of a (not earlier) token of
         its own statement, hence lies in the text, is not empty, and - for a statement of the
         user's part - is rendered in the user's file on the right line with carets under the span;
     (c) WHICH construct each diagnostic names: the diagnostic grammar as relations between token
         stretches, declarations and diagnostics ([*_shape]); parse_diag is sound for it, kind by
         kind the span is the one named in the header of ParseDiag.v, and conversely each malformed
         declaration yields its diagnostic;
     (d) the declarations returned alongside diagnostics are the placeholders of the grammar
         actions (they are part of the shapes). *)
From HclV Require Import Base Expr Build Lexer Parser LexParseSpec TriviaSpec Yo Region RegionSpec
                         LexLocSpec Generated SpanParser SpanParserSpec ParseDiag.
Open Scope list_scope.
Open Scope N_scope.

(* ====================================================================================== *)
(* vocabulary                                                                             *)
(* ====================================================================================== *)
(* an identifier token spelling nm *)
Definition is_name (t : tok) (nm : string) : Prop :=
  exists name, tk t = TIdentifier name /\ nm = string_of_name name.
(* a constant token of value w <= 128 (WidthConstant, SimpleConstant) *)
Definition width_of (t : tok) (w : N) : Prop :=
  exists v, tk t = TLit v /\ bits v <= 128 /\ w = bits v.
(* a constant token of value > 128 *)
Definition too_wide (t : tok) : Prop := exists v, tk t = TLit v /\ 128 < bits v.

(* the tokens [we], followed by [rest], are read as the expression e - all of [we] and nothing of
   [rest]; the symbol's extent is the extent of [we] *)
Definition reads_expr (tiers : list tier) (we rest : list tok) (e : sexpr) : Prop :=
  we <> [] /\ exists f, parse_expr_sp tiers f (we ++ rest) = Some (e, extent we, rest).
(* ... as a SimpleTerm *)
Definition reads_simple (tiers : list tier) (w rest : list tok) (e : sexpr) : Prop :=
  w <> [] /\ exists f, parse_simple_sp tiers f (w ++ rest) = Some (e, extent w, rest).
(* ... as the options of a case expression (Semicolons<MuxOption>) *)
Definition reads_options (tiers : list tier) (wo rest : list tok) (a : sarms) : Prop :=
  exists f, parse_mux_options_sp tiers f (wo ++ rest) = Some (a, rest).

(* the token sequence does not begin with  ID "="  *)
Definition no_target (l : list tok) : Prop :=
  match l with
  | t1 :: t2 :: _ => starts_name (tk t1) && token_eqb (tk t2) TAssign = false
  | _ => True
  end.

(* all the diagnostics of the statements that were completed *)
Definition completed_diags (r : dresult) : list pdiag := diags_of (result_stmts r).

(* ====================================================================================== *)
(* the diagnostic grammar: one relation per grammar symbol                                *)
(*   shape rest it d ds : the tokens [it], when followed by [rest], are ONE item, for which *)
(*   the action builds d and pushes the errors ds (in this order)                          *)
(* R / RO / RS: how expressions / case options / simple terms are read (reads_expr ...)    *)
(* ====================================================================================== *)
Section Shapes.
  Variable R : list tok -> list tok -> sexpr -> Prop.
  Variable RO : list tok -> list tok -> sarms -> Prop.

  (* WireDecl *)
  Inductive wire_decl_shape (rest : list tok) : list tok -> swire_decl -> list pdiag -> Prop :=
  | WS_plain t1 t2 t3 nm w :                                   (* x : 8 *)
      is_name t1 nm -> tk t2 = TColon -> width_of t3 w -> next_is TAssign rest = false ->
      wire_decl_shape rest [t1; t2; t3] (nm, Bits w, (tstart t1, tend t3)) []
  | WS_missing t1 nm :                                         (* x         MissingWireWidth: the name *)
      is_name t1 nm -> next_is TColon rest = false -> next_is TAssign rest = false ->
      wire_decl_shape rest [t1] (nm, Bits 0, tspan t1) [(KMissingWireWidth, tspan t1)]
  | WS_assigned t1 t2 we e nm :                                (* x = e     both errors: name .. "=" *)
      is_name t1 nm -> tk t2 = TAssign -> R we rest e ->
      wire_decl_shape rest (t1 :: t2 :: we) (nm, Bits 0, (tstart t1, tend t2))
                      [(KMissingWireWidth, (tstart t1, tend t2));
                       (KWireAssignedInDeclaration, (tstart t1, tend t2))]
  | WS_width_assigned t1 t2 t3 t4 we e nm w :                  (* x : 8 = e   name .. "=" *)
      is_name t1 nm -> tk t2 = TColon -> width_of t3 w -> tk t4 = TAssign -> R we rest e ->
      wire_decl_shape rest (t1 :: t2 :: t3 :: t4 :: we) (nm, Bits w, (tstart t1, tend t4))
                      [(KWireAssignedInDeclaration, (tstart t1, tend t4))].

  (* ConstDecl *)
  Inductive const_decl_shape (rest : list tok) : list tok -> sconst_decl -> list pdiag -> Prop :=
  | CS_plain t1 t2 we e nm :                                   (* K = e *)
      is_name t1 nm -> tk t2 = TAssign -> R we rest e ->
      const_decl_shape rest (t1 :: t2 :: we) (nm, tspan t1, e) []
  | CS_width t1 t2 t3 t4 we e nm w :                           (* K : 8 = e   AddedConstWidth: ":" .. width *)
      is_name t1 nm -> tk t2 = TColon -> width_of t3 w -> tk t4 = TAssign -> R we rest e ->
      const_decl_shape rest (t1 :: t2 :: t3 :: t4 :: we) (nm, tspan t1, e)
                       [(KAddedConstWidth, (tstart t2, tend t3))].

  (* (ID "=")+ *)
  Inductive targets_shape : list tok -> list (string * srcspan) -> Prop :=
  | TS_one t1 t2 nm : is_name t1 nm -> tk t2 = TAssign -> targets_shape [t1; t2] [(nm, tspan t1)]
  | TS_more t1 t2 nm w names :
      is_name t1 nm -> tk t2 = TAssign -> targets_shape w names ->
      targets_shape (t1 :: t2 :: w) ((nm, tspan t1) :: names).

  (* Assignment *)
  Inductive assign_shape (rest : list tok) : list tok -> sassign -> list pdiag -> Prop :=
  | AS_plain wn names we e :                                   (* x = y = e *)
      targets_shape wn names -> no_target (we ++ rest) -> R we rest e ->
      assign_shape rest (wn ++ we) (names, e, (first_start wn, last_end we)) []
  | AS_mux t1 t2 wo t3 nm c v more :                           (* x [ c : v; ... ]   MissingAssignmentMux: the name *)
      is_name t1 nm -> tk t2 = TOpenBracket -> RO wo (t3 :: rest) (SACons c v more) ->
      tk t3 = TCloseBracket ->
      assign_shape rest (t1 :: t2 :: wo ++ [t3])
                   ([(nm, tspan t1)], SEMux (tend t1, tend t3) (SACons c v more), (tstart t1, tend t3))
                   [(KMissingAssignmentMux, tspan t1)].

  (* RegisterDecl *)
  Inductive reg_decl_shape (rest : list tok) : list tok -> dreg -> list pdiag -> Prop :=
  | RS_plain t1 t2 t3 t4 we e nm w :                           (* r : 8 = e *)
      is_name t1 nm -> tk t2 = TColon -> width_of t3 w -> tk t4 = TAssign -> R we rest e ->
      reg_decl_shape rest (t1 :: t2 :: t3 :: t4 :: we)
                     (DReg (nm, Bits w, e, (tstart t1, last_end we))) []
  | RS_nowidth t1 t2 we e nm :                                 (* r = e   MissingRegisterWidth: name .. end of e *)
      is_name t1 nm -> tk t2 = TAssign -> R we rest e ->
      reg_decl_shape rest (t1 :: t2 :: we) (DRegError (tstart t1, last_end we))
                     [(KMissingRegisterWidth, (tstart t1, last_end we))]
  | RS_wire t1 t2 t3 we e nm :                                 (* wire r = e   RegisterDeclaredWithWire: "wire" *)
      tk t1 = TWire -> is_name t2 nm -> tk t3 = TAssign -> R we rest e ->
      reg_decl_shape rest (t1 :: t2 :: t3 :: we) (DRegError (tstart t1, last_end we))
                     [(KRegisterDeclaredWithWire, tspan t1)]
  | RS_wire_width t1 t2 t3 t4 t5 we e nm w :                   (* wire r : 8 = e *)
      tk t1 = TWire -> is_name t2 nm -> tk t3 = TColon -> width_of t4 w -> tk t5 = TAssign -> R we rest e ->
      reg_decl_shape rest (t1 :: t2 :: t3 :: t4 :: t5 :: we) (DRegError (tstart t1, last_end we))
                     [(KRegisterDeclaredWithWire, tspan t1)].

  (* Repeat<sep, T> = (T sep)* T?  with the items' errors concatenated in text order;
     [starts]: the tokens an item may begin with *)
  Inductive list_shape {A : Type} (starts : token -> bool) (sep : token)
            (shape : list tok -> list tok -> A -> list pdiag -> Prop) (rest : list tok)
    : list tok -> list A -> list pdiag -> Prop :=
  | LS_nil : (forall t r, rest = t :: r -> starts (tk t) = false) ->
      list_shape starts sep shape rest [] [] []
  | LS_last it d ds : shape rest it d ds -> next_is sep rest = false ->
      list_shape starts sep shape rest it [d] ds
  | LS_cons it d ds c w more dss :
      shape (c :: w ++ rest) it d ds -> tk c = sep -> list_shape starts sep shape rest w more dss ->
      list_shape starts sep shape rest (it ++ c :: w) (d :: more) (ds ++ dss).

  Variable RS : list tok -> list tok -> sexpr -> Prop.

  (* a statement: its tokens, what it builds, whether it needs ";", its errors.
     [no_errors]: no error was pushed before this statement *)
  Inductive statement_shape (no_errors : bool) (rest : list tok)
    : list tok -> dstmt -> stmt_kind -> list pdiag -> Prop :=
  | SH_wire kw w ds dgs : tk kw = TWire ->
      list_shape starts_name TComma wire_decl_shape rest w ds dgs ->
      statement_shape no_errors rest (kw :: w) (DSWire ds) NeedSemi dgs
  | SH_const kw w ds dgs : tk kw = TConst ->
      list_shape starts_name TComma const_decl_shape rest w ds dgs ->
      statement_shape no_errors rest (kw :: w) (DSConst ds) NeedSemi dgs
  | SH_assign w a dgs : a <> [] ->
      list_shape starts_name TComma assign_shape rest w a dgs ->
      statement_shape no_errors rest w (DSAssign a) NeedSemi dgs
  | SH_bank kw t1 t2 w t3 nm regs dgs :
      tk kw = TRegister -> is_name t1 nm -> tk t2 = TOpenBrace ->
      list_shape starts_reg_decl TSemicolon reg_decl_shape (t3 :: rest) w regs dgs ->
      tk t3 = TCloseBrace ->
      statement_shape no_errors rest (kw :: t1 :: t2 :: w ++ [t3])
                 (DSBank nm (tspan t1) regs (tstart kw, tend t3)) NoSemi dgs
  | SH_expr w e :                                  (* a bare SimpleTerm: ExpectedStatementFoundExpr: the term *)
      RS w rest e ->
      statement_shape no_errors rest w DSError NeedSemi
                 (if no_errors then [(KExpectedStatementFoundExpr, espan e)] else []).

  (* a file:  ;* statement ;* statement ... ;*  followed by [tail] (empty unless the parse stopped) *)
  Inductive prog_shape : bool -> list tok -> list tok -> list (dstmt * list pdiag) -> Prop :=
  | PS_end b semis tail : Forall is_semi semis -> prog_shape b (semis ++ tail) tail []
  | PS_stmt b semis sg rest tail s k ds more :
      Forall is_semi semis -> sg <> [] -> statement_shape b rest sg s k ds ->
      (k = NeedSemi -> rest = [] \/ next_is TSemicolon rest = true) ->
      prog_shape (b && match ds with [] => true | _ => false end) rest tail more ->
      prog_shape b (semis ++ sg ++ rest) tail ((s, ds) :: more).
End Shapes.

Definition wire_decl_form (tiers : list tier) := wire_decl_shape (reads_expr tiers).
Definition const_decl_form (tiers : list tier) := const_decl_shape (reads_expr tiers).
Definition assign_form (tiers : list tier) := assign_shape (reads_expr tiers) (reads_options tiers).
Definition reg_decl_form (tiers : list tier) := reg_decl_shape (reads_expr tiers).
Definition statement_form (tiers : list tier) :=
  statement_shape (reads_expr tiers) (reads_options tiers) (reads_simple tiers).
Definition prog_form (tiers : list tier) :=
  prog_shape (reads_expr tiers) (reads_options tiers) (reads_simple tiers).

(* the error of a fallible action: an oversized constant t standing
   - after ":"                  (WidthConstant)   InvalidWireWidth
   - after "[" or "[" lo ".."   (SimpleConstant)  InvalidConstant       - with the span of t *)
Definition fatal_form (w : list tok) (d : pdiag) : Prop :=
  exists pre p t post, w = pre ++ p :: t :: post /\ too_wide t /\ snd d = tspan t /\
    ((fst d = KInvalidWireWidth /\ tk p = TColon) \/
     (fst d = KInvalidConstant /\
      (tk p = TOpenBracket \/
       (tk p = TDotDot /\ exists pre' b lo w0, pre = pre' ++ [b; lo] /\ tk b = TOpenBracket /\ width_of lo w0)))).

(* ====================================================================================== *)
(* (a) conservative                                                                       *)
(* ====================================================================================== *)
Definition silent (l : list sstmt) : list (dstmt * list pdiag) :=
  map (fun s => (dstmt_of s, @nil pdiag)) l.

(* parse_diag accepts without a diagnostic exactly what parse_sp accepts, with the same statements *)
Definition stmt_diag_conservative : Prop :=
  forall tiers toks l, parse_sp tiers toks = Some l <-> parse_diag tiers toks = Some (DDone (silent l)).

Definition stmt_diag_conservative_text : Prop :=
  forall uc tiers bytes l,
    parse_text_sp uc tiers bytes = Some l <-> parse_text_diag uc tiers bytes = Some (DDone (silent l)).

(* an outcome without diagnostics is an accepted text: in particular parse_diag never returns a
   diagnostic (nor a placeholder) for a text that parse_sp accepts *)
Definition stmt_diag_none_iff_accepted : Prop :=
  forall tiers toks,
    (exists l, parse_sp tiers toks = Some l) <->
    (exists r, parse_diag tiers toks = Some r /\ all_diags r = []).

(* what lib.rs returns: Ok exactly for the texts parse_sp accepts, with those statements *)
Definition stmt_diag_outcome_ok : Prop :=
  forall tiers toks r stmts, parse_diag tiers toks = Some r -> outcome r = ParsedOk stmts ->
    exists l, parse_sp tiers toks = Some l /\ stmts = map dstmt_of l /\ r = DDone (silent l).

(* ====================================================================================== *)
(* (b) the spans                                                                          *)
(* ====================================================================================== *)
(* every diagnostic span begins where a token begins and ends where a (not earlier) token ends *)
Definition stmt_diag_spans_token_aligned : Prop :=
  forall tiers toks r, parse_diag tiers toks = Some r ->
    forall d, In d (all_diags r) -> token_aligned toks (snd d).

(* ... of its own statement: the tokens are  consumed ++ tail  with  consumed  laid out as
   ;* statement_1 ;* statement_2 ... ;*  (SpanParserSpec.layout); the diagnostics of statement k
   run between token boundaries of its stretch; tail is empty unless a fallible action stopped the
   parse, and then begins with the statement in which it stopped, whose diagnostics lie in tail *)
Definition stmt_diag_spans_in_statement : Prop :=
  forall tiers toks r, tokens_ordered toks -> parse_diag tiers toks = Some r ->
    exists consumed tail segs, toks = consumed ++ tail /\ layout consumed segs /\
      Forall2 (fun seg (x : dstmt * list pdiag) =>
                 forall d, In d (snd x) -> token_aligned seg (snd d) /\ inside (snd d) (extent seg))
              segs (result_stmts r) /\
      match r with
      | DDone _ => tail = []
      | DFatal _ ds => forall d, In d ds -> token_aligned tail (snd d) /\ inside (snd d) (extent tail)
      end.

(* in the text: a non-empty range inside the text, from the first byte of a token to the last
   byte of a token - no blank or comment before the first or after the last token of the construct *)
Definition stmt_diag_spans_in_text : Prop :=
  forall uc tiers text r, Forall scalar text ->
    parse_text_diag uc tiers (utf8 text) = Some r ->
    exists toks, lex uc (utf8 text) = (toks, None) /\ tokens_ordered toks /\
      forall d, In d (all_diags r) ->
        token_aligned toks (snd d) /\ (fst (snd d) < snd (snd d))%nat /\
        (snd (snd d) <= List.length (utf8 text))%nat.

(* the diagnostics are reported statement by statement, in text order: whatever is reported for an
   earlier statement ends before anything reported for a later statement begins (all_diags lists
   them in this order); the diagnostics of the statement in which the parse stopped come last *)
Definition stmt_diag_statements_in_text_order : Prop :=
  forall tiers toks r, tokens_ordered toks -> parse_diag tiers toks = Some r ->
    (forall i j xi xj di dj, (i < j)%nat ->
       nth_error (result_stmts r) i = Some xi -> nth_error (result_stmts r) j = Some xj ->
       In di (snd xi) -> In dj (snd xj) -> (snd (snd di) <= fst (snd dj))%nat) /\
    (forall l ds, r = DFatal l ds -> forall x di dj, In x l -> In di (snd x) -> In dj ds ->
       (snd (snd di) <= fst (snd dj))%nat).

(* hclrs parses  preamble ++ user text.  The diagnostics of the user's part: those of the
   statements after the first k (k = the number of statements of the preamble) *)
Definition user_diags (k : nat) (r : dresult) : list pdiag :=
  match r with
  | DDone l => diags_of (skipn k l)
  | DFatal l ds => diags_of (skipn k l) ++ (if Nat.leb k (List.length l) then ds else [])
  end.

(* If the preamble - a text that ends with a line feed - is accepted on its own (k statements),
   every diagnostic of the user's part has its span in the user's text; rendered by show_region it
   is headed by the user's file name and, when on one line, is the one-line region: the user's file,
   the 1-based line counted in the user's text, the text of that line, carets under exactly the
   span *)
Definition stmt_diag_user_span_rendered : Prop :=
  forall uc tiers ptext utext fname pstmts r,
    Forall scalar (ptext ++ [10] ++ utext) ->
    parse_text_sp uc tiers (utf8 (ptext ++ [10])) = Some pstmts ->
    parse_text_diag uc tiers (utf8 ((ptext ++ [10]) ++ utext)) = Some r ->
    let pre := utf8 (ptext ++ [10]) in
    let user := utf8 utext in
    let fc := new_from_data pre user fname in
    forall d, In d (user_diags (List.length pstmts) r) ->
      exists us ue, fst (snd d) = (List.length pre + us)%nat /\ snd (snd d) = (List.length pre + ue)%nat /\
                    (us < ue)%nat /\ (ue <= List.length user)%nat /\
        (exists out, show_region fc (fst (snd d)) (snd (snd d)) = Some out /\
                     exists rest, out = RegionSpec.sp 5 ++ [45; 62; 32] ++ fname ++ [58] ++ rest) /\
        (count_lf (firstn (ue - us) (skipn us user)) = O ->
           show_region fc (fst (snd d)) (snd (snd d)) =
           Some (one_line_region fname (line_no user us) (line_text user us) (col_of user us) (ue - us))).

(* the same for the compiled preamble (LexLocSpec.preamble_bytes, 17 statements) *)
Definition stmt_diag_user_span_rendered_gen : Prop :=
  forall uc utext fname r,
    Forall scalar utext ->
    parse_text_diag uc doc_tiers (preamble_bytes ++ utf8 utext) = Some r ->
    let user := utf8 utext in
    let fc := new_from_data preamble_bytes user fname in
    forall d, In d (user_diags preamble_statement_count r) ->
      exists us ue, fst (snd d) = (List.length preamble_bytes + us)%nat /\
                    snd (snd d) = (List.length preamble_bytes + ue)%nat /\
                    (us < ue)%nat /\ (ue <= List.length user)%nat /\
        (exists out, show_region fc (fst (snd d)) (snd (snd d)) = Some out /\
                     exists rest, out = RegionSpec.sp 5 ++ [45; 62; 32] ++ fname ++ [58] ++ rest) /\
        (count_lf (firstn (ue - us) (skipn us user)) = O ->
           show_region fc (fst (snd d)) (snd (snd d)) =
           Some (one_line_region fname (line_no user us) (line_text user us) (col_of user us) (ue - us))).

(* ... and with the compiled preamble EVERY diagnostic is one of the user's part (the preamble is
   accepted without diagnostics, whatever follows it) - so every diagnostic of the parser's
   diagnostic productions is rendered in the user's file *)
Definition stmt_diag_all_user_gen : Prop :=
  forall uc utext r, Forall scalar utext ->
    parse_text_diag uc doc_tiers (preamble_bytes ++ utf8 utext) = Some r ->
    all_diags r = user_diags preamble_statement_count r.

(* ====================================================================================== *)
(* (c) which construct                                                                    *)
(* ====================================================================================== *)
(* parse_diag is sound for the diagnostic grammar: the completed statements, with their placeholders
   and their diagnostics, are a derivation of  consumed ; a stopped parse stopped in the statement
   beginning at tail, at an oversized width or bit index, which is its last diagnostic *)
Definition stmt_diag_grammar_sound : Prop :=
  forall tiers toks r, parse_diag tiers toks = Some r ->
    exists tail, prog_form tiers true toks tail (result_stmts r) /\
      match r with
      | DDone _ => tail = []
      | DFatal _ ds => exists ds0 d, ds = ds0 ++ [d] /\ fatal_form tail d /\
                                     forall d0, In d0 ds0 -> token_aligned tail (snd d0)
      end.

(* every completed statement of the outcome, with its errors, has a statement form at some stretch
   sg of the tokens *)
Definition stmt_diag_statement_forms : Prop :=
  forall tiers toks r, parse_diag tiers toks = Some r ->
    forall s ds, In (s, ds) (result_stmts r) ->
      exists b before sg rest k, toks = before ++ sg ++ rest /\ sg <> [] /\ statement_form tiers b rest sg s k ds.

(* ---- kind by kind: the span and the placeholder, for the forms of the diagnostic grammar (by
   stmt_diag_grammar_sound / stmt_diag_statement_forms / stmt_diag_from_declaration: for the
   diagnostics of parse_diag) ----------------------------------------------------------------- *)
(* an item of a list with what follows it *)
Definition item_of (sep : token) (w rest : list tok) (it : list tok) (after : list tok) : Prop :=
  exists before, w ++ rest = before ++ it ++ after /\
    (before = [] \/ exists b c, before = b ++ [c] /\ tk c = sep).

(* MissingWireWidth: a declaration of a wire statement that is the NAME alone (neither ":" nor "="
   follows): the span is exactly the name token; or  name "=" value : the span runs from the name
   to the "=" sign.  The placeholder is  name : 0  with that span. *)
Definition stmt_diag_missing_wire_width_span : Prop :=
  forall tiers rest it d ds sp, wire_decl_form tiers rest it d ds -> In (KMissingWireWidth, sp) ds ->
    exists t1 nm, is_name t1 nm /\ d = (nm, Bits 0, sp) /\
      ((it = [t1] /\ sp = tspan t1 /\ next_is TColon rest = false /\ next_is TAssign rest = false) \/
       (exists t2 we e, it = t1 :: t2 :: we /\ tk t2 = TAssign /\ reads_expr tiers we rest e /\
                        sp = (tstart t1, tend t2) /\ In (KWireAssignedInDeclaration, sp) ds)).

(* WireAssignedInDeclaration:  name [":" width] "=" value : from the name to the "=" sign; the
   placeholder keeps the width (0 if there is none) and has that span *)
Definition stmt_diag_wire_assigned_span : Prop :=
  forall tiers rest it d ds sp, wire_decl_form tiers rest it d ds -> In (KWireAssignedInDeclaration, sp) ds ->
    exists t1 nm we e, is_name t1 nm /\ reads_expr tiers we rest e /\
      ((exists t2, it = t1 :: t2 :: we /\ tk t2 = TAssign /\ sp = (tstart t1, tend t2) /\
                   d = (nm, Bits 0, sp) /\ ds = [(KMissingWireWidth, sp); (KWireAssignedInDeclaration, sp)]) \/
       (exists t2 t3 t4 w, it = t1 :: t2 :: t3 :: t4 :: we /\ tk t2 = TColon /\ width_of t3 w /\ tk t4 = TAssign /\
                           sp = (tstart t1, tend t4) /\ d = (nm, Bits w, sp) /\
                           ds = [(KWireAssignedInDeclaration, sp)])).

(* AddedConstWidth:  name ":" width "=" value : from the ":" to the width constant; the declaration
   is the one without the width *)
Definition stmt_diag_added_const_width_span : Prop :=
  forall tiers rest it d ds sp, const_decl_form tiers rest it d ds -> In (KAddedConstWidth, sp) ds ->
    exists t1 t2 t3 t4 we e nm w,
      it = t1 :: t2 :: t3 :: t4 :: we /\ is_name t1 nm /\ tk t2 = TColon /\ width_of t3 w /\ tk t4 = TAssign /\
      reads_expr tiers we rest e /\ sp = (tstart t2, tend t3) /\ d = (nm, tspan t1, e) /\
      ds = [(KAddedConstWidth, sp)].

(* MissingAssignmentMux:  name "[" options "]" (at least one option): exactly the name token; the
   placeholder is the assignment of the case expression, whose span begins at the END of the name *)
Definition stmt_diag_missing_assignment_mux_span : Prop :=
  forall tiers rest it a ds sp, assign_form tiers rest it a ds -> In (KMissingAssignmentMux, sp) ds ->
    exists t1 t2 wo t3 nm c v more,
      it = t1 :: t2 :: wo ++ [t3] /\ is_name t1 nm /\ tk t2 = TOpenBracket /\ tk t3 = TCloseBracket /\
      reads_options tiers wo (t3 :: rest) (SACons c v more) /\ sp = tspan t1 /\
      a = ([(nm, tspan t1)], SEMux (tend t1, tend t3) (SACons c v more), (tstart t1, tend t3)) /\
      ds = [(KMissingAssignmentMux, sp)].

(* MissingRegisterWidth:  name "=" value  in a register bank: from the name to the end of the
   value; the placeholder is the error register with that span *)
Definition stmt_diag_missing_register_width_span : Prop :=
  forall tiers rest it r ds sp, reg_decl_form tiers rest it r ds -> In (KMissingRegisterWidth, sp) ds ->
    exists t1 t2 we e nm,
      it = t1 :: t2 :: we /\ is_name t1 nm /\ tk t2 = TAssign /\ reads_expr tiers we rest e /\
      sp = (tstart t1, last_end we) /\ sp = extent it /\ r = DRegError sp /\ ds = [(KMissingRegisterWidth, sp)].

(* RegisterDeclaredWithWire:  "wire" name [":" width] "=" value  in a register bank: exactly the
   keyword; the placeholder is the error register spanning the whole declaration *)
Definition stmt_diag_register_declared_with_wire_span : Prop :=
  forall tiers rest it r ds sp, reg_decl_form tiers rest it r ds -> In (KRegisterDeclaredWithWire, sp) ds ->
    exists t1 t2 nm we e more,
      it = t1 :: t2 :: more ++ we /\ tk t1 = TWire /\ is_name t2 nm /\ reads_expr tiers we rest e /\
      sp = tspan t1 /\ r = DRegError (extent it) /\ ds = [(KRegisterDeclaredWithWire, sp)] /\
      ((exists t3, more = [t3] /\ tk t3 = TAssign) \/
       (exists t3 t4 t5 w, more = [t3; t4; t5] /\ tk t3 = TColon /\ width_of t4 w /\ tk t5 = TAssign)).

(* ExpectedStatementFoundExpr: a statement that is a bare simple term: the span recorded in the
   term (a parenthesised expression: the span of the expression inside); only if no error was
   pushed before; the placeholder is Statement::Error *)
Definition stmt_diag_expected_statement_span : Prop :=
  forall tiers b rest sg s k ds sp, statement_form tiers b rest sg s k ds -> In (KExpectedStatementFoundExpr, sp) ds ->
    exists e, reads_simple tiers sg rest e /\ sp = espan e /\ b = true /\ s = DSError /\
              ds = [(KExpectedStatementFoundExpr, sp)] /\ token_aligned sg sp.

(* the diagnostics of a statement are those of its declarations: every diagnostic of a wire / const
   / assignment statement or of a register bank belongs to one of its declarations, which has one of
   the forms above, is preceded by the keyword or a separator and followed by [after] *)
Definition stmt_diag_from_declaration : Prop :=
  forall tiers b rest sg s k ds dg, statement_form tiers b rest sg s k ds -> In dg ds ->
    match s with
    | DSWire decls => exists kw w it after d dsi,
        sg = kw :: w /\ tk kw = TWire /\ item_of TComma w rest it after /\
        wire_decl_form tiers after it d dsi /\ In d decls /\ In dg dsi
    | DSConst decls => exists kw w it after d dsi,
        sg = kw :: w /\ tk kw = TConst /\ item_of TComma w rest it after /\
        const_decl_form tiers after it d dsi /\ In d decls /\ In dg dsi
    | DSAssign asg => exists it after a dsi,
        item_of TComma sg rest it after /\
        assign_form tiers after it a dsi /\ In a asg /\ In dg dsi
    | DSBank _ _ regs _ => exists kw t1 t2 w t3 it after r dsi,
        sg = kw :: t1 :: t2 :: w ++ [t3] /\ tk kw = TRegister /\ tk t2 = TOpenBrace /\ tk t3 = TCloseBrace /\
        item_of TSemicolon w (t3 :: rest) it after /\
        reg_decl_form tiers after it r dsi /\ In r regs /\ In dg dsi
    | DSError => fst dg = KExpectedStatementFoundExpr
    end.

(* ---- conversely: each malformed declaration yields its diagnostic (the function that models the
   grammar symbol, on the declaration followed by rest, for every sufficient fuel) -------------- *)
Definition stmt_diag_wire_decl_complete : Prop :=
  forall tiers rest it d ds, wire_decl_form tiers rest it d ds ->
    exists f0, forall f eof, (f0 <= f)%nat -> wire_decl_d tiers f eof (it ++ rest) = POk (d, rest) ds.
Definition stmt_diag_const_decl_complete : Prop :=
  forall tiers rest it d ds, const_decl_form tiers rest it d ds ->
    exists f0, forall f, (f0 <= f)%nat -> const_decl_d tiers f (it ++ rest) = POk (d, rest) ds.
Definition stmt_diag_assignment_complete : Prop :=
  forall tiers rest it a ds, assign_form tiers rest it a ds ->
    exists f0, forall f, (f0 <= f)%nat -> assignment_d tiers f (it ++ rest) = POk (a, rest) ds.
Definition stmt_diag_reg_decl_complete : Prop :=
  forall tiers rest it r ds, reg_decl_form tiers rest it r ds ->
    exists f0, forall f, (f0 <= f)%nat -> reg_decl_d tiers f (it ++ rest) = POk (r, rest) ds.

(* in particular, kind by kind (the instances one reads against the grammar) *)
Definition stmt_diag_missing_wire_width_complete : Prop :=
  forall tiers f eof t1 nm rest, is_name t1 nm -> next_is TColon rest = false -> next_is TAssign rest = false ->
    wire_decl_d tiers f eof (t1 :: rest) = POk ((nm, Bits 0, tspan t1), rest) [(KMissingWireWidth, tspan t1)].
Definition stmt_diag_wire_assigned_complete : Prop :=
  forall tiers t1 t2 t3 t4 nm w we e rest,
    is_name t1 nm -> tk t2 = TColon -> width_of t3 w -> tk t4 = TAssign -> reads_expr tiers we rest e ->
    exists f0, forall f eof, (f0 <= f)%nat ->
      wire_decl_d tiers f eof (t1 :: t2 :: t3 :: t4 :: we ++ rest) =
      POk ((nm, Bits w, (tstart t1, tend t4)), rest) [(KWireAssignedInDeclaration, (tstart t1, tend t4))].
Definition stmt_diag_wire_assigned_nowidth_complete : Prop :=
  forall tiers t1 t2 nm we e rest,
    is_name t1 nm -> tk t2 = TAssign -> reads_expr tiers we rest e ->
    exists f0, forall f eof, (f0 <= f)%nat ->
      wire_decl_d tiers f eof (t1 :: t2 :: we ++ rest) =
      POk ((nm, Bits 0, (tstart t1, tend t2)), rest)
          [(KMissingWireWidth, (tstart t1, tend t2)); (KWireAssignedInDeclaration, (tstart t1, tend t2))].
Definition stmt_diag_added_const_width_complete : Prop :=
  forall tiers t1 t2 t3 t4 nm w we e rest,
    is_name t1 nm -> tk t2 = TColon -> width_of t3 w -> tk t4 = TAssign -> reads_expr tiers we rest e ->
    exists f0, forall f, (f0 <= f)%nat ->
      const_decl_d tiers f (t1 :: t2 :: t3 :: t4 :: we ++ rest) =
      POk ((nm, tspan t1, e), rest) [(KAddedConstWidth, (tstart t2, tend t3))].
Definition stmt_diag_missing_register_width_complete : Prop :=
  forall tiers t1 t2 nm we e rest,
    is_name t1 nm -> tk t2 = TAssign -> reads_expr tiers we rest e ->
    exists f0, forall f, (f0 <= f)%nat ->
      reg_decl_d tiers f (t1 :: t2 :: we ++ rest) =
      POk (DRegError (tstart t1, last_end we), rest) [(KMissingRegisterWidth, (tstart t1, last_end we))].
Definition stmt_diag_register_declared_with_wire_complete : Prop :=
  forall tiers t1 t2 t3 nm we e rest,
    tk t1 = TWire -> is_name t2 nm -> tk t3 = TAssign -> reads_expr tiers we rest e ->
    exists f0, forall f, (f0 <= f)%nat ->
      reg_decl_d tiers f (t1 :: t2 :: t3 :: we ++ rest) =
      POk (DRegError (tstart t1, last_end we), rest) [(KRegisterDeclaredWithWire, tspan t1)].
Definition stmt_diag_missing_assignment_mux_complete : Prop :=
  forall tiers t1 t2 wo t3 nm c v more rest,
    is_name t1 nm -> tk t2 = TOpenBracket -> tk t3 = TCloseBracket ->
    reads_options tiers wo (t3 :: rest) (SACons c v more) ->
    exists f0, forall f, (f0 <= f)%nat ->
      assignment_d tiers f (t1 :: t2 :: wo ++ t3 :: rest) =
      POk (([(nm, tspan t1)], SEMux (tend t1, tend t3) (SACons c v more), (tstart t1, tend t3)), rest)
          [(KMissingAssignmentMux, tspan t1)].

(* the fallible actions: an oversized width followed by a token that may follow makes the
   declaration parser stop with InvalidWireWidth on that constant; an oversized bit index makes the
   expression parser stop with InvalidConstant whatever follows *)
Definition stmt_diag_invalid_wire_width_complete : Prop :=
  forall tiers f eof t1 t2 t3 nm rest,
    is_name t1 nm -> tk t2 = TColon -> too_wide t3 -> follows_wire_width eof rest = true ->
    wire_decl_d tiers f eof (t1 :: t2 :: t3 :: rest) = PFatal [(KInvalidWireWidth, tspan t3)].
Definition stmt_diag_invalid_constant_complete : Prop :=
  forall tiers f t1 t2 t3 rest, starts_name (tk t1) = true \/ (exists v, tk t1 = TLit v) ->
    tk t2 = TOpenBracket -> too_wide t3 -> tiers_ok tiers -> (List.length tiers + 4 <= f)%nat ->
    expr_d tiers f (t1 :: t2 :: t3 :: rest) = PFatal [(KInvalidConstant, tspan t3)].
