(* C18 / C20: proofs of the statements of TraceSpec: the readers applied to the messages printed
   by Machine.exec_action / Disasm.trace_line return the quantities the action used. *)
From HclV Require Import Base Expr Disasm DisasmProofs Machine MachineProofs MemSpec MemProofs
  DumpSpec DumpProofs DumpParse DumpParseSpec DumpParseProofs TraceSpec.
From Coq Require Import ZifyN ZifyBool ZifyNat.
Local Ltac Zify.zify_post_hook ::= Z.div_mod_to_equations.
Open Scope string_scope.
Open Scope N_scope.

(* ================================================================================== *)
(* 0. decimal numbers                                                                 *)
(* ================================================================================== *)
Definition decdigit (d : N) : ascii := ascii_of_N (48 + d).

Lemma lt10_cases (d : N) : d < 10 ->
  d = 0 \/ d = 1 \/ d = 2 \/ d = 3 \/ d = 4 \/ d = 5 \/ d = 6 \/ d = 7 \/ d = 8 \/ d = 9.
Proof. lia. Qed.

Lemma decval_decdigit (d : N) : d < 10 -> decval (decdigit d) = Some d.
Proof.
  intros H. destruct (lt10_cases d H) as [->|[->|[->|[->|[->|[->|[->|[->|[->| ->]]]]]]]]]; reflexivity.
Qed.

Lemma dec_fuel_step (f : nat) (n : N) :
  dec_fuel (S f) n "" =
  if n <? 10 then String (decdigit (n mod 10)) ""
  else dec_fuel f (n / 10) "" ++ String (decdigit (n mod 10)) "".
Proof.
  cbn [dec_fuel]. destruct (n <? 10); [reflexivity|]. apply dec_fuel_acc.
Qed.

Lemma undec_acc_app (a b : string) : forall acc,
  undec_acc (a ++ b) acc =
  match undec_acc a acc with Some x => undec_acc b x | None => None end.
Proof.
  induction a as [|c a IH]; intros acc; cbn [String.append undec_acc]; [reflexivity|].
  destruct (decval c) as [d|]; [apply IH | reflexivity].
Qed.

Lemma pow10_succ (k : nat) : 10 ^ N.of_nat (S k) = 10 * 10 ^ N.of_nat k.
Proof.
  replace (N.of_nat (S k)) with (N.succ (N.of_nat k)) by lia. apply N.pow_succ_r. lia.
Qed.

Lemma undec_dec_fuel (fuel : nat) : forall n,
  n < 10 ^ N.of_nat fuel -> undec_acc (dec_fuel fuel n "") 0 = Some n.
Proof.
  induction fuel as [|f IH]; intros n Hn.
  - change (10 ^ N.of_nat 0) with 1 in Hn. assert (n = 0) as -> by lia. reflexivity.
  - rewrite dec_fuel_step. rewrite pow10_succ in Hn.
    assert (Hd : n mod 10 < 10) by lia.
    destruct (n <? 10) eqn:E.
    + cbn [undec_acc]. rewrite (decval_decdigit _ Hd). f_equal. lia.
    + rewrite undec_acc_app. rewrite (IH (n / 10)) by lia.
      cbn [undec_acc]. rewrite (decval_decdigit _ Hd). f_equal. lia.
Qed.

Lemma size_pow10 (n : N) : n < 10 ^ N.of_nat (S (N.to_nat (N.size n))).
Proof.
  rewrite pow10_succ, N2Nat.id. pose proof (N.size_gt n) as H1.
  assert (H2 : 2 ^ N.size n <= 10 ^ N.size n) by (apply N.pow_le_mono_l; lia). lia.
Qed.

Lemma dec_nonempty (n : N) : dec n <> "".
Proof.
  unfold dec. rewrite dec_fuel_step. destruct (n <? 10); [discriminate|].
  destruct (dec_fuel _ (n / 10) ""); discriminate.
Qed.

Theorem dec_roundtrip_holds : stmt_dec_roundtrip.
Proof.
  intros n. unfold undec. pose proof (dec_nonempty n) as Hne.
  destruct (dec n) as [|c s] eqn:E; [congruence|]. rewrite <- E.
  unfold dec. apply undec_dec_fuel. apply size_pow10.
Qed.

Lemma sall_dec_fuel (p : ascii -> bool) : (forall d, d < 10 -> p (decdigit d) = true) ->
  forall fuel n, sall p (dec_fuel fuel n "") = true.
Proof.
  intros Hp. induction fuel as [|f IH]; intros n; [reflexivity|].
  rewrite dec_fuel_step. assert (Hd : n mod 10 < 10) by lia.
  destruct (n <? 10).
  - cbn [sall]. rewrite (Hp _ Hd). reflexivity.
  - rewrite sall_app, IH. cbn [sall]. rewrite (Hp _ Hd). reflexivity.
Qed.

Lemma sall_dec (p : ascii -> bool) (n : N) :
  (forall d, d < 10 -> p (decdigit d) = true) -> sall p (dec n) = true.
Proof. intros Hp. unfold dec. apply sall_dec_fuel. exact Hp. Qed.

(* ================================================================================== *)
(* 1. lines made of blank-separated words                                             *)
(* ================================================================================== *)
Fixpoint join (ws : list string) : string :=
  match ws with
  | [] => ""
  | w :: r => match r with
              | [] => w
              | _ :: _ => w ++ " " ++ join r
              end
  end.

Definition noeq (s : string) : bool := sall (fun c => negb (is_equals c)) s.

Lemma split_join (ws : list string) : ws <> [] -> Forall (fun w => nospace w = true) ws ->
  split_on is_space (join ws) = ws.
Proof.
  induction ws as [|w r IH]; intros Hne Hw; [congruence|].
  pose proof (Forall_inv Hw) as H1. pose proof (Forall_inv_tail Hw) as H2.
  destruct r as [|x r'].
  - cbn [join]. apply split_on_none. exact H1.
  - change (join (w :: x :: r')) with (w ++ String " "%char (join (x :: r'))).
    rewrite (split_on_app is_space w " "%char _ H1 eq_refl). f_equal.
    apply IH; [discriminate | exact H2].
Qed.

Lemma message_fields_join (ws : list string) (text : string) :
  text = join ws ++ nl -> ws <> [] -> Forall (fun w => nospace w = true) ws ->
  message_fields text = Some ws.
Proof.
  intros -> Hne Hw. unfold message_fields. rewrite strip_suffix_app, (split_join ws Hne Hw).
  reflexivity.
Qed.

Lemma list_eqb_refl (l : list string) : list_eqb l l = true.
Proof. induction l as [|x l IH]; [reflexivity|]. cbn [list_eqb]. rewrite String.eqb_refl, IH. reflexivity. Qed.

(* ---- the characters of numbers ---- *)
Lemma decdigit_hexdigit (d : N) : d < 10 -> is_hexdigit (decdigit d) = true.
Proof.
  intros H. destruct (lt10_cases d H) as [->|[->|[->|[->|[->|[->|[->|[->|[->| ->]]]]]]]]]; reflexivity.
Qed.

Lemma nospace_hex (n : N) : nospace (hex n) = true.
Proof.
  apply sall_hex. intros d Hd. apply (hexdigit_not_char 32); [lia|]. apply is_hexdigit_hexdigit. exact Hd.
Qed.
Lemma noeq_hex (n : N) : noeq (hex n) = true.
Proof.
  apply sall_hex. intros d Hd. apply (hexdigit_not_char 61); [lia|]. apply is_hexdigit_hexdigit. exact Hd.
Qed.
Lemma nospace_dec (n : N) : nospace (dec n) = true.
Proof.
  apply sall_dec. intros d Hd. apply (hexdigit_not_char 32); [lia|]. apply decdigit_hexdigit. exact Hd.
Qed.
Lemma noeq_dec (n : N) : noeq (dec n) = true.
Proof.
  apply sall_dec. intros d Hd. apply (hexdigit_not_char 61); [lia|]. apply decdigit_hexdigit. exact Hd.
Qed.

Lemma nospace_app (a b : string) : nospace (a ++ b) = nospace a && nospace b.
Proof. apply sall_app. Qed.
Lemma noeq_app (a b : string) : noeq (a ++ b) = noeq a && noeq b.
Proof. apply sall_app. Qed.

Lemma key_name_parts (s : string) : key_name s = true -> nospace s = true /\ noeq s = true.
Proof.
  unfold key_name, no_char, nospace, noeq. intros H.
  split; (eapply sall_impl; [|exact H]); intros c Hc; cbn beta in Hc;
    destruct (is_space c), (is_equals c); try reflexivity; discriminate Hc.
Qed.

(* ---- the field readers ---- *)
Lemma hex_field_ok (n : N) : hex_field ("0x" ++ hex n) = Some n.
Proof. unfold hex_field. rewrite strip_prefix_app. apply hex_roundtrip_ok. Qed.

Lemma key_value_ok (k v : string) : noeq k = true -> noeq v = true ->
  key_value (k ++ "=" ++ v) = Some (k, v).
Proof.
  intros Hk Hv. unfold key_value. change ("=" ++ v) with (String "="%char v).
  rewrite (fields_app is_equals k _ Hk), (fields_sep is_equals "="%char v eq_refl).
  rewrite (fields_none is_equals v Hv). cbn [fst snd]. rewrite sapp_nil_r. reflexivity.
Qed.

Lemma in_parens_ok (s : string) : in_parens ("(" ++ s ++ ")") = Some s.
Proof. unfold in_parens. rewrite strip_prefix_app. apply strip_suffix_app. Qed.

Lemma nospace_name_register (n : N) : nospace (name_register n) = true.
Proof.
  unfold name_register, y86_registers. generalize (N.to_nat n). intros k.
  do 16 (destruct k as [|k]; [reflexivity|]). destruct k; reflexivity.
Qed.

(* ================================================================================== *)
(* 2. the messages as texts                                                           *)
(* ================================================================================== *)
Ltac words_ok :=
  repeat (constructor; [first [assumption | reflexivity
    | rewrite ?nospace_app; repeat (apply andb_true_intro; split);
      first [assumption | reflexivity | apply nospace_hex | apply nospace_dec | apply nospace_name_register]]|]);
  constructor.

Lemma assign_text (name : string) (v : N) : nospace name = true ->
  parse_assign_msg (name ++ " set to 0x" ++ hex v ++ nl) = Some (name, v).
Proof.
  intros Hn. unfold parse_assign_msg.
  rewrite (message_fields_join [name; "set"; "to"; "0x" ++ hex v]);
    [| cbn [join]; rewrite !sapp_assoc; reflexivity | discriminate | words_ok].
  cbv beta iota. rewrite list_eqb_refl, hex_field_ok. reflexivity.
Qed.

Lemma read_memory_text (out address : string) (v n a : N) :
  nospace out = true -> nospace address = true -> noeq address = true ->
  let text := out ++ " set to 0x" ++ hex v ++ " (reading " ++ dec n ++
              " bytes from memory at " ++ address ++ "=0x" ++ hex a ++ ")" ++ nl in
  parse_read_memory_msg text = Some (out, v, n, address, a) /\ parse_not_reading_msg text = None.
Proof.
  intros Ho Ha1 Ha2 text.
  assert (E : message_fields text =
              Some [out; "set"; "to"; "0x" ++ hex v; "(reading"; dec n; "bytes"; "from"; "memory"; "at";
                    (address ++ "=" ++ "0x" ++ hex a) ++ ")"]).
  { apply message_fields_join;
      [unfold text; cbn [join]; rewrite !sapp_assoc; reflexivity | discriminate | words_ok]. }
  split.
  - unfold parse_read_memory_msg. rewrite E. cbv beta iota.
    rewrite list_eqb_refl, hex_field_ok, dec_roundtrip_holds, strip_suffix_app.
    rewrite key_value_ok; [| exact Ha2 | rewrite noeq_app, noeq_hex; reflexivity].
    rewrite hex_field_ok. reflexivity.
  - unfold parse_not_reading_msg. rewrite E. reflexivity.
Qed.

Lemma not_reading_text (w : string) : nospace w = true ->
  parse_not_reading_msg ("not reading from memory since " ++ w ++ " is 0" ++ nl) = Some w.
Proof.
  intros Hw. unfold parse_not_reading_msg.
  rewrite (message_fields_join ["not"; "reading"; "from"; "memory"; "since"; w; "is"; "0"]);
    [| cbn [join]; rewrite !sapp_assoc; reflexivity | discriminate | words_ok].
  cbv beta iota. rewrite list_eqb_refl. reflexivity.
Qed.

Lemma not_writing_text (w : string) : nospace w = true ->
  parse_not_writing_msg ("not writing to memory since " ++ w ++ " is 0" ++ nl) = Some w.
Proof.
  intros Hw. unfold parse_not_writing_msg.
  rewrite (message_fields_join ["not"; "writing"; "to"; "memory"; "since"; w; "is"; "0"]);
    [| cbn [join]; rewrite !sapp_assoc; reflexivity | discriminate | words_ok].
  cbv beta iota. rewrite list_eqb_refl. reflexivity.
Qed.

Lemma write_memory_text (port address : string) (v a : N) :
  nospace port = true -> noeq port = true -> nospace address = true -> noeq address = true ->
  let text := "writing " ++ port ++ "=" ++ dec v ++ " to memory at " ++ address ++ "=0x" ++ hex a ++ nl in
  parse_write_memory_msg text = Some (port, v, address, a) /\ parse_not_writing_msg text = None.
Proof.
  intros Hp1 Hp2 Ha1 Ha2 text.
  assert (E : message_fields text =
              Some ["writing"; port ++ "=" ++ dec v; "to"; "memory"; "at"; address ++ "=" ++ "0x" ++ hex a]).
  { apply message_fields_join;
      [unfold text; cbn [join]; rewrite !sapp_assoc; reflexivity | discriminate | words_ok]. }
  split.
  - unfold parse_write_memory_msg. rewrite E. cbv beta iota. rewrite list_eqb_refl.
    rewrite key_value_ok; [| exact Hp2 | apply noeq_dec].
    rewrite key_value_ok; [| exact Ha2 | rewrite noeq_app, noeq_hex; reflexivity].
    rewrite dec_roundtrip_holds, hex_field_ok. reflexivity.
  - unfold parse_not_writing_msg. rewrite E. reflexivity.
Qed.

Lemma read_reg_text (out number : string) (r n : N) :
  nospace out = true -> nospace number = true -> noeq number = true ->
  parse_read_reg_msg ("set " ++ out ++ " to 0x" ++ hex r ++ " from register " ++ number ++ "=" ++ dec n ++
                      " (" ++ name_register n ++ ")" ++ nl) =
  Some (out, r, number, n, name_register n).
Proof.
  intros Ho Hn1 Hn2. unfold parse_read_reg_msg.
  rewrite (message_fields_join ["set"; out; "to"; "0x" ++ hex r; "from"; "register";
                                number ++ "=" ++ dec n; "(" ++ name_register n ++ ")"]);
    [| cbn [join]; rewrite !sapp_assoc; reflexivity | discriminate | words_ok].
  cbv beta iota. rewrite list_eqb_refl, hex_field_ok.
  rewrite key_value_ok; [| exact Hn2 | apply noeq_dec].
  rewrite in_parens_ok, dec_roundtrip_holds. reflexivity.
Qed.

Lemma write_reg_text (port number : string) (r n : N) :
  nospace port = true -> noeq port = true -> nospace number = true -> noeq number = true ->
  parse_write_reg_msg ("writing " ++ port ++ "=0x" ++ hex r ++ " into register " ++ number ++ "=" ++ dec n ++
                       " (" ++ name_register n ++ ")" ++ nl) =
  Some (port, r, number, n, name_register n).
Proof.
  intros Hp1 Hp2 Hn1 Hn2. unfold parse_write_reg_msg.
  rewrite (message_fields_join ["writing"; port ++ "=" ++ "0x" ++ hex r; "into"; "register";
                                number ++ "=" ++ dec n; "(" ++ name_register n ++ ")"]);
    [| cbn [join]; rewrite !sapp_assoc; reflexivity | discriminate | words_ok].
  cbv beta iota. rewrite list_eqb_refl.
  rewrite key_value_ok; [| exact Hp2 | rewrite noeq_app, noeq_hex; reflexivity].
  rewrite key_value_ok; [| exact Hn2 | apply noeq_dec].
  rewrite in_parens_ok, hex_field_ok, dec_roundtrip_holds. reflexivity.
Qed.

(* ================================================================================== *)
(* 3. the trace line                                                                  *)
(* ================================================================================== *)
Lemma hex2_digits (v : N) : v < 256 ->
  exists a b, hex2 v = String a (String b "") /\ unhex (String a (String b "")) = Some v /\
              is_hexdigit a = true /\ is_hexdigit b = true.
Proof.
  intros H. destruct (hex2_roundtrip v H) as [Hu Hl].
  destruct (hex2 v) as [|a [|b [|c s]]]; cbn [String.length] in Hl; try discriminate Hl.
  exists a, b. split; [reflexivity|]. split; [exact Hu|].
  unfold unhex in Hu. cbn [unhex_acc] in Hu. unfold is_hexdigit.
  destruct (hexval a) as [d1|]; [|discriminate Hu]. destruct (hexval b) as [d2|]; [|discriminate Hu].
  split; reflexivity.
Qed.

Lemma take_bytes_stop (rest : string) : stops is_hexdigit rest = true -> take_bytes rest = ([], rest).
Proof.
  destruct rest as [|c r]; [reflexivity|]. cbn [stops take_bytes]. intros H.
  apply negb_true_iff in H. rewrite H. reflexivity.
Qed.

Lemma take_bytes_ok (rest : string) : stops is_hexdigit rest = true -> forall l,
  Forall (fun b => b < 256) l ->
  take_bytes (concat_strings (map (fun b => hex2 b ++ " ") l) ++ rest) = (l, rest).
Proof.
  intros Hr. induction l as [|b l IH]; intros Hl.
  - apply take_bytes_stop. exact Hr.
  - cbn [map concat_strings]. rewrite !sapp_assoc.
    destruct (hex2_digits b (Forall_inv Hl)) as [a [c [Hh [Hu [Ha Hc]]]]]. rewrite Hh.
    cbn [String.append]. cbn [take_bytes]. rewrite Ha, Hc. change (is_space " "%char) with true.
    cbn [andb]. rewrite Hu, (IH (Forall_inv_tail Hl)). reflexivity.
Qed.

Theorem trace_line_readback_holds : stmt_trace_line_readback.
Proof.
  intros pc v. unfold trace_line. destruct (disassemble v) as [n text]. cbn [fst snd].
  unfold parse_trace_line. rewrite strip_prefix_app.
  rewrite (span_app is_hexdigit (hex pc)); [| apply sall_hexdigit_hex | reflexivity].
  rewrite hex_roundtrip_ok, strip_prefix_app, trace_bytes_spec.
  rewrite <- (map_map (fun k => (v / 256 ^ N.of_nat k) mod 256) (fun b => hex2 b ++ " ")).
  rewrite take_bytes_ok.
  - rewrite strip_prefix_app, strip_suffix_app. reflexivity.
  - reflexivity.
  - apply Forall_forall. intros b Hb. apply in_map_iff in Hb. destruct Hb as [k [<- _]]. lia.
Qed.

(* ================================================================================== *)
(* 4. the actions                                                                     *)
(* ================================================================================== *)
Lemma get_value_lookup (vals : list (string * wval)) (k : string) (v : wval) :
  get_value vals k = Ok v -> lookup vals k = Some v.
Proof.
  unfold get_value. destruct (lookup vals k) as [x|]; [|discriminate].
  intros H. apply Ok_inj in H. rewrite H. reflexivity.
Qed.

Lemma enabled_false (vals : list (string * wval)) (en : option string) :
  enabled vals en = Ok false -> disabled vals en.
Proof.
  unfold enabled. destruct en as [w|]; [|discriminate].
  destruct (get_value vals w) as [v|e] eqn:E; cbn [bind]; [|discriminate].
  intros H. apply Ok_inj in H. exists w, v. split; [reflexivity|].
  split; [exact (get_value_lookup _ _ _ E)|]. unfold is_true in H. lia.
Qed.

Lemma enabled_true (vals : list (string * wval)) (en : option string) :
  enabled vals en = Ok true -> ~ disabled vals en.
Proof.
  unfold enabled. intros H [w [v [-> [Hl Hv]]]]. unfold get_value in H. rewrite Hl in H.
  cbn [bind] in H. apply Ok_inj in H. unfold is_true in H. lia.
Qed.

Lemma no_blank_nospace (s : string) : no_blank s = true -> nospace s = true.
Proof. intros H. exact H. Qed.

Theorem assign_msg_holds : stmt_assign_msg.
Proof.
  intros f o s s' text name e w Ho Hn H. cbn [exec_action] in H.
  destruct (eval f (lookup (values s)) e) as [r0|err] eqn:E; cbn [bind] in H; [|discriminate].
  apply Ok_inj in H. injection H as <- <-. exists r0. split; [reflexivity|]. split.
  - cbn [set_values values]. apply lookup_upd_same.
  - rewrite Ho. apply assign_text. exact Hn.
Qed.

Theorem read_memory_msg_holds : stmt_read_memory_msg.
Proof.
  intros f o s s' text is_read address out_port nbytes is_instr Ho Hout Haddr H Hen.
  destruct (key_name_parts _ Haddr) as [Ha1 Ha2].
  cbn [exec_action] in H.
  destruct (enabled (values s) is_read) as [b|err] eqn:Een; cbn [bind] in H; [|discriminate].
  destruct b; [|exfalso; exact (Hen (enabled_false _ _ Een))].
  destruct (get_value (values s) address) as [av|err] eqn:Eav; cbn [bind] in H; [|discriminate].
  destruct (16 <? nbytes); [discriminate|].
  apply Ok_inj in H. injection H as <- <-. rewrite Ho.
  exists av. eexists. split; [exact (get_value_lookup _ _ _ Eav)|]. cbv zeta.
  split; [cbn [set_values values]; apply lookup_upd_same|].
  split; [reflexivity|].
  exact (read_memory_text out_port address _ nbytes (bits av) Hout Ha1 Ha2).
Qed.

Theorem not_reading_msg_holds : stmt_not_reading_msg.
Proof.
  intros f o s s' text is_read address out_port nbytes is_instr Ho Hw H Hdis.
  cbn [exec_action] in H.
  destruct (enabled (values s) is_read) as [b|err] eqn:Een; cbn [bind] in H; [|discriminate].
  destruct b; [exfalso; exact (enabled_true _ _ Een Hdis)|].
  apply Ok_inj in H. injection H as <- <-. rewrite Ho.
  destruct Hdis as [w [v [-> [Hl Hv]]]]. exists w, v.
  split; [reflexivity|]. split; [exact Hl|]. split; [exact Hv|].
  split; [apply not_reading_text; exact (Hw w eq_refl)|]. split; [|reflexivity].
  eexists. split; [cbn [set_values values]; apply lookup_upd_same|]. reflexivity.
Qed.

Theorem write_memory_msg_holds : stmt_write_memory_msg.
Proof.
  intros f o s s' text is_write address in_port nbytes Ho Hin Haddr H Hen.
  destruct (key_name_parts _ Haddr) as [Ha1 Ha2]. destruct (key_name_parts _ Hin) as [Hi1 Hi2].
  cbn [exec_action] in H.
  destruct (enabled (values s) is_write) as [b|err] eqn:Een; cbn [bind] in H; [|discriminate].
  destruct b; [|exfalso; exact (Hen (enabled_false _ _ Een))].
  destruct (get_value (values s) address) as [av|err] eqn:Eav; cbn [bind] in H; [|discriminate].
  destruct (get_value (values s) in_port) as [iv|err] eqn:Eiv; cbn [bind] in H; [|discriminate].
  destruct (16 <? nbytes); [discriminate|].
  apply Ok_inj in H. injection H as <- <-. rewrite Ho.
  exists av, iv. split; [exact (get_value_lookup _ _ _ Eav)|].
  split; [exact (get_value_lookup _ _ _ Eiv)|]. split; [reflexivity|].
  exact (write_memory_text in_port address (bits iv) (bits av) Hi1 Hi2 Ha1 Ha2).
Qed.

Theorem not_writing_msg_holds : stmt_not_writing_msg.
Proof.
  intros f o s s' text is_write address in_port nbytes Ho Hw H Hdis.
  cbn [exec_action] in H.
  destruct (enabled (values s) is_write) as [b|err] eqn:Een; cbn [bind] in H; [|discriminate].
  destruct b; [exfalso; exact (enabled_true _ _ Een Hdis)|].
  apply Ok_inj in H. injection H as <- <-. rewrite Ho.
  destruct Hdis as [w [v [-> [Hl Hv]]]]. exists w, v.
  split; [reflexivity|]. split; [exact Hl|]. split; [exact Hv|].
  split; [apply not_writing_text; exact (Hw w eq_refl) | reflexivity].
Qed.

Theorem read_reg_msg_holds : stmt_read_reg_msg.
Proof.
  intros f o s s' text number out_port Ho Hout Hnum H.
  destruct (key_name_parts _ Hnum) as [Hn1 Hn2].
  cbn [exec_action] in H.
  destruct (get_value (values s) number) as [nv|err] eqn:Env; cbn [bind] in H; [|discriminate].
  exists nv. split; [exact (get_value_lookup _ _ _ Env)|]. cbv zeta.
  destruct (bits nv mod two64 <? N.of_nat (List.length (regs s))).
  - apply Ok_inj in H. injection H as <- <-. rewrite Ho.
    split; [cbn [set_values values]; apply lookup_upd_same|].
    exact (read_reg_text out_port number _ _ Hout Hn1 Hn2).
  - apply Ok_inj in H. injection H as <- <-.
    split; [reflexivity | cbn [set_values values]; apply lookup_upd_same].
Qed.

Theorem write_reg_msg_holds : stmt_write_reg_msg.
Proof.
  intros f o s s' text number in_port Ho Hin Hnum H.
  destruct (key_name_parts _ Hnum) as [Hn1 Hn2]. destruct (key_name_parts _ Hin) as [Hi1 Hi2].
  cbn [exec_action] in H.
  destruct (get_value (values s) number) as [nv|err] eqn:Env; cbn [bind] in H; [|discriminate].
  exists nv. split; [exact (get_value_lookup _ _ _ Env)|]. cbv zeta.
  change zero_register with 15 in H.
  destruct ((bits nv mod two64 <? N.of_nat (List.length (regs s))) && negb (bits nv mod two64 =? 15)) eqn:Ec.
  - destruct (get_value (values s) in_port) as [iv|err] eqn:Eiv; cbn [bind] in H; [|discriminate].
    apply Ok_inj in H. injection H as <- <-. rewrite Ho.
    exists iv. split; [exact (get_value_lookup _ _ _ Eiv)|]. split.
    + cbn [regs]. apply nth_set_nth_same. lia.
    + exact (write_reg_text in_port number _ _ Hi1 Hi2 Hn1 Hn2).
  - apply Ok_inj in H. injection H as <- <-. split; reflexivity.
Qed.

(* ---- C20 in a cycle ---- *)
Theorem trace_line_cycle_holds : stmt_trace_line_cycle.
Proof.
  intros f o s s' text is_read address out_port nbytes Ho Hwf H Hen.
  cbn [exec_action] in H.
  destruct (enabled (values s) is_read) as [b|err] eqn:Een; cbn [bind] in H; [|discriminate].
  destruct b; [|exfalso; exact (Hen (enabled_false _ _ Een))].
  destruct (get_value (values s) address) as [av|err] eqn:Eav; cbn [bind] in H; [|discriminate].
  destruct (16 <? nbytes) eqn:E16; [discriminate|].
  apply Ok_inj in H. injection H as <- <-. rewrite Ho. cbn [andb].
  exists av. eexists. eexists. split; [exact (get_value_lookup _ _ _ Eav)|].
  split; [reflexivity|]. split; [intros ->; reflexivity|]. cbv zeta.
  intros H1 Hlen. rewrite trace_line_readback_holds.
  set (pc := bits av mod two64) in *.
  set (v := bits (mem_read (mem s) pc nbytes)) in *.
  assert (Hpc : pc < two64) by (unfold pc; rewrite two64_val; lia).
  assert (Hbyte : forall i, i < nbytes -> (v / 256 ^ i) mod 256 = byte_at (mem s) ((pc + i) mod two64)).
  { intros i Hi. unfold v. apply mem_read_bytes; [exact Hwf | exact Hpc | lia | exact Hi]. }
  assert (H0 : v mod 256 = byte_at (mem s) pc).
  { pose proof (Hbyte 0 ltac:(lia)) as B. change (256 ^ 0) with 1 in B.
    rewrite N.div_1_r, N.add_0_r in B. rewrite B. f_equal. rewrite two64_val in *. lia. }
  assert (Hl : fst (disassemble v) = len_by_icode ((byte_at (mem s) pc / 16) mod 16)).
  { rewrite length_by_icode, <- H0. f_equal. lia. }
  change (mem_read_loop (mem s) pc 0 (N.to_nat nbytes) 0) with v. rewrite Hl. do 3 f_equal.
  apply map_ext_in. intros i Hi. apply in_seq in Hi. apply Hbyte. lia.
Qed.

(* ================================================================================== *)
(* 5. non-vacuity and the need for the side conditions                                *)
(* ================================================================================== *)
Definition ex_vals : list (string * wval) :=
  [("pc", mkV 0x10 (Bits 64)); ("en", mkV 0 (Bits 1)); ("one", mkV 1 (Bits 1));
   ("valA", mkV 258 (Bits 64)); ("srcA", mkV 3 (Bits 4)); ("dstE", mkV 15 (Bits 4));
   ("far", mkV (2 ^ 64 - 1) (Bits 64))].
Definition ex_mem : memory := [(0, 0x99); (0x10, 0x30); (0x11, 0xf3); (0x12, 0x34); (0x13, 0x12); (2 ^ 64 - 1, 0x61)].
Definition ex_st : mstate :=
  mkState ex_vals ex_mem [1; 2; 3; 77; 5; 6; 7; 8; 9; 10; 11; 12; 13; 14; 15; 0] None 7.
Definition ex_f : features := mkF false false false false false.
Definition ex_d : options := set_debug default_options.            (* -d, disassembly on *)
Definition text_of (r : result (mstate * string)) : string :=
  match r with Ok (_, t) => t | Err _ => "<error>" end.

Example ex_dec : undec (dec 18446744073709551615) = Some 18446744073709551615 /\ undec "" = None /\ undec "1a" = None.
Proof. repeat split; vm_compute; reflexivity. Qed.

Example ex_assign :
  text_of (exec_action ex_f (set_trace_assignments default_options) (AAssign "x" (EWire "valA") (Bits 8)) ex_st)
    = "x set to 0x2" ++ nl /\
  parse_assign_msg ("x set to 0x2" ++ nl) = Some ("x", 2).       (* 258 cut to 8 bits *)
Proof. split; vm_compute; reflexivity. Qed.

Example ex_read_memory :
  text_of (exec_action ex_f ex_d (AReadMemory (Some "one") "pc" "i10bytes" 10 true) ex_st) =
    "i10bytes set to 0x1234f330 (reading 10 bytes from memory at pc=0x10)" ++ nl ++
    "pc = 0x10; loaded [30 f3 34 12 00 00 00 00 00 00 : irmovq $0x1234, %rbx]" ++ nl /\
  parse_read_memory_msg ("i10bytes set to 0x1234f330 (reading 10 bytes from memory at pc=0x10)" ++ nl) =
    Some ("i10bytes", 0x1234f330, 10, "pc", 0x10) /\
  parse_trace_line ("pc = 0x10; loaded [30 f3 34 12 00 00 00 00 00 00 : irmovq $0x1234, %rbx]" ++ nl) =
    Some (0x10, [0x30; 0xf3; 0x34; 0x12; 0; 0; 0; 0; 0; 0], "irmovq $0x1234, %rbx").
Proof. repeat split; vm_compute; reflexivity. Qed.

(* the theorems apply: hypotheses met by this instance *)
Example ex_wf : wf_mem ex_mem.
Proof.
  split.
  - repeat (constructor; [|repeat (constructor; [unfold key_lt; cbn [fst]; lia|]); constructor]).
    constructor.
  - repeat (constructor; [cbn [fst snd]; rewrite two64_val; split; reflexivity|]). constructor.
Qed.
Example ex_not_disabled : ~ disabled (values ex_st) (Some "one").
Proof. intros [w [v [E [Hl Hv]]]]. injection E as <-. vm_compute in Hl. injection Hl as <-. discriminate Hv. Qed.
Example ex_read_memory_thm : forall s' text,
  exec_action ex_f ex_d (AReadMemory (Some "one") "pc" "i10bytes" 10 true) ex_st = Ok (s', text) ->
  exists msg, text = msg ++ trace_line 0x10 0x1234f330 /\
              parse_read_memory_msg msg = Some ("i10bytes", 0x1234f330, 10, "pc", 0x10).
Proof.
  intros s' text H.
  destruct (read_memory_msg_holds ex_f ex_d ex_st s' text (Some "one") "pc" "i10bytes" 10 true
              eq_refl eq_refl eq_refl H ex_not_disabled)
    as [av [msg [Hav [_ [Ht [Hp _]]]]]].
  vm_compute in Hav. injection Hav as <-. exists msg. split; [exact Ht | exact Hp].
Qed.
(* a fetch at the last address wraps: the bytes shown are memory bytes at 2^64-1, 0, ... *)
Example ex_trace_wrap :
  parse_trace_line
    (text_of (exec_action ex_f default_options (AReadMemory None "far" "i10bytes" 10 true) ex_st)) =
  Some (2 ^ 64 - 1, [0x61; 0x99], "subq %r9, %r9").
Proof. vm_compute. reflexivity. Qed.
Example ex_trace_cycle_thm : forall s' text,
  exec_action ex_f default_options (AReadMemory None "far" "i10bytes" 10 true) ex_st = Ok (s', text) ->
  parse_trace_line text =
  Some (2 ^ 64 - 1, [byte_at ex_mem (2 ^ 64 - 1); byte_at ex_mem 0], "subq %r9, %r9").
Proof.
  intros s' text H.
  assert (Hen : ~ disabled (values ex_st) None) by (intros [w [v [E _]]]; discriminate E).
  destruct (trace_line_cycle_holds ex_f default_options ex_st s' text None "far" "i10bytes" 10
              eq_refl ex_wf H Hen)
    as [av [msg [line [Hav [Ht [Hm Hp]]]]]].
  vm_compute in Hav. injection Hav as <-. rewrite (Hm eq_refl) in Ht. cbn [String.append] in Ht.
  subst text. cbv zeta in Hp. rewrite Hp; [vm_compute; reflexivity | lia | vm_compute; discriminate].
Qed.

Example ex_not_reading :
  text_of (exec_action ex_f ex_d (AReadMemory (Some "en") "pc" "i10bytes" 10 true) ex_st) =
    "not reading from memory since en is 0" ++ nl /\
  parse_not_reading_msg ("not reading from memory since en is 0" ++ nl) = Some "en".
Proof. split; vm_compute; reflexivity. Qed.

Example ex_write_memory :
  text_of (exec_action ex_f ex_d (AWriteMemory None "pc" "valA" 8) ex_st) =
    "writing valA=258 to memory at pc=0x10" ++ nl /\
  parse_write_memory_msg ("writing valA=258 to memory at pc=0x10" ++ nl) = Some ("valA", 258, "pc", 0x10) /\
  parse_not_writing_msg (text_of (exec_action ex_f ex_d (AWriteMemory (Some "en") "pc" "valA" 8) ex_st)) = Some "en".
Proof. repeat split; vm_compute; reflexivity. Qed.

Example ex_read_reg :
  text_of (exec_action ex_f ex_d (AReadReg "srcA" "valB") ex_st) =
    "set valB to 0x4d from register srcA=3 (%rbx)" ++ nl /\
  parse_read_reg_msg ("set valB to 0x4d from register srcA=3 (%rbx)" ++ nl) = Some ("valB", 77, "srcA", 3, "%rbx") /\
  parse_read_reg_msg (text_of (exec_action ex_f ex_d (AReadReg "dstE" "valB") ex_st)) =
    Some ("valB", 0, "dstE", 15, "NONE").
Proof. repeat split; vm_compute; reflexivity. Qed.

Example ex_write_reg :
  text_of (exec_action ex_f ex_d (AWriteReg "srcA" "valA") ex_st) =
    "writing valA=0x102 into register srcA=3 (%rbx)" ++ nl /\
  parse_write_reg_msg ("writing valA=0x102 into register srcA=3 (%rbx)" ++ nl) =
    Some ("valA", 258, "srcA", 3, "%rbx") /\
  text_of (exec_action ex_f ex_d (AWriteReg "dstE" "valA") ex_st) = "".    (* register 15: silently nothing *)
Proof. repeat split; vm_compute; reflexivity. Qed.

(* ---- the side conditions are needed ---- *)
Lemma assign_msg_unconditional_refuted : ~ stmt_assign_msg_unconditional.
Proof.
  intros H.
  destruct (exec_action ex_f (set_trace_assignments default_options) (AAssign "a b" (EWire "one") (Bits 1)) ex_st)
    as [[s' t]|e] eqn:E; [|vm_compute in E; discriminate E].
  destruct (H ex_f (set_trace_assignments default_options) ex_st s' t "a b" (EWire "one") (Bits 1) eq_refl E)
    as [v Hv].
  vm_compute in E. injection E as _ <-. vm_compute in Hv. discriminate Hv.
Qed.

(* a port named "p=1" ... *)
Lemma write_memory_msg_unconditional_refuted : ~ stmt_write_memory_msg_unconditional.
Proof.
  intros H.
  destruct (exec_action ex_f ex_d (AWriteMemory None "pc" "p=1" 8) (mkState (("p=1", mkV 5 (Bits 64)) :: ex_vals) ex_mem [] None 0))
    as [[s' t]|e] eqn:E; [|vm_compute in E; discriminate E].
  assert (Hen : ~ disabled (values (mkState (("p=1", mkV 5 (Bits 64)) :: ex_vals) ex_mem [] None 0)) None)
    by (intros [w [v [E' _]]]; discriminate E').
  destruct (H ex_f ex_d _ s' t None "pc" "p=1" 8 eq_refl E Hen) as [v [a Hv]].
  vm_compute in E. injection E as _ <-. vm_compute in Hv. discriminate Hv.
Qed.

(* ================================================================================== *)
(* 6. a whole cycle                                                                   *)
(* ================================================================================== *)
Lemma nonl_name_register (n : N) : nonl (name_register n) = true.
Proof.
  unfold name_register, y86_registers. generalize (N.to_nat n). intros k.
  do 16 (destruct k as [|k]; [reflexivity|]). destruct k; reflexivity.
Qed.

Lemma nonl_name_cc (n : N) : nonl (name_cc n) = true.
Proof.
  unfold name_cc, y86_ifuns. generalize (N.to_nat n). intros k.
  do 7 (destruct k as [|k]; [reflexivity|]). destruct k; reflexivity.
Qed.

Lemma nonl_disasm_small (icode ifun ra rb disp dest : N) : icode < 12 ->
  nonl (snd (disasm_fields icode ifun ra rb disp dest)) = true.
Proof.
  intros H.
  assert (C : icode = 0 \/ icode = 1 \/ icode = 2 \/ icode = 3 \/ icode = 4 \/ icode = 5 \/ icode = 6 \/
              icode = 7 \/ icode = 8 \/ icode = 9 \/ icode = 10 \/ icode = 11) by lia.
  destruct C as [->|[->|[->|[->|[->|[->|[->|[->|[->|[->|[->| ->]]]]]]]]]]];
    cbn [disasm_fields snd];
    try (destruct ifun as [|[[q|q|]|[q|q|]|]]; cbn [snd]);
    rewrite ?nonl_app, ?nonl_hex, ?nonl_name_register, ?nonl_name_cc; reflexivity.
Qed.

Lemma nonl_disassemble (v : N) : nonl (snd (disassemble v)) = true.
Proof.
  destruct (N.lt_ge_cases 11 ((v / 16) mod 16)) as [H|H].
  - rewrite (invalid_opcode v H). reflexivity.
  - rewrite disassemble_fields. apply nonl_disasm_small. lia.
Qed.

Lemma nonl_trace_bytes (v : N) (i count : nat) : nonl (trace_bytes v i count) = true.
Proof.
  rewrite trace_bytes_spec. apply nonl_concat. intros x Hx. apply in_map_iff in Hx.
  destruct Hx as [k [<- _]]. rewrite nonl_app, nonl_hex2. reflexivity.
Qed.

Lemma trace_line_unlines (pc v : N) :
  exists l, trace_line pc v = unlines [l] /\ nonl l = true.
Proof.
  unfold trace_line. pose proof (nonl_disassemble v) as Hd.
  destruct (disassemble v) as [n text]. cbn [snd] in Hd.
  exists ("pc = 0x" ++ hex pc ++ "; loaded [" ++ trace_bytes v 0 (N.to_nat n) ++ ": " ++ text ++ "]").
  split; [rewrite unlines_one, !sapp_assoc; reflexivity|].
  rewrite !nonl_app, nonl_hex, nonl_trace_bytes, Hd. reflexivity.
Qed.

Lemma no_newline_nonl (s : string) : no_newline s = true -> nonl s = true.
Proof. intros H. rewrite nonl_sall. exact H. Qed.

Definition unl (ls : list string) (t : string) (n : nat) : Prop :=
  t = unlines ls /\ all_nonl ls /\ List.length ls = n.

Lemma unl_nil : unl [] "" 0.
Proof. repeat split. constructor. Qed.

Lemma unl_one (l t : string) : t = l ++ nl -> nonl l = true -> unl [l] t 1.
Proof. intros -> H. split; [rewrite unlines_one; reflexivity|]. split; [|reflexivity]. constructor; [exact H|constructor]. Qed.

Lemma unl_base : unl [""] nl 1.
Proof. apply unl_one; reflexivity. Qed.

Lemma unl_prefix (a t l : string) : nonl a = true -> unl [l] t 1 -> unl [a ++ l] (a ++ t) 1.
Proof.
  intros Ha [Et [Hl _]]. rewrite unlines_one in Et. subst t. apply unl_one.
  - rewrite sapp_assoc. reflexivity.
  - rewrite nonl_app, Ha, (Forall_inv Hl). reflexivity.
Qed.

Lemma unl_char (c : ascii) (t l : string) : notnl c = true -> unl [l] t 1 -> unl [String c l] (String c t) 1.
Proof. intros Hc H. apply (unl_prefix (String c "") t l); [|exact H]. rewrite nonl_cons, Hc. reflexivity. Qed.

Ltac one_line :=
  repeat first [apply unl_base
               | eapply unl_char; [reflexivity|]
               | eapply unl_prefix;
                 [first [reflexivity | apply nonl_hex | apply nonl_dec | apply nonl_name_register
                        | apply no_newline_nonl; assumption]|]].

Lemma unl_app (a b : list string) (ta tb : string) (na nb : nat) :
  unl a ta na -> unl b tb nb -> unl (a ++ b) (ta ++ tb) (na + nb).
Proof.
  intros [-> [Ha <-]] [-> [Hb <-]]. split; [rewrite unlines_app; reflexivity|].
  split; [apply Forall_app; split; assumption | apply app_length].
Qed.

Lemma enabled_is_disabled (vals : list (string * wval)) (en : option string) (b : bool) :
  enabled vals en = Ok b -> is_disabled vals en = negb b.
Proof.
  unfold enabled, is_disabled. destruct en as [w|]; [|intros H; apply Ok_inj in H; subst b; reflexivity].
  destruct (get_value vals w) as [v|e] eqn:E; cbn [bind]; [|discriminate].
  intros H. apply Ok_inj in H. subst b. unfold wire_bits. rewrite (get_value_lookup _ _ _ E).
  unfold is_true. destruct (0 <? bits v) eqn:E1; cbn [negb]; lia.
Qed.

Lemma get_value_wire_bits (vals : list (string * wval)) (k : string) (v : wval) :
  get_value vals k = Ok v -> wire_bits vals k = bits v.
Proof. intros H. unfold wire_bits. rewrite (get_value_lookup _ _ _ H). reflexivity. Qed.

Lemma action_lines (f : features) (o : options) (a : action) (s s1 : mstate) (t : string) :
  action_names_ok a = true -> exec_action f o a s = Ok (s1, t) ->
  exists ls, unl ls t (message_count o a s).
Proof.
  intros Hn H. destruct a as [name e w | number out_port | en address out_port nbytes is_instr
                             | number in_port | en address in_port nbytes | in_wire];
    cbn [action_names_ok] in Hn; cbn [exec_action] in H; cbn [message_count].
  - (* assignment *)
    destruct (eval f (lookup (values s)) e) as [r0|err]; cbn [bind] in H; [|discriminate].
    apply Ok_inj in H. injection H as _ <-.
    destruct (o_trace_assignments o); [|exists []; apply unl_nil].
    eexists. one_line.
  - (* register read *)
    apply andb_true_iff in Hn. destruct Hn as [Hn1 Hn2].
    destruct (get_value (values s) number) as [nv|err] eqn:Env; cbn [bind] in H; [|discriminate].
    rewrite (get_value_wire_bits _ _ _ Env).
    destruct (bits nv mod two64 <? N.of_nat (List.length (regs s))).
    + apply Ok_inj in H. injection H as _ <-. rewrite andb_true_r.
      destruct (o_trace_fixed o); [|exists []; apply unl_nil].
      eexists. one_line.
    + apply Ok_inj in H. injection H as _ <-. rewrite andb_false_r. exists []. apply unl_nil.
  - (* memory read *)
    apply andb_true_iff in Hn. destruct Hn as [Hn Hn3]. apply andb_true_iff in Hn. destruct Hn as [Hn1 Hn2].
    destruct (enabled (values s) en) as [b|err] eqn:Een; cbn [bind] in H; [|discriminate].
    rewrite (enabled_is_disabled _ _ _ Een).
    destruct b; cbn [negb].
    + destruct (get_value (values s) address) as [av|err] eqn:Eav; cbn [bind] in H; [|discriminate].
      destruct (16 <? nbytes); [discriminate|].
      apply Ok_inj in H. injection H as _ <-. rewrite andb_true_r.
      match goal with
      | |- exists ls, unl ls (?t1 ++ ?t2) (?n1 + ?n2)%nat =>
          assert (P1 : exists l1, unl l1 t1 n1);
          [| assert (P2 : exists l2, unl l2 t2 n2);
             [| destruct P1 as [l1 P1]; destruct P2 as [l2 P2]; exists (l1 ++ l2)%list;
                exact (unl_app _ _ _ _ _ _ P1 P2)]]
      end.
      * destruct (o_trace_fixed o); [|exists []; apply unl_nil]. eexists. one_line.
      * destruct (is_instr && o_show_disassembly o); [|exists []; apply unl_nil].
        match goal with
        | |- exists l2, unl l2 (trace_line ?pc ?v) _ => destruct (trace_line_unlines pc v) as [l [El Hl]]
        end.
        exists [l]. rewrite El. split; [reflexivity|].
        split; [constructor; [exact Hl|constructor] | reflexivity].
    + apply Ok_inj in H. injection H as _ <-. rewrite andb_false_r, Nat.add_0_r.
      destruct (o_trace_fixed o); [|exists []; apply unl_nil].
      eexists. one_line.
  - (* register write *)
    apply andb_true_iff in Hn. destruct Hn as [Hn1 Hn2].
    destruct (get_value (values s) number) as [nv|err] eqn:Env; cbn [bind] in H; [|discriminate].
    rewrite (get_value_wire_bits _ _ _ Env). change zero_register with 15 in H.
    rewrite <- andb_assoc.
    destruct ((bits nv mod two64 <? N.of_nat (List.length (regs s))) && negb (bits nv mod two64 =? 15)).
    + destruct (get_value (values s) in_port) as [iv|err]; cbn [bind] in H; [|discriminate].
      apply Ok_inj in H. injection H as _ <-. rewrite andb_true_r.
      destruct (o_trace_fixed o); [|exists []; apply unl_nil].
      eexists. one_line.
    + apply Ok_inj in H. injection H as _ <-. rewrite andb_false_r. exists []. apply unl_nil.
  - (* memory write *)
    apply andb_true_iff in Hn. destruct Hn as [Hn Hn3]. apply andb_true_iff in Hn. destruct Hn as [Hn1 Hn2].
    destruct (enabled (values s) en) as [b|err] eqn:Een; cbn [bind] in H; [|discriminate].
    destruct b.
    + destruct (get_value (values s) address) as [av|err]; cbn [bind] in H; [|discriminate].
      destruct (get_value (values s) in_port) as [iv|err]; cbn [bind] in H; [|discriminate].
      destruct (16 <? nbytes); [discriminate|].
      apply Ok_inj in H. injection H as _ <-.
      destruct (o_trace_fixed o); [|exists []; apply unl_nil].
      eexists. one_line.
    + apply Ok_inj in H. injection H as _ <-.
      destruct (o_trace_fixed o); [|exists []; apply unl_nil].
      eexists. one_line.
  - (* status *)
    destruct (get_value (values s) in_wire) as [v|err]; cbn [bind] in H; [|discriminate].
    apply Ok_inj in H. injection H as _ <-. exists []. apply unl_nil.
Qed.

Lemma cycle_messages_strong (f : features) (o : options) : forall acts s s' text,
  forallb action_names_ok acts = true ->
  exec_actions f o acts s = Ok (s', text) ->
  exists lss, cycle_lines f o acts s lss s' /\ text = unlines (List.concat lss) /\
              all_nonl (List.concat lss).
Proof.
  induction acts as [|a r IH]; intros s s' text Hn H; cbn [exec_actions] in H.
  - apply Ok_inj in H. injection H as <- <-. exists []. split; [constructor|].
    split; [reflexivity | constructor].
  - cbn [forallb] in Hn. apply andb_true_iff in Hn. destruct Hn as [Hna Hnr].
    destruct (exec_action f o a s) as [[s1 t]|err] eqn:Ea; cbn [bind fst snd] in H; [|discriminate].
    destruct (exec_actions f o r s1) as [[s2 t2]|err] eqn:Er; cbn [bind fst snd] in H; [|discriminate].
    apply Ok_inj in H. injection H as <- <-.
    destruct (IH s1 s2 t2 Hnr Er) as [lss [Hc [Et2 Hnl2]]].
    destruct (action_lines f o a s s1 t Hna Ea) as [ls [Et [Hnl Hlen]]].
    exists (ls :: lss). split; [|split].
    + econstructor; [exact Ea | rewrite Et; apply lines_unlines; exact Hnl | exact Hlen | exact Hc].
    + cbn [List.concat]. rewrite unlines_app, Et, Et2. reflexivity.
    + cbn [List.concat]. apply Forall_app. split; assumption.
Qed.

Theorem cycle_messages_holds : stmt_cycle_messages.
Proof.
  intros f o acts s s' text Hn H.
  destruct (cycle_messages_strong f o acts s s' text Hn H) as [lss [Hc [Et Hnl]]].
  exists lss. split; [exact Hc|]. rewrite Et. apply lines_unlines. exact Hnl.
Qed.

(* non-vacuity: a cycle with a fetch (message + trace line), a register read, an assignment
   (not traced), a switched-off memory write, a register write to register 15 (silent) *)
Definition ex_acts : list action :=
  [AReadMemory (Some "one") "pc" "i10bytes" 10 true; AReadReg "srcA" "valB";
   AAssign "x" (EWire "valA") (Bits 8); AWriteMemory (Some "en") "pc" "valA" 8;
   AWriteReg "dstE" "valA"; ASetStatus "one"].
Example ex_cycle :
  match exec_actions ex_f ex_d ex_acts ex_st with
  | Ok (_, t) => lines t
  | Err _ => None
  end =
  Some ["i10bytes set to 0x1234f330 (reading 10 bytes from memory at pc=0x10)";
        "pc = 0x10; loaded [30 f3 34 12 00 00 00 00 00 00 : irmovq $0x1234, %rbx]";
        "set valB to 0x4d from register srcA=3 (%rbx)";
        "not writing to memory since en is 0"].
Proof. vm_compute. reflexivity. Qed.
Example ex_cycle_counts :
  map (fun a => message_count ex_d a ex_st) ex_acts = [2; 1; 0; 1; 0; 0]%nat.
Proof. vm_compute. reflexivity. Qed.
Example ex_cycle_thm : forall s' text,
  exec_actions ex_f ex_d ex_acts ex_st = Ok (s', text) ->
  exists lss, cycle_lines ex_f ex_d ex_acts ex_st lss s' /\ lines text = Some (List.concat lss).
Proof. intros s' text H. exact (cycle_messages_holds ex_f ex_d ex_acts ex_st s' text eq_refl H). Qed.

Print Assumptions dec_roundtrip_holds.
Print Assumptions assign_msg_holds.
Print Assumptions read_memory_msg_holds.
Print Assumptions not_reading_msg_holds.
Print Assumptions write_memory_msg_holds.
Print Assumptions not_writing_msg_holds.
Print Assumptions read_reg_msg_holds.
Print Assumptions write_reg_msg_holds.
Print Assumptions trace_line_readback_holds.
Print Assumptions trace_line_cycle_holds.
Print Assumptions assign_msg_unconditional_refuted.
Print Assumptions write_memory_msg_unconditional_refuted.
Print Assumptions cycle_messages_holds.
