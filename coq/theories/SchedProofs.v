(* Proofs of the statements of SchedSpec.v (C01 settlement / order independence, C07 safety). *)
From Coq Require Import Permutation.
From HclV Require Import Base Expr ExprSpec ExprLemmas ExprProofs Machine MachineSpec MachineProofs
                         MemSpec MemProofs SchedSpec.
From Coq Require Import ZifyN ZifyBool ZifyNat.
Open Scope string_scope.
Open Scope N_scope.

(* ---- small list / string facts ------------------------------------------------------------- *)
Lemma mem_str_In k l : mem_str k l = true <-> In k l.
Proof.
  induction l as [|x r IH]; cbn [mem_str In].
  - split; [discriminate | intros []].
  - rewrite orb_true_iff, IH. split.
    + intros [H|H]; [left; symmetry; apply String.eqb_eq; exact H | right; exact H].
    + intros [H|H]; [left; subst x; apply String.eqb_refl | right; exact H].
Qed.

Lemma mem_str_false k l : mem_str k l = false <-> ~ In k l.
Proof.
  rewrite <- mem_str_In. destruct (mem_str k l); split; intros H.
  - discriminate H.
  - exfalso. apply H. reflexivity.
  - intros H'. discriminate H'.
  - reflexivity.
Qed.

Lemma forallb_mem_In known l :
  forallb (fun n => mem_str n known) l = true -> forall n, In n l -> In n known.
Proof.
  intros H n Hn. rewrite forallb_forall in H. apply mem_str_In. apply H. exact Hn.
Qed.

(* ---- unfolding equations for refs ----------------------------------------------------------- *)
Lemma refs_mux a : refs (EMux a) = refs_arms a.
Proof. reflexivity. Qed.
Lemma refs_in e items : refs (EIn e items) = (refs e ++ refs_items items)%list.
Proof. reflexivity. Qed.
Lemma refs_arms_cons c v rest : refs_arms (ACons c v rest) = (refs c ++ refs v ++ refs_arms rest)%list.
Proof. reflexivity. Qed.
Lemma refs_items_cons e rest : refs_items (XCons e rest) = (refs e ++ refs_items rest)%list.
Proof. reflexivity. Qed.

(* ---- evaluation reads only the wires an expression mentions -------------------------------- *)
Lemma eval_ext_all f rho rho' :
  (forall e, (forall n, In n (refs e) -> rho n = rho' n) ->
             dynw f rho e = dynw f rho' e /\ eval f rho e = eval f rho' e) /\
  (forall a, (forall n, In n (refs_arms a) -> rho n = rho' n) ->
             (forall acc, dynw_arms f rho a acc = dynw_arms f rho' a acc) /\
             eval_arms f rho a = eval_arms f rho' a) /\
  (forall x, (forall n, In n (refs_items x) -> rho n = rho' n) ->
             forall n, eval_items f rho n x = eval_items f rho' n x).
Proof.
  apply expr_arms_exprs_ind.
  - intros c _. split; reflexivity.
  - intros op l IHl r IHr H. cbn [refs] in H.
    destruct IHl as [Dl El]; [intros n Hn; apply H, in_or_app; left; exact Hn|].
    destruct IHr as [Dr Er]; [intros n Hn; apply H, in_or_app; right; exact Hn|].
    cbn [dynw eval]. rewrite Dl, Dr, El, Er. split; reflexivity.
  - intros op e IHe H. cbn [refs] in H. destruct (IHe H) as [De Ee].
    cbn [dynw eval]. rewrite De, Ee. split; reflexivity.
  - intros a IHa H. rewrite refs_mux in H. destruct (IHa H) as [Da Ea].
    rewrite !dynw_mux, !eval_mux, Da, Ea. split; reflexivity.
  - intros n H. cbn [dynw eval]. rewrite (H n) by (left; reflexivity). split; reflexivity.
  - intros e IHe lo hi H. cbn [refs] in H. destruct (IHe H) as [De Ee].
    cbn [dynw eval]. rewrite Ee. split; reflexivity.
  - intros l IHl r IHr H. cbn [refs] in H.
    destruct IHl as [Dl El]; [intros n Hn; apply H, in_or_app; left; exact Hn|].
    destruct IHr as [Dr Er]; [intros n Hn; apply H, in_or_app; right; exact Hn|].
    cbn [dynw eval]. rewrite Dl, Dr, El, Er. split; reflexivity.
  - intros e IHe items IHi H. rewrite refs_in in H.
    destruct IHe as [De Ee]; [intros n Hn; apply H, in_or_app; left; exact Hn|].
    assert (Hi : forall n, In n (refs_items items) -> rho n = rho' n)
      by (intros n Hn; apply H, in_or_app; right; exact Hn).
    rewrite !eval_in, Ee. cbn [dynw]. split; [reflexivity|].
    destruct (eval f rho' e) as [v|es]; cbn [bind]; [apply (IHi Hi) | reflexivity].
  - intros _. split; reflexivity.
  - intros c IHc v IHv rest IHr H. rewrite refs_arms_cons in H.
    destruct IHc as [Dc Ec]; [intros n Hn; apply H, in_or_app; left; exact Hn|].
    destruct IHv as [Dv Ev];
      [intros n Hn; apply H, in_or_app; right; apply in_or_app; left; exact Hn|].
    destruct IHr as [Dr Er];
      [intros n Hn; apply H, in_or_app; right; apply in_or_app; right; exact Hn|].
    split.
    + intros acc. rewrite !dynw_arms_cons, Dv. apply Dr.
    + rewrite !eval_arms_cons, Ec, Ev, Er. reflexivity.
  - intros _ n. reflexivity.
  - intros e IHe rest IHr H n. rewrite refs_items_cons in H.
    destruct IHe as [De Ee]; [intros m Hm; apply H, in_or_app; left; exact Hm|].
    rewrite !eval_items_cons, Ee.
    destruct (eval f rho' e) as [r|es]; cbn [bind]; [|reflexivity].
    rewrite IHr by (intros m Hm; apply H, in_or_app; right; exact Hm). reflexivity.
Qed.

Theorem eval_ext_ok : stmt_eval_ext.
Proof.
  intros f rho rho' e H. exact (proj2 (proj1 (eval_ext_all f rho rho') e H)).
Qed.

(* ---- actions: what an executed action computes ---------------------------------------------- *)
Lemma written_effect a : written a = None <-> is_effect a = true.
Proof. destruct a; cbn [written is_effect]; split; intros H; try reflexivity; discriminate H. Qed.

Lemma written_pure a w : written a = Some w -> is_effect a = false.
Proof. destruct a; cbn [written is_effect]; intros H; try reflexivity; discriminate H. Qed.

(* the value an action computes from the wire values / memory / registers at the moment it runs:
   [defined_value] with the enable signal of a memory read consulted before its address *)
Definition exec_value (f : features) (vals : list (string * wval)) (m : memory) (r : list N)
           (a : action) : option wval :=
  match a with
  | AAssign _ e w =>
      match eval f (lookup vals) e with Ok v => Some (as_width w v) | Err _ => None end
  | AReadReg num _ =>
      match lookup vals num with
      | Some nv => Some (mkV (rf_read r (bits nv mod two64)) (Bits 64))
      | None => None
      end
  | AReadMemory en addr _ n _ =>
      match enabled vals en with
      | Ok true =>
          match lookup vals addr with
          | Some av => Some (mem_read m (bits av mod two64) n)
          | None => None
          end
      | Ok false => Some (as_width (Bits ((n * 8) mod 256)) (mkV 0 Unl))
      | Err _ => None
      end
  | _ => None
  end.

Lemma exec_action_written f o a s s' t w :
  exec_action f o a s = Ok (s', t) -> written a = Some w ->
  lookup (values s') w = exec_value f (values s) (mem s) (regs s) a /\
  lookup (values s') w <> None.
Proof.
  intros H Hw.
  destruct a as [name e w0|num outp|en addr outp n isi|num inp|en addr inp n|sw];
    cbn [written] in Hw; try discriminate Hw; injection Hw as <-;
    unfold exec_action in H; cbn [exec_value].
  - destruct (eval f (lookup (values s)) e) as [v|es] eqn:Ee; cbn [bind] in H; [|discriminate H].
    injection H as <- <-. cbn [set_values values]. rewrite lookup_upd_same.
    split; [reflexivity | discriminate].
  - destruct (get_value (values s) num) as [nv|es] eqn:En; cbn [bind] in H; [|discriminate H].
    apply get_value_ok in En. rewrite En. unfold rf_read.
    destruct (bits nv mod two64 <? N.of_nat (List.length (regs s))) eqn:Eb;
      injection H as <- <-; cbn [set_values values]; rewrite lookup_upd_same;
      (split; [reflexivity | discriminate]).
  - destruct (enabled (values s) en) as [b|es] eqn:Een; cbn [bind] in H; [|discriminate H].
    destruct b.
    + destruct (get_value (values s) addr) as [av|es] eqn:Ea; cbn [bind] in H; [|discriminate H].
      apply get_value_ok in Ea. rewrite Ea.
      destruct (16 <? n) eqn:E16; [unfold err1 in H; discriminate H|].
      injection H as <- <-. cbn [set_values values]. rewrite lookup_upd_same.
      split; [reflexivity | discriminate].
    + injection H as <- <-. cbn [set_values values]. rewrite lookup_upd_same.
      split; [reflexivity | discriminate].
Qed.

(* [exec_value] agrees with [defined_value] as soon as the address of a memory read has a value *)
Lemma exec_value_defined f vals m r a :
  (forall en addr outp n isi, a = AReadMemory en addr outp n isi -> lookup vals addr <> None) ->
  exec_value f vals m r a = defined_value f vals m r a.
Proof.
  intros H. destruct a as [name e w0|num outp|en addr outp n isi|num inp|en addr inp n|sw];
    cbn [exec_value defined_value]; try reflexivity.
  specialize (H en addr outp n isi eq_refl).
  destruct (lookup vals addr) as [av|] eqn:Ea; [|contradiction].
  destruct (enabled vals en) as [[|]|es]; reflexivity.
Qed.

Lemma enabled_ext vals vals' en :
  (forall n, In n (opt_list en) -> lookup vals n = lookup vals' n) ->
  enabled vals en = enabled vals' en.
Proof.
  intros H. destruct en as [w|]; cbn [enabled]; [|reflexivity].
  unfold get_value. rewrite (H w) by (left; reflexivity). reflexivity.
Qed.

Lemma exec_value_ext f vals vals' m r a :
  (forall n, In n (reads a) -> lookup vals n = lookup vals' n) ->
  exec_value f vals m r a = exec_value f vals' m r a.
Proof.
  intros H. destruct a as [name e w0|num outp|en addr outp n isi|num inp|en addr inp n|sw];
    cbn [exec_value reads] in *; try reflexivity.
  - rewrite (eval_ext_ok f (lookup vals) (lookup vals') e H). reflexivity.
  - rewrite (H num) by (left; reflexivity). reflexivity.
  - rewrite (enabled_ext vals vals' en) by (intros k Hk; apply H; right; exact Hk).
    rewrite (H addr) by (left; reflexivity). reflexivity.
Qed.

Lemma defined_value_ext f vals vals' m r a :
  (forall n, In n (reads a) -> lookup vals n = lookup vals' n) ->
  defined_value f vals m r a = defined_value f vals' m r a.
Proof.
  intros H. destruct a as [name e w0|num outp|en addr outp n isi|num inp|en addr inp n|sw];
    cbn [defined_value reads] in *; try reflexivity.
  - rewrite (eval_ext_ok f (lookup vals) (lookup vals') e H). reflexivity.
  - rewrite (H num) by (left; reflexivity). reflexivity.
  - rewrite (enabled_ext vals vals' en) by (intros k Hk; apply H; right; exact Hk).
    rewrite (H addr) by (left; reflexivity). reflexivity.
Qed.

Lemma apply_effect_ext vals vals' st a :
  (forall n, In n (reads a) -> lookup vals n = lookup vals' n) ->
  apply_effect vals st a = apply_effect vals' st a.
Proof.
  intros H. destruct st as [[m r] ls].
  destruct a as [name e w0|num outp|en addr outp n isi|num inp|en addr inp n|sw];
    cbn [apply_effect reads] in *; try reflexivity.
  - rewrite (H num) by (left; reflexivity).
    rewrite (H inp) by (right; left; reflexivity). reflexivity.
  - rewrite (enabled_ext vals vals' en) by (intros k Hk; apply H; right; right; exact Hk).
    rewrite (H addr) by (left; reflexivity).
    rewrite (H inp) by (right; left; reflexivity). reflexivity.
  - rewrite (H sw) by (left; reflexivity). reflexivity.
Qed.

(* an effect action changes the state exactly as [apply_effect] says, and no wire *)
Lemma exec_effect f o a s s' t :
  exec_action f o a s = Ok (s', t) -> is_effect a = true ->
  values s' = values s /\
  (mem s', regs s', last_status s') = apply_effect (values s) (mem s, regs s, last_status s) a.
Proof.
  intros H He.
  destruct a as [name e w0|num outp|en addr outp n isi|num inp|en addr inp n|sw];
    cbn [is_effect] in He; try discriminate He;
    unfold exec_action in H; cbn [apply_effect].
  - destruct (get_value (values s) num) as [nv|es] eqn:En; cbn [bind] in H; [|discriminate H].
    apply get_value_ok in En. rewrite En. unfold zero_register in H.
    destruct ((bits nv mod two64 <? N.of_nat (List.length (regs s))) && negb (bits nv mod two64 =? 15))
      eqn:Eb.
    + destruct (get_value (values s) inp) as [iv|es] eqn:Ei; cbn [bind] in H; [|discriminate H].
      apply get_value_ok in Ei. rewrite Ei. injection H as <- <-.
      cbn [values mem regs last_status]. unfold rf_write. rewrite Eb. split; reflexivity.
    + injection H as <- <-. split; [reflexivity|].
      destruct (lookup (values s) inp) as [iv|]; [|reflexivity].
      unfold rf_write. rewrite Eb. reflexivity.
  - destruct (enabled (values s) en) as [b|es] eqn:Een; cbn [bind] in H; [|discriminate H].
    destruct b.
    + destruct (get_value (values s) addr) as [av|es] eqn:Ea; cbn [bind] in H; [|discriminate H].
      destruct (get_value (values s) inp) as [iv|es] eqn:Ei; cbn [bind] in H; [|discriminate H].
      apply get_value_ok in Ea. apply get_value_ok in Ei. rewrite Ea, Ei.
      destruct (16 <? n) eqn:E16; [unfold err1 in H; discriminate H|].
      injection H as <- <-. cbn [values mem regs last_status]. split; reflexivity.
    + injection H as <- <-. split; reflexivity.
  - destruct (get_value (values s) sw) as [v|es] eqn:Ev; cbn [bind] in H; [|discriminate H].
    apply get_value_ok in Ev. rewrite Ev. injection H as <- <-.
    cbn [values mem regs last_status]. split; reflexivity.
Qed.

(* ---- valid schedules ------------------------------------------------------------------------ *)
Lemma effects_valid known r :
  forallb (fun b => is_effect b && forallb (fun n => mem_str n known) (reads b)) r = true ->
  valid_schedule known r = true.
Proof.
  induction r as [|b r IH]; intros H; [reflexivity|].
  cbn [forallb] in H. apply andb_true_iff in H. destruct H as [Hb Hr].
  apply andb_true_iff in Hb. destruct Hb as [Hbe Hbr].
  cbn [valid_schedule]. rewrite Hbr. cbn [andb].
  destruct (written b) as [w|] eqn:Ew.
  - apply written_pure in Ew. congruence.
  - exact Hr.
Qed.

Lemma valid_cons_pure known a r w :
  valid_schedule known (a :: r) = true -> written a = Some w ->
  (forall n, In n (reads a) -> In n known) /\ ~ In w known /\ valid_schedule (w :: known) r = true.
Proof.
  intros H Hw. cbn [valid_schedule] in H. rewrite Hw in H.
  apply andb_true_iff in H. destruct H as [Hr H].
  apply andb_true_iff in H. destruct H as [Hn Hv].
  split; [exact (forallb_mem_In _ _ Hr) | split; [|exact Hv]].
  apply mem_str_false. destruct (mem_str w known); [discriminate Hn | reflexivity].
Qed.

Lemma valid_cons_effect known a r :
  valid_schedule known (a :: r) = true -> written a = None ->
  (forall n, In n (reads a) -> In n known) /\ (forall b, In b r -> is_effect b = true) /\
  valid_schedule known r = true.
Proof.
  intros H Hw. cbn [valid_schedule] in H. rewrite Hw in H.
  apply andb_true_iff in H. destruct H as [Hr H].
  split; [exact (forallb_mem_In _ _ Hr) | split; [|exact (effects_valid _ _ H)]].
  intros b Hb. rewrite forallb_forall in H. specialize (H b Hb).
  apply andb_true_iff in H. exact (proj1 H).
Qed.

Lemma effects_keep_values f o : forall acts s s1 t,
  (forall b, In b acts -> is_effect b = true) -> exec_actions f o acts s = Ok (s1, t) ->
  values s1 = values s.
Proof.
  induction acts as [|a r IH]; intros s s1 t He H.
  - cbn [exec_actions] in H. injection H as <- _. reflexivity.
  - apply exec_actions_cons_inv in H. destruct H as (s' & t1 & t2 & H1 & H2).
    rewrite (IH s' s1 t2) by (try exact H2; intros b Hb; apply He; right; exact Hb).
    apply (exec_effect f o a s s' t1 H1). apply He. left. reflexivity.
Qed.

(* ---- settlement ----------------------------------------------------------------------------- *)
Lemma settles_gen f o : forall acts known s s1 t,
  valid_schedule known acts = true -> exec_actions f o acts s = Ok (s1, t) ->
  (forall a w, In a acts -> written a = Some w ->
     lookup (values s1) w = exec_value f (values s1) (mem s) (regs s) a /\
     lookup (values s1) w <> None) /\
  (forall k, In k known -> lookup (values s1) k = lookup (values s) k) /\
  (mem s1, regs s1, last_status s1) =
    fold_left (apply_effect (values s1)) (effect_part acts) (mem s, regs s, last_status s).
Proof.
  induction acts as [|a r IH]; intros known s s1 t Hv H.
  - cbn [exec_actions] in H. injection H as <- _.
    split; [intros a w [] | split; [intros; reflexivity | reflexivity]].
  - apply exec_actions_cons_inv in H. destruct H as (s' & t1 & t2 & H1 & H2).
    destruct (written a) as [w|] eqn:Ew.
    + destruct (valid_cons_pure _ _ _ _ Hv Ew) as (Hreads & Hnk & Hv').
      destruct (IH _ _ _ _ Hv' H2) as (IB & IA & IC).
      pose proof (written_pure _ _ Ew) as Hpure.
      destruct (state_frame_ok f o a s s' t1 H1) as (_ & Hfr & _).
      destruct (Hfr Hpure) as (Hm & Hr & Hs).
      assert (HA : forall k, In k known -> lookup (values s1) k = lookup (values s) k).
      { intros k Hk. rewrite (IA k (or_intror Hk)).
        apply (values_frame_ok f o a s s' t1 k H1). rewrite Ew. intros Heq.
        injection Heq as ->. contradiction. }
      split; [|split; [exact HA|]].
      * intros a' w' [Ha'|Ha'] Hw'.
        -- subst a'. rewrite Ew in Hw'. injection Hw' as <-.
           destruct (exec_action_written f o a s s' t1 w H1 Ew) as (Hval & Hne).
           rewrite (IA w (or_introl eq_refl)). split; [|exact Hne].
           rewrite Hval. apply exec_value_ext. intros n Hn. symmetry. apply HA, Hreads, Hn.
        -- rewrite <- Hm, <- Hr. exact (IB a' w' Ha' Hw').
      * unfold effect_part. cbn [filter]. rewrite Hpure. fold (effect_part r).
        rewrite <- Hm, <- Hr, <- Hs. exact IC.
    + destruct (valid_cons_effect _ _ _ Hv Ew) as (Hreads & Heff & Hv').
      destruct (IH _ _ _ _ Hv' H2) as (IB & IA & IC).
      pose proof (proj1 (written_effect a) Ew) as Hae.
      destruct (exec_effect f o a s s' t1 H1 Hae) as (Hvals & Hst).
      pose proof (effects_keep_values f o r s' s1 t2 Heff H2) as Hvals1.
      split; [|split].
      * intros a' w' [Ha'|Ha'] Hw'.
        -- subst a'. congruence.
        -- apply written_pure in Hw'. rewrite (Heff a' Ha') in Hw'. discriminate Hw'.
      * intros k Hk. rewrite Hvals1, Hvals. reflexivity.
      * unfold effect_part. cbn [filter]. rewrite Hae. fold (effect_part r).
        cbn [fold_left]. rewrite IC. rewrite Hst. rewrite Hvals1, Hvals. reflexivity.
Qed.

(* settlement holds unconditionally for [exec_value], i.e. for [defined_value] with the enable
   signal of a memory read consulted before its address wire *)
Definition stmt_settles_lazy : Prop :=
  forall f o known acts s0 s1 t,
    valid_schedule known acts = true ->
    exec_actions f o acts s0 = Ok (s1, t) ->
    (forall a w, In a acts -> written a = Some w ->
       lookup (values s1) w = exec_value f (values s1) (mem s0) (regs s0) a /\
       lookup (values s1) w <> None) /\
    (forall k, In k known -> lookup (values s1) k = lookup (values s0) k) /\
    (mem s1, regs s1, last_status s1) =
      fold_left (apply_effect (values s1)) (effect_part acts) (mem s0, regs s0, last_status s0).

Theorem settles_lazy : stmt_settles_lazy.
Proof. intros f o known acts s0 s1 t Hv H. exact (settles_gen f o acts known s0 s1 t Hv H). Qed.

(* the statement as written is false: a disabled memory read never looks at its address wire,
   while [defined_value] demands that the address has a value *)
Definition cex_known : list string := ["en"; "addr"].
Definition cex_acts : list action := [AReadMemory (Some "en") "addr" "out" 8 false].
Definition cex_s0 : mstate := mkState [("en", mkV 0 (Bits 1))] [] (repeat 0 16) None 0.
Definition cex_f : features := mkF false false false false false.

Theorem settles_false : ~ stmt_settles.
Proof.
  intros H.
  destruct (exec_actions cex_f default_options cex_acts cex_s0) as [[s1 t]|es] eqn:E;
    [|vm_compute in E; discriminate E].
  destruct (H cex_f default_options cex_known cex_acts cex_s0 s1 t eq_refl E) as (HB & _ & _).
  destruct (HB (AReadMemory (Some "en") "addr" "out" 8 false) "out" (or_introl eq_refl) eq_refl)
    as (Heq & Hne).
  vm_compute in E. injection E as <- _. vm_compute in Heq. discriminate Heq.
Qed.

(* the strongest true variant: the address wire of every memory read holds a value at the end of
   the cycle (necessary as well: otherwise [defined_value] is None for that read) *)
Definition stmt_settles_partial : Prop :=
  forall f o known acts s0 s1 t,
    valid_schedule known acts = true ->
    exec_actions f o acts s0 = Ok (s1, t) ->
    (forall en addr outp n isi, In (AReadMemory en addr outp n isi) acts ->
       lookup (values s1) addr <> None) ->
    (forall a w, In a acts -> written a = Some w ->
       lookup (values s1) w = defined_value f (values s1) (mem s0) (regs s0) a /\
       lookup (values s1) w <> None) /\
    (forall k, In k known -> lookup (values s1) k = lookup (values s0) k) /\
    (mem s1, regs s1, last_status s1) =
      fold_left (apply_effect (values s1)) (effect_part acts) (mem s0, regs s0, last_status s0).

Theorem settles_partial : stmt_settles_partial.
Proof.
  intros f o known acts s0 s1 t Hv H Haddr.
  destruct (settles_gen f o acts known s0 s1 t Hv H) as (HB & HA & HC).
  split; [|split; [exact HA | exact HC]].
  intros a w Ha Hw. destruct (HB a w Ha Hw) as (Heq & Hne). split; [|exact Hne].
  rewrite Heq. apply exec_value_defined.
  intros en addr outp n isi ->. exact (Haddr en addr outp n isi Ha).
Qed.

(* the same with the natural hypothesis: every known wire holds a value when the cycle starts *)
Definition stmt_settles_valued : Prop :=
  forall f o known acts s0 s1 t,
    valid_schedule known acts = true ->
    exec_actions f o acts s0 = Ok (s1, t) ->
    (forall k, In k known -> lookup (values s0) k <> None) ->
    (forall a w, In a acts -> written a = Some w ->
       lookup (values s1) w = defined_value f (values s1) (mem s0) (regs s0) a /\
       lookup (values s1) w <> None) /\
    (forall k, In k known -> lookup (values s1) k = lookup (values s0) k) /\
    (mem s1, regs s1, last_status s1) =
      fold_left (apply_effect (values s1)) (effect_part acts) (mem s0, regs s0, last_status s0).

Lemma reads_valued f o : forall acts known s s1 t,
  valid_schedule known acts = true -> exec_actions f o acts s = Ok (s1, t) ->
  (forall k, In k known -> lookup (values s) k <> None) ->
  forall a n, In a acts -> In n (reads a) -> lookup (values s1) n <> None.
Proof.
  induction acts as [|a r IH]; intros known s s1 t Hv H Hk a' n Ha' Hn; [destruct Ha'|].
  destruct (settles_gen f o (a :: r) known s s1 t Hv H) as (_ & HA & _).
  apply exec_actions_cons_inv in H. destruct H as (s' & t1 & t2 & H1 & H2).
  destruct (written a) as [w|] eqn:Ew.
  - destruct (valid_cons_pure _ _ _ _ Hv Ew) as (Hreads & Hnk & Hv').
    destruct Ha' as [<-|Ha'].
    + rewrite (HA n (Hreads n Hn)). apply Hk, Hreads, Hn.
    + apply (IH (w :: known) s' s1 t2 Hv' H2) with (a := a'); [|exact Ha'|exact Hn].
      intros k [<-|Hkk].
      * exact (proj2 (exec_action_written f o a s s' t1 w H1 Ew)).
      * rewrite (values_frame_ok f o a s s' t1 k H1); [apply Hk, Hkk|].
        rewrite Ew. intros Heq. injection Heq as ->. contradiction.
  - destruct (valid_cons_effect _ _ _ Hv Ew) as (Hreads & Heff & Hv').
    destruct Ha' as [<-|Ha'].
    + rewrite (HA n (Hreads n Hn)). apply Hk, Hreads, Hn.
    + apply (IH known s' s1 t2 Hv' H2) with (a := a'); [|exact Ha'|exact Hn].
      pose proof (proj1 (written_effect a) Ew) as Hae.
      rewrite (proj1 (exec_effect f o a s s' t1 H1 Hae)). exact Hk.
Qed.

Theorem settles_valued : stmt_settles_valued.
Proof.
  intros f o known acts s0 s1 t Hv H Hk.
  apply (settles_partial f o known acts s0 s1 t Hv H).
  intros en addr outp n isi Hin.
  apply (reads_valued f o acts known s0 s1 t Hv H Hk _ addr Hin). left. reflexivity.
Qed.

(* ---- order independence --------------------------------------------------------------------- *)
Lemma in_pure_part a acts : In a (pure_part acts) <-> In a acts /\ is_effect a = false.
Proof.
  unfold pure_part. rewrite filter_In. split; intros [H1 H2]; (split; [exact H1|]).
  - destruct (is_effect a); [discriminate H2 | reflexivity].
  - rewrite H2. reflexivity.
Qed.

(* along a valid schedule, two environments that both satisfy every definition and agree on the
   known wires agree on every written wire *)
Lemma agree_gen f m r V1 V2 : forall acts known,
  valid_schedule known acts = true ->
  (forall k, In k known -> lookup V1 k = lookup V2 k) ->
  (forall a w, In a acts -> written a = Some w ->
     lookup V1 w = exec_value f V1 m r a /\ lookup V2 w = exec_value f V2 m r a) ->
  forall a w, In a acts -> written a = Some w -> lookup V1 w = lookup V2 w.
Proof.
  induction acts as [|a0 r0 IH]; intros known Hv Hk Hdef a w Ha Hw; [destruct Ha|].
  destruct (written a0) as [w0|] eqn:Ew0.
  - destruct (valid_cons_pure _ _ _ _ Hv Ew0) as (Hreads & Hnk & Hv').
    assert (H0 : lookup V1 w0 = lookup V2 w0).
    { destruct (Hdef a0 w0 (or_introl eq_refl) Ew0) as (E1 & E2). rewrite E1, E2.
      apply exec_value_ext. intros n Hn. apply Hk, Hreads, Hn. }
    destruct Ha as [<-|Ha].
    + rewrite Ew0 in Hw. injection Hw as <-. exact H0.
    + apply (IH (w0 :: known) Hv') with (a := a); [| |exact Ha|exact Hw].
      * intros k [<-|Hkk]; [exact H0 | apply Hk, Hkk].
      * intros a' w' Ha' Hw'. apply Hdef; [right; exact Ha' | exact Hw'].
  - destruct (valid_cons_effect _ _ _ Hv Ew0) as (_ & Heff & _).
    destruct Ha as [<-|Ha]; [congruence|].
    apply written_pure in Hw. rewrite (Heff a Ha) in Hw. discriminate Hw.
Qed.

Definition writes_wire (k : string) (a : action) : bool :=
  match written a with Some w => String.eqb w k | None => false end.

Lemma writes_wire_dec k acts :
  (exists a, In a acts /\ written a = Some k) \/ (forall a, In a acts -> written a <> Some k).
Proof.
  destruct (existsb (writes_wire k) acts) eqn:E.
  - left. apply existsb_exists in E. destruct E as (a & Ha & Hw). exists a. split; [exact Ha|].
    unfold writes_wire in Hw. destruct (written a) as [w|]; [|discriminate Hw].
    apply String.eqb_eq in Hw. subst w. reflexivity.
  - right. intros a Ha Hw.
    assert (Hx : existsb (writes_wire k) acts = true).
    { apply existsb_exists. exists a. split; [exact Ha|]. unfold writes_wire. rewrite Hw.
      apply String.eqb_refl. }
    congruence.
Qed.

Lemma fold_apply_effect_ext V1 V2 : (forall k, lookup V1 k = lookup V2 k) ->
  forall l st, fold_left (apply_effect V1) l st = fold_left (apply_effect V2) l st.
Proof.
  intros HV. induction l as [|a l IH]; intros st; [reflexivity|].
  cbn [fold_left]. rewrite (apply_effect_ext V1 V2 st a) by (intros n _; apply HV). apply IH.
Qed.

Theorem order_independent_ok : stmt_order_independent.
Proof.
  intros f o known acts acts' s0 s1 t1 s2 t2 Hv1 Hv2 Hperm Heff H1 H2.
  destruct (settles_gen f o acts known s0 s1 t1 Hv1 H1) as (B1 & A1 & C1).
  destruct (settles_gen f o acts' known s0 s2 t2 Hv2 H2) as (B2 & A2 & C2).
  destruct (actions_frame_ok f o acts s0 s1 t1 H1) as (Hc1 & Hf1 & _).
  destruct (actions_frame_ok f o acts' s0 s2 t2 H2) as (Hc2 & Hf2 & _).
  assert (Hin : forall a, is_effect a = false -> (In a acts <-> In a acts')).
  { intros a Ha. split; intros Hi.
    - apply (in_pure_part a acts'). apply (Permutation_in a Hperm).
      apply in_pure_part. split; assumption.
    - apply (in_pure_part a acts). apply (Permutation_in a (Permutation_sym Hperm)).
      apply in_pure_part. split; assumption. }
  assert (Hvals : forall k, lookup (values s1) k = lookup (values s2) k).
  { intros k. destruct (writes_wire_dec k acts) as [(a & Ha & Hw)|Hno].
    - apply (agree_gen f (mem s0) (regs s0) (values s1) (values s2) acts known Hv1) with (a := a);
        [| |exact Ha|exact Hw].
      + intros k' Hk'. rewrite (A1 k' Hk'), (A2 k' Hk'). reflexivity.
      + intros a' w' Ha' Hw'. split; [exact (proj1 (B1 a' w' Ha' Hw'))|].
        apply (B2 a' w'); [|exact Hw']. apply (Hin a' (written_pure _ _ Hw')). exact Ha'.
    - rewrite (Hf1 k Hno). rewrite (Hf2 k); [reflexivity|].
      intros a' Ha' Hw'. apply (Hno a'); [|exact Hw'].
      apply (Hin a' (written_pure _ _ Hw')). exact Ha'. }
  split; [exact Hvals|].
  assert (Hst : (mem s1, regs s1, last_status s1) = (mem s2, regs s2, last_status s2)).
  { rewrite C1, C2, <- Heff. apply fold_apply_effect_ext. exact Hvals. }
  injection Hst as Hm Hr Hs.
  split; [exact Hm | split; [exact Hr | split; [exact Hs | congruence]]].
Qed.

(* ---- the checker consults the declarations only at the wires an expression mentions --------- *)
Lemma check_ext_all f G G' C :
  (forall e, (forall n, In n (refs e) -> G n = G' n) -> check f G C e = check f G' C e) /\
  (forall a, (forall n, In n (refs_arms a) -> G n = G' n) ->
             forall st, check_arms f G C a st = check_arms f G' C a st) /\
  (forall x, (forall n, In n (refs_items x) -> G n = G' n) ->
             forall wl, check_items f G C wl x = check_items f G' C wl x).
Proof.
  apply expr_arms_exprs_ind.
  - intros c _. reflexivity.
  - intros op l IHl r IHr H. cbn [refs] in H.
    assert (El : check f G C l = check f G' C l)
      by (apply IHl; intros n Hn; apply H, in_or_app; left; exact Hn).
    assert (Er : check f G C r = check f G' C r)
      by (apply IHr; intros n Hn; apply H, in_or_app; right; exact Hn).
    cbn [check]. rewrite El, Er. reflexivity.
  - intros op e IHe H. cbn [refs] in H. specialize (IHe H).
    destruct op; cbn [check]; rewrite IHe; reflexivity.
  - intros a IHa H. rewrite refs_mux in H. rewrite !check_mux_eq, (IHa H). reflexivity.
  - intros n H. cbn [check]. rewrite (H n) by (left; reflexivity). reflexivity.
  - intros e IHe lo hi H. cbn [refs] in H. cbn [check]. rewrite (IHe H). reflexivity.
  - intros l IHl r IHr H. cbn [refs] in H.
    assert (El : check f G C l = check f G' C l)
      by (apply IHl; intros n Hn; apply H, in_or_app; left; exact Hn).
    assert (Er : check f G C r = check f G' C r)
      by (apply IHr; intros n Hn; apply H, in_or_app; right; exact Hn).
    cbn [check]. rewrite El, Er. reflexivity.
  - intros e IHe items IHi H. rewrite refs_in in H.
    assert (Ee : check f G C e = check f G' C e)
      by (apply IHe; intros n Hn; apply H, in_or_app; left; exact Hn).
    assert (Hi : forall n, In n (refs_items items) -> G n = G' n)
      by (intros n Hn; apply H, in_or_app; right; exact Hn).
    rewrite !check_in_eq, Ee.
    destruct (check f G' C e) as [wl|es]; cbn [bind]; [|reflexivity].
    rewrite (IHi Hi wl). reflexivity.
  - intros _ st. reflexivity.
  - intros c IHc v IHv rest IHr H st. rewrite refs_arms_cons in H.
    assert (Ec : check f G C c = check f G' C c)
      by (apply IHc; intros n Hn; apply H, in_or_app; left; exact Hn).
    assert (Ev : check f G C v = check f G' C v)
      by (apply IHv; intros n Hn; apply H, in_or_app; right; apply in_or_app; left; exact Hn).
    assert (Hr : forall n, In n (refs_arms rest) -> G n = G' n)
      by (intros n Hn; apply H, in_or_app; right; apply in_or_app; right; exact Hn).
    rewrite !check_arms_cons_eq, Ec, Ev.
    destruct (check f G' C c) as [wc|es]; cbn [bind]; [|reflexivity].
    destruct (check f G' C v) as [wv|es]; cbn [bind]; [|reflexivity].
    apply (IHr Hr).
  - intros _ wl. reflexivity.
  - intros e IHe rest IHr H wl. rewrite refs_items_cons in H.
    assert (Ee : check f G C e = check f G' C e)
      by (apply IHe; intros n Hn; apply H, in_or_app; left; exact Hn).
    assert (Hr : forall n, In n (refs_items rest) -> G n = G' n)
      by (intros n Hn; apply H, in_or_app; right; exact Hn).
    rewrite !check_items_cons_eq, Ee, (IHr Hr wl). reflexivity.
Qed.

Lemma check_ext f G G' C e :
  (forall n, In n (refs e) -> G n = G' n) -> check f G C e = check f G' C e.
Proof. exact (proj1 (check_ext_all f G G' C) e). Qed.

(* ---- C07: invariants of a well-typed state ------------------------------------------------- *)
Definition typed_vals (G : string -> option width) (vals : list (string * wval)) : Prop :=
  forall n v w, lookup vals n = Some v -> G n = Some w -> wd v = w /\ fits v.

Definition mach_ok (m : memory) (r : list N) : Prop :=
  List.length r = 16%nat /\ Forall (fun x => x < two64) r /\ wf_mem m.

Lemma typed_upd G vals k v :
  typed_vals G vals -> (forall w, G k = Some w -> wd v = w /\ fits v) ->
  typed_vals G (upd vals k v).
Proof.
  intros HT Hk n v' w Hl HG. rewrite lookup_upd in Hl. destruct (String.eqb n k) eqn:E.
  - apply String.eqb_eq in E. subst n. injection Hl as <-. apply Hk, HG.
  - exact (HT n v' w Hl HG).
Qed.

Lemma valued_upd (vals : list (string * wval)) k v k' :
  lookup vals k' <> None -> lookup (upd vals k v) k' <> None.
Proof. rewrite lookup_upd. destruct (String.eqb k' k); [discriminate | trivial]. Qed.

Lemma valued_some (vals : list (string * wval)) k :
  lookup vals k <> None -> exists v, lookup vals k = Some v.
Proof. destruct (lookup vals k) as [v|]; [eauto | contradiction]. Qed.

Lemma fits_as_width w v : wf_width w -> fits (as_width w v).
Proof.
  intros Hw. unfold fits, as_width. cbn [bits wd].
  split; [apply land_mask_lt; exact Hw | exact Hw].
Qed.

Lemma mod_two64_lt x : x mod two64 < two64.
Proof. apply N.mod_lt. rewrite two64_lit. discriminate. Qed.

Lemma fits_bits64 r : r < two64 -> fits (mkV r (Bits 64)).
Proof.
  intros H. unfold fits. cbn [bits wd bits_or_128 wf_width]. split; [exact H | lia].
Qed.

Lemma Forall_nth_lt (l : list N) i : Forall (fun x => x < two64) l -> nth i l 0 < two64.
Proof.
  intros H. revert i. induction H as [|x l Hx Hl IH]; intros i.
  - destruct i; cbn [nth]; rewrite two64_lit; lia.
  - destruct i as [|i]; cbn [nth]; [exact Hx | apply IH].
Qed.

Lemma Forall_set_nth (P : N -> Prop) l i v : Forall P l -> P v -> Forall P (set_nth l i v).
Proof.
  intros H Hv. revert i. induction H as [|x l Hx Hl IH]; intros i.
  - constructor.
  - destruct i as [|i]; cbn [set_nth]; constructor; auto.
Qed.

Lemma enabled_total vals en :
  (forall n, In n (opt_list en) -> lookup vals n <> None) -> exists b, enabled vals en = Ok b.
Proof.
  intros H. destruct en as [w|]; cbn [enabled]; [|eauto].
  destruct (valued_some vals w (H w (or_introl eq_refl))) as (v & Hv).
  rewrite (get_value_some _ _ _ Hv). cbn [bind]. eauto.
Qed.

Lemma exec_action_safe f o G p a s :
  action_typed f G p a -> (forall n, In n (reads a) -> lookup (values s) n <> None) ->
  typed_vals G (values s) -> mach_ok (mem s) (regs s) ->
  match exec_action f o a s with
  | Ok (s', _) => typed_vals G (values s') /\ mach_ok (mem s') (regs s')
  | Err es => div_zero_only es
  end.
Proof.
  intros Hty Hrd HT HM.
  destruct a as [name e w0|num outp|en addr outp n isi|num inp|en addr inp n|sw];
    cbn [action_typed reads] in Hty, Hrd; unfold exec_action.
  - destruct Hty as (HGn & Hw0 & Hwf & we & Hck & _).
    set (Gr := fun k => if mem_str k (refs e) then G k else None).
    assert (Henv : env_ok Gr (lookup (values s))).
    { intros k w Hk. unfold Gr in Hk. destruct (mem_str k (refs e)) eqn:Em; [|discriminate Hk].
      apply mem_str_In in Em. destruct (valued_some _ _ (Hrd k Em)) as (v & Hv).
      exists v. split; [exact Hv|]. exact (HT k v w Hv Hk). }
    assert (Hck' : check f Gr (consts_of p) e = Ok we).
    { rewrite <- Hck. apply check_ext. intros k Hk. unfold Gr.
      apply mem_str_In in Hk. rewrite Hk. reflexivity. }
    pose proof (eval_sound f Gr (consts_of p) (lookup (values s)) e we Hwf Henv Hck') as Hs.
    destruct (eval f (lookup (values s)) e) as [v|es]; cbn [bind]; [|exact Hs].
    cbn [set_values values mem regs]. split; [|exact HM].
    apply typed_upd; [exact HT|]. intros w Hw. rewrite HGn in Hw. injection Hw as <-.
    split; [reflexivity | apply fits_as_width; exact Hw0].
  - destruct Hty as (HGn & HGo).
    destruct (valued_some _ _ (Hrd num (or_introl eq_refl))) as (nv & Hnv).
    rewrite (get_value_some _ _ _ Hnv). cbn [bind].
    destruct HM as (HL & HF & HW).
    destruct (bits nv mod two64 <? N.of_nat (List.length (regs s))) eqn:Eb;
      cbn [set_values values mem regs]; (split; [|exact (conj HL (conj HF HW))]);
      (apply typed_upd; [exact HT|]); intros w Hw; rewrite HGo in Hw; injection Hw as <-;
      (split; [reflexivity | apply fits_bits64]).
    + apply Forall_nth_lt. exact HF.
    + rewrite two64_lit. lia.
  - destruct Hty as (HGa & HGo & Hn16 & HGe).
    destruct (enabled_total (values s) en) as (b & Hb);
      [intros k Hk; apply Hrd; right; exact Hk|].
    rewrite Hb. cbn [bind]. destruct HM as (HL & HF & HW). destruct b.
    + destruct (valued_some _ _ (Hrd addr (or_introl eq_refl))) as (av & Hav).
      rewrite (get_value_some _ _ _ Hav). cbn [bind].
      replace (16 <? n) with false by lia.
      cbn [set_values values mem regs]. split; [|exact (conj HL (conj HF HW))].
      apply typed_upd; [exact HT|]. intros w Hw. rewrite HGo in Hw. injection Hw as <-.
      split; [reflexivity|]. unfold fits.
      replace (wd (mem_read (mem s) (bits av mod two64) n)) with (Bits (n * 8)) by reflexivity.
      cbn [bits_or_128 wf_width]. split; [|lia].
      apply mem_read_fits; [exact HW | apply mod_two64_lt | exact Hn16].
    + cbn [set_values values mem regs]. split; [|exact (conj HL (conj HF HW))].
      apply typed_upd; [exact HT|]. intros w Hw. rewrite HGo in Hw. injection Hw as <-.
      rewrite N.mod_small by lia.
      split; [reflexivity | apply fits_as_width; cbn [wf_width]; lia].
  - destruct Hty as (HGn & HGi).
    destruct (valued_some _ _ (Hrd num (or_introl eq_refl))) as (nv & Hnv).
    destruct (valued_some _ _ (Hrd inp (or_intror (or_introl eq_refl)))) as (iv & Hiv).
    rewrite (get_value_some _ _ _ Hnv). cbn [bind].
    destruct ((bits nv mod two64 <? N.of_nat (List.length (regs s))) &&
              negb (bits nv mod two64 =? zero_register)) eqn:Eb.
    + rewrite (get_value_some _ _ _ Hiv). cbn [bind]. cbn [values mem regs].
      split; [exact HT|]. destruct HM as (HL & HF & HW).
      split; [rewrite set_nth_length; exact HL | split; [|exact HW]].
      apply Forall_set_nth; [exact HF | apply mod_two64_lt].
    + split; [exact HT | exact HM].
  - destruct Hty as (HGa & HGi & Hn16 & HGe).
    destruct (enabled_total (values s) en) as (b & Hb);
      [intros k Hk; apply Hrd; right; right; exact Hk|].
    rewrite Hb. cbn [bind]. destruct b.
    + destruct (valued_some _ _ (Hrd addr (or_introl eq_refl))) as (av & Hav).
      destruct (valued_some _ _ (Hrd inp (or_intror (or_introl eq_refl)))) as (iv & Hiv).
      rewrite (get_value_some _ _ _ Hav). cbn [bind].
      rewrite (get_value_some _ _ _ Hiv). cbn [bind].
      replace (16 <? n) with false by lia. cbn [values mem regs].
      split; [exact HT|]. destruct HM as (HL & HF & HW).
      split; [exact HL | split; [exact HF|]].
      apply mem_write_ok; [exact HW | apply mod_two64_lt | exact Hn16].
    + split; [exact HT | exact HM].
  - destruct (valued_some _ _ (Hrd sw (or_introl eq_refl))) as (v & Hv).
    rewrite (get_value_some _ _ _ Hv). cbn [bind]. cbn [values mem regs].
    split; [exact HT | exact HM].
Qed.

Lemma exec_action_dom f o a s s' t k :
  exec_action f o a s = Ok (s', t) -> lookup (values s) k <> None -> lookup (values s') k <> None.
Proof.
  intros H Hk. destruct (written a) as [w|] eqn:Ew.
  - destruct (String.eqb k w) eqn:E.
    + apply String.eqb_eq in E. subst k. exact (proj2 (exec_action_written f o a s s' t w H Ew)).
    + rewrite (values_frame_ok f o a s s' t k H); [exact Hk|].
      rewrite Ew. intros Heq. injection Heq as ->. rewrite String.eqb_refl in E. discriminate E.
  - rewrite (values_frame_ok f o a s s' t k H); [exact Hk|]. rewrite Ew. discriminate.
Qed.

Lemma exec_actions_safe f o G p : forall acts known s,
  (forall a, In a acts -> action_typed f G p a) -> valid_schedule known acts = true ->
  (forall k, In k known -> lookup (values s) k <> None) ->
  typed_vals G (values s) -> mach_ok (mem s) (regs s) ->
  match exec_actions f o acts s with
  | Ok (s', _) => typed_vals G (values s') /\ mach_ok (mem s') (regs s') /\
                  (forall k, lookup (values s) k <> None -> lookup (values s') k <> None)
  | Err es => div_zero_only es
  end.
Proof.
  induction acts as [|a r IH]; intros known s Hty Hv Hk HT HM; cbn [exec_actions].
  - split; [exact HT | split; [exact HM | trivial]].
  - assert (Hreads : forall n, In n (reads a) -> In n known).
    { cbn [valid_schedule] in Hv. apply andb_true_iff in Hv.
      exact (forallb_mem_In _ _ (proj1 Hv)). }
    pose proof (exec_action_safe f o G p a s (Hty a (or_introl eq_refl))
                  (fun n Hn => Hk n (Hreads n Hn)) HT HM) as Ha.
    destruct (exec_action f o a s) as [[s' t1]|es] eqn:E1; cbn [bind fst snd]; [|exact Ha].
    destruct Ha as (HT' & HM').
    assert (Hdom : forall k, lookup (values s) k <> None -> lookup (values s') k <> None)
      by (intros k; apply (exec_action_dom f o a s s' t1 k E1)).
    assert (Hty' : forall a', In a' r -> action_typed f G p a')
      by (intros a' Ha'; apply Hty; right; exact Ha').
    assert (IH' : match exec_actions f o r s' with
                  | Ok (s'', _) => typed_vals G (values s'') /\ mach_ok (mem s'') (regs s'') /\
                      (forall k, lookup (values s') k <> None -> lookup (values s'') k <> None)
                  | Err es => div_zero_only es
                  end).
    { destruct (written a) as [w|] eqn:Ew.
      - destruct (valid_cons_pure _ _ _ _ Hv Ew) as (_ & _ & Hv').
        apply (IH (w :: known) s' Hty' Hv'); [|exact HT'|exact HM'].
        intros k [<-|Hkk].
        + exact (proj2 (exec_action_written f o a s s' t1 w E1 Ew)).
        + apply Hdom, Hk, Hkk.
      - destruct (valid_cons_effect _ _ _ Hv Ew) as (_ & _ & Hv').
        apply (IH known s' Hty' Hv'); [|exact HT'|exact HM'].
        intros k Hkk. apply Hdom, Hk, Hkk. }
    destruct (exec_actions f o r s') as [[s'' t2]|es]; cbn [bind fst snd]; [|exact IH'].
    destruct IH' as (HT'' & HM'' & Hdom').
    split; [exact HT'' | split; [exact HM''|]]. intros k Hkk. apply Hdom', Hdom, Hkk.
Qed.

(* ---- the debug tables never fail ------------------------------------------------------------ *)
Lemma lookup_in_dom {V} (m : list (string * V)) k : In k (map fst m) -> lookup m k <> None.
Proof.
  induction m as [|[k0 v0] r IH]; cbn [map fst In lookup]; intros H; [destruct H|].
  destruct (String.eqb k k0) eqn:E; [discriminate|]. apply IH.
  destruct H as [H|H]; [|exact H]. subst k0. rewrite String.eqb_refl in E. discriminate E.
Qed.

Lemma lookup_In {V} (m : list (string * V)) k v : lookup m k = Some v -> In (k, v) m.
Proof.
  induction m as [|[k0 v0] r IH]; cbn [lookup In]; intros H; [discriminate H|].
  destruct (String.eqb k k0) eqn:E.
  - apply String.eqb_eq in E. subst k0. injection H as <-. left. reflexivity.
  - right. apply IH. exact H.
Qed.

Lemma lookup_NoDup_in {V} (m : list (string * V)) k v :
  NoDup (map fst m) -> In (k, v) m -> lookup m k = Some v.
Proof.
  induction m as [|[k0 v0] r IH]; cbn [map fst In lookup]; intros ND H; [destruct H|].
  apply NoDup_cons_iff in ND. destruct ND as (Hk0 & ND).
  destruct H as [H|H].
  - injection H as -> ->. rewrite String.eqb_refl. reflexivity.
  - destruct (String.eqb k k0) eqn:E.
    + apply String.eqb_eq in E. subst k0. exfalso. apply Hk0.
      exact (in_map fst r (k, v) H).
    + apply IH; assumption.
Qed.

Lemma find_table_widths_total vals : forall keys mn mv,
  (forall k, In k keys -> lookup vals k <> None) ->
  exists r, find_table_widths vals keys mn mv = Ok r.
Proof.
  induction keys as [|k r IH]; intros mn mv H; cbn [find_table_widths]; [eauto|].
  destruct (valued_some vals k (H k (or_introl eq_refl))) as (v & Hv).
  rewrite (get_value_some _ _ _ Hv). cbn [bind]. apply IH. intros k' Hk'. apply H. right. exact Hk'.
Qed.

Lemma table_rows_total vals : forall keys mn mv,
  (forall k, In k keys -> lookup vals k <> None) ->
  exists r, table_rows vals keys mn mv = Ok r.
Proof.
  induction keys as [|k r IH]; intros mn mv H; cbn [table_rows]; [eauto|].
  destruct (valued_some vals k (H k (or_introl eq_refl))) as (v & Hv).
  rewrite (get_value_some _ _ _ Hv). cbn [bind].
  destruct (IH mn mv) as (rest & Hrest); [intros k' Hk'; apply H; right; exact Hk'|].
  rewrite Hrest. cbn [bind]. eauto.
Qed.

Lemma insert_sorted_in ltb x l k : In k (insert_sorted ltb x l) -> k = x \/ In k l.
Proof.
  induction l as [|y r IH]; cbn [insert_sorted]; intros H.
  - destruct H as [H|[]]. left. symmetry. exact H.
  - destruct (ltb y x).
    + destruct H as [H|H]; [right; left; exact H|].
      destruct (IH H) as [H'|H']; [left; exact H' | right; right; exact H'].
    + destruct H as [H|H]; [left; symmetry; exact H | right; exact H].
Qed.

Lemma sort_strings_in ltb l k : In k (sort_strings ltb l) -> In k l.
Proof.
  unfold sort_strings. induction l as [|x r IH]; cbn [fold_right]; intros H; [exact H|].
  destruct (insert_sorted_in _ _ _ _ H) as [->|H']; [left; reflexivity | right; apply IH, H'].
Qed.

Lemma dump_wire_subtable_total vals keys label header :
  (forall k, In k keys -> lookup vals k <> None) ->
  exists t, dump_wire_subtable vals keys label header = Ok t.
Proof.
  intros H. unfold dump_wire_subtable. destruct keys as [|k0 r]; [eauto|].
  destruct (find_table_widths_total vals (k0 :: r) 15 22 H) as ([mn mv] & E).
  rewrite E. cbn [bind].
  destruct (table_rows_total vals (sort_strings key_ltb (k0 :: r)) mn mv) as (rows & Er).
  { intros k Hk. apply H. exact (sort_strings_in _ _ _ Hk). }
  rewrite Er. cbn [bind]. eauto.
Qed.

Lemma dump_values_total o p vals : exists t, dump_values o p vals = Ok t.
Proof.
  assert (HK : forall g k, In k (filter g (map fst vals)) -> lookup vals k <> None).
  { intros g k Hk. apply lookup_in_dom. apply filter_In in Hk. exact (proj1 Hk). }
  unfold dump_values. destruct (o_group_wire_values o).
  - unfold dump_values_grouped. cbv zeta.
    repeat match goal with
    | |- exists t, bind (dump_wire_subtable ?v ?ks ?l ?h) _ = _ =>
        let t := fresh "t" in let E := fresh "E" in
        destruct (dump_wire_subtable_total v ks l h) as (t & E);
        [intros k Hk; apply filter_In in Hk; exact (HK _ k (proj1 Hk)) | rewrite E; cbn [bind]]
    end.
    eauto.
  - unfold dump_values_ungrouped. cbv zeta. apply dump_wire_subtable_total. apply HK.
Qed.

(* ---- the clock edge preserves the invariants ------------------------------------------------ *)
Definition grows (vals vals' : list (string * wval)) : Prop :=
  forall k, lookup vals k <> None -> lookup vals' k <> None.

Lemma grows_refl vals : grows vals vals.
Proof. intros k H. exact H. Qed.

Lemma grows_trans a b c : grows a b -> grows b c -> grows a c.
Proof. intros H1 H2 k H. apply H2, H1, H. Qed.

Lemma grows_upd vals k v : grows vals (upd vals k v).
Proof. intros k' H. apply valued_upd. exact H. Qed.

Lemma valued_has (vals : list (string * wval)) k : lookup vals k <> None -> has vals k = true.
Proof. unfold has. destruct (lookup vals k); [reflexivity | contradiction]. Qed.

Section BankSafety.
  Variable G : string -> option width.

  Definition val_for (k : string) (v : wval) : Prop := forall w, G k = Some w -> wd v = w /\ fits v.

  Lemma set_defaults_safe : forall defaults vals,
    (forall k v, In (k, v) defaults -> lookup vals k <> None /\ val_for k v) ->
    typed_vals G vals ->
    exists vals', set_defaults vals defaults = Ok vals' /\ typed_vals G vals' /\ grows vals vals'.
  Proof.
    induction defaults as [|[k v] r IH]; intros vals H HT; cbn [set_defaults].
    - exists vals. split; [reflexivity | split; [exact HT | apply grows_refl]].
    - destruct (H k v (or_introl eq_refl)) as (Hk & Hv).
      rewrite (valued_has _ _ Hk).
      destruct (IH (upd vals k v)) as (vals' & E & HT' & Hg).
      + intros k' v' Hin. destruct (H k' v' (or_intror Hin)) as (Hk' & Hv').
        split; [apply valued_upd; exact Hk' | exact Hv'].
      + apply typed_upd; [exact HT | exact Hv].
      + exists vals'. split; [exact E | split; [exact HT'|]].
        exact (grows_trans _ _ _ (grows_upd vals k v) Hg).
  Qed.

  Lemma copy_signals_safe : forall sigs vals,
    (forall i o w, In (i, o, w) sigs ->
       lookup vals i <> None /\ lookup vals o <> None /\ G i = Some w /\ G o = Some w) ->
    typed_vals G vals ->
    exists vals', copy_signals vals sigs = Ok vals' /\ typed_vals G vals' /\ grows vals vals'.
  Proof.
    induction sigs as [|[[i o] w] r IH]; intros vals H HT; cbn [copy_signals].
    - exists vals. split; [reflexivity | split; [exact HT | apply grows_refl]].
    - destruct (H i o w (or_introl eq_refl)) as (Hi & Ho & HGi & HGo).
      destruct (valued_some _ _ Hi) as (nv & Hnv).
      rewrite (get_value_some _ _ _ Hnv). cbn [bind]. rewrite (valued_has _ _ Ho).
      destruct (IH (upd vals o nv)) as (vals' & E & HT' & Hg).
      + intros i' o' w' Hin. destruct (H i' o' w' (or_intror Hin)) as (Hi' & Ho' & HG').
        split; [apply valued_upd; exact Hi' | split; [apply valued_upd; exact Ho' | exact HG']].
      + apply typed_upd; [exact HT|]. intros w' Hw'. rewrite HGo in Hw'. injection Hw' as <-.
        exact (HT i nv w Hnv HGi).
      + exists vals'. split; [exact E | split; [exact HT'|]].
        exact (grows_trans _ _ _ (grows_upd vals o nv) Hg).
  Qed.

  Definition bank_ready (vals : list (string * wval)) (b : bank) : Prop :=
    lookup vals (b_stall b) <> None /\ lookup vals (b_bubble b) <> None /\
    (forall i o w, In (i, o, w) (b_signals b) ->
       lookup vals i <> None /\ lookup vals o <> None /\ G i = Some w /\ G o = Some w) /\
    (forall k v, In (k, v) (b_defaults b) -> lookup vals k <> None /\ val_for k v).

  Lemma bank_ready_grows vals vals' b : grows vals vals' -> bank_ready vals b -> bank_ready vals' b.
  Proof.
    intros Hg (H1 & H2 & H3 & H4).
    split; [apply Hg, H1 | split; [apply Hg, H2 | split]].
    - intros i o w Hin. destruct (H3 i o w Hin) as (A & B & C).
      split; [apply Hg, A | split; [apply Hg, B | exact C]].
    - intros k v Hin. destruct (H4 k v Hin) as (A & B). split; [apply Hg, A | exact B].
  Qed.

  Lemma process_banks_safe : forall banks vals,
    (forall b, In b banks -> bank_ready vals b) -> typed_vals G vals ->
    exists vals', process_banks vals banks = Ok vals' /\ typed_vals G vals' /\ grows vals vals'.
  Proof.
    induction banks as [|b r IH]; intros vals H HT; cbn [process_banks].
    - exists vals. split; [reflexivity | split; [exact HT | apply grows_refl]].
    - destruct (H b (or_introl eq_refl)) as (Hst & Hbu & Hsig & Hdef).
      destruct (valued_some _ _ Hst) as (st & Est). destruct (valued_some _ _ Hbu) as (bu & Ebu).
      rewrite (get_value_some _ _ _ Est). cbn [bind].
      rewrite (get_value_some _ _ _ Ebu). cbn [bind].
      assert (H1 : exists v1,
                 (if is_true bu then set_defaults vals (b_defaults b)
                  else if negb (is_true st) then copy_signals vals (b_signals b) else Ok vals) = Ok v1 /\
                 typed_vals G v1 /\ grows vals v1).
      { destruct (is_true bu).
        - apply set_defaults_safe; assumption.
        - destruct (negb (is_true st)).
          + apply copy_signals_safe; assumption.
          + exists vals. split; [reflexivity | split; [exact HT | apply grows_refl]]. }
      destruct H1 as (v1 & E1 & HT1 & Hg1). rewrite E1. cbn [bind].
      destruct (IH v1) as (vals' & E & HT' & Hg).
      + intros b' Hb'. apply (bank_ready_grows vals v1 b' Hg1). apply H. right. exact Hb'.
      + exact HT1.
      + exists vals'. split; [exact E | split; [exact HT' | exact (grows_trans _ _ _ Hg1 Hg)]].
  Qed.

  (* ---- the initial state ---- *)
  Lemma init_signals_safe defaults : forall sigs vals,
    (forall i o w, In (i, o, w) sigs ->
       exists d, lookup defaults o = Some d /\ val_for i d /\ val_for o d) ->
    typed_vals G vals ->
    exists vals', init_signals vals defaults sigs = Ok vals' /\ typed_vals G vals' /\
      grows vals vals' /\
      (forall i o w, In (i, o, w) sigs -> lookup vals' i <> None /\ lookup vals' o <> None).
  Proof.
    induction sigs as [|[[i o] w] r IH]; intros vals H HT; cbn [init_signals].
    - exists vals. split; [reflexivity | split; [exact HT | split; [apply grows_refl|]]].
      intros i o w [].
    - destruct (H i o w (or_introl eq_refl)) as (d & Ed & Hvi & Hvo). rewrite Ed.
      destruct (IH (upd (upd vals i d) o d)) as (vals' & E & HT' & Hg & Hs).
      + intros i' o' w' Hin. apply (H i' o' w'). right. exact Hin.
      + apply typed_upd; [apply typed_upd; [exact HT | exact Hvi] | exact Hvo].
      + exists vals'. split; [exact E | split; [exact HT' | split]].
        * exact (grows_trans _ _ _ (grows_trans _ _ _ (grows_upd vals i d) (grows_upd _ o d)) Hg).
        * intros i' o' w' [Hin|Hin]; [|exact (Hs i' o' w' Hin)].
          injection Hin as <- <- <-. split; apply Hg.
          -- apply valued_upd. rewrite lookup_upd_same. discriminate.
          -- rewrite lookup_upd_same. discriminate.
  Qed.

  Definition bank_init_ok (b : bank) : Prop :=
    (forall i o w, In (i, o, w) (b_signals b) ->
       exists d, lookup (b_defaults b) o = Some d /\ val_for i d /\ val_for o d) /\
    val_for (b_stall b) false_value /\ val_for (b_bubble b) false_value.

  Definition bank_valued (vals : list (string * wval)) (b : bank) : Prop :=
    lookup vals (b_stall b) <> None /\ lookup vals (b_bubble b) <> None /\
    (forall i o w, In (i, o, w) (b_signals b) -> lookup vals i <> None /\ lookup vals o <> None).

  Lemma bank_valued_grows vals vals' b : grows vals vals' -> bank_valued vals b -> bank_valued vals' b.
  Proof.
    intros Hg (H1 & H2 & H3). split; [apply Hg, H1 | split; [apply Hg, H2|]].
    intros i o w Hin. destruct (H3 i o w Hin) as (A & B). split; [apply Hg, A | apply Hg, B].
  Qed.

  Lemma init_banks_safe : forall banks vals,
    (forall b, In b banks -> bank_init_ok b) -> typed_vals G vals ->
    exists vals', init_banks vals banks = Ok vals' /\ typed_vals G vals' /\ grows vals vals' /\
      (forall b, In b banks -> bank_valued vals' b).
  Proof.
    induction banks as [|b r IH]; intros vals H HT; cbn [init_banks].
    - exists vals. split; [reflexivity | split; [exact HT | split; [apply grows_refl|]]].
      intros b [].
    - destruct (H b (or_introl eq_refl)) as (Hsig & Hst & Hbu).
      destruct (init_signals_safe (b_defaults b) (b_signals b) vals Hsig HT)
        as (v1 & E1 & HT1 & Hg1 & Hs1).
      rewrite E1. cbn [bind].
      set (v2 := upd (upd v1 (b_bubble b) false_value) (b_stall b) false_value).
      assert (Hg2 : grows v1 v2) by exact (grows_trans _ _ _ (grows_upd _ _ _) (grows_upd _ _ _)).
      destruct (IH v2) as (vals' & E & HT' & Hg & Hb).
      + intros b' Hb'. apply H. right. exact Hb'.
      + apply typed_upd; [apply typed_upd; [exact HT1 | exact Hbu] | exact Hst].
      + exists vals'. split; [exact E | split; [exact HT' | split]].
        * exact (grows_trans _ _ _ Hg1 (grows_trans _ _ _ Hg2 Hg)).
        * intros b' [<-|Hb']; [|exact (Hb b' Hb')].
          apply (bank_valued_grows v2 vals' b Hg).
          split; [unfold v2; rewrite lookup_upd_same; discriminate | split].
          -- unfold v2. apply valued_upd. rewrite lookup_upd_same. discriminate.
          -- intros i o w Hin. destruct (Hs1 i o w Hin) as (A & B).
             split; apply Hg2; assumption.
  Qed.
End BankSafety.

(* ---- start wires ---------------------------------------------------------------------------- *)
Lemma start_const p n : In n (map fst (p_consts p)) -> In n (start_wires p).
Proof. intros H. unfold start_wires. apply in_or_app. left. exact H. Qed.

Lemma start_out p b i o w : In b (p_banks p) -> In (i, o, w) (b_signals b) -> In o (start_wires p).
Proof.
  intros Hb Hs. unfold start_wires. apply in_or_app. right. apply in_or_app. left.
  exact (in_all_outs _ b o Hb (in_sig_outs _ _ _ _ Hs)).
Qed.

Lemma start_in p b i o w : In b (p_banks p) -> In (i, o, w) (b_signals b) -> In i (start_wires p).
Proof.
  intros Hb Hs. unfold start_wires. apply in_or_app. right. apply in_or_app. right.
  apply in_or_app. left. exact (in_all_ins _ b i Hb (in_sig_ins _ _ _ _ Hs)).
Qed.

Lemma start_stall_bubble p b :
  In b (p_banks p) -> In (b_stall b) (start_wires p) /\ In (b_bubble b) (start_wires p).
Proof.
  intros Hb. unfold start_wires.
  split; apply in_or_app; right; apply in_or_app; right; apply in_or_app; right;
    apply in_flat_map; exists b; (split; [exact Hb|]); [left | right; left]; reflexivity.
Qed.

(* every start wire is a constant, a signal of some bank, or a stall / bubble wire *)
Lemma start_wires_inv p k :
  In k (start_wires p) ->
  In k (map fst (p_consts p)) \/
  exists b, In b (p_banks p) /\
    (k = b_stall b \/ k = b_bubble b \/
     exists i o w, In (i, o, w) (b_signals b) /\ (k = i \/ k = o)).
Proof.
  unfold start_wires. intros H.
  apply in_app_or in H. destruct H as [H|H]; [left; exact H|]. right.
  apply in_app_or in H. destruct H as [H|H].
  - unfold all_outs in H. apply in_flat_map in H. destruct H as (b & Hb & Hk).
    unfold bank_outs in Hk. apply in_map_iff in Hk. destruct Hk as ([[i o] w] & Hx & Hin).
    cbn [fst snd] in Hx. subst k. exists b. split; [exact Hb|]. right. right.
    exists i, o, w. split; [exact Hin | right; reflexivity].
  - apply in_app_or in H. destruct H as [H|H].
    + unfold all_ins in H. apply in_flat_map in H. destruct H as (b & Hb & Hk).
      unfold bank_ins in Hk. apply in_map_iff in Hk. destruct Hk as ([[i o] w] & Hx & Hin).
      cbn [fst snd] in Hx. subst k. exists b. split; [exact Hb|]. right. right.
      exists i, o, w. split; [exact Hin | left; reflexivity].
    + apply in_flat_map in H. destruct H as (b & Hb & Hk). exists b. split; [exact Hb|].
      destruct Hk as [Hk|[Hk|[]]]; [left | right; left]; symmetry; exact Hk.
Qed.

Lemma fits_false : fits false_value.
Proof.
  unfold fits, false_value. cbn [bits wd bits_or_128 wf_width]. split; [apply pow2_pos | lia].
Qed.

(* ---- what program_ok gives about a bank ----------------------------------------------------- *)
Lemma program_bank_init f G p b :
  program_ok f G p -> In b (p_banks p) -> bank_init_ok G b.
Proof.
  intros (_ & _ & _ & _ & _ & Hsigs & Hsb & _) Hb.
  destruct (Hsb b Hb) as (Gst & Gbu).
  split; [|split].
  - intros i o w Hin. destruct (Hsigs b i o w Hb Hin) as (Gi & Go & _ & d & Ed & Hwd & Hfit).
    exists d. split; [exact Ed|].
    split; intros w' Hw'; [rewrite Gi in Hw' | rewrite Go in Hw']; injection Hw' as <-;
      (split; [exact Hwd | exact Hfit]).
  - intros w Hw. rewrite Gst in Hw. injection Hw as <-. split; [reflexivity | exact fits_false].
  - intros w Hw. rewrite Gbu in Hw. injection Hw as <-. split; [reflexivity | exact fits_false].
Qed.

Lemma program_bank_ready f G p b vals :
  program_ok f G p -> In b (p_banks p) ->
  (forall k, In k (start_wires p) -> lookup vals k <> None) -> bank_ready G vals b.
Proof.
  intros (_ & _ & Hbwf & _ & _ & Hsigs & _ & _) Hb Hstart.
  destruct (start_stall_bubble p b Hb) as (Sst & Sbu).
  destruct Hbwf as (_ & _ & Hbw). destruct (Hbw b Hb) as (_ & _ & _ & _ & NDd & Hiff).
  split; [apply Hstart, Sst | split; [apply Hstart, Sbu | split]].
  - intros i o w Hin. destruct (Hsigs b i o w Hb Hin) as (Gi & Go & _).
    split; [apply Hstart; exact (start_in p b i o w Hb Hin)|].
    split; [apply Hstart; exact (start_out p b i o w Hb Hin)|]. split; assumption.
  - intros k v Hin.
    assert (Hk : In k (bank_outs b)) by (apply Hiff; exact (in_map fst _ (k, v) Hin)).
    unfold bank_outs in Hk. apply in_map_iff in Hk. destruct Hk as ([[i o] w] & Hx & Hs).
    cbn [fst snd] in Hx. subst o.
    destruct (Hsigs b i k w Hb Hs) as (Gi & Go & _ & d & Ed & Hwd & Hfit).
    rewrite (lookup_NoDup_in _ k v NDd Hin) in Ed. injection Ed as <-.
    split; [apply Hstart; exact (start_out p b i k w Hb Hs)|].
    intros w' Hw'. rewrite Go in Hw'. injection Hw' as <-. split; [exact Hwd | exact Hfit].
Qed.

(* ---- the initial state ---------------------------------------------------------------------- *)
Theorem initial_state_safe_ok : stmt_initial_state_ok.
Proof.
  intros f G p Hp.
  pose proof Hp as (_ & _ & _ & Hconsts & _).
  assert (HT0 : typed_vals G (p_consts p)).
  { intros n v w Hl HG. apply lookup_In in Hl. destruct (Hconsts n v Hl) as (HGn & Hfit).
    rewrite HGn in HG. injection HG as <-. split; [reflexivity | exact Hfit]. }
  destruct (init_banks_safe G (p_banks p) (p_consts p)
              (fun b Hb => program_bank_init f G p b Hp Hb) HT0) as (v & E & HT & Hg & Hb).
  unfold initial_state. rewrite E. cbn [bind]. eexists. split; [reflexivity|].
  unfold state_ok. cbn [values mem regs].
  split; [|split; [exact HT | split; [reflexivity | split; [|split; constructor]]]].
  - intros k Hk. apply start_wires_inv in Hk.
    destruct Hk as [Hk | (b & Hbin & Hk)].
    + apply Hg. apply lookup_in_dom. exact Hk.
    + destruct (Hb b Hbin) as (Vst & Vbu & Vsig).
      destruct Hk as [->|[->|(i & o & w & Hin & [->| ->])]];
        [exact Vst | exact Vbu | exact (proj1 (Vsig i o w Hin)) | exact (proj2 (Vsig i o w Hin))].
  - apply Forall_forall. intros x Hx. apply repeat_spec in Hx. subst x. rewrite two64_lit. lia.
Qed.

(* ---- one cycle ------------------------------------------------------------------------------ *)
Theorem step_safe_ok : stmt_step_safe.
Proof.
  intros f o G p s Hp (Hstart & HT & HL & HF & HW).
  pose proof Hp as (Hact & Hvalid & _).
  unfold step.
  assert (Hk0 : forall k, In k (known0 p) -> lookup (values s) k <> None).
  { intros k Hk. unfold known0 in Hk. apply filter_In in Hk. apply Hstart. exact (proj1 Hk). }
  pose proof (exec_actions_safe f o G p (p_actions p) (known0 p) s Hact Hvalid Hk0 HT
                (conj HL (conj HF HW))) as Ha.
  destruct (exec_actions f o (p_actions p) s) as [[s1 t1]|es]; cbn [bind fst snd]; [|exact Ha].
  destruct Ha as (HT1 & (HL1 & HF1 & HW1) & Hdom1).
  assert (Htbl : exists tbl,
             (if o_show_wire_values o then dump_values o p (values s1) else Ok "") = Ok tbl).
  { destruct (o_show_wire_values o); [apply dump_values_total | eauto]. }
  destruct Htbl as (tbl & Etbl). rewrite Etbl. cbn [bind].
  assert (Hstart1 : forall k, In k (start_wires p) -> lookup (values s1) k <> None)
    by (intros k Hk; apply Hdom1, Hstart, Hk).
  destruct (process_banks_safe G (p_banks p) (values s1)
              (fun b Hb => program_bank_ready f G p b (values s1) Hp Hb Hstart1) HT1)
    as (v2 & E2 & HT2 & Hg2).
  rewrite E2. cbn [bind].
  unfold state_ok. cbn [values mem regs].
  split; [|split; [exact HT2 | split; [exact HL1 | split; [exact HF1 | exact HW1]]]].
  intros k Hk. apply Hg2, Hstart1, Hk.
Qed.

(* ---- the state dump never fails -------------------------------------------------------------- *)
Lemma dump_bank_signals_total vals : forall sigs loc,
  (forall i o w, In (i, o, w) sigs -> lookup vals o <> None) ->
  exists r, dump_bank_signals vals sigs loc = Ok r.
Proof.
  induction sigs as [|[[i o] w] r IH]; intros loc H; cbn [dump_bank_signals]; [eauto|].
  cbv zeta.
  destruct (valued_some vals o (H i o w (or_introl eq_refl))) as (v & Hv).
  rewrite (get_value_some _ _ _ Hv). cbn [bind].
  match goal with
  | |- exists r0, bind (dump_bank_signals vals r ?l) _ = _ =>
      destruct (IH l) as (rest & Hrest);
      [intros i' o' w' Hin; apply (H i' o' w'); right; exact Hin|]
  end.
  rewrite Hrest. cbn [bind]. eauto.
Qed.

Definition bank_dumpable (vals : list (string * wval)) (b : bank) : Prop :=
  lookup vals (b_stall b) <> None /\ lookup vals (b_bubble b) <> None /\
  (forall i o w, In (i, o, w) (b_signals b) -> lookup vals o <> None).

Lemma dump_bank_total vals b : bank_dumpable vals b -> exists t, dump_bank vals b = Ok t.
Proof.
  intros (Hst & Hbu & Hsig). unfold dump_bank.
  destruct (valued_some _ _ Hst) as (st & Est). destruct (valued_some _ _ Hbu) as (bu & Ebu).
  rewrite (get_value_some _ _ _ Est). cbn [bind].
  rewrite (get_value_some _ _ _ Ebu). cbn [bind]. cbv zeta.
  destruct (dump_bank_signals_total vals (b_signals b) 18 Hsig) as (body & Eb).
  rewrite Eb. cbn [bind]. eauto.
Qed.

Lemma dump_bank_list_total vals bs : (forall b, In b bs -> bank_dumpable vals b) ->
  exists t, dump_bank_list vals bs = Ok t.
Proof.
  induction bs as [|b r IH]; intros H; cbn [dump_bank_list]; [eauto|].
  destruct (dump_bank_total vals b (H b (or_introl eq_refl))) as (t & Et). rewrite Et. cbn [bind].
  destruct IH as (rest & Er); [intros b0 Hb0; apply H; right; exact Hb0|].
  rewrite Er. cbn [bind]. eauto.
Qed.

Lemma dump_banks_in_total vals banks : (forall b, In b banks -> bank_dumpable vals b) ->
  forall letters, exists t, dump_banks_in vals banks letters = Ok t.
Proof.
  intros H. induction letters as [|l r IH]; cbn [dump_banks_in]; [eauto|].
  destruct (dump_bank_list_total vals (banks_with banks l)) as (t & Et).
  { intros b Hb. apply H. unfold banks_with in Hb. apply filter_In in Hb. exact (proj1 Hb). }
  rewrite Et. cbn [bind].
  destruct IH as (rest & Er). rewrite Er. cbn [bind]. eauto.
Qed.

Lemma dump_custom_registers_total vals banks : (forall b, In b banks -> bank_dumpable vals b) ->
  exists t, dump_custom_registers vals banks = Ok t.
Proof.
  intros H. unfold dump_custom_registers. cbv zeta.
  destruct (dump_banks_in_total vals banks H fixed_letters) as (t1 & E1). rewrite E1. cbn [bind].
  match goal with
  | |- exists t, bind (dump_banks_in vals banks ?ls) _ = _ =>
      destruct (dump_banks_in_total vals banks H ls) as (t2 & E2)
  end.
  rewrite E2. cbn [bind]. eauto.
Qed.

Lemma dump_y86_total o G p s : state_ok G p s -> exists t, dump_y86 o p s = Ok t.
Proof.
  intros (Hstart & _).
  assert (Hb : exists bk,
             (if o_show_banks o then dump_custom_registers (values s) (p_banks p) else Ok "") = Ok bk).
  { destruct (o_show_banks o); [|eauto]. apply dump_custom_registers_total.
    intros b Hbin. destruct (start_stall_bubble p b Hbin) as (Sst & Sbu).
    split; [apply Hstart, Sst | split; [apply Hstart, Sbu|]].
    intros i o' w Hin. apply Hstart. exact (start_out p b i o' w Hbin Hin). }
  destruct Hb as (bk & Eb). unfold dump_y86. cbv zeta. rewrite Eb. cbn [bind]. eauto.
Qed.

(* ---- any number of cycles -------------------------------------------------------------------- *)
Theorem run_safe_ok : stmt_run_safe.
Proof.
  intros fuel f o G p. induction fuel as [|fu IH]; intros s Hp Hs Hf.
  - destruct (done o s) eqn:D.
    + rewrite (run_done _ _ _ _ _ D). exact Hs.
    + apply done_false_lt in D. lia.
  - destruct (done o s) eqn:D.
    + rewrite (run_done _ _ _ _ _ D). exact Hs.
    + rewrite run_unfold, D.
      assert (Hd : exists d, (if o_show_regs_mem o then dump_y86 o p s else Ok "") = Ok d).
      { destruct (o_show_regs_mem o); [exact (dump_y86_total o G p s Hs) | eauto]. }
      destruct Hd as (d & Ed). rewrite Ed. cbn [bind].
      pose proof (step_safe_ok f o G p s Hp Hs) as Hst.
      destruct (step f o p s) as [[s1 t1]|es] eqn:Es; cbn [bind fst snd]; [|exact Hst].
      pose proof (step_cycle_ok _ _ _ _ _ _ Es) as Hc.
      apply done_false_lt in D.
      assert (Hf1 : (N.to_nat (o_timeout o - cycle s1) <= fu)%nat) by lia.
      specialize (IH s1 Hp Hst Hf1).
      destruct (run fu f o p s1) as [[s2 t2]|es2]; cbn [bind fst snd]; exact IH.
Qed.

(* ---- axiom audit ---------------------------------------------------------------------------- *)
Print Assumptions eval_ext_ok.
Print Assumptions settles_false.
Print Assumptions settles_lazy.
Print Assumptions settles_partial.
Print Assumptions settles_valued.
Print Assumptions order_independent_ok.
Print Assumptions initial_state_safe_ok.
Print Assumptions step_safe_ok.
Print Assumptions run_safe_ok.
