(* C13 / C14: proofs of the statements in RegionSpec.v about the renderer model of Region.v. *)
From HclV Require Import Base Yo Region RegionSpec YoProofs.
From Coq Require Import ZifyN ZifyBool ZifyNat.
Open Scope N_scope.
Open Scope list_scope.

(* ---- last_le and line_number_and_bounds ------------------------------------------------------ *)

Lemma last_le_app (A : list (nat * nat)) : forall B index i best,
  last_le (A ++ B) index i best = last_le B index (i + List.length A)%nat (last_le A index i best).
Proof.
  induction A as [| [k n] A IH]; intros B index i best.
  - cbn [app last_le List.length]. rewrite Nat.add_0_r. reflexivity.
  - cbn [app last_le List.length].
    destruct (k <=? index)%nat eqn:Hk; rewrite IH; f_equal; lia.
Qed.

Lemma last_le_gt (B : list (nat * nat)) : forall index i best,
  Forall (fun e => (index < fst e)%nat) B -> last_le B index i best = best.
Proof.
  induction B as [| [k n] B IH]; intros index i best HB.
  - reflexivity.
  - inversion HB as [| x l Hx HB']; subst. cbn [fst] in Hx. cbn [last_le].
    destruct (k <=? index)%nat eqn:Hk; [apply Nat.leb_le in Hk; lia |].
    apply IH. exact HB'.
Qed.

Definition next_key (B : list (nat * nat)) (len : nat) : nat :=
  match B with [] => len | e :: _ => fst e end.

Lemma lnb_decomp (fc : file_contents) (index : nat) (A B : list (nat * nat)) (k n : nat) :
  fc_newlines fc = A ++ (k, n) :: B ->
  (k <= index)%nat ->
  Forall (fun e => (index < fst e)%nat) B ->
  line_number_and_bounds fc index = Some (n, k, next_key B (List.length (fc_data fc))).
Proof.
  intros Htab Hk HB. unfold line_number_and_bounds. rewrite Htab.
  rewrite last_le_app. cbn [last_le].
  assert (Hkb : (k <=? index)%nat = true) by (apply Nat.leb_le; exact Hk).
  rewrite Hkb. rewrite last_le_gt by exact HB.
  cbn [Nat.add]. rewrite nth_middle. cbn [fst snd].
  rewrite app_length. cbn [List.length].
  destruct B as [| [k' n'] B'].
  - cbn [List.length next_key].
    assert (Hc : (S (List.length A) =? List.length A + 1)%nat = true) by (apply Nat.eqb_eq; lia).
    rewrite Hc. reflexivity.
  - cbn [List.length next_key fst].
    assert (Hc : (S (List.length A) =? List.length A + S (S (List.length B')))%nat = false)
      by (apply Nat.eqb_neq; lia).
    rewrite Hc.
    replace (A ++ (k, n) :: (k', n') :: B') with ((A ++ [(k, n)]) ++ (k', n') :: B')
      by (rewrite <- app_assoc; reflexivity).
    replace (S (List.length A)) with (List.length (A ++ [(k, n)]))
      by (rewrite app_length; cbn [List.length]; lia).
    rewrite nth_middle. reflexivity.
Qed.

(* any table with an entry whose key is <= index can be split at the last such entry *)
Lemma split_last_le (l : list (nat * nat)) (index : nat) :
  Exists (fun e => (fst e <= index)%nat) l ->
  exists A k n B, l = A ++ (k, n) :: B /\ (k <= index)%nat /\
                  Forall (fun e => (index < fst e)%nat) B.
Proof.
  induction l as [| [k n] l IH]; intros Hex.
  - inversion Hex.
  - destruct (Exists_dec (fun e : nat * nat => (fst e <= index)%nat) l) as [Hl | Hl].
    + intros x. destruct (le_dec (fst x) index); [left | right]; assumption.
    + destruct (IH Hl) as (A & k' & n' & B & El & Hk' & HB).
      exists ((k, n) :: A), k', n', B. split; [rewrite El; reflexivity |]. split; assumption.
    + exists [], k, n, l. split; [reflexivity |]. split.
      * inversion Hex as [x l' Hx | x l' Hx]; subst; [exact Hx | contradiction].
      * apply Forall_forall. intros x Hx.
        destruct (le_lt_dec (fst x) index) as [Hle | Hlt]; [| exact Hlt].
        exfalso. apply Hl. apply Exists_exists. exists x. split; assumption.
Qed.

(* ---- the keys of the newline table ----------------------------------------------------------- *)

Lemma mark_from_keys (d : list N) : forall p q pos idx e,
  pos = List.length p -> In e (mark_from d pos idx) ->
  (pos < fst e)%nat /\ (fst e <= pos + List.length d)%nat /\ nth (fst e - 1) (p ++ d ++ q) 0 = 10.
Proof.
  induction d as [| b r IH]; intros p q pos idx e Hpos Hin.
  - cbn [mark_from] in Hin. contradiction.
  - cbn [mark_from] in Hin. cbn [List.length].
    assert (Hrec : forall idx', In e (mark_from r (S pos) idx') ->
              (pos < fst e)%nat /\ (fst e <= pos + S (List.length r))%nat /\
              nth (fst e - 1) (p ++ (b :: r) ++ q) 0 = 10).
    { intros idx' Hin'.
      destruct (IH (p ++ [b]) q (S pos) idx' e) as (H1 & H2 & H3).
      - rewrite app_length. cbn [List.length]. lia.
      - exact Hin'.
      - split; [lia |]. split; [lia |].
        rewrite <- app_assoc in H3. cbn [app] in H3. cbn [app]. exact H3. }
    destruct (b =? 10) eqn:Hb.
    + destruct Hin as [He | Hin].
      * subst e. cbn [fst]. split; [lia |]. split; [lia |].
        replace (S pos - 1)%nat with (List.length p) by lia.
        cbn [app]. rewrite nth_middle. apply N.eqb_eq. exact Hb.
      * apply (Hrec _ Hin).
    + apply (Hrec _ Hin).
Qed.

Definition key_ok (data : list N) (plen k : nat) : Prop :=
  (k <= List.length data)%nat /\
  (k = 0%nat \/ k = plen \/ ((0 < k)%nat /\ nth (k - 1) data 0 = 10)).

Lemma table_keys (pre user fname : list N) (e : nat * nat) :
  In e (fc_newlines (new_from_data pre user fname)) ->
  key_ok (pre ++ user) (List.length pre) (fst e).
Proof.
  cbn [new_from_data fc_newlines]. unfold mark_newlines. intros Hin.
  apply in_app_or in Hin. unfold key_ok. rewrite app_length.
  destruct Hin as [[He | Hin] | [He | Hin]].
  - subst e. cbn [fst]. split; [lia |]. left. reflexivity.
  - destruct (mark_from_keys pre [] user 0%nat 1%nat e eq_refl Hin) as (H1 & H2 & H3).
    cbn [app] in H3. split; [lia |]. right. right. split; [lia | exact H3].
  - subst e. cbn [fst]. split; [lia |]. right. left. reflexivity.
  - destruct (mark_from_keys user pre [] (List.length pre) 1%nat e eq_refl Hin) as (H1 & H2 & H3).
    rewrite app_nil_r in H3. split; [lia |]. right. right. split; [lia | exact H3].
Qed.

(* ---- well-formed text and character boundaries ----------------------------------------------- *)

Lemma is_cont_ge (b : N) : is_cont b = true -> 128 <= b.
Proof. unfold is_cont. lia. Qed.

Lemma wf_text_app (p q : list N) : wf_text p -> wf_text q -> wf_text (p ++ q).
Proof.
  intros Hp Hq i Hi Hc. rewrite app_length in Hi.
  destruct (lt_dec i (List.length p)) as [Hlt | Hge].
  - rewrite app_nth1 in Hc by exact Hlt.
    destruct (Hp i Hlt Hc) as [H0 H1]. split; [exact H0 |].
    rewrite app_nth1 by lia. exact H1.
  - rewrite app_nth2 in Hc by lia.
    assert (Hiq : (i - List.length p < List.length q)%nat) by lia.
    destruct (Hq _ Hiq Hc) as [H0 H1]. split; [lia |].
    rewrite app_nth2 by lia.
    replace (i - 1 - List.length p)%nat with (i - List.length p - 1)%nat by lia. exact H1.
Qed.

Lemma key_boundary (pre user : list N) (k : nat) :
  wf_text pre -> wf_text user -> key_ok (pre ++ user) (List.length pre) k ->
  is_boundary (pre ++ user) k = true.
Proof.
  intros Hpre Huser [Hlen Hk].
  assert (Hwf : wf_text (pre ++ user)) by (apply wf_text_app; assumption).
  destruct Hk as [Hk | [Hk | [Hpos Hlf]]].
  - subst k. reflexivity.
  - subst k. apply is_boundary_app. destruct user as [| b t]; [exact I |].
    cbn [head_ok]. destruct (is_cont b) eqn:Hc; [| reflexivity].
    assert (Hi : (0 < List.length (b :: t))%nat) by (cbn [List.length]; lia).
    destruct (Huser 0%nat Hi Hc) as [H0 _]. lia.
  - unfold is_boundary.
    destruct (k =? List.length (pre ++ user))%nat eqn:Hend.
    + rewrite orb_true_r. reflexivity.
    + apply Nat.eqb_neq in Hend.
      assert (Hlt : (k <? List.length (pre ++ user))%nat = true) by (apply Nat.ltb_lt; lia).
      rewrite Hlt. cbn [andb].
      destruct (is_cont (nth k (pre ++ user) 0)) eqn:Hc.
      * apply Nat.ltb_lt in Hlt. destruct (Hwf k Hlt Hc) as [_ H1].
        rewrite Hlf in H1. lia.
      * cbn [negb]. apply orb_true_r.
Qed.

(* ---- line_number_and_bounds on the real table ------------------------------------------------ *)

Lemma lnb_exists (pre user fname : list N) (index : nat) :
  exists n k nx,
    line_number_and_bounds (new_from_data pre user fname) index = Some (n, k, nx) /\
    (k <= index)%nat /\ key_ok (pre ++ user) (List.length pre) k /\
    ((index < nx)%nat \/ nx = List.length (pre ++ user)) /\
    (key_ok (pre ++ user) (List.length pre) nx \/ nx = List.length (pre ++ user)).
Proof.
  set (fc := new_from_data pre user fname).
  assert (Hex : Exists (fun e => (fst e <= index)%nat) (fc_newlines fc)).
  { cbn [fc new_from_data fc_newlines]. unfold mark_newlines. cbn [app].
    apply Exists_cons_hd. cbn [fst]. lia. }
  destruct (split_last_le _ _ Hex) as (A & k & n & B & Htab & Hk & HB).
  exists n, k, (next_key B (List.length (fc_data fc))).
  split; [apply (lnb_decomp fc index A B k n Htab Hk HB) |].
  split; [exact Hk |].
  split.
  { apply (table_keys pre user fname (k, n)). fold fc. rewrite Htab.
    apply in_or_app. right. left. reflexivity. }
  destruct B as [| [k' n'] B'].
  - cbn [next_key]. split; right; reflexivity.
  - cbn [next_key fst]. split; left.
    + inversion HB as [| x l Hx HB']; subst. exact Hx.
    + apply (table_keys pre user fname (k', n')). fold fc. rewrite Htab.
      apply in_or_app. right. right. left. reflexivity.
Qed.

Lemma get_range_ok (l : list N) (a b : nat) :
  (a <= b)%nat -> (b <= List.length l)%nat -> is_boundary l a = true -> is_boundary l b = true ->
  get_range l a b = Some (firstn (b - a) (skipn a l)).
Proof.
  intros Hab Hbl Ha Hb. unfold get_range.
  assert (H1 : (a <=? b)%nat = true) by (apply Nat.leb_le; exact Hab).
  assert (H2 : (b <=? List.length l)%nat = true) by (apply Nat.leb_le; exact Hbl).
  rewrite H1, H2, Ha, Hb. reflexivity.
Qed.

Lemma is_boundary_len (l : list N) : is_boundary l (List.length l) = true.
Proof. unfold is_boundary. rewrite Nat.eqb_refl. rewrite orb_true_r. reflexivity. Qed.

(* ---- C13: totality --------------------------------------------------------------------------- *)

Theorem show_region_total_ok : stmt_show_region_total.
Proof.
  intros pre user fname s e Hpre Huser.
  unfold show_region.
  set (fc := new_from_data pre user fname).
  assert (Hdata : fc_data fc = pre ++ user) by reflexivity.
  rewrite Hdata.
  set (len := List.length (pre ++ user)).
  set (e' := Nat.min e len).
  set (s' := Nat.min s e').
  destruct (lnb_exists pre user fname s') as (n1 & k1 & nx1 & L1 & Hk1 & Hok1 & _ & _).
  destruct (lnb_exists pre user fname e') as (n2 & k2 & nx2 & L2 & Hk2 & Hok2 & Hnx2 & Hnxok2).
  fold fc in L1, L2. rewrite L1, L2.
  assert (Hb1 : is_boundary (pre ++ user) k1 = true) by (apply key_boundary; assumption).
  assert (Hb2 : is_boundary (pre ++ user) (Nat.min nx2 len) = true).
  { destruct Hnxok2 as [Hok | Heq].
    - assert (Hle : (nx2 <= len)%nat) by (destruct Hok as [Hle _]; exact Hle).
      rewrite Nat.min_l by exact Hle. apply key_boundary; assumption.
    - rewrite Heq. fold len. rewrite Nat.min_id. apply is_boundary_len. }
  assert (Hse : (s' <= e')%nat) by (unfold s'; lia).
  assert (Hel : (e' <= len)%nat) by (unfold e'; lia).
  assert (Hab : (k1 <= Nat.min nx2 len)%nat).
  { destruct Hnx2 as [Hlt | Heq]; [lia |]. fold len in Heq. lia. }
  assert (Hbl : (Nat.min nx2 len <= List.length (pre ++ user))%nat) by (fold len; lia).
  rewrite (get_range_ok _ _ _ Hab Hbl Hb1 Hb2). discriminate.
Qed.

(* ---- C14: never the preamble ----------------------------------------------------------------- *)

(* stmt_never_preamble is FALSE as stated: show_region clamps the start to the end, so a region
   whose end lies inside the preamble is attributed to <builtin> even if its start does not.
   pre = "A", user = "", fname = "B", s = 1, e = 0. *)
Theorem never_preamble_false : ~ stmt_never_preamble.
Proof.
  intros H.
  assert (Hs : show_region (new_from_data [65] [] [66]) 1 0 =
               Some [32; 32; 32; 32; 32; 45; 62; 32; 60; 98; 117; 105; 108; 116; 105;
                     110; 62; 58; 49; 10; 32; 32; 32; 32; 32; 124; 10; 32; 32; 32; 49;
                     32; 124; 32; 65; 10; 32; 32; 32; 32; 32; 124; 32; 10])
    by (vm_compute; reflexivity).
  destruct (H [65] [] [66] 1%nat 0%nat _ (le_n 1) Hs) as [rest Hr].
  cbn in Hr. discriminate Hr.
Qed.

(* the strongest true variant: ADDED hypothesis (List.length pre <= e) *)
Definition stmt_never_preamble_partial : Prop :=
  forall pre user fname s e out,
    (List.length pre <= s)%nat ->
    (List.length pre <= e)%nat ->
    show_region (new_from_data pre user fname) s e = Some out ->
    exists rest, out = sp 5 ++ [45; 62; 32] ++ fname ++ [58] ++ rest.

Theorem never_preamble_partial : stmt_never_preamble_partial.
Proof.
  intros pre user fname s e out Hs He H.
  unfold show_region in H.
  set (fc := new_from_data pre user fname) in H.
  assert (Hdata : fc_data fc = pre ++ user) by reflexivity.
  rewrite Hdata in H.
  set (len := List.length (pre ++ user)) in H.
  set (e' := Nat.min e len) in H.
  set (s' := Nat.min s e') in H.
  assert (Hlen : (List.length pre <= len)%nat) by (unfold len; rewrite app_length; lia).
  assert (Hs' : (List.length pre <= s')%nat) by (unfold s', e'; lia).
  destruct (line_number_and_bounds fc s') as [[[n1 k1] nx1] |] eqn:L1; [| discriminate].
  destruct (line_number_and_bounds fc e') as [[[n2 k2] nx2] |] eqn:L2; [| discriminate].
  destruct (get_range (pre ++ user) k1 (Nat.min nx2 len)) as [seg |] eqn:G; [| discriminate].
  injection H as Hout.
  assert (Hf : filename fc s' = fname).
  { unfold filename. cbn [fc new_from_data fc_plen fc_filename].
    assert (Hc : (List.length pre <=? s')%nat = true) by (apply Nat.leb_le; exact Hs').
    rewrite Hc. reflexivity. }
  rewrite Hf in Hout. rewrite <- Hout.
  eexists. cbn [sp repeat_byte app]. reflexivity.
Qed.

(* ---- counting line feeds --------------------------------------------------------------------- *)

Lemma count_lf_nil : count_lf [] = 0%nat.
Proof. reflexivity. Qed.

Lemma count_lf_cons (b : N) (l : list N) :
  count_lf (b :: l) = ((if is_lf b then 1 else 0) + count_lf l)%nat.
Proof. unfold count_lf. cbn [filter]. destruct (is_lf b); reflexivity. Qed.

Lemma count_lf_app (a b : list N) : count_lf (a ++ b) = (count_lf a + count_lf b)%nat.
Proof. unfold count_lf. rewrite filter_app, app_length. reflexivity. Qed.

Lemma count_lf_rev (a : list N) : count_lf (rev a) = count_lf a.
Proof.
  induction a as [| x a IH].
  - reflexivity.
  - cbn [rev]. rewrite count_lf_app, count_lf_cons, count_lf_cons, count_lf_nil, IH. lia.
Qed.

(* ---- mark_from ------------------------------------------------------------------------------- *)

Lemma mark_from_app (u1 : list N) : forall u2 pos idx,
  mark_from (u1 ++ u2) pos idx =
  mark_from u1 pos idx ++ mark_from u2 (pos + List.length u1)%nat (idx + count_lf u1)%nat.
Proof.
  induction u1 as [| b r IH]; intros u2 pos idx.
  - cbn [app mark_from List.length]. rewrite count_lf_nil, !Nat.add_0_r. reflexivity.
  - cbn [app mark_from List.length]. rewrite count_lf_cons. unfold is_lf.
    destruct (b =? 10) eqn:Hb.
    + cbn [app]. rewrite IH. f_equal. f_equal; f_equal; lia.
    + rewrite IH. f_equal; f_equal; lia.
Qed.

Lemma mark_from_nolf (l : list N) : forall pos idx,
  count_lf l = 0%nat -> mark_from l pos idx = [].
Proof.
  induction l as [| b r IH]; intros pos idx H.
  - reflexivity.
  - rewrite count_lf_cons in H. unfold is_lf in H. cbn [mark_from].
    destruct (b =? 10) eqn:Hb; [lia |]. apply IH. lia.
Qed.

Lemma mark_from_gt (d : list N) : forall pos idx,
  Forall (fun e => (pos < fst e)%nat) (mark_from d pos idx).
Proof.
  induction d as [| b r IH]; intros pos idx.
  - constructor.
  - cbn [mark_from].
    assert (Hrec : forall idx', Forall (fun e => (pos < fst e)%nat) (mark_from r (S pos) idx')).
    { intros idx'. eapply Forall_impl; [| apply (IH (S pos) idx')].
      intros x Hx. cbn beta in Hx. lia. }
    destruct (b =? 10) eqn:Hb.
    + constructor; [cbn [fst]; lia | apply Hrec].
    + apply Hrec.
Qed.

Definition lf_ended (u : list N) : Prop := u = [] \/ exists u', u = u' ++ [10].

Lemma mark_newlines_split (u1 u2 : list N) (off : nat) :
  lf_ended u1 ->
  exists A, mark_newlines off (u1 ++ u2) =
            A ++ ((off + List.length u1)%nat, S (count_lf u1))
              :: mark_from u2 (off + List.length u1)%nat (S (count_lf u1)).
Proof.
  intros [Hu | [u' Hu]]; subst u1.
  - exists []. unfold mark_newlines. cbn [app List.length]. rewrite count_lf_nil, Nat.add_0_r.
    reflexivity.
  - exists ((off, 1%nat) :: mark_from u' off 1). unfold mark_newlines. cbn [app]. f_equal.
    rewrite mark_from_app. rewrite mark_from_app. rewrite <- app_assoc. f_equal.
    cbn [mark_from]. rewrite N.eqb_refl. cbn [app].
    rewrite app_length, count_lf_app, count_lf_cons, count_lf_nil. cbn [List.length is_lf].
    unfold is_lf. rewrite N.eqb_refl.
    f_equal; try (f_equal; lia).
Qed.

(* ---- the spec's vocabulary: after_last_lf / before_first_lf ---------------------------------- *)

Lemma all_decomp (l : list N) : forall cur,
  count_lf cur = 0%nat ->
  exists u1, rev cur ++ l = u1 ++ after_last_lf l cur /\
             count_lf (after_last_lf l cur) = 0%nat /\ lf_ended u1.
Proof.
  induction l as [| b r IH]; intros cur Hcur.
  - exists []. cbn [after_last_lf app]. rewrite app_nil_r. split; [reflexivity |].
    split; [rewrite count_lf_rev; exact Hcur | left; reflexivity].
  - cbn [after_last_lf]. destruct (is_lf b) eqn:Hb.
    + destruct (IH [] count_lf_nil) as (u1 & Hr & Hc & Hu1). cbn [rev app] in Hr.
      unfold is_lf in Hb. apply N.eqb_eq in Hb. subst b.
      exists (rev cur ++ [10] ++ u1). split; [| split].
      * rewrite Hr at 1. rewrite <- !app_assoc. reflexivity.
      * exact Hc.
      * right. destruct Hu1 as [Hu1 | [u' Hu1]]; subst u1.
        -- exists (rev cur). rewrite app_nil_r. reflexivity.
        -- exists (rev cur ++ [10] ++ u'). rewrite <- !app_assoc. reflexivity.
    + assert (Hcur' : count_lf (b :: cur) = 0%nat) by (rewrite count_lf_cons, Hb; lia).
      destruct (IH (b :: cur) Hcur') as (u1 & Hr & Hc & Hu1).
      exists u1. split; [| split; assumption].
      rewrite <- Hr. cbn [rev]. rewrite <- app_assoc. reflexivity.
Qed.

Lemma bfl_decomp (l : list N) :
  exists b f tail, before_first_lf l = (b, f) /\ l = b ++ tail /\ count_lf b = 0%nat /\
    ((f = false /\ tail = []) \/ (f = true /\ exists rest, tail = 10 :: rest)).
Proof.
  induction l as [| x r IH].
  - exists [], false, []. cbn [before_first_lf]. repeat split. left. split; reflexivity.
  - cbn [before_first_lf]. destruct (is_lf x) eqn:Hx.
    + unfold is_lf in Hx. apply N.eqb_eq in Hx. subst x.
      exists [], true, (10 :: r). repeat split. right. split; [reflexivity |]. exists r. reflexivity.
    + destruct IH as (b & f & tail & Hb & Hr & Hc & Ht). rewrite Hb.
      exists (x :: b), f, tail. split; [reflexivity |]. split; [rewrite Hr at 1; reflexivity |].
      split; [rewrite count_lf_cons, Hx; lia | exact Ht].
Qed.

(* ---- line_number_and_bounds inside a line of the user's text --------------------------------- *)

Definition tail_ok (tail : list N) : Prop := tail = [] \/ exists rest, tail = 10 :: rest.

Lemma lnb_line (pre u1 line tail fname : list N) (index : nat) :
  lf_ended u1 -> count_lf line = 0%nat -> tail_ok tail ->
  (List.length pre + List.length u1 <= index)%nat ->
  (index <= List.length pre + List.length u1 + List.length line)%nat ->
  line_number_and_bounds (new_from_data pre (u1 ++ line ++ tail) fname) index =
  Some (S (count_lf u1), (List.length pre + List.length u1)%nat,
        match tail with
        | [] => List.length (pre ++ u1 ++ line ++ tail)
        | _ :: _ => S (List.length pre + List.length u1 + List.length line)
        end).
Proof.
  intros Hu1 Hline Htail Hlo Hhi.
  set (fc := new_from_data pre (u1 ++ line ++ tail) fname).
  destruct (mark_newlines_split u1 (line ++ tail) (List.length pre) Hu1) as [A HA].
  set (k := (List.length pre + List.length u1)%nat) in *.
  set (n := S (count_lf u1)) in *.
  assert (HB : mark_from (line ++ tail) k n = mark_from tail (k + List.length line)%nat n).
  { rewrite mark_from_app, (mark_from_nolf line) by exact Hline. rewrite Hline, Nat.add_0_r.
    reflexivity. }
  rewrite HB in HA.
  assert (Htab : fc_newlines fc =
                 (mark_newlines 0 pre ++ A) ++ (k, n) :: mark_from tail (k + List.length line)%nat n).
  { cbn [fc new_from_data fc_newlines]. rewrite HA. rewrite <- app_assoc. reflexivity. }
  assert (Hgt : Forall (fun e => (index < fst e)%nat) (mark_from tail (k + List.length line)%nat n)).
  { eapply Forall_impl; [| apply mark_from_gt]. intros x Hx. cbn beta in Hx. lia. }
  rewrite (lnb_decomp fc index _ _ k n Htab Hlo Hgt). f_equal. f_equal.
  destruct Htail as [Ht | [rest Ht]]; subst tail.
  - reflexivity.
  - cbn [mark_from]. rewrite N.eqb_refl. cbn [next_key fst]. lia.
Qed.

(* ---- str_lines on one line ------------------------------------------------------------------- *)

Lemma split_lines_cons (b : N) (r cur : list N) :
  split_lines (b :: r) cur =
  if b =? 10 then strip_cr (rev cur) :: split_lines r [] else split_lines r (b :: cur).
Proof.
  destruct b as [| p]; [reflexivity |].
  destruct p as [p | p |]; try reflexivity.
  destruct p as [p | p |]; try reflexivity.
  destruct p as [p | p |]; try reflexivity.
  destruct p as [p | p |]; reflexivity.
Qed.

Lemma split_lines_nolf (l : list N) : forall cur,
  count_lf l = 0%nat -> rev cur ++ l <> [] -> split_lines l cur = [rev cur ++ l].
Proof.
  induction l as [| b r IH]; intros cur Hc Hne.
  - rewrite app_nil_r in Hne. rewrite app_nil_r. destruct cur as [| c cur'].
    + cbn [rev] in Hne. contradiction.
    + reflexivity.
  - rewrite split_lines_cons. rewrite count_lf_cons in Hc. unfold is_lf in Hc.
    destruct (b =? 10) eqn:Hb; [lia |].
    rewrite IH.
    + cbn [rev]. rewrite <- app_assoc. reflexivity.
    + lia.
    + cbn [rev]. rewrite <- app_assoc. cbn [app]. intros Habs.
      apply app_eq_nil in Habs. destruct Habs as [_ Habs]. discriminate.
Qed.

Lemma split_lines_one (l : list N) : forall cur,
  count_lf l = 0%nat -> split_lines (l ++ [10]) cur = [strip_cr (rev cur ++ l)].
Proof.
  induction l as [| b r IH]; intros cur Hc.
  - cbn [app]. rewrite split_lines_cons. rewrite N.eqb_refl. rewrite app_nil_r. reflexivity.
  - cbn [app]. rewrite split_lines_cons. rewrite count_lf_cons in Hc. unfold is_lf in Hc.
    destruct (b =? 10) eqn:Hb; [lia |].
    rewrite IH by lia. cbn [rev]. rewrite <- app_assoc. reflexivity.
Qed.

(* ---- the slice shown for one line ------------------------------------------------------------ *)

Definition seg_of (line tail : list N) : list N := line ++ firstn 1 tail.

Lemma slice_line (p line tail : list N) :
  firstn (List.length p + List.length (seg_of line tail) - List.length p)
         (skipn (List.length p) (p ++ line ++ tail)) = seg_of line tail.
Proof.
  rewrite skipn_app, skipn_all, Nat.sub_diag. cbn [skipn app].
  replace (List.length p + List.length (seg_of line tail) - List.length p)%nat
    with (List.length (seg_of line tail)) by lia.
  unfold seg_of. rewrite app_length. rewrite firstn_app_2.
  f_equal. destruct tail as [| t tail']; reflexivity.
Qed.

Lemma segment_ok (pre u1 line tail fname : list N) (index : nat) :
  wf_text pre -> wf_text (u1 ++ line ++ tail) ->
  lf_ended u1 -> count_lf line = 0%nat -> tail_ok tail ->
  (List.length pre + List.length u1 <= index)%nat ->
  (index <= List.length pre + List.length u1 + List.length line)%nat ->
  exists nx,
    line_number_and_bounds (new_from_data pre (u1 ++ line ++ tail) fname) index =
      Some (S (count_lf u1), (List.length pre + List.length u1)%nat, nx) /\
    get_range (pre ++ u1 ++ line ++ tail) (List.length pre + List.length u1)
              (Nat.min nx (List.length (pre ++ u1 ++ line ++ tail))) = Some (seg_of line tail).
Proof.
  intros Hpre Huser Hu1 Hline Htail Hlo Hhi.
  set (user := u1 ++ line ++ tail) in *.
  pose proof (lnb_line pre u1 line tail fname index Hu1 Hline Htail Hlo Hhi) as L.
  fold user in L.
  destruct (lnb_exists pre user fname index) as (n' & k' & nx' & L' & _ & Hok & _ & Hnxok).
  rewrite L in L'. injection L' as Hn Hk Hnx.
  eexists. split; [exact L |].
  set (k := (List.length pre + List.length u1)%nat) in *.
  set (len := List.length (pre ++ user)) in *.
  assert (Hlen : len = (k + List.length line + List.length tail)%nat).
  { unfold len, user, k. rewrite !app_length. lia. }
  assert (Hend : Nat.min (match tail with [] => len | _ :: _ => S (k + List.length line) end) len
                 = (k + List.length (seg_of line tail))%nat).
  { unfold seg_of. rewrite app_length.
    destruct tail as [| t tail']; cbn [firstn List.length] in *; lia. }
  rewrite Hend.
  assert (Hb1 : is_boundary (pre ++ user) k = true).
  { apply key_boundary; [exact Hpre | exact Huser |]. rewrite <- Hk in Hok. exact Hok. }
  assert (Hb2 : is_boundary (pre ++ user) (k + List.length (seg_of line tail))%nat = true).
  { rewrite <- Hend. rewrite Hnx. destruct Hnxok as [Hok' | Heq].
    - assert (Hle : (nx' <= len)%nat) by (destruct Hok' as [Hle _]; exact Hle).
      rewrite Nat.min_l by exact Hle. apply key_boundary; assumption.
    - rewrite Heq. rewrite Nat.min_id. apply is_boundary_len. }
  assert (Hsl : (List.length (seg_of line tail) <= List.length line + List.length tail)%nat).
  { unfold seg_of. rewrite app_length.
    destruct tail as [| t tail']; cbn [firstn List.length]; lia. }
  rewrite get_range_ok; [| lia | fold len; lia | exact Hb1 | exact Hb2].
  f_equal.
  replace (pre ++ user) with ((pre ++ u1) ++ line ++ tail)
    by (unfold user; rewrite <- app_assoc; reflexivity).
  replace k with (List.length (pre ++ u1)) by (unfold k; rewrite app_length; reflexivity).
  apply slice_line.
Qed.

Definition text_of (line tail : list N) : list N :=
  match tail with [] => line | _ :: _ => strip_cr line end.

Lemma str_lines_seg (line tail : list N) :
  count_lf line = 0%nat -> tail_ok tail -> line ++ tail <> [] ->
  str_lines (seg_of line tail) = [text_of line tail].
Proof.
  intros Hline Htail Hne. unfold str_lines, seg_of, text_of.
  destruct Htail as [Ht | [rest Ht]]; subst tail.
  - cbn [firstn]. rewrite app_nil_r in *. rewrite split_lines_nolf.
    + reflexivity.
    + exact Hline.
    + cbn [rev app]. exact Hne.
  - cbn [firstn]. rewrite split_lines_one by exact Hline. reflexivity.
Qed.

(* ---- show_region on a span inside one line --------------------------------------------------- *)

Lemma show_region_line (pre u1 line tail fname : list N) (s e : nat) :
  wf_text pre -> wf_text (u1 ++ line ++ tail) ->
  lf_ended u1 -> count_lf line = 0%nat -> tail_ok tail -> line ++ tail <> [] ->
  (List.length u1 <= s)%nat -> (s <= e)%nat -> (e <= List.length u1 + List.length line)%nat ->
  show_region (new_from_data pre (u1 ++ line ++ tail) fname)
              (List.length pre + s) (List.length pre + e) =
  Some (one_line_region fname (S (count_lf u1)) (text_of line tail)
                        (s - List.length u1) (e - s)).
Proof.
  intros Hpre Huser Hu1 Hline Htail Hne Hs Hse He.
  unfold show_region.
  set (user := u1 ++ line ++ tail) in *.
  set (fc := new_from_data pre user fname).
  assert (Hdata : fc_data fc = pre ++ user) by reflexivity.
  rewrite Hdata.
  set (len := List.length (pre ++ user)).
  assert (Hlen : len = (List.length pre + (List.length u1 + List.length line + List.length tail))%nat).
  { unfold len, user. rewrite !app_length. lia. }
  assert (He' : Nat.min (List.length pre + e) len = (List.length pre + e)%nat) by lia.
  rewrite He'.
  assert (Hs' : Nat.min (List.length pre + s) (List.length pre + e) = (List.length pre + s)%nat) by lia.
  rewrite Hs'.
  destruct (segment_ok pre u1 line tail fname (List.length pre + s)%nat
              Hpre Huser Hu1 Hline Htail) as (nx1 & L1 & _); [lia | lia |].
  destruct (segment_ok pre u1 line tail fname (List.length pre + e)%nat
              Hpre Huser Hu1 Hline Htail) as (nx2 & L2 & G); [lia | lia |].
  fold user in L1, L2, G. fold fc in L1, L2. fold len in G.
  rewrite L1, L2, G.
  rewrite (str_lines_seg line tail Hline Htail Hne).
  assert (Hf : filename fc (List.length pre + s)%nat = fname).
  { unfold filename. cbn [fc new_from_data fc_plen fc_filename].
    assert (Hc : (List.length pre <=? List.length pre + s)%nat = true) by (apply Nat.leb_le; lia).
    rewrite Hc. reflexivity. }
  rewrite Hf.
  cbn [render_lines]. rewrite Nat.eqb_refl.
  replace (List.length pre + s - (List.length pre + List.length u1))%nat
    with (s - List.length u1)%nat by lia.
  replace (List.length pre + e - (List.length pre + List.length u1) - (s - List.length u1))%nat
    with (e - s)%nat by lia.
  unfold one_line_region, sp. cbn [repeat_byte app]. reflexivity.
Qed.

(* ---- C14: locating a one-line span ----------------------------------------------------------- *)

Lemma nolf_prefix (b tail : list N) (n : nat) :
  tail_ok tail -> count_lf (firstn n (b ++ tail)) = 0%nat ->
  (n <= List.length b + List.length tail)%nat -> (n <= List.length b)%nat.
Proof.
  intros [Ht | [rest Ht]] Hc Hn; subst tail.
  - cbn [List.length] in Hn. lia.
  - destruct (le_lt_dec n (List.length b)) as [Hle | Hgt]; [exact Hle | exfalso].
    rewrite firstn_app in Hc. rewrite count_lf_app in Hc.
    destruct (n - List.length b)%nat as [| m] eqn:Hm; [lia |].
    cbn [firstn] in Hc. rewrite count_lf_cons in Hc.
    change (is_lf 10) with true in Hc. cbv beta iota in Hc. lia.
Qed.

Theorem locate_one_line_ok : stmt_locate_one_line.
Proof.
  intros pre user fname s e Hpre Huser Hse He Hnolf Hne.
  destruct (all_decomp (firstn s user) [] count_lf_nil) as (u1 & Hfst & Ha & Hu1).
  cbn [rev app] in Hfst.
  remember (after_last_lf (firstn s user) []) as a eqn:Ea.
  destruct (bfl_decomp (skipn s user)) as (b & f & tail & Hbfl & Hskip & Hb & Htail).
  assert (Htok : tail_ok tail).
  { destruct Htail as [[_ Ht] | [_ Ht]]; [left | right]; exact Ht. }
  assert (Hueq : user = u1 ++ (a ++ b) ++ tail).
  { rewrite <- (firstn_skipn s user) at 1. rewrite Hfst, Hskip. rewrite <- !app_assoc. reflexivity. }
  assert (Hslen : s = (List.length u1 + List.length a)%nat).
  { rewrite <- app_length, <- Hfst. rewrite firstn_length_le; lia. }
  assert (Hcol : col_of user s = (s - List.length u1)%nat).
  { unfold col_of. rewrite <- Ea. lia. }
  assert (Hno : line_no user s = S (count_lf u1)).
  { unfold line_no. rewrite Hfst, count_lf_app, Ha. lia. }
  assert (Htext : line_text user s = text_of (a ++ b) tail).
  { unfold line_text. rewrite Hbfl. rewrite <- Ea. unfold text_of.
    destruct Htail as [[Hf Ht] | [Hf [rest Ht]]]; subst f tail; reflexivity. }
  assert (Hline : count_lf (a ++ b) = 0%nat) by (rewrite count_lf_app; lia).
  assert (Hes : (e - s <= List.length b)%nat).
  { apply (nolf_prefix b tail (e - s)%nat Htok).
    - rewrite <- Hskip. exact Hnolf.
    - rewrite <- app_length, <- Hskip. rewrite skipn_length. lia. }
  assert (Hne' : (a ++ b) ++ tail <> []).
  { intros Habs. apply Hne. rewrite Hcol.
    replace (s - (s - List.length u1))%nat with (List.length u1) by lia.
    rewrite Hueq. rewrite skipn_app, skipn_all, Nat.sub_diag. cbn [skipn app]. exact Habs. }
  rewrite Hcol, Hno, Htext.
  assert (Huser' : wf_text (u1 ++ (a ++ b) ++ tail)) by (rewrite <- Hueq; exact Huser).
  rewrite Hueq.
  apply show_region_line; try assumption.
  - lia.
  - rewrite app_length. lia.
Qed.

Print Assumptions never_preamble_false.
Print Assumptions never_preamble_partial.
Print Assumptions show_region_total_ok.
Print Assumptions locate_one_line_ok.
