(* C13 / C14 / C09: what the diagnostic renderer (Diag.v = Error::format_for_contents) does.
   Definitions only.

   (a) when rendering does not panic: the exact side conditions, as a boolean [renderable];
   (b) the text starts with "error: ", every message line starts with "error: " or seven blanks,
       the text ends with a line feed;
   (c) the text is message lines alternating with the show_region texts of exactly
       [error_spans e], in that order; composed with the region theorems of Props/C14;
   (d) the words "Internal parser error" / "parser bug" are written for InternalParserErrorNear only;
   (e) every wire / register / bank name the error carries is written between single quotes
       (with the exceptions listed);
   (f) what format_token_list writes. *)
From Coq Require Import Sorted Permutation.
From HclV Require Import Base Expr Machine Yo Region RegionSpec Lexer Generated TriviaSpec LexLocSpec
                         SpanParser SpanParserSpec Diag.
Open Scope list_scope.
Open Scope N_scope.
Open Scope string_scope.

(* ====================================================================================== *)
(* vocabulary                                                                             *)
(* ====================================================================================== *)
(* x occurs in t / t begins with p / t ends with p *)
Definition contains (x t : string) : Prop := exists a b, t = a ++ x ++ b.
Definition starts_with (p t : string) : Prop := exists r, t = p ++ r.
Definition ends_with (p t : string) : Prop := exists r, t = r ++ p.

(* no line feed in s *)
Fixpoint no_lf (s : string) : bool :=
  match s with
  | EmptyString => true
  | String c r => negb (N_of_ascii c =? 10)%N && no_lf r
  end.

(* whole lines, each made of "error: " or seven blanks, a text without line feed, and a line feed *)
Inductive message_lines : string -> Prop :=
| ml_nil : message_lines ""
| ml_line p l r : p = "error: " \/ p = blanks7 -> no_lf l = true -> message_lines r ->
                  message_lines (p ++ l ++ nl ++ r).

(* the text made of the pieces ps, when the region [s, e) is written as [region_text s e] *)
Inductive assembled (region_text : nat -> nat -> option (list N)) : list part -> string -> Prop :=
| as_nil : assembled region_text [] ""
| as_msg m ps t : assembled region_text ps t -> assembled region_text (Msg m :: ps) (m ++ t)
| as_rgn s e ps out t : region_text s e = Some out -> assembled region_text ps t ->
                        assembled region_text (Rgn s e :: ps) (string_of_bytes out ++ t).

Definition is_msg (p : part) : Prop := match p with Msg _ => True | Rgn _ _ => False end.

(* the file hclrs renders against: preamble ++ user text, both valid UTF-8 (RegionSpec.wf_text is
   the consequence of validity the renderer relies on) *)
Definition the_file (pre user fname : list N) : file_contents := new_from_data pre user fname.

(* ====================================================================================== *)
(* (a) rendering does not panic                                                           *)
(* ====================================================================================== *)
(* i is an offset of the text, on a character boundary (the end of the text included) *)
Definition on_boundary (data : list N) (i : nat) : bool :=
  (i <=? List.length data)%nat && is_boundary data i.

(* a string of LALRPOP's `expected` list that format_token_list can handle: "ID", "CONSTANT", or
   - not empty, its first character one byte long (`&possible_token[0..1]`), and
   - when that character is a double quote: at least two bytes long and its last character one
     byte long (`&possible_token[1..(len - 1)]`)
   (in valid UTF-8 "position 1 is a boundary" says the first character is ASCII) *)
Definition expected_token_ok (t : string) : bool :=
  String.eqb t "ID" || String.eqb t "CONSTANT" ||
  (let b := str_bytes t in
   (1 <=? List.length b)%nat && is_boundary b 1 &&
   (if (nth 0 b 0 =? 34)%N then (2 <=? List.length b)%nat && is_boundary b (List.length b - 1) else true)).

(* THE SIDE CONDITIONS.  Everything else is unconditional because show_region is total
   (RegionProofs.show_region_total_ok).
   - MismatchedMuxWidths: a width for every option (`widths[i]`).
       Guaranteed by ast.rs (get_width_and_check pushes one width per option before it can fail:
       checker invariant; not expressible in the model, which has error kinds only).
   - UnrecognizedToken: the expected strings are as above.
       Guaranteed by LALRPOP: the strings are the terminal names of parser.lalrpop - `"..."`
       literals in ASCII, `ID`, `CONSTANT` (observed on the real program: every one of the 36
       terminals).
     ... and, when ";" is among them, the START of the location is an offset of the text on a
     character boundary (`&contents.data()[start..location.0]`).
       Guaranteed by the lexer: the location is the span of a token (UnrecognizedToken) or
       (end of the last token, that + 1) (UnrecognizedEOF): stmt_token_offsets_on_boundaries below.
       The END of the location is not constrained (str::get; fix 6c3fe12 = finding F17).
   - ExtraToken: the span is ordered, inside the text, on character boundaries
     (`&contents.data()[span.0..span.1]`).
       Guaranteed by the lexer (the span of a token); LALRPOP never produces ExtraToken for this
       grammar anyway. *)
Definition renderable (fc : file_contents) (e : rerror) : bool :=
  match e with
  | RMismatchedMuxWidths options widths => (List.length options <=? List.length widths)%nat
  | RUnrecognizedToken location expected =>
      forallb expected_token_ok expected &&
      (if mem_str semicolon_token expected then on_boundary (fc_data fc) (fst location) else true)
  | RExtraToken sp =>
      (fst sp <=? snd sp)%nat && (snd sp <=? List.length (fc_data fc))%nat &&
      is_boundary (fc_data fc) (fst sp) && is_boundary (fc_data fc) (snd sp)
  | _ => true
  end.

(* the conditions suffice ... *)
Definition stmt_render_total : Prop :=
  forall uc pre user fname e,
    wf_text pre -> wf_text user ->
    renderable (the_file pre user fname) e = true ->
    exists text, render_one uc (the_file pre user fname) e = Some text.

(* ... and are necessary: when one fails the model renderer - and the Rust code - panics *)
Definition stmt_render_total_converse : Prop :=
  forall uc pre user fname e,
    wf_text pre -> wf_text user ->
    renderable (the_file pre user fname) e = false ->
    render_one uc (the_file pre user fname) e = None.

(* several errors (MultipleErrors, flattened) *)
Definition stmt_render_all_total : Prop :=
  forall uc pre user fname es,
    wf_text pre -> wf_text user ->
    forallb (renderable (the_file pre user fname)) es = true ->
    exists text, render_all uc (the_file pre user fname) es = Some text.

(* what the lexer guarantees (for valid UTF-8 input, with or without a lexical error): every token
   begins and ends inside the text on a character boundary *)
Definition stmt_token_offsets_on_boundaries : Prop :=
  forall uc text toks err, Forall scalar text -> lex uc (utf8 text) = (toks, err) ->
    forall t, In t toks ->
      (tstart t < tend t)%nat /\
      on_boundary (utf8 text) (tstart t) = true /\ on_boundary (utf8 text) (tend t) = true.

(* hence the three locations the parser's errors carry are renderable whatever the (well formed)
   expected list: the span of a token as ExtraToken, the span of a token as UnrecognizedToken, and
   (end of a token, end + 1) as UnrecognizedToken at the end of the input *)
Definition stmt_token_locations_renderable : Prop :=
  forall uc text toks err pre user fname expected,
    Forall scalar text -> lex uc (utf8 text) = (toks, err) -> (pre ++ user)%list = utf8 text ->
    forallb expected_token_ok expected = true ->
    forall t, In t toks ->
      renderable (the_file pre user fname) (RExtraToken (tstart t, tend t)) = true /\
      renderable (the_file pre user fname) (RUnrecognizedToken (tstart t, tend t) expected) = true /\
      renderable (the_file pre user fname) (RUnrecognizedToken (tend t, S (tend t)) expected) = true.

(* the strings LALRPOP lists for this grammar (the terminals of parser.lalrpop, as observed in the
   `expected` lists of the real program) are all well formed *)
Definition lalrpop_terminals : list string :=
  map quoted ["!"; "!="; "&"; "&&"; "("; ")"; "*"; "+"; ","; "-"; ".."; "/"; ":"; ";"; "<"; "<<"; "<=";
              "="; "=="; ">"; ">="; ">>"; "["; "]"; "^"; "const"; "in"; "register"; "wire"; "{"; "|";
              "||"; "}"; "~"] ++ ["CONSTANT"; "ID"].
Definition stmt_lalrpop_terminals_ok : Prop :=
  forallb expected_token_ok lalrpop_terminals = true.

(* every span the spanned parser records (SpanParserSpec.stmt_spans) begins and ends inside the
   text on character boundaries: no diagnostic that underlines an AST span can make a slice panic *)
Definition stmt_parser_spans_on_boundaries : Prop :=
  forall uc tiers text stmts, Forall scalar text ->
    parse_text_sp uc tiers (utf8 text) = Some stmts ->
    forall s spn, In s stmts -> In spn (stmt_spans s) ->
      (fst spn < snd spn)%nat /\
      on_boundary (utf8 text) (fst spn) = true /\ on_boundary (utf8 text) (snd spn) = true.

(* ====================================================================================== *)
(* (b) the shape of the text                                                              *)
(* ====================================================================================== *)
(* whatever the error and the file: the text begins with "error: " and ends with a line feed; it
   is made of pieces, the first a message; every message piece consists of whole lines, each
   beginning with "error: " or seven blanks; "error: " begins the first piece only *)
Definition stmt_render_starts_with_error : Prop :=
  forall uc fc e text, render_one uc fc e = Some text ->
    starts_with "error: " text /\ ends_with nl text /\
    exists first rest,
      render_parts uc fc e = Some (Msg first :: rest) /\
      starts_with "error: " first /\
      (forall m, In (Msg m) (Msg first :: rest) -> message_lines m) /\
      (forall m, In (Msg m) rest -> m = "" \/ starts_with blanks7 m).

(* a region text (show_region) is made of whole lines too, none beginning with "error: " *)
Definition stmt_region_text_shape : Prop :=
  forall fc s e out, show_region fc s e = Some out ->
    starts_with "     -> " (string_of_bytes out) /\ ends_with nl (string_of_bytes out).

(* several errors: one "error: " block after the other *)
Definition stmt_render_all_blocks : Prop :=
  forall uc fc es text, render_all uc fc es = Some text ->
    exists blocks, Forall2 (fun e b => render_one uc fc e = Some b) es blocks /\
                   text = concat_strings blocks /\
                   (es <> [] -> starts_with "error: " text /\ ends_with nl text).

(* ====================================================================================== *)
(* (c) which regions are shown                                                            *)
(* ====================================================================================== *)
(* the text is the concatenation of the pieces [render_parts]: messages as they are, the region
   [s, e) as show_region writes it; the regions are exactly [error_spans e], in that order *)
Definition stmt_render_regions : Prop :=
  forall uc fc e text, render_one uc fc e = Some text ->
    exists ps, render_parts uc fc e = Some ps /\
               assembled (show_region fc) ps text /\
               regions_of ps = error_spans e.

(* error_spans agrees with the spans the hook verif_hooks::error_lines lists, EXCEPT for
   MismatchedMuxWidths: the hook lists the value span of every option in option order; the
   renderer shows those of limited width only, stably sorted by width.  In general: *)
Definition stmt_error_spans_vs_hook : Prop :=
  forall e,
    (forall options widths, e <> RMismatchedMuxWidths options widths) -> error_spans e = hook_spans e.
Definition width_of (p : N * dspan) : N := fst p.
Definition stmt_mux_spans_sorted : Prop :=
  forall options widths,
    let shown := sort_by_width (sized_options options widths) in
    error_spans (RMismatchedMuxWidths options widths) = map snd shown /\
    Permutation shown (sized_options options widths) /\
    Sorted (fun a b => width_of a <= width_of b) shown /\
    (forall w, filter (fun p => width_of p =? w)%N shown =
               filter (fun p => width_of p =? w)%N (sized_options options widths)).

(* when all options have a limited width and widths never decrease, nothing is reordered *)
Definition stmt_mux_spans_in_order : Prop :=
  forall options ns,
    List.length options = List.length ns ->
    Sorted (fun a b => a <= b) ns ->
    error_spans (RMismatchedMuxWidths options (map Bits ns)) = options.

(* Composition with Props/C14 (C14_locate_one_line, C14_never_preamble).  An error all of whose
   spans lie in the user's text, each on one line (of a line that exists): every region shown is
   the one-line region of RegionSpec - the user's file name, the 1-based number of the line counted
   in the user's text, the text of that line, and carets under exactly the span *)
Definition in_user_text_on_one_line (pre user : list N) (sp : dspan) : Prop :=
  exists us ue, sp = ((List.length pre + us)%nat, (List.length pre + ue)%nat) /\
    (us <= ue)%nat /\ (ue <= List.length user)%nat /\
    count_lf (firstn (ue - us) (skipn us user)) = O /\
    skipn (us - col_of user us) user <> [].

Definition user_region (pre user fname : list N) (s e : nat) : option (list N) :=
  let us := (s - List.length pre)%nat in
  Some (one_line_region fname (line_no user us) (line_text user us) (col_of user us) (e - s)).

Definition stmt_render_regions_located : Prop :=
  forall uc pre user fname e text,
    wf_text pre -> wf_text user ->
    render_one uc (the_file pre user fname) e = Some text ->
    (forall sp, In sp (error_spans e) -> in_user_text_on_one_line pre user sp) ->
    exists ps, render_parts uc (the_file pre user fname) e = Some ps /\
               regions_of ps = error_spans e /\
               assembled (user_region pre user fname) ps text.

(* spans at or after the end of the preamble, whatever their extent: every region is headed by the
   user's file name, never "<builtin>" *)
Definition stmt_render_regions_never_preamble : Prop :=
  forall uc pre user fname e text,
    render_one uc (the_file pre user fname) e = Some text ->
    (forall sp, In sp (error_spans e) -> (List.length pre <= fst sp)%nat /\ (List.length pre <= snd sp)%nat) ->
    exists ps, render_parts uc (the_file pre user fname) e = Some ps /\
      forall s e', In (Rgn s e') ps ->
        exists out rest, show_region (the_file pre user fname) s e' = Some out /\
                         out = (RegionSpec.sp 5 ++ [45; 62; 32] ++ fname ++ [58] ++ rest)%list.

(* ====================================================================================== *)
(* (d) no internal error text                                                             *)
(* ====================================================================================== *)
Definition internal_error_words : list string := ["Internal parser error"; "parser bug"].

(* every string the renderer copies from the error value *)
Definition strings_of (e : rerror) : list string :=
  match e with
  | RMismatchedWireWidths name _ _ _ => [name]
  | RMismatchedRegisterDefaultWidths bank reg _ _ _ | RDuplicateRegister bank reg => [bank; reg]
  | RUndeclaredWireAssigned name _ close | RUndeclaredWireRead name _ close =>
      name :: match close with Some c => [c] | None => [] end
  | RNonConstantWireRead name _ | RUnsetWire name _ | RUnsetBuiltinWire name | RUnsetUndeclaredWire name
  | RUnsetRegisterInputWire name _ | RRedeclaredWire name _ _ | RDoubleAssignedWire name _ _
  | RDoubleAssignedRegisterWire name _ _ | RDoubleDeclaredRegisterOutWire name _ _
  | RConstantAssigned name _ _ | RInvalidRegisterBankName name _ | RUnparseableLine name => [name]
  | RDoubleAssignedFixedOutWire name _ fixed_name | RRedeclaredBuiltinWire name _ fixed_name => [name; fixed_name]
  | RPartialFixedInput name found missing => (name :: found ++ missing)%list
  | RWireLoop lst => lst
  | RInternalParserErrorNear _ info => [info]
  | RUnrecognizedToken _ expected => expected
  | _ => []
  end.

(* the text of the offending token, cut from the file (UnrecognizedToken, ExtraToken) *)
Definition token_text_of (fc : file_contents) (e : rerror) : list string :=
  match e with
  | RUnrecognizedToken location _ | RExtraToken location =>
      match get_range (fc_data fc) (fst location) (snd location) with
      | Some t => [string_of_bytes t]
      | None => []
      end
  | _ => []
  end.

Definition is_internal_parser_error (e : rerror) : Prop :=
  match e with RInternalParserErrorNear _ _ => True | _ => False end.

(* for every variant but InternalParserErrorNear: if neither the strings the error carries nor the
   offending token contain the words, no MESSAGE line does.  (The regions echo the user's own lines
   and the file name, which may say anything.)  Names are identifiers and contain no blank: the
   hypothesis holds for every error of the front end except through the offending token and
   UnparseableLine. *)
Definition stmt_no_internal_error_text : Prop :=
  forall uc fc e ps w,
    In w internal_error_words ->
    ~ is_internal_parser_error e ->
    render_parts uc fc e = Some ps ->
    (forall s, In s (strings_of e ++ token_text_of fc e)%list -> ~ contains w s) ->
    forall m, In (Msg m) ps -> ~ contains w m.

(* ... and InternalParserErrorNear writes both *)
Definition stmt_internal_error_text_present : Prop :=
  forall uc fc sp info text w,
    In w internal_error_words ->
    render_one uc fc (RInternalParserErrorNear sp info) = Some text -> contains w text.

(* ====================================================================================== *)
(* (e) the diagnostic names the wire                                                      *)
(* ====================================================================================== *)
(* the names written between single quotes.  NOT quoted: the name of the fixed functionality
   (DoubleAssignedFixedOutWire, RedeclaredBuiltinWire, PartialFixedInput), the parser's info
   (InternalParserErrorNear), and - list_with_and as written - the input names of PartialFixedInput
   when there are more than two in a list (first and last two of the list lose a quote) *)
Definition short_list (l : list string) : list string := if (List.length l <=? 2)%nat then l else [].
Definition quoted_names (e : rerror) : list string :=
  match e with
  | RMismatchedWireWidths name _ _ _ => [name]
  | RMismatchedRegisterDefaultWidths bank reg _ _ _ | RDuplicateRegister bank reg => [bank; reg]
  | RUndeclaredWireAssigned name _ close | RUndeclaredWireRead name _ close =>
      name :: match close with Some c => [c] | None => [] end
  | RNonConstantWireRead name _ | RUnsetWire name _ | RUnsetBuiltinWire name | RUnsetUndeclaredWire name
  | RUnsetRegisterInputWire name _ | RRedeclaredWire name _ _ | RDoubleAssignedWire name _ _
  | RDoubleAssignedRegisterWire name _ _ | RDoubleDeclaredRegisterOutWire name _ _
  | RConstantAssigned name _ _ | RInvalidRegisterBankName name _ | RUnparseableLine name
  | RDoubleAssignedFixedOutWire name _ _ | RRedeclaredBuiltinWire name _ _ => [name]
  | RPartialFixedInput _ found missing => (short_list found ++ short_list missing)%list
  | RWireLoop lst => lst
  | _ => []
  end.

(* a name without line feed (names are identifiers) appears between single quotes *)
Definition stmt_names_the_wire : Prop :=
  forall uc fc e text name,
    render_one uc fc e = Some text ->
    In name (quoted_names e) -> no_lf name = true ->
    contains ("'" ++ name ++ "'") text.

(* the offending token of UnrecognizedToken / ExtraToken, when it does not span lines *)
Definition stmt_names_the_token : Prop :=
  forall uc fc e text tok,
    render_one uc fc e = Some text ->
    In tok (token_text_of fc e) -> no_lf tok = true ->
    (match e with RUnrecognizedToken l _ => (snd l < List.length (fc_data fc))%nat | _ => True end) ->
    contains ("'" ++ tok ++ "'") text.

(* the exception, truthfully: three names lose their quotes *)
Definition stmt_three_names_unquoted : Prop :=
  list_with_and ["a"; "b"; "c"] = "a', 'b, and c" /\
  forall uc fc, exists text,
    render_one uc fc (RPartialFixedInput "port" ["a"; "b"; "c"] []) = Some text /\
    ~ contains "'a'" text /\ ~ contains "'c'" text.

(* it cannot happen with the built-in table: a fixed functionality has at most three inputs, and
   PartialFixedInput is reported when some, not all, are set: each list has at most two names *)
Definition stmt_fixed_inputs_at_most_three : Prop :=
  Forall (fun ff => (List.length (ff_ins ff) <= 3)%nat) gen_fixed.

(* ====================================================================================== *)
(* (f) format_token_list                                                                  *)
(* ====================================================================================== *)
(* the operators of a group are all among the tokens *)
Definition group_present (ops tokens : list string) : Prop := forall op, In op ops -> In (quoted op) tokens.

Definition in_complete_group (tokens : list string) (t : string) : Prop :=
  (group_present all_compare_operators tokens /\ In t (map quoted all_compare_operators)) \/
  (group_present all_bin_operators tokens /\ In t (map quoted all_bin_operators)) \/
  (group_present all_un_operators tokens /\ In t (map quoted all_un_operators)).

(* 1. a group collapses to its name exactly when ALL its members are present (the names are
   listed in this order before sorting) *)
Definition stmt_group_names : Prop :=
  forall tokens, exists c b u : bool,
    (c = true <-> group_present all_compare_operators tokens) /\
    (b = true <-> group_present all_bin_operators tokens) /\
    (u = true <-> group_present all_un_operators tokens) /\
    group_names tokens =
      ((if c then ["a comparison operator"] else []) ++
       (if b then ["a binary operator"] else []) ++
       (if u then ["a unary operator"] else []))%list.

(* 2. the tokens written individually: each distinct token once, except the members of the
   complete groups *)
Definition stmt_remaining_tokens : Prop :=
  forall tokens,
    NoDup (remaining_tokens tokens) /\
    forall t, In t (remaining_tokens tokens) <-> In t tokens /\ ~ in_complete_group tokens t.

(* 3. how a token is written: ID and CONSTANT are renamed, "x" becomes 'x' (x valid UTF-8), and
   there is a text exactly for the well formed tokens *)
Definition stmt_token_text : Prop :=
  token_text "ID" = Some "an identifier (wire name)" /\
  token_text "CONSTANT" = Some "an integer constant" /\
  (forall inner, wf_text (str_bytes inner) -> token_text (quoted inner) = Some ("'" ++ inner ++ "'")) /\
  (forall t, t <> "ID" -> t <> "CONSTANT" -> expected_token_ok t = true ->
     nth 0 (str_bytes t) 0 <> 34 -> token_text t = Some t) /\
  (forall t, expected_token_ok t = true <-> token_text t <> None).

(* 4. the whole: the names of the complete groups and the texts of the remaining tokens, sorted
   (byte-wise), written "x" / "x or y" / "x, y, or z" *)
Definition stmt_format_token_list : Prop :=
  forall tokens out, format_token_list tokens = Some out ->
    exists texts items,
      map_option token_text (remaining_tokens tokens) = Some texts /\
      Permutation items (group_names tokens ++ texts)%list /\
      Sorted (fun a b => String.leb a b = true) items /\
      out = or_list items.

Definition stmt_or_list : Prop :=
  or_list [] = "" /\
  (forall a, or_list [a] = a) /\
  (forall a b, or_list [a; b] = a ++ " or " ++ b) /\
  (forall a b c, or_list [a; b; c] = a ++ ", " ++ b ++ ", or " ++ c) /\
  (forall l z, (2 <= List.length l)%nat ->
     or_list (l ++ [z])%list = concat_strings (map (fun x => x ++ ", ") l) ++ "or " ++ z).

(* format_token_list does not panic exactly when every expected string is well formed *)
Definition stmt_format_token_list_total : Prop :=
  forall tokens, format_token_list tokens <> None <-> forallb expected_token_ok tokens = true.

(* ====================================================================================== *)
(* refuted drafts (DiagProofs.v proves the negations, each with a concrete witness)       *)
(* ====================================================================================== *)
(* "rendering never panics, whatever the error value": false - the three side conditions of
   [renderable] are needed (witness: ExtraToken (1, 0)) *)
Definition stmt_render_total_unconditional : Prop :=
  forall uc pre user fname e, wf_text pre -> wf_text user ->
    render_one uc (the_file pre user fname) e <> None.

(* "the regions shown are the spans the hook error_lines lists, for every variant": false for
   MismatchedMuxWidths (sorted by width, unlimited widths dropped) *)
Definition stmt_error_spans_equal_hook : Prop := forall e, error_spans e = hook_spans e.

(* "a name is written between quotes whatever it contains": false for a name containing a line
   feed (error() cuts the message into lines); names are identifiers and contain none *)
Definition stmt_names_the_wire_any_name : Prop :=
  forall uc fc e text name,
    render_one uc fc e = Some text -> In name (quoted_names e) -> contains ("'" ++ name ++ "'") text.

(* "the internal-error words are never written but for InternalParserErrorNear, whatever the
   names": false - a (quoted) string may spell them *)
Definition stmt_no_internal_error_text_any_name : Prop :=
  forall uc fc e ps w,
    In w internal_error_words -> ~ is_internal_parser_error e ->
    render_parts uc fc e = Some ps -> forall m, In (Msg m) ps -> ~ contains w m.
