(* The spanned model parser EXTENDED WITH THE DIAGNOSTIC PRODUCTIONS of src/parser.lalrpop.
   Definitions only (executable, extractable).

   SpanParser.parse_sp models the language proper: on every malformed text it answers None.  The
   grammar has, beside the productions of the language, productions written by the author that
   ACCEPT a specific malformed construct, push a specific error with a specific span onto the
   `errors` vector and go on with a placeholder declaration.  parse_diag is parse_sp plus exactly
   these productions.  The LR error-recovery productions (<error:!>) are NOT modelled: None remains
   the answer for every text that only error recovery (or nothing at all) handles.

   PRODUCTION -> DIAGNOSTIC -> SPAN   (tokens are (start, token, end); @L/@R by LALRPOP's rule for
   inlined empty symbols, see SpanParser.v: a capture standing before symbol p of a production of
   n symbols has  @L = start of symbol p (end of symbol n-1 if p = n),
                  @R = end of symbol p-1 (START of symbol 0 if p = 0))

     WireDecl   <start:@R> ID <end:@L>
                   MissingWireWidth (start ID, end ID)                    placeholder (name, 0, that span)
     WireDecl   <start:@R> ID "=" <end:@R> Expr
                   MissingWireWidth (start ID, end "=") and then
                   WireAssignedInDeclaration (start ID, end "=")          placeholder (name, 0, that span)
     WireDecl   <start:@R> ID ":" W "=" <end:@R> Expr
                   WireAssignedInDeclaration (start ID, end "=")          placeholder (name, W, that span)
     ConstDecl  ID <start:@L> ":" W <end:@R> "=" Expr
                   AddedConstWidth (start ":", end W)                     the declaration without the width
     Assignment <full_start:@R> ID <start_bracket:@R> "[" <end_bracket:@L> Semicolons1<MuxOption> "]" <full_end:@L>
                   MissingAssignmentMux (start ID, end ID)                Assignment { span (start ID, end "]"),
                                                                            names [ID], value Mux@(END OF ID, end "]") }
     RegisterDecl <start:@R> ID "=" Expr <end:@L>
                   MissingRegisterWidth (start ID, end of Expr)           RegisterDecl "<error>" width 0 default Error@span
     RegisterDecl <start:@R> "wire" <end_wire:@R> ID (":" W)? "=" Expr <end:@L>
                   RegisterDeclaredWithWire (start "wire", end "wire")    RegisterDecl "<error>" ... @(start "wire", end of Expr)
     StatementNeedSemi  SimpleTerm
                   ExpectedStatementFoundExpr (the term's own span; for "(" e ")" the span of e) - pushed
                   only if `errors` is still empty                        Statement::Error
   and the two FALLIBLE actions (=>?), which make the parser return at once:
     WidthConstant   <start:@R> CONSTANT <end:@L>  value > 128   InvalidWireWidth (the constant token)
     SimpleConstant  <start:@R> CONSTANT <end:@L>  value > 128   InvalidConstant  (the constant token)
   (captures changed by commit 508d724: "=" <end:@R> was <end:@L>, <start:@L> ":" was <start:@R>,
   "wire" <end_wire:@R> was <end_wire:@L> - before, these spans ran over the blanks up to the next /
   previous token.)

   ORDER.  An action runs when its production is REDUCED, i.e. when the token after its last symbol
   has been read; so the errors are pushed in the order in which the productions END in the text
   ("wire x = 1" pushes MissingWireWidth, then WireAssignedInDeclaration, from one action).

   THE FALLIBLE ACTIONS.  WidthConstant / SimpleConstant are reduced as soon as the token after the
   constant is read; a value above 128 makes the action return Err: the parser stops and returns
   that error; lib.rs (internal_parse_y86_hcl) reports  errors pushed so far ++ [that error].
   Outcome DFatal below.  The errors "pushed so far" are those of the productions that END BEFORE
   the constant ("wire a, b : 200" reports MissingWireWidth a, InvalidWireWidth; "wire x = y[0..200]"
   reports only InvalidConstant: the WireDecl is never reduced).
   Which token may follow:
   - SimpleConstant (e "[" lo ".." hi "]"): any, even none.  (With a token that cannot follow, the
     parser enters error recovery, whose first step is to perform the reductions possible with the
     error token as lookahead; the grammar has  SimpleTerm "[" SimpleConstant <error:!>  and
     ... ".." SimpleConstant <error:!>, so the reduction - hence the failing action - is performed.)
   - WidthConstant: only when the next token can follow in the grammar is the reduction certain
     ("," ";" "=" or - after a complete statement - the end of input for a wire declaration; "=" for
     a constant or register declaration); otherwise what happens depends on the generated
     automaton (observed: `unexpected token`, or the same InvalidWireWidth where LALRPOP merged
     states): the model answers None.

   THE RESULT (lib.rs): Ok(statements) iff the parser returns Ok and `errors` is empty; otherwise
   Err(MultipleErrors(errors in push order [++ the parser's own error])): [outcome].

   One more place where the model is deliberately partial: a statement that is a bare SimpleTerm
   must be followed by ";" (or the end of input) like every other statement; "x + 1;" is handled by
   error recovery only (None).

   Structure: the expression parser is SpanParser's (expressions contain no diagnostic production);
   when it fails, [fatal_*] retrace the same descent to find whether it stopped at an oversized
   bit index.  The declaration parsers are SpanParser's with the extra productions: one function
   per grammar symbol (wire_decl_d = WireDecl, const_decl_d = ConstDecl, assignment_d = Assignment,
   reg_decl_d = RegisterDecl), [list_d] for Commas<_> / Semicolons<_>, assignments_d for
   Commas1<Assignment>, statement_d, statements_d with the same fuels as SpanParser.  Every sub-parser
   returns POk (value, rest) errors / PFatal errors / PNone, the errors in push order.
   The outcome [dresult] keeps the errors with the statement whose productions pushed them:
   DDone [(statement or placeholder, its errors)] or DFatal [completed statements] (errors of the
   statement in which a fallible action failed, that action's error last); [all_diags] is the
   `errors` vector of the real parser, [outcome] what lib.rs makes of it.

   Cross-checked against the real parser (harness commands "parse" and "front"): kinds, spans and
   order agree on every text for which parse_text_diag answers Some (about 1400 texts: every kind,
   several errors per text, comments / CR LF / tabs between all tokens, with and without the
   preamble); where it answers None the real parser reported an `unexpected token` (error recovery)
   or is in one of the automaton-dependent cases described above. *)
From HclV Require Import Base Expr Build Lexer Parser SpanParser.
Open Scope list_scope.
Open Scope N_scope.

Inductive dkind :=
| KMissingWireWidth | KWireAssignedInDeclaration | KAddedConstWidth | KMissingAssignmentMux
| KMissingRegisterWidth | KRegisterDeclaredWithWire | KInvalidWireWidth | KInvalidConstant
| KExpectedStatementFoundExpr.

Definition pdiag := (dkind * srcspan)%type.

(* result of a sub-parser: done (with the errors pushed meanwhile, in push order) / a fallible
   action failed (errors pushed meanwhile, the last being the failing action's) / not handled *)
Inductive pres (A : Type) :=
| POk (a : A) (ds : list pdiag)
| PFatal (ds : list pdiag)
| PNone.
Arguments POk {A} a ds.
Arguments PFatal {A} ds.
Arguments PNone {A}.

(* statements with the placeholders of the diagnostic actions *)
Inductive dreg :=
| DReg (r : sreg_decl)
| DRegError (sp : srcspan).    (* RegisterDecl { name: "<error>", width: 0, default: Expr::Error @ sp, span: sp } *)

Inductive dstmt :=
| DSConst (decls : list sconst_decl)
| DSWire (decls : list swire_decl)
| DSAssign (assigns : list sassign)
| DSBank (name : string) (name_span : srcspan) (regs : list dreg) (sp : srcspan)
| DSError.                     (* Statement::Error *)

Definition dstmt_of (s : sstmt) : dstmt :=
  match s with
  | SSConst d => DSConst d
  | SSWire d => DSWire d
  | SSAssign a => DSAssign a
  | SSBank n nsp regs sp => DSBank n nsp (map DReg regs) sp
  end.

(* WidthConstant / SimpleConstant *)
Inductive wres := WOk (w : N) | WFatal | WBad.
Definition width_constant (t : token) : wres :=
  match t with
  | TLit v => if bits v <=? 128 then WOk (bits v) else WFatal
  | _ => WBad
  end.
Definition oversize (t : token) : bool :=
  match t with TLit v => negb (bits v <=? 128) | _ => false end.

Definition next_is (k : token) (toks : list tok) : bool :=
  match toks with t :: _ => token_eqb (tk t) k | [] => false end.

(* what may follow the width of a wire declaration *)
Definition follows_wire_width (eof_ok : bool) (toks : list tok) : bool :=
  match toks with
  | t :: _ => token_eqb (tk t) TComma || token_eqb (tk t) TSemicolon || token_eqb (tk t) TAssign
  | [] => eof_ok
  end.

(* Repeat<sep, T> = (T sep)* T? for an item T that begins with a token satisfying [starts]:
   Commas<WireDecl>, Commas<ConstDecl>, Semicolons<RegisterDecl>.  The errors of the items are
   concatenated in text order. *)
Fixpoint list_d {A : Type} (starts : token -> bool) (sep : token)
         (item : nat -> list tok -> pres (A * list tok)) (fuel : nat) (toks : list tok)
  : pres (list A * list tok) :=
  match fuel with
  | O => PNone
  | S f =>
      match toks with
      | t1 :: _ =>
          if starts (tk t1) then
            match item f toks with
            | POk (d, rest) ds =>
                if next_is sep rest then
                  match list_d starts sep item f (tl rest) with
                  | POk (more, rest2) ds2 => POk (d :: more, rest2) (ds ++ ds2)
                  | PFatal ds2 => PFatal (ds ++ ds2)
                  | PNone => PNone
                  end
                else POk ([d], rest) ds
            | PFatal ds => PFatal ds
            | PNone => PNone
            end
          else POk ([], toks) []
      | [] => POk ([], toks) []
      end
  end.

Definition starts_name (t : token) : bool := match t with TIdentifier _ => true | _ => false end.

Section DiagParser.
  Variable tiers : list tier.

  (* ---- where the expression parser stopped: at an oversized SimpleConstant? ------------------ *)
  (* each function follows the function of the same name of SpanParser to its first failing call *)
  Fixpoint fatal_tiers (fuel : nat) (ts : list tier) (toks : list tok) {struct fuel} : option srcspan :=
    match fuel with
    | O => None
    | S f =>
        match ts with
        | [] => fatal_term f toks
        | (KLeft, ops) :: rest =>
            match parse_tiers_sp tiers f rest toks with
            | Some (_, _, toks1) => fatal_left_loop f rest ops toks1
            | None => fatal_tiers f rest toks
            end
        | (KNonAssoc, ops) :: rest =>
            match parse_tiers_sp tiers f rest toks with
            | Some (_, _, t :: toks1) =>
                match op_of_token ops (tk t) with
                | Some _ =>
                    match parse_tiers_sp tiers f rest toks1 with
                    | Some _ => None
                    | None => fatal_tiers f rest toks1
                    end
                | None => None
                end
            | Some (_, _, []) => None
            | None => fatal_tiers f rest toks
            end
        | (KIn, _) :: rest =>
            match parse_tiers_sp tiers f rest toks with
            | Some (_, _, t :: toks1) =>
                if token_eqb (tk t) TIn then
                  match toks1 with
                  | t2 :: toks2 =>
                      if token_eqb (tk t2) TOpenBrace then
                        match parse_commas_exprs_sp tiers f toks2 with
                        | Some _ => None
                        | None => fatal_commas_exprs f toks2
                        end
                      else None
                  | [] => None
                  end
                else None
            | Some (_, _, []) => None
            | None => fatal_tiers f rest toks
            end
        | (KBad, _) :: _ => None
        end
    end
  with fatal_left_loop (fuel : nat) (rest : list tier) (ops : list binop) (toks : list tok) {struct fuel}
    : option srcspan :=
    match fuel with
    | O => None
    | S f =>
        match toks with
        | t :: toks1 =>
            match op_of_token ops (tk t) with
            | Some _ =>
                match parse_tiers_sp tiers f rest toks1 with
                | Some (_, _, toks2) => fatal_left_loop f rest ops toks2
                | None => fatal_tiers f rest toks1
                end
            | None => None
            end
        | [] => None
        end
    end
  with fatal_term (fuel : nat) (toks : list tok) {struct fuel} : option srcspan :=
    match fuel with
    | O => None
    | S f =>
        match toks with
        | t :: toks1 =>
            match unop_of_token (tk t) with
            | Some _ => fatal_simple f toks1
            | None =>
                match parse_simple_sp tiers f toks with
                | Some (_, _, t1 :: t2 :: rest2) =>
                    if token_eqb (tk t1) TOpenBracket then
                      if oversize (tk t2) then Some (tspan t2)                 (* e [ LO *)
                      else
                        match small_constant (tk t2), rest2 with
                        | Some _, t3 :: t4 :: _ =>
                            if token_eqb (tk t3) TDotDot && oversize (tk t4)
                            then Some (tspan t4)                               (* e [ lo .. HI *)
                            else None
                        | _, _ => None
                        end
                    else None
                | Some _ => None
                | None => fatal_simple f toks
                end
            end
        | [] => None
        end
    end
  with fatal_simple (fuel : nat) (toks : list tok) {struct fuel} : option srcspan :=
    match fuel with
    | O => None
    | S f =>
        match toks with
        | t :: toks1 =>
            match tk t with
            | TOpenParen =>
                match parse_tiers_sp tiers f tiers toks1 with
                | Some (_, _, t2 :: toks2) =>
                    if token_eqb (tk t2) TCloseParen then None
                    else if token_eqb (tk t2) TDotDot then
                      match parse_tiers_sp tiers f tiers toks2 with
                      | Some _ => None
                      | None => fatal_tiers f tiers toks2
                      end
                    else None
                | Some (_, _, []) => None
                | None => fatal_tiers f tiers toks1
                end
            | TOpenBracket =>
                match parse_mux_options_sp tiers f toks1 with
                | Some _ => None
                | None => fatal_mux_options f toks1
                end
            | _ => None
            end
        | [] => None
        end
    end
  with fatal_mux_options (fuel : nat) (toks : list tok) {struct fuel} : option srcspan :=
    match fuel with
    | O => None
    | S f =>
        match toks with
        | t :: _ =>
            if token_eqb (tk t) TCloseBracket then None
            else
              match parse_tiers_sp tiers f tiers toks with
              | Some (_, _, t1 :: toks1) =>
                  if token_eqb (tk t1) TColon then
                    match parse_tiers_sp tiers f tiers toks1 with
                    | Some (_, _, t2 :: toks2) =>
                        if token_eqb (tk t2) TSemicolon then fatal_mux_options f toks2 else None
                    | Some (_, _, []) => None
                    | None => fatal_tiers f tiers toks1
                    end
                  else None
              | Some (_, _, []) => None
              | None => fatal_tiers f tiers toks
              end
        | [] => None
        end
    end
  with fatal_commas_exprs (fuel : nat) (toks : list tok) {struct fuel} : option srcspan :=
    match fuel with
    | O => None
    | S f =>
        match toks with
        | t :: _ =>
            if token_eqb (tk t) TCloseBrace then None
            else
              match parse_tiers_sp tiers f tiers toks with
              | Some (_, _, t1 :: toks1) =>
                  if token_eqb (tk t1) TComma then fatal_commas_exprs f toks1 else None
              | Some (_, _, []) => None
              | None => fatal_tiers f tiers toks
              end
        | [] => None
        end
    end.

  Definition fatal_of {A : Type} (r : option srcspan) : pres A :=
    match r with Some sp => PFatal [(KInvalidConstant, sp)] | None => PNone end.

  (* Expr *)
  Definition expr_d (fuel : nat) (toks : list tok) : pres (sexpr * srcspan * list tok) :=
    match parse_expr_sp tiers fuel toks with
    | Some r => POk r []
    | None => fatal_of (fatal_tiers fuel tiers toks)
    end.

  (* ---- WireDecl ----------------------------------------------------------------------------- *)
  Definition wire_decl_d (fuel : nat) (eof_ok : bool) (toks : list tok) : pres (swire_decl * list tok) :=
    match toks with
    | t1 :: rest1 =>
        match tk t1 with
        | TIdentifier name =>
            let nm := string_of_name name in
            match rest1 with
            | t2 :: rest2 =>
                if token_eqb (tk t2) TColon then
                  match rest2 with
                  | t3 :: rest3 =>
                      match width_constant (tk t3) with
                      | WOk w =>
                          match rest3 with
                          | t4 :: rest4 =>
                              if token_eqb (tk t4) TAssign then
                                (* ID ":" W "=" Expr *)
                                match expr_d fuel rest4 with
                                | POk (_, _, rest5) _ =>
                                    let sp := (tstart t1, tend t4) in
                                    POk ((nm, Bits w, sp), rest5) [(KWireAssignedInDeclaration, sp)]
                                | PFatal ds => PFatal ds
                                | PNone => PNone
                                end
                              else POk ((nm, Bits w, (tstart t1, tend t3)), rest3) []
                          | [] => POk ((nm, Bits w, (tstart t1, tend t3)), rest3) []
                          end
                      | WFatal =>
                          if follows_wire_width eof_ok rest3
                          then PFatal [(KInvalidWireWidth, tspan t3)] else PNone
                      | WBad => PNone
                      end
                  | [] => PNone
                  end
                else if token_eqb (tk t2) TAssign then
                  (* ID "=" Expr *)
                  match expr_d fuel rest2 with
                  | POk (_, _, rest3) _ =>
                      let sp := (tstart t1, tend t2) in
                      POk ((nm, Bits 0, sp), rest3)
                          [(KMissingWireWidth, sp); (KWireAssignedInDeclaration, sp)]
                  | PFatal ds => PFatal ds
                  | PNone => PNone
                  end
                else POk ((nm, Bits 0, tspan t1), rest1) [(KMissingWireWidth, tspan t1)]
            | [] => POk ((nm, Bits 0, tspan t1), rest1) [(KMissingWireWidth, tspan t1)]
            end
        | _ => PNone
        end
    | [] => PNone
    end.

  (* Commas<WireDecl> *)
  Definition wire_decls_d (fuel : nat) (eof_ok : bool) : list tok -> pres (list swire_decl * list tok) :=
    list_d starts_name TComma (fun f => wire_decl_d f eof_ok) fuel.

  (* ---- ConstDecl ---------------------------------------------------------------------------- *)
  Definition const_decl_d (fuel : nat) (toks : list tok) : pres (sconst_decl * list tok) :=
    match toks with
    | t1 :: t2 :: rest2 =>
        match tk t1 with
        | TIdentifier name =>
            let nm := string_of_name name in
            if token_eqb (tk t2) TAssign then
              match expr_d fuel rest2 with
              | POk (e, _, rest3) _ => POk ((nm, tspan t1, e), rest3) []
              | PFatal ds => PFatal ds
              | PNone => PNone
              end
            else if token_eqb (tk t2) TColon then
              match rest2 with
              | t3 :: t4 :: rest4 =>
                  match width_constant (tk t3) with
                  | WOk _ =>
                      if token_eqb (tk t4) TAssign then
                        match expr_d fuel rest4 with
                        | POk (e, _, rest5) _ =>
                            POk ((nm, tspan t1, e), rest5) [(KAddedConstWidth, (tstart t2, tend t3))]
                        | PFatal ds => PFatal ds
                        | PNone => PNone
                        end
                      else PNone
                  | WFatal => if token_eqb (tk t4) TAssign then PFatal [(KInvalidWireWidth, tspan t3)] else PNone
                  | WBad => PNone
                  end
              | _ => PNone
              end
            else PNone
        | _ => PNone
        end
    | _ => PNone
    end.

  (* Commas<ConstDecl> *)
  Definition const_decls_d : nat -> list tok -> pres (list sconst_decl * list tok) :=
    list_d starts_name TComma const_decl_d.

  (* ---- Assignment --------------------------------------------------------------------------- *)
  Definition assignment_d (fuel : nat) (toks : list tok) : pres (sassign * list tok) :=
    match toks with
    | t1 :: t2 :: rest2 =>
        match tk t1 with
        | TIdentifier name =>
            if token_eqb (tk t2) TOpenBracket then
              (* ID "[" Semicolons1<MuxOption> "]" *)
              match parse_mux_options_sp tiers fuel rest2 with
              | Some (SACons c v more, t3 :: rest3) =>
                  if token_eqb (tk t3) TCloseBracket then
                    POk (([(string_of_name name, tspan t1)],
                          SEMux (tend t1, tend t3) (SACons c v more),
                          (tstart t1, tend t3)), rest3)
                        [(KMissingAssignmentMux, tspan t1)]
                  else PNone
              | Some _ => PNone
              | None => fatal_of (fatal_mux_options fuel rest2)
              end
            else
              (* (ID "=")+ Expr *)
              let '(names, toks1) := parse_targets_sp (List.length toks) toks in
              match names with
              | [] => PNone
              | n0 :: _ =>
                  match expr_d fuel toks1 with
                  | POk (e, exte, rest) _ => POk ((names, e, (fst (snd n0), snd exte)), rest) []
                  | PFatal ds => PFatal ds
                  | PNone => PNone
                  end
              end
        | _ => PNone
        end
    | _ => PNone
    end.

  (* Commas1<Assignment> *)
  Fixpoint assignments_d (fuel : nat) (toks : list tok) : pres (list sassign * list tok) :=
    match fuel with
    | O => PNone
    | S f =>
        match assignment_d f toks with
        | POk (a, rest) ds =>
            match rest with
            | t :: toks2 =>
                if token_eqb (tk t) TComma then
                  match toks2 with
                  | t2 :: _ =>
                      match tk t2 with
                      | TIdentifier _ =>
                          match assignments_d f toks2 with
                          | POk (more, rest3) ds2 => POk (a :: more, rest3) (ds ++ ds2)
                          | PFatal ds2 => PFatal (ds ++ ds2)
                          | PNone => PNone
                          end
                      | _ => POk ([a], toks2) ds          (* trailing comma *)
                      end
                  | [] => POk ([a], toks2) ds
                  end
                else POk ([a], rest) ds
            | [] => POk ([a], rest) ds
            end
        | PFatal ds => PFatal ds
        | PNone => PNone
        end
    end.

  (* ---- RegisterDecl ------------------------------------------------------------------------- *)
  (* the default value and what follows, after  ... "=" ; [mk] builds the declaration from the value *)
  Definition reg_value_d (fuel : nat) (toks : list tok) (mk : sexpr -> srcspan -> dreg * list pdiag)
    : pres (dreg * list tok) :=
    match expr_d fuel toks with
    | POk (e, exte, rest) _ => let '(r, ds) := mk e exte in POk (r, rest) ds
    | PFatal ds => PFatal ds
    | PNone => PNone
    end.

  (* ":" W "=" after the name; [k] continues after the "=" *)
  Definition reg_width_d {A : Type} (toks : list tok) (k : N -> list tok -> pres A) : pres A :=
    match toks with
    | t3 :: t4 :: rest4 =>
        match width_constant (tk t3) with
        | WOk w => if token_eqb (tk t4) TAssign then k w rest4 else PNone
        | WFatal => if token_eqb (tk t4) TAssign then PFatal [(KInvalidWireWidth, tspan t3)] else PNone
        | WBad => PNone
        end
    | _ => PNone
    end.

  Definition reg_decl_d (fuel : nat) (toks : list tok) : pres (dreg * list tok) :=
    match toks with
    | t1 :: t2 :: rest2 =>
        match tk t1 with
        | TIdentifier name =>
            if token_eqb (tk t2) TAssign then
              (* ID "=" Expr *)
              reg_value_d fuel rest2
                (fun _ exte => let sp := (tstart t1, snd exte) in
                               (DRegError sp, [(KMissingRegisterWidth, sp)]))
            else if token_eqb (tk t2) TColon then
              (* ID ":" W "=" Expr *)
              reg_width_d rest2
                (fun w rest4 =>
                   reg_value_d fuel rest4
                     (fun e exte => (DReg (string_of_name name, Bits w, e, (tstart t1, snd exte)), [])))
            else PNone
        | TWire =>
            (* "wire" ID (":" W)? "=" Expr *)
            match tk t2 with
            | TIdentifier _ =>
                let mk := fun (_ : sexpr) (exte : srcspan) =>
                            (DRegError (tstart t1, snd exte), [(KRegisterDeclaredWithWire, tspan t1)]) in
                match rest2 with
                | t3 :: rest3 =>
                    if token_eqb (tk t3) TAssign then reg_value_d fuel rest3 mk
                    else if token_eqb (tk t3) TColon then
                      reg_width_d rest3 (fun _ rest5 => reg_value_d fuel rest5 mk)
                    else PNone
                | [] => PNone
                end
            | _ => PNone
            end
        | _ => PNone
        end
    | _ => PNone
    end.

  Definition starts_reg_decl (t : token) : bool :=
    match t with TIdentifier _ | TWire => true | _ => false end.

  (* Semicolons<RegisterDecl> *)
  Definition reg_decls_d : nat -> list tok -> pres (list dreg * list tok) :=
    list_d starts_reg_decl TSemicolon reg_decl_d.

  (* ---- statements --------------------------------------------------------------------------- *)
  Definition lift_list {A : Type} (mk : list A -> dstmt) (r : pres (list A * list tok))
    : pres (dstmt * stmt_kind * list tok) :=
    match r with
    | POk (d, rest) ds => POk (mk d, NeedSemi, rest) ds
    | PFatal ds => PFatal ds
    | PNone => PNone
    end.

  (* StatementNeedSemi -> SimpleTerm: ExpectedStatementFoundExpr unless errors were pushed before *)
  Definition simple_statement_d (fuel : nat) (no_errors : bool) (toks : list tok)
    : pres (dstmt * stmt_kind * list tok) :=
    match parse_simple_sp tiers fuel toks with
    | Some (e, _, rest) =>
        POk (DSError, NeedSemi, rest)
            (if no_errors then [(KExpectedStatementFoundExpr, espan e)] else [])
    | None => fatal_of (fatal_simple fuel toks)
    end.

  (* [eof_ok]: a complete statement precedes (the end of input may follow this one);
     [no_errors]: no error has been pushed yet *)
  Definition statement_d (fuel : nat) (eof_ok no_errors : bool) (toks : list tok)
    : pres (dstmt * stmt_kind * list tok) :=
    match toks with
    | t :: toks1 =>
        match tk t with
        | TWire => lift_list DSWire (wire_decls_d fuel eof_ok toks1)
        | TConst => lift_list DSConst (const_decls_d fuel toks1)
        | TRegister =>
            match toks1 with
            | t1 :: t2 :: toks2 =>
                match tk t1 with
                | TIdentifier name =>
                    if token_eqb (tk t2) TOpenBrace then
                      match reg_decls_d fuel toks2 with
                      | POk (regs, t3 :: rest) ds =>
                          if token_eqb (tk t3) TCloseBrace
                          then POk (DSBank (string_of_name name) (tspan t1) regs (tstart t, tend t3), NoSemi, rest) ds
                          else PNone
                      | POk (_, []) _ => PNone
                      | PFatal ds => PFatal ds
                      | PNone => PNone
                      end
                    else PNone
                | _ => PNone
                end
            | _ => PNone
            end
        | TIdentifier _ =>
            if next_is TAssign toks1 || next_is TOpenBracket toks1
            then lift_list DSAssign (assignments_d fuel toks)
            else simple_statement_d fuel no_errors toks
        | TLit _ | TOpenParen | TOpenBracket => simple_statement_d fuel no_errors toks
        | _ => PNone
        end
    | [] => PNone
    end.

  (* the outcome of the parser: every statement with the errors its productions pushed *)
  Inductive dresult :=
  | DDone (stmts : list (dstmt * list pdiag))
  | DFatal (stmts : list (dstmt * list pdiag)) (ds : list pdiag).
      (* a fallible action failed inside the statement that follows [stmts]; [ds] = the errors pushed
         by that statement so far, the last one being the action's *)

  Definition diags_of (l : list (dstmt * list pdiag)) : list pdiag := List.concat (map snd l).
  Definition no_diags (l : list (dstmt * list pdiag)) : bool :=
    match diags_of l with [] => true | _ => false end.

  Fixpoint statements_d (fuel : nat) (toks : list tok) (seen_one : bool) (acc : list (dstmt * list pdiag))
    : option dresult :=
    match fuel with
    | O => None
    | S f =>
        match toks with
        | [] => if seen_one then Some (DDone (rev acc)) else None
        | t :: toks1 =>
            if token_eqb (tk t) TSemicolon then
              if seen_one then statements_d f toks1 true acc else None
            else
              match statement_d (20 * S (List.length toks)) seen_one (no_diags acc) toks with
              | POk (s, NoSemi, rest) ds => statements_d f rest true ((s, ds) :: acc)
              | POk (s, NeedSemi, t2 :: rest) ds =>
                  if token_eqb (tk t2) TSemicolon then statements_d f rest true ((s, ds) :: acc) else None
              | POk (s, NeedSemi, []) ds => if seen_one then Some (DDone (rev ((s, ds) :: acc))) else None
              | PFatal ds => Some (DFatal (rev acc) ds)
              | PNone => None
              end
        end
    end.

  Definition parse_diag (toks : list tok) : option dresult :=
    statements_d (S (List.length toks)) toks false [].
End DiagParser.

(* the errors in the order in which the real parser pushes them *)
Definition all_diags (r : dresult) : list pdiag :=
  match r with
  | DDone l => diags_of l
  | DFatal l ds => diags_of l ++ ds
  end.

Definition result_stmts (r : dresult) : list (dstmt * list pdiag) :=
  match r with DDone l | DFatal l _ => l end.

(* lib.rs, internal_parse_y86_hcl: Ok(statements) iff the parser returns Ok and `errors` is empty,
   otherwise Err(MultipleErrors(errors ++ [the parser's error])) *)
Inductive parse_outcome :=
| ParsedOk (stmts : list dstmt)
| ParsedErr (errors : list pdiag).

Definition outcome (r : dresult) : parse_outcome :=
  match r with
  | DDone l => match diags_of l with [] => ParsedOk (map fst l) | ds => ParsedErr ds end
  | DFatal l ds => ParsedErr (diags_of l ++ ds)
  end.

(* text -> outcome of the diagnostic parser; None: lexical error, or a syntax error that only the
   LR error recovery handles *)
Definition parse_text_diag (uclass_of : N -> uclass) (tiers : list tier) (bytes : list N) : option dresult :=
  match lex uclass_of bytes with
  | (toks, None) => parse_diag tiers toks
  | (_, Some _) => None
  end.
