(* Model of Memory::load_line_y86 / Memory::load_from_y86 (src/program.rs): the fixed-column
   recogniser for yas listings.  A file is a list of bytes (valid UTF-8 is assumed; slicing
   checks char boundaries as &str slicing does). *)
From HclV Require Import Base Expr Machine.
Open Scope N_scope.

Definition is_cont (b : N) : bool := (128 <=? b) && (b <? 192).     (* UTF-8 continuation byte *)

Definition is_boundary (l : list N) (i : nat) : bool :=
  (i =? 0)%nat || (i =? List.length l)%nat ||
  ((i <? List.length l)%nat && negb (is_cont (nth i l 0))).

(* str::get(a..b) *)
Definition get_range (l : list N) (a b : nat) : option (list N) :=
  if (a <=? b)%nat && (b <=? List.length l)%nat && is_boundary l a && is_boundary l b
  then Some (firstn (b - a) (skipn a l)) else None.

Definition is_hex (b : N) : bool :=
  ((48 <=? b) && (b <=? 57)) || ((97 <=? b) && (b <=? 102)) || ((65 <=? b) && (b <=? 70)).

Definition hexv (b : N) : N :=
  if b <=? 57 then b - 48 else if b <=? 70 then b - 55 else b - 87.

Fixpoint hex_value (l : list N) (acc : N) : N :=
  match l with [] => acc | b :: r => hex_value r (16 * acc + hexv b) end.

Fixpoint list_eqb (a b : list N) : bool :=
  match a, b with
  | [], [] => true
  | x :: r, y :: t => (x =? y) && list_eqb r t
  | _, _ => false
  end.

Fixpoint starts_with (p l : list N) : bool :=
  match p, l with
  | [], _ => true
  | x :: r, y :: t => (x =? y) && starts_with r t
  | _ :: _, [] => false
  end.

(* the 20-column byte field: pairs of hex digits up to the first blank *)
Fixpoint load_bytes (m : memory) (loc : N) (field : list N) : option memory :=
  match field with
  | [] => Some m
  | b :: rest =>
      if b =? 32 then Some m
      else match rest with
           | b2 :: rest2 =>
               if is_hex b && is_hex b2
               then load_bytes (mem_put m loc (16 * hexv b + hexv b2)) (loc + 1) rest2
               else None
           | [] => None
           end
  end.

Definition comment_prefix : list N := repeat 32 28 ++ [124].       (* 28 blanks and '|' *)

(* None = Err(()) *)
Definition load_line (m : memory) (line : list N) : option memory :=
  match get_range line 0 2, get_range line 2 5, get_range line 5 7,
        get_range line 7 27, get_range line 27 29 with
  | Some p0, Some addr, Some p1, Some field, Some p2 =>
      if list_eqb p0 [48; 120] && list_eqb p1 [58; 32] && list_eqb p2 [32; 124] then
        if forallb is_hex addr then load_bytes m (hex_value addr 0) field else None
      else if existsb (N.eqb 124) line && negb (starts_with comment_prefix line) then None
      else Some m
  | _, _, _, _, _ =>
      if existsb (N.eqb 124) line && negb (starts_with comment_prefix line) then None
      else Some m
  end.

(* BufRead::lines: split at LF, drop the CR of a CRLF; no final empty line *)
Fixpoint strip_cr (l : list N) : list N :=
  match l with
  | [] => []
  | [13] => []
  | x :: r => x :: strip_cr r
  end.

Fixpoint split_lines (data : list N) (cur : list N) : list (list N) :=
  match data with
  | [] => match cur with [] => [] | _ => [rev cur] end
  | 10 :: r => strip_cr (rev cur) :: split_lines r []
  | b :: r => split_lines r (b :: cur)
  end.

Fixpoint load_lines (m : memory) (lines : list (list N)) : result memory :=
  match lines with
  | [] => Ok m
  | l :: r =>
      match load_line m l with
      | Some m1 => load_lines m1 r
      | None => err1 UnparseableLine []
      end
  end.

Definition load_from_y86 (m : memory) (data : list N) : result memory :=
  match split_lines data [] with
  | [] => err1 EmptyFile []
  | lines => load_lines m lines
  end.
