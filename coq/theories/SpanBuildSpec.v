(* C14, "every diagnostic that shows a source location names ... the line on which the offending
   token or expression really is ... underlines exactly the offending span.  Faults in user code are
   never attributed to the built-in preamble": WHICH SPANS the checker and the program builder
   report.  Statements about SpanBuild.check_sp / eval_sp / build_program_sp - Expr.check / Expr.eval /
   Build.build_program run on the spanned syntax of SpanParser.v, every diagnostic carrying the spans
   the Rust code stores in the Error value (in the order verif_hooks::error_lines lists them).
   Definitions only.

     (a) forgetting the spans gives exactly Expr.check / Expr.eval / Build.build_program: every
         theorem about build_program transfers to the builder that reports locations;
     (b) every reported span is one the parser recorded in the statements - there is no placeholder
         span - hence (SpanParserSpec) token aligned, inside the text, and, when it belongs to a
         statement of the user, rendered in the user's file on the right line with carets under
         exactly the span ([stmt_build_diagnostics_located]);
     (c) kind by kind, WHICH construct each span is the span of;
     (d) which diagnostics can show a region of the preamble at all. *)
From HclV Require Import Base Expr Machine Graph Build Lexer Parser LexParseSpec TriviaSpec Yo Region
                         RegionSpec LexLocSpec Generated SpanParser SpanParserSpec SpanBuild.
Open Scope string_scope.
Open Scope list_scope.
Open Scope N_scope.

(* ====================================================================================== *)
(* vocabulary: the constructs of a list of statements                                     *)
(* ====================================================================================== *)
(* every declaration ("const n = ..." / "wire n : w"), in text order: the name and the recorded span
   (ConstDecl.name_span: the name; WireDecl.span: "n : w") *)
Definition decls_of_stmt (s : sstmt) : list (string * srcspan) :=
  match s with
  | SSConst d => map (fun x : sconst_decl => (fst (fst x), snd (fst x))) d
  | SSWire d => map (fun x : swire_decl => (fst (fst x), snd x)) d
  | _ => []
  end.
Definition decl_list (stmts : list sstmt) : list (string * srcspan) := flat_map decls_of_stmt stmts.

(* the wire declarations alone *)
Definition wire_decls_of_stmt (s : sstmt) : list (string * srcspan) :=
  match s with
  | SSWire d => map (fun x : swire_decl => (fst (fst x), snd x)) d
  | _ => []
  end.
Definition wire_list (stmts : list sstmt) : list (string * srcspan) := flat_map wire_decls_of_stmt stmts.

(* every constant definition: the name and the value *)
Definition consts_of_stmt (s : sstmt) : list (string * sexpr) :=
  match s with
  | SSConst d => map (fun x : sconst_decl => (fst (fst x), snd x)) d
  | _ => []
  end.
Definition const_list (stmts : list sstmt) : list (string * sexpr) := flat_map consts_of_stmt stmts.

(* every occurrence of a name on the left of "=" in an assignment, in text order: the name, the span
   of that occurrence, and the assigned expression *)
Definition targets_of_stmt (s : sstmt) : list (string * (srcspan * sexpr)) :=
  match s with
  | SSAssign a =>
      flat_map (fun x : sassign => map (fun nm : string * srcspan => (fst nm, (snd nm, snd (fst x)))) (fst (fst x))) a
  | _ => []
  end.
Definition target_list (stmts : list sstmt) : list (string * (srcspan * sexpr)) := flat_map targets_of_stmt stmts.

(* every register bank: name, span of the name, register declarations *)
Definition banks_of_stmt (s : sstmt) : list sbank_decl :=
  match s with
  | SSBank n nsp regs _ => [(n, nsp, regs)]
  | _ => []
  end.
Definition bank_list (stmts : list sstmt) : list sbank_decl := flat_map banks_of_stmt stmts.

(* every expression of the program *)
Definition all_exprs (stmts : list sstmt) : list sexpr := flat_map stmt_exprs stmts.
(* every recorded span *)
Definition all_spans (stmts : list sstmt) : list srcspan := flat_map stmt_spans stmts.

(* the LATEST entry for n in a list (the one program.rs keeps: insert overwrites) *)
Definition latest {A : Type} (l : list (string * A)) (n : string) (a : A) : Prop :=
  exists l1 l2, l = l1 ++ (n, a) :: l2 /\ ~ In n (map fst l2).
(* two entries for n, [old] before [new], with no entry for n between them *)
Definition consecutive {A : Type} (l : list (string * A)) (n : string) (old new : A) : Prop :=
  exists l1 l2 l3, l = l1 ++ (n, old) :: l2 ++ (n, new) :: l3 /\ ~ In n (map fst l2).

(* "register <bank> { ... r : w = d ... }" where <bank> consists of the two characters inp outp;
   rsp is the recorded span of the register declaration ("r : w = d") *)
Definition register_of (stmts : list sstmt) (bank inp outp r : string) (w : width) (d : sexpr)
           (rsp : srcspan) : Prop :=
  exists nsp regs, In (bank, nsp, regs) (bank_list stmts) /\ utf8_chars bank "" = [inp; outp] /\
                   In (r, w, d, rsp) regs.
(* the signals of that register *)
Definition in_signal (inp r : string) : string := (inp ++ "_" ++ r)%string.
Definition out_signal (outp r : string) : string := (outp ++ "_" ++ r)%string.

(* ====================================================================================== *)
(* (a) forgetting the spans                                                                *)
(* ====================================================================================== *)
(* same acceptance, same width, same list of (kind, names) in the same order *)
Definition stmt_check_sp_erases : Prop :=
  forall f G C e, erase_sresult (check_sp f G C e) = check f G C (erase_expr e).

Definition stmt_eval_sp_erases : Prop :=
  forall f rho e, erase_sresult (eval_sp f rho e) = eval f rho (erase_expr e).

(* same acceptance, same compiled program, same list of (kind, names) in the same order *)
Definition stmt_build_sp_erases : Prop :=
  forall f fixed is_lower is_upper stmts,
    erase_sresult (build_program_sp f fixed is_lower is_upper stmts) =
    build_program f fixed is_lower is_upper (map erase_stmt stmts).

(* the whole front end, from the text *)
Definition stmt_front_sp_erases : Prop :=
  forall f fixed is_lower is_upper uc tiers bytes,
    option_map erase_sresult (front_sp f fixed is_lower is_upper uc tiers bytes) =
    option_map (build_program f fixed is_lower is_upper) (parse_text uc tiers bytes).

(* ====================================================================================== *)
(* expression level: which node                                                            *)
(* ====================================================================================== *)
(* d is a complaint of the width checker, in the environment (G: declared widths, C: constants),
   about a node of the expression [root]: for each kind, which node it is, which of its parts the
   spans are the spans of, and the widths that make it a fault *)
Inductive expr_fault (f : features) (G : string -> option width) (C : string -> option wval)
          (root : sexpr) : serr -> Prop :=
(* l op r (op not && / ||): the spans of both operands, whose widths differ *)
| EF_operands sp op l r wl wr :
    In (SEBin sp op l r) (enodes root) -> kind op <> BooleanCombine ->
    check_sp f G C l = SOk wl -> check_sp f G C r = SOk wr -> wcombine wl wr = None ->
    expr_fault f G C root (mkSErr MismatchedExprWidths [] [espan l; espan r])
(* e in { ..., it, ... }: the spans of e and of the item whose width differs *)
| EF_item sp e1 items it wl wi :
    In (SEIn sp e1 items) (enodes root) -> In it (item_exprs items) ->
    check_sp f G C e1 = SOk wl -> check_sp f G C it = SOk wi -> wcombine wl wi = None ->
    expr_fault f G C root (mkSErr MismatchedExprWidths [] [espan e1; espan it])
(* l && r, l || r: the span of the operand whose width is neither 1 nor unlimited.
   ("!" is not checked by get_width_and_check.) *)
| EF_nonboolean sp op l r x w :
    In (SEBin sp op l r) (enodes root) -> kind op = BooleanCombine -> x = l \/ x = r ->
    check_sp f G C x = SOk w -> possibly_boolean w = false ->
    expr_fault f G C root (mkSErr NonBooleanWidth [] [espan x])
(* [ c1 : v1; c2 : v2; ... ]: the spans of ALL the values v1, v2, ..., in order *)
| EF_mux_widths sp a :
    In (SEMux sp a) (enodes root) ->
    expr_fault f G C root (mkSErr MismatchedMuxWidths [] (arm_value_spans a))
(* the whole mux, brackets included *)
| EF_mux_no_default sp a :
    In (SEMux sp a) (enodes root) -> expr_fault f G C root (mkSErr NoMuxDefaultOption [] [sp])
| EF_mux_multiple_default sp a :
    In (SEMux sp a) (enodes root) -> expr_fault f G C root (mkSErr MultipleMuxDefaultOption [] [sp])
| EF_mux_unreachable sp a :
    In (SEMux sp a) (enodes root) -> expr_fault f G C root (mkSErr UnreachableOptions [] [sp])
(* the name itself *)
| EF_undeclared sp n :
    In (SEWire sp n) (enodes root) -> G n = None ->
    expr_fault f G C root (mkSErr UndeclaredWireRead [n] [sp])
(* e[lo..hi]: the whole selection *)
| EF_misordered sp e1 lo hi :
    In (SESlice sp e1 lo hi) (enodes root) -> hi < lo ->
    expr_fault f G C root (mkSErr MisorderedBitIndexes [] [sp])
| EF_bit_index sp e1 lo hi iw :
    In (SESlice sp e1 lo hi) (enodes root) -> check_sp f G C e1 = SOk (Bits iw) -> iw < hi ->
    expr_fault f G C root (mkSErr InvalidBitIndex [] [sp])
(* (l .. r): the whole concatenation, parentheses included *)
| EF_too_wide sp l r lw rw :
    In (SECat sp l r) (enodes root) -> check_sp f G C l = SOk (Bits lw) -> check_sp f G C r = SOk (Bits rw) ->
    128 < lw + rw ->
    expr_fault f G C root (mkSErr WireTooWide [] [sp])
(* (l .. r): the operand that has no width *)
| EF_no_width sp l r x :
    In (SECat sp l r) (enodes root) -> x = l \/ x = r -> check_sp f G C x = SOk Unl ->
    expr_fault f G C root (mkSErr NoBitWidth [] [espan x]).

(* d is a complaint of the evaluator (constants and initial values are evaluated when the program is
   built) about a node of [root] *)
Inductive eval_fault (root : sexpr) : serr -> Prop :=
| VF_undeclared sp n :
    In (SEWire sp n) (enodes root) -> eval_fault root (mkSErr UndeclaredWireRead [n] [sp])
| VF_no_width sp l r x :
    In (SECat sp l r) (enodes root) -> x = l \/ x = r -> eval_fault root (mkSErr NoBitWidth [] [espan x])
(* no location: RuntimeMismatchedWidths, DivisionByZero *)
| VF_runtime k :
    k = RuntimeMismatchedWidths \/ k = DivisionByZero -> eval_fault root (mkSErr k [] []).

(* every complaint of the checker / the evaluator is of this form *)
Definition stmt_check_sp_faults : Prop :=
  forall f G C e es, check_sp f G C e = SErr es -> es <> [] /\ Forall (expr_fault f G C e) es.
Definition stmt_eval_sp_faults : Prop :=
  forall f rho e es, eval_sp f rho e = SErr es -> es <> [] /\ Forall (eval_fault e) es.

(* in particular every span they report is the span of a node of the expression *)
Definition stmt_check_spans_are_node_spans : Prop :=
  forall f G C e es, check_sp f G C e = SErr es ->
    forall d sp, In d es -> In sp (se_spans d) -> In sp (map espan (enodes e)).
Definition stmt_eval_spans_are_node_spans : Prop :=
  forall f rho e es, eval_sp f rho e = SErr es ->
    forall d sp, In d es -> In sp (se_spans d) -> In sp (map espan (enodes e)).

(* kind by kind (read off expr_fault): e.g. a NonBooleanWidth complaint shows one span, that of an
   operand of a && or || node of the expression, and the width of that operand is not 1 *)
Definition stmt_check_span_of_NonBooleanWidth : Prop :=
  forall f G C e es d, check_sp f G C e = SErr es -> In d es -> se_kind d = NonBooleanWidth ->
    exists sp op l r x w, In (SEBin sp op l r) (enodes e) /\ (op = LogicalAnd \/ op = LogicalOr) /\
      (x = l \/ x = r) /\ se_spans d = [espan x] /\
      check_sp f G C x = SOk w /\ w <> Bits 1 /\ w <> Unl.

Definition stmt_check_span_of_MismatchedExprWidths : Prop :=
  forall f G C e es d, check_sp f G C e = SErr es -> In d es -> se_kind d = MismatchedExprWidths ->
    exists x y wx wy, se_spans d = [espan x; espan y] /\
      check_sp f G C x = SOk wx /\ check_sp f G C y = SOk wy /\ wcombine wx wy = None /\
      ((exists sp op, In (SEBin sp op x y) (enodes e)) \/
       (exists sp items, In (SEIn sp x items) (enodes e) /\ In y (item_exprs items))).

Definition stmt_check_span_of_mux_kinds : Prop :=
  forall f G C e es d, check_sp f G C e = SErr es -> In d es ->
    (se_kind d = NoMuxDefaultOption \/ se_kind d = MultipleMuxDefaultOption \/ se_kind d = UnreachableOptions ->
       exists sp a, In (SEMux sp a) (enodes e) /\ se_spans d = [sp]) /\
    (se_kind d = MismatchedMuxWidths ->
       exists sp a, In (SEMux sp a) (enodes e) /\ se_spans d = arm_value_spans a).

Definition stmt_check_span_of_UndeclaredWireRead : Prop :=
  forall f G C e es d, check_sp f G C e = SErr es -> In d es -> se_kind d = UndeclaredWireRead ->
    exists sp n, In (SEWire sp n) (enodes e) /\ G n = None /\ se_names d = [n] /\ se_spans d = [sp].

Definition stmt_check_span_of_bit_index_kinds : Prop :=
  forall f G C e es d, check_sp f G C e = SErr es -> In d es ->
    (se_kind d = MisorderedBitIndexes ->
       exists sp e1 lo hi, In (SESlice sp e1 lo hi) (enodes e) /\ hi < lo /\ se_spans d = [sp]) /\
    (se_kind d = InvalidBitIndex ->
       exists sp e1 lo hi iw, In (SESlice sp e1 lo hi) (enodes e) /\ check_sp f G C e1 = SOk (Bits iw) /\
                              iw < hi /\ se_spans d = [sp]).

Definition stmt_check_span_of_concat_kinds : Prop :=
  forall f G C e es d, check_sp f G C e = SErr es -> In d es ->
    (se_kind d = WireTooWide ->
       exists sp l r lw rw, In (SECat sp l r) (enodes e) /\ check_sp f G C l = SOk (Bits lw) /\
                            check_sp f G C r = SOk (Bits rw) /\ 128 < lw + rw /\ se_spans d = [sp]) /\
    (se_kind d = NoBitWidth ->
       exists sp l r x, In (SECat sp l r) (enodes e) /\ (x = l \/ x = r) /\
                        check_sp f G C x = SOk Unl /\ se_spans d = [espan x]).

(* ====================================================================================== *)
(* program level                                                                           *)
(* ====================================================================================== *)
Section SpanBuildSpec.
  Variable f : features.
  Variable fixed : list fixed_fn.
  Variable is_lower : string -> bool.
  Variable is_upper : string -> bool.

  Notation build_sp := (build_program_sp f fixed is_lower is_upper).

  (* the program is rejected and d is one of the diagnostics *)
  Definition reported (stmts : list sstmt) (d : serr) : Prop :=
    exists es, build_sp stmts = SErr es /\ In d es.

  (* ==================================================================================== *)
  (* (b) every reported span is a recorded span                                           *)
  (* ==================================================================================== *)
  Definition stmt_error_spans_are_recorded_spans : Prop :=
    forall stmts d sp, reported stmts d -> In sp (se_spans d) -> In sp (all_spans stmts).

  (* ==================================================================================== *)
  (* (c) which construct, kind by kind                                                    *)
  (* ==================================================================================== *)
  (* RedeclaredWire n: two spans [new; old].  old is a declaration of n.  Either new is the NEXT
     declaration of n in the text; or old is the last declaration of n and new is the name of a
     register bank one of whose control signals (stall_O / bubble_O) is called n, or the declaration of
     a register one of whose signals (i_r / O_r) is called n *)
  Definition stmt_span_of_RedeclaredWire : Prop :=
    forall stmts d, reported stmts d -> se_kind d = RedeclaredWire ->
      exists n new old, se_names d = [n] /\ se_spans d = [new; old] /\
        (consecutive (decl_list stmts) n old new \/
         (latest (decl_list stmts) n old /\
          ((exists bank regs inp outp, In (bank, new, regs) (bank_list stmts) /\
                                       utf8_chars bank "" = [inp; outp] /\
                                       (n = ("stall_" ++ outp)%string \/ n = ("bubble_" ++ outp)%string)) \/
           (exists bank inp outp r w dd, register_of stmts bank inp outp r w dd new /\
                                         (n = in_signal inp r \/ n = out_signal outp r))))).

  (* RedeclaredBuiltinWire n: the declaration of n; n is a wire of a built-in component *)
  Definition stmt_span_of_RedeclaredBuiltinWire : Prop :=
    forall stmts d, reported stmts d -> se_kind d = RedeclaredBuiltinWire ->
      exists n sp, se_names d = [n] /\ se_spans d = [sp] /\
                   In (n, sp) (decl_list stmts) /\ In n (fixed_names fixed).

  (* DoubleAssignedWire n: [new; old], two occurrences of n on the left of "=", old the closest earlier *)
  Definition stmt_span_of_DoubleAssignedWire : Prop :=
    forall stmts d, reported stmts d -> se_kind d = DoubleAssignedWire ->
      exists n new old enew eold, se_names d = [n] /\ se_spans d = [new; old] /\
        consecutive (target_list stmts) n (old, eold) (new, enew).

  (* DoubleAssignedFixedOutWire n: an occurrence of n on the left of "=" *)
  Definition stmt_span_of_DoubleAssignedFixedOutWire : Prop :=
    forall stmts d, reported stmts d -> se_kind d = DoubleAssignedFixedOutWire ->
      exists n sp e, se_names d = [n] /\ se_spans d = [sp] /\
                     In (n, (sp, e)) (target_list stmts) /\ In n (fixed_out_names fixed).

  (* ConstantAssigned n: [assignment; declaration]: the last assigned occurrence of n and the last
     declaration of n; n is defined as a constant *)
  Definition stmt_span_of_ConstantAssigned : Prop :=
    forall stmts d, reported stmts d -> se_kind d = ConstantAssigned ->
      exists n asp csp e, se_names d = [n] /\ se_spans d = [asp; csp] /\
        latest (target_list stmts) n (asp, e) /\ latest (decl_list stmts) n csp /\
        In n (map fst (const_list stmts)).

  (* NonConstantWireRead r: the span of one occurrence (NamedWire node) of r in the value of a constant
     or in the initial value of a register *)
  Definition stmt_span_of_NonConstantWireRead : Prop :=
    forall stmts d, reported stmts d -> se_kind d = NonConstantWireRead ->
      exists r sp root, se_names d = [r] /\ se_spans d = [sp] /\ In (SEWire sp r) (enodes root) /\
        (In root (map snd (const_list stmts)) \/
         exists bank inp outp rn w rsp, register_of stmts bank inp outp rn w root rsp).

  (* UndeclaredWireRead r: the span of one occurrence of r in an expression of the program *)
  Definition stmt_span_of_UndeclaredWireRead : Prop :=
    forall stmts d, reported stmts d -> se_kind d = UndeclaredWireRead ->
      exists r sp root, se_names d = [r] /\ se_spans d = [sp] /\
        In root (all_exprs stmts) /\ In (SEWire sp r) (enodes root).

  (* InvalidRegisterBankName b: the name after "register" *)
  Definition stmt_span_of_InvalidRegisterBankName : Prop :=
    forall stmts d, reported stmts d -> se_kind d = InvalidRegisterBankName ->
      exists b sp regs, se_names d = [b] /\ se_spans d = [sp] /\ In (b, sp, regs) (bank_list stmts).

  (* DoubleAssignedRegisterWire o: [register; assignment]: the declaration of the register whose
     output is o, and the last assigned occurrence of o *)
  Definition stmt_span_of_DoubleAssignedRegisterWire : Prop :=
    forall stmts d, reported stmts d -> se_kind d = DoubleAssignedRegisterWire ->
      exists o rsp asp bank inp outp r w dd e, se_names d = [o] /\ se_spans d = [rsp; asp] /\
        register_of stmts bank inp outp r w dd rsp /\ o = out_signal outp r /\
        latest (target_list stmts) o (asp, e).

  (* DoubleDeclaredRegisterOutWire n: [old; new]: two register declarations that both have a signal n *)
  Definition stmt_span_of_DoubleDeclaredRegisterOutWire : Prop :=
    forall stmts d, reported stmts d -> se_kind d = DoubleDeclaredRegisterOutWire ->
      exists n old new, se_names d = [n] /\ se_spans d = [old; new] /\
        (exists bank inp outp r w dd, register_of stmts bank inp outp r w dd old /\
                                      (n = in_signal inp r \/ n = out_signal outp r)) /\
        (exists bank inp outp r w dd, register_of stmts bank inp outp r w dd new /\
                                      (n = in_signal inp r \/ n = out_signal outp r)).

  (* MismatchedRegisterDefaultWidths bank r: the initial value of register r of that bank *)
  Definition stmt_span_of_MismatchedRegisterDefaultWidths : Prop :=
    forall stmts d, reported stmts d -> se_kind d = MismatchedRegisterDefaultWidths ->
      exists bank r inp outp w dd rsp, se_names d = [bank; r] /\ se_spans d = [espan dd] /\
        register_of stmts bank inp outp r w dd rsp.

  (* UnsetWire n: a "wire" declaration of n - the only declaration of n; n is nowhere assigned *)
  Definition stmt_span_of_UnsetWire : Prop :=
    forall stmts d, reported stmts d -> se_kind d = UnsetWire ->
      exists n sp, se_names d = [n] /\ se_spans d = [sp] /\
        In (n, sp) (wire_list stmts) /\ latest (decl_list stmts) n sp /\
        ~ In n (map fst (target_list stmts)).

  (* UnsetRegisterInputWire n: the declaration of a register whose input is n; n is nowhere assigned *)
  Definition stmt_span_of_UnsetRegisterInputWire : Prop :=
    forall stmts d, reported stmts d -> se_kind d = UnsetRegisterInputWire ->
      exists n sp bank inp outp r w dd, se_names d = [n] /\ se_spans d = [sp] /\
        register_of stmts bank inp outp r w dd sp /\ n = in_signal inp r /\
        ~ In n (map fst (target_list stmts)).

  (* UndeclaredWireAssigned n: the last assigned occurrence of n *)
  Definition stmt_span_of_UndeclaredWireAssigned : Prop :=
    forall stmts d, reported stmts d -> se_kind d = UndeclaredWireAssigned ->
      exists n sp e, se_names d = [n] /\ se_spans d = [sp] /\ latest (target_list stmts) n (sp, e).

  (* MismatchedWireWidths n: the expression assigned to n (by the last assignment to n) *)
  Definition stmt_span_of_MismatchedWireWidths : Prop :=
    forall stmts d, reported stmts d -> se_kind d = MismatchedWireWidths ->
      exists n nsp e, se_names d = [n] /\ se_spans d = [espan e] /\ latest (target_list stmts) n (nsp, e).

  (* the kinds of the width checker and of the evaluator: a node of an expression of the program,
     as described by expr_fault / eval_fault *)
  Definition expr_kind (k : ekind) : bool :=
    match k with
    | MismatchedExprWidths | MismatchedMuxWidths | NonBooleanWidth | NoBitWidth | InvalidBitIndex
    | MisorderedBitIndexes | WireTooWide | NoMuxDefaultOption | MultipleMuxDefaultOption
    | UnreachableOptions => true
    | _ => false
    end.

  Definition stmt_span_of_expression_kinds : Prop :=
    forall stmts d, reported stmts d -> expr_kind (se_kind d) = true ->
      exists root, In root (all_exprs stmts) /\
        ((exists G C, expr_fault f G C root d) \/ eval_fault root d).

  (* the other kinds carry no span *)
  Definition unlocated_kind (k : ekind) : bool :=
    match k with
    | DuplicateRegister | UnsetBuiltinWire | UnsetUndeclaredWire | PartialFixedInput | WireLoop
    | RuntimeMismatchedWidths | DivisionByZero | Panicked | OutOfFuel => true
    | _ => false
    end.
  Definition stmt_unlocated_kinds : Prop :=
    forall stmts d, reported stmts d -> unlocated_kind (se_kind d) = true -> se_spans d = [].

  (* ==================================================================================== *)
  (* (d) user faults and the preamble                                                     *)
  (* ==================================================================================== *)
  (* what the built-in preamble is like: constant definitions only; no name defined twice; none is a
     wire of a built-in component; every value is a literal or the name of a literal constant of the
     preamble *)
  Definition is_literal (e : sexpr) : Prop := exists sp v, e = SEConst sp v.
  Definition preamble_like (pre : list sstmt) : Prop :=
    Forall (fun s => exists d, s = SSConst d) pre /\
    NoDup (map fst (decl_list pre)) /\
    (forall n, In n (map fst (decl_list pre)) -> ~ In n (fixed_names fixed)) /\
    (forall n e, In (n, e) (const_list pre) ->
       is_literal e \/ exists sp c lit, e = SEWire sp c /\ In (c, lit) (const_list pre) /\ is_literal lit).

  (* DRAFT (refuted): "every span of every diagnostic belongs to a statement of the user".  Redeclaring
     or assigning a constant of the preamble legitimately shows the preamble's definition as the
     second region ("After being declared here"; the renderer heads it "<builtin>:<line>") *)
  Definition stmt_user_faults_never_show_preamble : Prop :=
    forall pre user d sp, preamble_like pre -> reported (pre ++ user) d -> In sp (se_spans d) ->
      In sp (all_spans user).

  (* what is true: every span is recorded in a statement of the USER, except the SECOND span of a
     RedeclaredWire n / ConstantAssigned n diagnostic, which may be the preamble's definition of n;
     the first span - the offending construct - is always the user's *)
  Definition stmt_user_faults_not_attributed_to_preamble : Prop :=
    forall pre user d, preamble_like pre -> reported (pre ++ user) d ->
      (forall sp, In sp (se_spans d) -> In sp (all_spans user)) \/
      (exists n first second,
         (se_kind d = RedeclaredWire \/ se_kind d = ConstantAssigned) /\
         se_names d = [n] /\ se_spans d = [first; second] /\
         In first (all_spans user) /\ In (n, second) (decl_list pre)).
End SpanBuildSpec.

(* ====================================================================================== *)
(* (b), composed with the parser and the renderer                                          *)
(* ====================================================================================== *)
(* hclrs parses and builds  compiled preamble ++ user's file.  For every span sp of every diagnostic
   of the builder:
   - sp was recorded by the parser in one of the statements; it runs from the first byte of a token
     to the last byte of a (not earlier) token, is not empty and lies inside the text;
   - if the statement is one of the user's (it comes after the [preamble_statement_count] statements
     of the preamble) then sp lies in the user's text, show_region renders it headed by the user's
     file name and - when it lies on one line - as that line of the user's file, numbered from 1 in
     the user's text, with carets under exactly the span
     (SpanParserProofs.user_span_rendered_in_user_file_gen_holds) *)
Definition stmt_build_diagnostics_located : Prop :=
  forall f fixed is_lower is_upper uc utext fname stmts es,
    Forall scalar utext ->
    parse_text_sp uc doc_tiers (preamble_bytes ++ utf8 utext) = Some stmts ->
    build_program_sp f fixed is_lower is_upper stmts = SErr es ->
    let user := utf8 utext in
    let fc := new_from_data preamble_bytes user fname in
    exists toks, lex uc (preamble_bytes ++ user) = (toks, None) /\ tokens_ordered toks /\
    forall d sp, In d es -> In sp (se_spans d) ->
      (exists s, In s stmts /\ In sp (stmt_spans s)) /\
      token_aligned toks sp /\ (fst sp < snd sp)%nat /\
      (snd sp <= List.length (preamble_bytes ++ user))%nat /\
      forall s, In s (skipn preamble_statement_count stmts) -> In sp (stmt_spans s) ->
        exists us ue, fst sp = (List.length preamble_bytes + us)%nat /\
                      snd sp = (List.length preamble_bytes + ue)%nat /\
                      (us < ue)%nat /\ (ue <= List.length user)%nat /\
          (exists out, show_region fc (fst sp) (snd sp) = Some out /\
                       exists rest, out = RegionSpec.sp 5 ++ [45; 62; 32] ++ fname ++ [58] ++ rest) /\
          (count_lf (firstn (ue - us) (skipn us user)) = O ->
             show_region fc (fst sp) (snd sp) =
             Some (one_line_region fname (line_no user us) (line_text user us) (col_of user us) (ue - us))).

(* with (d): for the compiled preamble, every diagnostic of the builder has ALL its spans in the user's
   statements - hence rendered in the user's file as above - except that the second region of a
   RedeclaredWire / ConstantAssigned diagnostic may be the preamble's definition of the name *)
Definition stmt_build_diagnostics_in_user_file : Prop :=
  forall f uc utext stmts es,
    Forall scalar utext ->
    parse_text_sp uc doc_tiers (preamble_bytes ++ utf8 utext) = Some stmts ->
    build_program_sp f gen_fixed ascii_lower ascii_upper stmts = SErr es ->
    forall d, In d es ->
      (forall sp, In sp (se_spans d) ->
         exists s, In s (skipn preamble_statement_count stmts) /\ In sp (stmt_spans s)) \/
      (exists n first second,
         (se_kind d = RedeclaredWire \/ se_kind d = ConstantAssigned) /\
         se_names d = [n] /\ se_spans d = [first; second] /\
         (exists s, In s (skipn preamble_statement_count stmts) /\ In first (stmt_spans s)) /\
         (exists s, In s (firstn preamble_statement_count stmts) /\ In (n, second) (decls_of_stmt s))).
