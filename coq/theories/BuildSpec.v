(* C09 / C01 (scheduler) / C03, C07 (hypotheses discharged): what acceptance by Program::new
   guarantees, stated declaratively over the statement list. *)
From Coq Require Import Permutation.
From HclV Require Import Base Expr ExprSpec Machine Graph Build MachineSpec SchedSpec.
Open Scope string_scope.
Open Scope list_scope.
Open Scope N_scope.

(* ---- names a program introduces, with multiplicity ---------------------------------------- *)
Definition const_names (stmts : list stmt) : list string :=
  flat_map (fun s => match s with SConst d => map fst d | _ => [] end) stmts.
Definition wire_names (stmts : list stmt) : list string :=
  flat_map (fun s => match s with SWire d => map fst d | _ => [] end) stmts.
Definition assigned_names (stmts : list stmt) : list string :=
  flat_map (fun s => match s with SAssign a => flat_map fst a | _ => [] end) stmts.
Definition const_exprs (stmts : list stmt) : list (string * expr) :=
  flat_map (fun s => match s with SConst d => d | _ => [] end) stmts.

Inductive subseq {A : Type} : list A -> list A -> Prop :=
| sub_nil l : subseq [] l
| sub_take x a b : subseq a b -> subseq (x :: a) (x :: b)
| sub_skip x a b : subseq a b -> subseq a (x :: b).

(* what the built-in component table must satisfy (checked by computation on the table the
   compiled implementation really contains, Generated.gen_fixed) *)
Definition fixed_fn_ok (ff : fixed_fn) : bool :=
  match ff_out ff with
  | None => is_effect (ff_action ff) &&
            forallb (fun r => mem_str r (map fst (ff_ins ff))) (reads (ff_action ff))
  | Some (o, _) =>
      negb (is_effect (ff_action ff)) &&
      match written (ff_action ff) with Some w => String.eqb w o | None => false end &&
      forallb (fun r => mem_str r (map fst (ff_ins ff))) (reads (ff_action ff))
  end.
Definition fixed_table_ok (fixed : list fixed_fn) : bool := forallb fixed_fn_ok fixed.

Section BuildSpec.
  Variable f : features.
  Variable fixed : list fixed_fn.
  Variable is_lower : string -> bool.
  Variable is_upper : string -> bool.

  Notation build := (build_program f fixed is_lower is_upper).

  Definition fixed_all_names : list string :=
    flat_map (fun ff => map fst (ff_ins ff) ++
                        match ff_out ff with Some (n, _) => [n] | None => [] end) fixed.
  Definition fixed_output_names : list string :=
    flat_map (fun ff => match ff_out ff with Some (n, _) => [n] | None => [] end) fixed.

  (* ---- C01: the schedule Program::new produces is valid, whatever the table ---------------- *)
  Definition stmt_build_valid_schedule : Prop :=
    fixed_table_ok fixed = true ->
    forall stmts p, build stmts = Ok p -> valid_schedule (known0 p) (p_actions p) = true.

  (* the state-changing actions are the output-less components, in table order *)
  Definition stmt_build_effects_in_table_order : Prop :=
    fixed_table_ok fixed = true ->
    forall stmts p, build stmts = Ok p ->
      subseq (effect_part (p_actions p))
             (map ff_action (filter (fun ff => match ff_out ff with None => true | Some _ => false end) fixed)).

  (* ---- C09: acceptance implies that no driver fault is present ------------------------------- *)
  (* no name declared twice, none collides with a built-in wire *)
  Definition stmt_accept_declared_once : Prop :=
    forall stmts p, build stmts = Ok p ->
      NoDup (const_names stmts ++ wire_names stmts) /\
      forall n, In n (const_names stmts ++ wire_names stmts) -> ~ In n fixed_all_names.

  (* no name assigned twice; no assignment to a name that already has a driver *)
  Definition stmt_accept_assigned_once : Prop :=
    forall stmts p, build stmts = Ok p ->
      NoDup (assigned_names stmts) /\
      forall n, In n (assigned_names stmts) ->
        ~ In n fixed_output_names /\ ~ In n (const_names stmts) /\ ~ In n (all_outs (p_banks p)).

  (* every declared wire and every register-bank input is assigned *)
  Definition stmt_accept_wires_driven : Prop :=
    forall stmts p, build stmts = Ok p ->
      (forall n, In n (wire_names stmts) -> In n (assigned_names stmts)) /\
      (forall n, In n (all_ins (p_banks p)) -> In n (assigned_names stmts)).

  (* constants depend on constants only *)
  Definition stmt_accept_consts_closed : Prop :=
    forall stmts p, build stmts = Ok p ->
      forall n e r, In (n, e) (const_exprs stmts) -> In r (refs e) -> In r (const_names stmts).

  (* a rejection is never silent *)
  Definition stmt_reject_has_diag : Prop :=
    forall stmts es, build stmts = Err es -> es <> [].

  (* ---- hypotheses of C03 / C07 discharged for accepted programs ---------------------------- *)
  Hypothesis case_disjoint : forall c, is_lower c = true -> is_upper c = true -> False.

  Definition stmt_accept_banks_wf : Prop :=
    forall stmts p, build stmts = Ok p -> banks_wf (p_banks p).

  (* what the grammar guarantees about every expression of a parsed program *)
  Definition wf_stmt (s : stmt) : Prop :=
    match s with
    | SConst d => Forall (fun ne => wf_expr (snd ne)) d
    | SWire d => Forall (fun nw => wf_width (snd nw)) d
    | SAssign a => Forall (fun ne => wf_expr (snd ne)) a
    | SBank _ regs => Forall (fun r => wf_width (snd (fst r)) /\ wf_expr (snd r)) regs
    end.

  Definition fixed_widths_ok : Prop :=
    forall ff n w, In ff fixed -> (In (n, w) (ff_ins ff) \/ ff_out ff = Some (n, w)) -> w <= 128.

  (* the capstone: an accepted program is well typed in the sense C07_step_safe needs *)
  Definition stmt_accept_program_ok : Prop :=
    fixed_table_ok fixed = true -> fixed_widths_ok ->
    forall stmts p, Forall wf_stmt stmts -> build stmts = Ok p -> exists G, program_ok f G p.
End BuildSpec.
