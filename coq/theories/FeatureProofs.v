(* Proofs of FeatureSpec.v: the strictness options at program level. *)
From Coq Require Import Permutation.
From HclV Require Import Base Expr ExprSpec ExprRules ExprLemmas ExprProofs ExprRulesProofs Machine
                         Graph GraphSpec GraphProofs Build MachineSpec MachineProofs SchedSpec SchedProofs
                         BuildSpec Generated BuildProofs LoopSpec LoopProofs CompleteSpec CompleteProofs
                         FeatureSpec.
Open Scope string_scope.
Open Scope list_scope.
Open Scope N_scope.

(* ================================================================================== *)
(* Part 1: expression level - two accepting option sets accept together                *)
(* ================================================================================== *)
Lemma feat_le_join_l a b : feat_le a (feat_join a b).
Proof.
  unfold feat_le, feat_join. cbn [f_sbo f_swb f_rmd f_dmd f_duo].
  repeat split; intros ->; reflexivity.
Qed.

Lemma feat_le_join_r a b : feat_le b (feat_join a b).
Proof.
  unfold feat_le, feat_join. cbn [f_sbo f_swb f_rmd f_dmd f_duo].
  repeat split; intros ->; apply orb_true_r.
Qed.

Lemma feat_le_meet_l a b : feat_le (feat_meet a b) a.
Proof.
  unfold feat_le, feat_meet. cbn [f_sbo f_swb f_rmd f_dmd f_duo].
  repeat split; intros H; apply andb_true_iff in H; apply H.
Qed.

Lemma feat_le_meet_r a b : feat_le (feat_meet a b) b.
Proof.
  unfold feat_le, feat_meet. cbn [f_sbo f_swb f_rmd f_dmd f_duo].
  repeat split; intros H; apply andb_true_iff in H; apply H.
Qed.

Lemma feat_le_refl a : feat_le a a.
Proof. unfold feat_le. repeat split; intros H; exact H. Qed.

Lemma bin_width_join a b op wl wr w w' :
  bin_width a op wl wr w -> bin_width b op wl wr w' -> bin_width (feat_join a b) op wl wr w.
Proof.
  unfold bin_width, feat_join. cbn [f_sbo f_swb]. destruct (kind op).
  - intros [-> Ha] [_ Hb]. split; [reflexivity|]. intros H. apply orb_true_iff in H.
    destruct H as [H|H]; [exact (Ha H) | exact (Hb H)].
  - intros H _. exact H.
  - intros H _. exact H.
  - destruct (f_swb a), (f_swb b); cbn [orb]; intros H H'.
    + exact H.
    + exact H.
    + subst w. rewrite (wcombine_wmax _ _ _ H'). exact H'.
    + exact H.
Qed.

Lemma flag_join (x y c : bool) : x && c = false -> y && c = false -> (x || y) && c = false.
Proof. destruct x, y, c; cbn; intros H1 H2; try reflexivity; discriminate. Qed.

Section Join.
  Variables (a b : features) (G : string -> option width) (C : string -> option wval).
  Hypothesis HC : consts_ok G C.
  Notation m := (feat_join a b).

  Lemma always_true_join c w : check m G C c = Ok w ->
    always_true a C c = always_true m C c /\ always_true b C c = always_true m C c.
  Proof.
    intros Hc. unfold always_true.
    rewrite (eval_feat_indep a m G C c w (proj1 (proj2 (feat_le_join_l a b))) HC Hc).
    rewrite (eval_feat_indep b m G C c w (proj1 (proj2 (feat_le_join_r a b))) HC Hc).
    split; reflexivity.
  Qed.

  Lemma join_all :
    (forall e w w', check a G C e = Ok w -> check b G C e = Ok w' -> check m G C e = Ok w) /\
    (forall ar st s1 s2, check_arms a G C ar st = Ok s1 -> check_arms b G C ar st = Ok s2 ->
       check_arms m G C ar st = Ok s1 /\ s2 = s1) /\
    (forall x wl e1 e2, check_items a G C wl x = Ok e1 -> check_items b G C wl x = Ok e2 ->
       check_items m G C wl x = Ok e1 /\ e2 = e1).
  Proof.
    apply expr_arms_exprs_ind.
    - (* EConst *) intros c w w' H _. exact H.
    - (* EBin *)
      intros op l IHl r IHr w w' H H'.
      apply check_bin_inv in H. destruct H as (wl & wr & El & Er & Hbw).
      apply check_bin_inv in H'. destruct H' as (wl' & wr' & El' & Er' & Hbw').
      pose proof (proj1 (same_width_all a b G C) _ _ _ El El') as Hl. subst wl'.
      pose proof (proj1 (same_width_all a b G C) _ _ _ Er Er') as Hr. subst wr'.
      apply (check_bin_intro m G C op l r wl wr w (IHl _ _ El El') (IHr _ _ Er Er')).
      exact (bin_width_join a b op wl wr w w' Hbw Hbw').
    - (* EUn *)
      intros op e IHe w w' H H'.
      apply check_un_inv in H. destruct H as (w1 & E1 & ->).
      apply check_un_inv in H'. destruct H' as (w1' & E1' & _).
      cbn [check]. destruct op; cbn [un_width]; rewrite (IHe _ _ E1 E1'); reflexivity.
    - (* EMux *)
      intros ar IHa w w' H H'.
      apply check_mux_inv in H. destruct H as (st & Est & Hw & Hrmd & Hdmd & Hduo).
      apply check_mux_inv in H'. destruct H' as (st' & Est' & Hw' & Hrmd' & Hdmd' & Hduo').
      destruct (IHa _ _ _ Est Est') as [Em Heq]. subst st'.
      rewrite check_mux_eq. change (mkMS (Some Unl) false false false) with mux_init.
      rewrite Em. cbn [bind]. unfold feat_join. cbn [f_rmd f_dmd f_duo].
      rewrite (flag_join _ _ _ Hrmd Hrmd'), (flag_join _ _ _ Hdmd Hdmd'), (flag_join _ _ _ Hduo Hduo'), Hw.
      reflexivity.
    - (* EWire *) intros n w w' H _. exact H.
    - (* ESlice *)
      intros e IHe lo hi w w' H H'.
      pose proof H as H0. pose proof H' as H0'.
      apply check_slice_inv in H0. destruct H0 as (_ & _ & w1 & E1 & _).
      apply check_slice_inv in H0'. destruct H0' as (_ & _ & w1' & E1' & _).
      cbn [check] in H |- *. destruct (hi <? lo); [exact H|].
      rewrite E1 in H. cbn [bind] in H. rewrite (IHe _ _ E1 E1'). cbn [bind]. exact H.
    - (* ECat *)
      intros l IHl r IHr w w' H H'.
      pose proof H as H0. pose proof H' as H0'.
      apply check_cat_inv in H0. destruct H0 as (lw & rw & El & Er & _).
      apply check_cat_inv in H0'. destruct H0' as (lw' & rw' & El' & Er' & _).
      cbn [check] in H |- *. rewrite El in H. cbn [bind] in H. rewrite Er in H. cbn [bind] in H.
      rewrite (IHl _ _ El El'). cbn [bind]. rewrite (IHr _ _ Er Er'). cbn [bind]. exact H.
    - (* EIn *)
      intros e IHe items IHi w w' H H'.
      apply check_in_inv in H. destruct H as (-> & wl & El & Ei).
      apply check_in_inv in H'. destruct H' as (_ & wl' & El' & Ei').
      pose proof (proj1 (same_width_all a b G C) _ _ _ El El') as Hl. subst wl'.
      rewrite check_in_eq. rewrite (IHe _ _ El El'). cbn [bind].
      destruct (IHi _ _ _ Ei Ei') as [Em _]. rewrite Em. reflexivity.
    - (* ANil *)
      intros st s1 s2 H H'. cbn [check_arms] in H, H' |- *.
      injection H as <-. injection H' as <-. split; reflexivity.
    - (* ACons *)
      intros c IHc v IHv rest IHrest st s1 s2 H H'.
      apply check_arms_cons_inv in H. destruct H as (wc & wv & Ec & Ev & Hrest).
      apply check_arms_cons_inv in H'. destruct H' as (wc' & wv' & Ec' & Ev' & Hrest').
      pose proof (IHc _ _ Ec Ec') as Emc. pose proof (IHv _ _ Ev Ev') as Emv.
      destruct (always_true_join c wc Emc) as [Ata Atb].
      pose proof (proj1 (same_width_all a b G C) _ _ _ Ev Ev') as Hv. subst wv'.
      rewrite Ata in Hrest. rewrite Atb in Hrest'.
      destruct (IHrest _ _ _ Hrest Hrest') as [Em Heq].
      split; [|exact Heq].
      rewrite check_arms_cons_eq. rewrite Emc, Emv. cbn [bind]. exact Em.
    - (* XNil *)
      intros wl e1 e2 H H'. cbn [check_items] in H, H' |- *.
      injection H as <-. injection H' as <-. split; reflexivity.
    - (* XCons *)
      intros e IHe rest IHrest wl e1 e2 H H'.
      apply check_items_cons_inv in H. destruct H as (wi & more & Ei & Em & ->).
      apply check_items_cons_inv in H'. destruct H' as (wi' & more' & Ei' & Em' & ->).
      pose proof (proj1 (same_width_all a b G C) _ _ _ Ei Ei') as Hi. subst wi'.
      destruct (IHrest _ _ _ Em Em') as [Emm ->].
      split; [|reflexivity].
      rewrite check_items_cons_eq. rewrite (IHe _ _ Ei Ei'). cbn [bind]. rewrite Emm. cbn [bind].
      destruct (wcombine wl wi); reflexivity.
  Qed.

  Lemma check_join e w w' :
    check a G C e = Ok w -> check b G C e = Ok w' -> check m G C e = Ok w.
  Proof. apply (proj1 join_all). Qed.
End Join.

(* ================================================================================== *)
(* Part 2: program level - a third option set accepts what two accepting sets accept   *)
(* ================================================================================== *)
Lemma consts_ok_cenv vals :
  (forall k v, lookup vals k = Some v -> fits v) -> consts_ok (cenv vals) (lookup vals).
Proof. intros Hf n v Hn. unfold cenv. rewrite Hn. split; [reflexivity | apply (Hf n v Hn)]. Qed.

Lemma eval_consts_noerr f cs order vals errs vals' :
  eval_consts f cs order vals errs = (vals', []) -> errs = [].
Proof. intros H. destruct (eval_consts_complete f cs _ _ _ _ _ H eq_refl) as [H1 _]. exact H1. Qed.

Lemma eval_fits f G C rho e w v :
  wf_expr e -> env_ok G rho -> check f G C e = Ok w -> eval f rho e = Ok v -> fits v.
Proof.
  intros Hwf Henv Hc He.
  pose proof (eval_sound f G C rho e w Hwf Henv Hc) as Hs. rewrite He in Hs. destruct Hs as [Hw Hb].
  destruct (check_width f G C rho e w Hwf Henv Hc) as [_ [_ Hwc]].
  unfold fits. rewrite Hw. split; [exact Hb | exact Hwc].
Qed.

Section Transfer.
  (* a, b: two option sets under which the program is accepted; m: the set to transfer to *)
  Variables (a b m : features).
  Hypothesis HJ : forall G C e w w',
    wf_expr e -> consts_ok G C -> check a G C e = Ok w -> check b G C e = Ok w' ->
    check m G C e = Ok w /\ eval m C e = eval a C e.

  (* ---- constants ------------------------------------------------------------------------------ *)
  Lemma eval_consts_join cs : (forall n e, lookup cs n = Some e -> wf_expr e) ->
    forall order vals errs va vb,
      eval_consts a cs order vals errs = (va, []) -> eval_consts b cs order vals errs = (vb, []) ->
      (forall k v, lookup vals k = Some v -> fits v) ->
      eval_consts m cs order vals errs = (va, []) /\ vb = va.
  Proof.
    intros Hcs. induction order as [|n r IH]; intros vals errs va vb Ha Hb Hfit; cbn [eval_consts] in *.
    - split; [exact Ha | congruence].
    - destruct (lookup cs n) as [e|] eqn:El.
      2:{ injection Ha as Hx Ha. apply app_eq_nil in Ha. destruct Ha as [_ Ha]. discriminate Ha. }
      fold (cenv vals) in Ha, Hb |- *.
      pose proof (Hcs n e El) as Hwf. pose proof (consts_ok_cenv vals Hfit) as HC.
      pose proof (cenv_env_ok vals Hfit) as Henv.
      destruct (check a (cenv vals) (lookup vals) e) as [wa|ea] eqn:Eca.
      2:{ apply eval_consts_noerr in Ha. apply app_eq_nil in Ha. destruct Ha as [_ Ha].
          apply check_err in Eca. contradiction. }
      destruct (check b (cenv vals) (lookup vals) e) as [wb|eb] eqn:Ecb.
      2:{ apply eval_consts_noerr in Hb. apply app_eq_nil in Hb. destruct Hb as [_ Hb].
          apply check_err in Ecb. contradiction. }
      destruct (HJ _ _ _ _ _ Hwf HC Eca Ecb) as [Ecm Eem]. rewrite Ecm, Eem.
      destruct (features_same_value a b (cenv vals) (lookup vals) (lookup vals) e wa wb Hwf Henv Eca Ecb)
        as [_ Esame].
      rewrite <- Esame in Hb.
      destruct (eval a (lookup vals) e) as [v|es] eqn:Eea.
      + apply (IH _ _ _ _ Ha Hb). intros k v0 Hk. rewrite lookup_upd in Hk.
        destruct (String.eqb k n); [|apply (Hfit k v0 Hk)]. injection Hk as <-.
        apply (eval_fits a (cenv vals) (lookup vals) (lookup vals) e wa v Hwf Henv Eca Eea).
      + apply eval_consts_noerr in Ha. apply app_eq_nil in Ha. destruct Ha as [_ Ha].
        apply LoopProofs.eval_err in Eea. destruct Eea as [Eea _]. contradiction.
  Qed.

  Lemma resolve_join cs ca cb : (forall n e, lookup cs n = Some e -> wf_expr e) ->
    resolve_constants a cs = Ok ca -> resolve_constants b cs = Ok cb ->
    resolve_constants m cs = Ok ca /\ cb = ca.
  Proof.
    intros Hcs Ha Hb. unfold resolve_constants in *.
    destruct (gsort (const_graph cs)) as [[order|cyc]|es]; cbn [bind] in *;
      [|unfold err1 in Ha; discriminate Ha | discriminate Ha].
    destruct (eval_consts a cs order [] []) as [va ea] eqn:Ea.
    destruct (eval_consts b cs order [] []) as [vb eb] eqn:Eb.
    destruct ea as [|x ea]; [|discriminate Ha]. destruct eb as [|y eb]; [|discriminate Hb].
    injection Ha as <-. injection Hb as <-.
    destruct (eval_consts_join cs Hcs order [] [] va vb Ea Eb) as [Em Heq].
    { intros k v Hk. discriminate Hk. }
    rewrite Em. split; [reflexivity | exact Heq].
  Qed.

  (* ---- register banks --------------------------------------------------------------------------- *)
  Lemma step3_register_join s consts bn inp outp acc r :
    (forall k v, lookup consts k = Some v -> fits v) -> wf_expr (snd r) ->
    t_errs (r_t (step3_register a s consts bn inp outp acc r)) = [] ->
    t_errs (r_t (step3_register b s consts bn inp outp acc r)) = [] ->
    step3_register m s consts bn inp outp acc r = step3_register a s consts bn inp outp acc r /\
    step3_register b s consts bn inp outp acc r = step3_register a s consts bn inp outp acc r.
  Proof.
    destruct acc as [[t sigs] defaults]. destruct r as [[rname w] dflt]. cbn [snd]. intros Hfit Hwf.
    pose proof (consts_ok_cenv consts Hfit) as HC. pose proof (cenv_env_ok consts Hfit) as Henv.
    unfold step3_register. cbv beta iota zeta.
    match goal with
    | |- context [match ?pre with [] => _ | _ :: _ => _ end] => destruct pre as [|e0 pre0]
    end; [|intros _ _; split; reflexivity].
    fold (cenv consts).
    destruct (check a (cenv consts) (lookup consts) dflt) as [wa|ea] eqn:Eca.
    2:{ cbn [r_t fst t_errs]. intros He _. apply app_eq_nil in He. destruct He as [_ He].
        apply check_err in Eca. contradiction. }
    destruct (check b (cenv consts) (lookup consts) dflt) as [wb|eb] eqn:Ecb.
    2:{ cbn [r_t fst t_errs]. intros _ He. apply app_eq_nil in He. destruct He as [_ He].
        apply check_err in Ecb. contradiction. }
    destruct (HJ _ _ _ _ _ Hwf HC Eca Ecb) as [Ecm Eem]. rewrite Ecm, Eem.
    destruct (features_same_value a b (cenv consts) (lookup consts) (lookup consts) dflt wa wb Hwf Henv Eca Ecb)
      as [_ Esame].
    rewrite <- Esame.
    destruct (eval a (lookup consts) dflt) as [v|es] eqn:Eea; intros _ _; split; reflexivity.
  Qed.

  Lemma step3_regs_join s consts bn inp outp :
    (forall k v, lookup consts k = Some v -> fits v) ->
    forall regs acc, (forall r, In r regs -> wf_expr (snd r)) ->
      t_errs (r_t (fold_left (step3_register a s consts bn inp outp) regs acc)) = [] ->
      t_errs (r_t (fold_left (step3_register b s consts bn inp outp) regs acc)) = [] ->
      fold_left (step3_register m s consts bn inp outp) regs acc =
      fold_left (step3_register a s consts bn inp outp) regs acc /\
      fold_left (step3_register b s consts bn inp outp) regs acc =
      fold_left (step3_register a s consts bn inp outp) regs acc.
  Proof.
    intros Hfit. induction regs as [|r regs IH]; intros acc Hwf Hea Heb; cbn [fold_left] in *.
    - split; reflexivity.
    - assert (Ha1 : t_errs (r_t (step3_register a s consts bn inp outp acc r)) = []).
      { apply (fold_errs_grow (fun x => t_errs (r_t x)) (step3_register a s consts bn inp outp)
                              (step3_register_errs a s consts bn inp outp) regs _ Hea). }
      assert (Hb1 : t_errs (r_t (step3_register b s consts bn inp outp acc r)) = []).
      { apply (fold_errs_grow (fun x => t_errs (r_t x)) (step3_register b s consts bn inp outp)
                              (step3_register_errs b s consts bn inp outp) regs _ Heb). }
      destruct (step3_register_join s consts bn inp outp acc r Hfit (Hwf r (or_introl eq_refl)) Ha1 Hb1)
        as [Jm Jb].
      rewrite Jm. rewrite Jb in Heb |- *.
      apply IH; [intros r0 H0; apply Hwf; right; exact H0 | exact Hea | exact Heb].
  Qed.

  Lemma step3_bank_join il iu s consts t bank :
    (forall k v, lookup consts k = Some v -> fits v) ->
    (forall r, In r (snd bank) -> wf_expr (snd r)) ->
    t_errs (step3_bank a il iu s consts t bank) = [] ->
    t_errs (step3_bank b il iu s consts t bank) = [] ->
    step3_bank m il iu s consts t bank = step3_bank a il iu s consts t bank /\
    step3_bank b il iu s consts t bank = step3_bank a il iu s consts t bank.
  Proof.
    destruct bank as [name regs]. cbn [snd]. intros Hfit Hwf.
    unfold step3_bank. cbv beta iota.
    destruct (utf8_chars name "") as [|inp [|outp [|x l]]]; try (intros _ _; split; reflexivity).
    destruct (negb (il inp) || negb (iu outp)); [intros _ _; split; reflexivity|].
    match goal with
    | |- context [fold_left (step3_register a s consts name inp outp) regs ?A0] =>
        pose proof (step3_regs_join s consts name inp outp Hfit regs A0 Hwf) as Hj
    end.
    revert Hj.
    match goal with
    | |- context [fold_left (step3_register a s consts name inp outp) regs ?A0] =>
        destruct (fold_left (step3_register a s consts name inp outp) regs A0) as [[ta sa] da];
        destruct (fold_left (step3_register b s consts name inp outp) regs A0) as [[tb sb] db]
    end.
    cbn [r_t fst t_errs]. intros Hj Hea Heb. destruct (Hj Hea Heb) as [Jm Jb].
    rewrite Jm. injection Jb as -> -> ->. split; reflexivity.
  Qed.

  Lemma T3_join il iu s consts :
    (forall k v, lookup consts k = Some v -> fits v) ->
    forall banks t, (forall bk r, In bk banks -> In r (snd bk) -> wf_expr (snd r)) ->
      t_errs (fold_left (step3_bank a il iu s consts) banks t) = [] ->
      t_errs (fold_left (step3_bank b il iu s consts) banks t) = [] ->
      fold_left (step3_bank m il iu s consts) banks t = fold_left (step3_bank a il iu s consts) banks t /\
      fold_left (step3_bank b il iu s consts) banks t = fold_left (step3_bank a il iu s consts) banks t.
  Proof.
    intros Hfit. induction banks as [|bk banks IH]; intros t Hwf Hea Heb; cbn [fold_left] in *.
    - split; reflexivity.
    - assert (Hgrow : forall f t0 b0, t_errs (step3_bank f il iu s consts t0 b0) = [] -> t_errs t0 = []).
      { intros f t0 [nm rg] H. apply step3_bank_inv in H. apply H. }
      assert (Ha1 : t_errs (step3_bank a il iu s consts t bk) = [])
        by (apply (fold_errs_grow t_errs (step3_bank a il iu s consts) (Hgrow a) banks _ Hea)).
      assert (Hb1 : t_errs (step3_bank b il iu s consts t bk) = [])
        by (apply (fold_errs_grow t_errs (step3_bank b il iu s consts) (Hgrow b) banks _ Heb)).
      destruct (step3_bank_join il iu s consts t bk Hfit (fun r Hr => Hwf bk r (or_introl eq_refl) Hr) Ha1 Hb1)
        as [Jm Jb].
      rewrite Jm. rewrite Jb in Heb |- *.
      apply IH; [intros bk0 r H0 H1; apply (Hwf bk0 r (or_intror H0) H1) | exact Hea | exact Heb].
  Qed.
End Transfer.

(* ---- built-in components: the pass depends on the options only through the evaluation of the
        enable expression of a partially connected component ------------------------------------- *)
Lemma preprocess_one_ext a m consts assigns acc ff :
  (forall n e, lookup assigns n = Some e -> eval m (lookup consts) e = eval a (lookup consts) e) ->
  preprocess_one m consts assigns acc ff = preprocess_one a consts assigns acc ff.
Proof.
  intros Hev. destruct acc as [[[g by_out] no_out] errs]. unfold preprocess_one. cbv beta iota zeta.
  destruct (filter (fun n => negb (has assigns n)) (fixed_in_names ff)) as [|x l]; [reflexivity|].
  destruct (ff_mandatory ff); [reflexivity|].
  destruct (ff_enable ff) as [en|]; [|reflexivity].
  destruct (lookup assigns en) as [ee|] eqn:El; [|reflexivity].
  rewrite (Hev en ee El). reflexivity.
Qed.

Lemma preprocess_ext a m consts assigns :
  (forall n e, lookup assigns n = Some e -> eval m (lookup consts) e = eval a (lookup consts) e) ->
  forall l acc, fold_left (preprocess_one m consts assigns) l acc = fold_left (preprocess_one a consts assigns) l acc.
Proof.
  intros Hev. induction l as [|ff l IH]; intros acc; cbn [fold_left]; [reflexivity|].
  rewrite (preprocess_one_ext a m consts assigns acc ff Hev). apply IH.
Qed.

(* when no diagnostic is produced the result does not depend on the options at all *)
Lemma preprocess_one_indep a b consts assigns acc ff :
  snd (preprocess_one a consts assigns acc ff) = [] -> snd (preprocess_one b consts assigns acc ff) = [] ->
  preprocess_one b consts assigns acc ff = preprocess_one a consts assigns acc ff.
Proof.
  destruct acc as [[[g by_out] no_out] errs]. intros Ha Hb.
  destruct (preprocess_one_cases2 a _ _ _ _ _ _ _ Ha) as [_ [[[i [Hi Hi']] Ca]|[Hall [[Ho Ca]|[o [w [Ho Ca]]]]]]];
    destruct (preprocess_one_cases2 b _ _ _ _ _ _ _ Hb) as [_ [[[j [Hj Hj']] Cb]|[Hall' [[Ho' Cb]|[o' [w' [Ho' Cb]]]]]]];
    rewrite Ca, Cb; try reflexivity;
    try (rewrite (Hall' i Hi) in Hi'; discriminate Hi');
    try (rewrite (Hall j Hj) in Hj'; discriminate Hj');
    try (rewrite Ho in Ho'; discriminate Ho').
  rewrite Ho in Ho'. injection Ho' as <- <-. reflexivity.
Qed.

Lemma preprocess_indep a b consts assigns : forall l acc ra rb,
  fold_left (preprocess_one a consts assigns) l acc = ra -> snd ra = [] ->
  fold_left (preprocess_one b consts assigns) l acc = rb -> snd rb = [] ->
  rb = ra.
Proof.
  induction l as [|ff l IH]; intros acc ra rb Ha Hea Hb Heb; cbn [fold_left] in *.
  - congruence.
  - assert (Ha1 : snd (preprocess_one a consts assigns acc ff) = []).
    { apply (fold_errs_grow snd (preprocess_one a consts assigns) (preprocess_one_errs a consts assigns) l).
      rewrite Ha. exact Hea. }
    assert (Hb1 : snd (preprocess_one b consts assigns acc ff) = []).
    { apply (fold_errs_grow snd (preprocess_one b consts assigns) (preprocess_one_errs b consts assigns) l).
      rewrite Hb. exact Heb. }
    rewrite (preprocess_one_indep a b consts assigns acc ff Ha1 Hb1) in Hb.
    apply (IH _ _ _ Ha Hea Hb Heb).
Qed.

(* ---- the scheduler ------------------------------------------------------------------------------ *)
Lemma schedule_complete f widths consts assigns by_out decls : forall order new,
  Forall2 (emitted f widths consts assigns by_out) order new ->
  forall acts, schedule f widths consts assigns by_out decls order acts [] [] = (acts ++ new, [], []).
Proof.
  intros order new HF. induction HF as [|n act order new Hem HF IH]; intros acts; cbn [schedule].
  - rewrite app_nil_r. reflexivity.
  - destruct Hem as [[e [w [we [Hl [Hw [Hc [Hcomb ->]]]]]]]|[Hl [ff [Hb ->]]]].
    + rewrite Hl, Hw, Hc. destruct (wcombine w we); [|contradiction Hcomb; reflexivity].
      cbn [app]. rewrite IH, <- app_assoc. reflexivity.
    + rewrite Hl, Hb. rewrite IH, <- app_assoc. reflexivity.
Qed.

Lemma build_ok_intro f fixed il iu stmts consts acts :
  let s := fold_left (step1 fixed) stmts (init1 fixed) in
  let t := T3 f il iu s consts in
  s_errs s = [] -> const_assigned_errors s = [] -> const_ref_errors s = [] ->
  resolve_constants f (s_consts s) = Ok consts ->
  t_errs t = [] ->
  unset_errors s t (fold_left (fun l x => add_set x l) (all_in_names (t_banks t)) (s_needed s)) = [] ->
  assignments_to_actions f fixed (widths_of s t consts) consts (s_assigns s)
                         (all_out_names (t_banks t) ++ t_defaulted t ++ map fst consts) (s_decls s) = Ok acts ->
  build_program f fixed il iu stmts = Ok (mkProgram consts acts (t_banks t) (t_defaulted t) (t_types t)).
Proof.
  intros s t H1 H2 H3 H4 H5 H6 H7. unfold build_program. fold s. rewrite H1, H2, H3. cbn [app].
  rewrite H4. cbn [bind]. fold (T3 f il iu s consts). fold t. rewrite H5, H6. cbn [app].
  fold (widths_of s t consts). rewrite H7. reflexivity.
Qed.

Section BuildTransfer.
  Variables (a b m : features).
  Hypothesis HJ : forall G C e w w',
    wf_expr e -> consts_ok G C -> check a G C e = Ok w -> check b G C e = Ok w' ->
    check m G C e = Ok w /\ eval m C e = eval a C e.
  Variable fixed : list fixed_fn.
  Variables il iu : string -> bool.
  Hypothesis Hok : fixed_table_ok fixed = true.
  Hypothesis Hok2 : fixed_table_ok2 fixed = true.
  Hypothesis Hwok : fixed_widths_ok fixed.

  Lemma emitted_join W C A by_out :
    consts_ok (lookup W) (lookup C) -> (forall n e, lookup A n = Some e -> wf_expr e) ->
    forall order new newb,
      Forall2 (emitted a W C A by_out) order new -> Forall2 (emitted b W C A by_out) order newb ->
      Forall2 (emitted m W C A by_out) order new /\ newb = new.
  Proof.
    intros HC HwfA order new newb HF. revert newb.
    induction HF as [|n act order new Hem HF IH]; intros newb HFb; inversion HFb as [|? actb ? newb' Hemb HFb']; subst.
    - split; [constructor | reflexivity].
    - destruct (IH _ HFb') as [I1 ->].
      destruct Hem as [[e [w [we [Hl [Hw [Hc [Hcomb ->]]]]]]]|[Hl [ff [Hb ->]]]];
        destruct Hemb as [[e' [w' [we' [Hl' [Hw' [Hc' [Hcomb' ->]]]]]]]|[Hl' [ff' [Hb' ->]]]];
        try (rewrite Hl in Hl'; discriminate Hl').
      + rewrite Hl in Hl'. injection Hl' as <-. rewrite Hw in Hw'. injection Hw' as <-.
        destruct (HJ _ _ _ _ _ (HwfA n e Hl) HC Hc Hc') as [Hcm _].
        split; [|reflexivity]. constructor; [|exact I1].
        left. exists e, w, we. repeat split; assumption.
      + rewrite Hb in Hb'. injection Hb' as <-.
        split; [|reflexivity]. constructor; [|exact I1].
        right. split; [exact Hl|]. exists ff. split; [exact Hb | reflexivity].
  Qed.

  Theorem build_transfer stmts p p' :
    Forall wf_stmt stmts ->
    build_program a fixed il iu stmts = Ok p -> build_program b fixed il iu stmts = Ok p' ->
    build_program m fixed il iu stmts = Ok p /\ p' = p.
  Proof.
    intros Hwf Ha Hb.
    pose proof Hok2 as Hok2'. unfold fixed_table_ok2 in Hok2'. apply andb_true_iff in Hok2'.
    destruct Hok2' as [Hsok Htok].
    pose proof (build_valid_schedule_sched a fixed il iu Hok Hsok stmts p Ha) as Hvs.
    destruct (build_ok_inv a fixed il iu stmts p Ha) as [He [Hca [Hcr [ca [Hrca [Htea [Huna [actsa [Hactsa Hp]]]]]]]]].
    destruct (build_ok_inv b fixed il iu stmts p' Hb) as [_ [_ [_ [cb [Hrcb [Hteb [Hunb [actsb [Hactsb Hp']]]]]]]]].
    set (s := fold_left (step1 fixed) stmts (init1 fixed)) in *.
    assert (Hwfc : forall n e, lookup (s_consts s) n = Some e -> wf_expr e).
    { intros n e Hl. apply lookup_In in Hl. apply (S1_consts_iff fixed il iu stmts n e He) in Hl.
      apply (wf_const stmts n e Hwf Hl). }
    destruct (resolve_join a b m HJ (s_consts s) ca cb Hwfc Hrca Hrcb) as [Hrcm ->].
    assert (Hfit : forall k v, lookup ca k = Some v -> fits v).
    { intros k v Hk. apply lookup_In in Hk. apply (resolve_constants_fits a (s_consts s) ca Hwfc Hrca k v Hk). }
    assert (Hwfb : forall bk r, In bk (s_banks s) -> In r (snd bk) -> wf_expr (snd r)).
    { intros [bn regs] [[rn w] d] H1 H2. cbn [snd] in *. apply (wf_bank fixed stmts bn regs rn w d Hwf H1 H2). }
    destruct (T3_join a b m HJ il iu s ca Hfit (s_banks s) (mkSt3 [] [] (s_types s) [] [] []) Hwfb Htea Hteb)
      as [Jm Jb].
    rewrite Jb in Hunb, Hactsb, Hp'.
    fold (T3 a il iu s ca) in *. set (t := T3 a il iu s ca) in *.
    set (W := widths_of s t ca) in *. set (A := s_assigns s) in *.
    set (known := all_out_names (t_banks t) ++ t_defaulted t ++ map fst ca) in *.
    destruct (a2a_inv _ _ _ _ _ _ _ _ Hactsa) as [g [by_out [no_out [order [sacts [Hfa [Hta [Hsa Eacts]]]]]]]].
    destruct (a2a_inv _ _ _ _ _ _ _ _ Hactsb) as [g' [by' [no' [order' [sactsb [Hfb [Htb [Hsb Eactsb]]]]]]]].
    pose proof (preprocess_indep a b ca A fixed _ _ _ Hfa eq_refl Hfb eq_refl) as Hpre.
    injection Hpre as -> -> ->.
    rewrite Hta in Htb. injection Htb as <-.
    destruct (schedule_ok a _ _ _ _ _ _ _ _ _ _ Hsa) as [_ [_ [new [Hn HFa]]]]. cbn [app] in Hn. subst sacts.
    destruct (schedule_ok b _ _ _ _ _ _ _ _ _ _ Hsb) as [_ [_ [newb [Hnb HFb]]]]. cbn [app] in Hnb. subst sactsb.
    subst actsa actsb.
    (* the constants are declared with their own widths *)
    assert (HCW : consts_ok (lookup W) (lookup ca)).
    { assert (Hcw : forall n v, In (n, v) ca -> wf_width (wd v)).
      { intros n v Hin. apply (resolve_constants_fits a (s_consts s) ca Hwfc Hrca n v Hin). }
      rewrite Hp in Hvs.
      pose proof (typing_core a fixed il iu stmts ca Hsok Htok Hwok Hwf He Hrca Htea Hcw _ Hactsa Hvs) as Hpok.
      destruct Hpok as [_ [_ [_ [Hc4 _]]]]. cbn [p_consts] in Hc4.
      intros n v Hn. apply lookup_In in Hn. apply (Hc4 n v Hn). }
    assert (HwfA : forall n e, lookup A n = Some e -> wf_expr e).
    { intros n e Hl. apply (wf_assign fixed stmts n e Hwf Hl). }
    destruct (emitted_join W ca A by_out HCW HwfA order new newb HFa HFb) as [HFm ->].
    (* every assigned name is scheduled, hence its expression was checked under a and under b *)
    destruct (fixed_sched_ok_inv fixed Hsok) as [Tins [Touts _]].
    assert (HA1 : NoDup (map fst A)) by apply S1_assigns_NoDup.
    assert (HA2 : forall n, has A n = true -> ~ In n (fixed_out_names fixed)).
    { intros n Hn. apply (S1_assigns_has fixed il iu) in Hn.
      destruct (S1_assigned_fresh fixed il iu stmts He) as [_ Hfr]. apply Hfr. exact Hn. }
    destruct (assign_graph_facts A known HA1) as [G1 [G2 G3]].
    assert (Hnoe : forall o, In o (fixed_out_names fixed) -> forall x, ~ gedge (assign_graph A known) x o).
    { intros o Ho x Hxo. apply G2 in Hxo. destruct Hxo as [e [Hoe _]].
      apply (HA2 o); [|exact Ho]. apply has_In. apply (in_map fst) in Hoe. exact Hoe. }
    destruct (preprocess_graph a ca A fixed _ _ _ _ _ _ G1 Touts Tins Hnoe Hfa) as [P1 [_ [P3 _]]].
    destruct (order_valid string String.eqb String.eqb_eq g order P1 Hta) as [_ [L2 _]].
    assert (Hev : forall n e, lookup A n = Some e -> eval m (lookup ca) e = eval a (lookup ca) e).
    { intros n e Hl.
      assert (Hin : In n order).
      { apply L2. apply P3. apply G3. apply lookup_In in Hl. apply (in_map fst) in Hl. exact Hl. }
      destruct (Forall2_In_l _ _ _ _ HFa Hin) as [act [_ Hem]].
      destruct (Forall2_In_l _ _ _ _ HFb Hin) as [actb [_ Hemb]].
      destruct Hem as [[e0 [w [we [Hl0 [_ [Hc _]]]]]]|[Hl0 _]]; [|rewrite Hl in Hl0; discriminate Hl0].
      destruct Hemb as [[e1 [w1 [we1 [Hl1 [_ [Hc1 _]]]]]]|[Hl1 _]]; [|rewrite Hl in Hl1; discriminate Hl1].
      rewrite Hl in Hl0, Hl1. injection Hl0 as <-. injection Hl1 as <-.
      apply (HJ _ _ _ _ _ (HwfA n e Hl) HCW Hc Hc1). }
    assert (Hactsm : assignments_to_actions m fixed W ca A known (s_decls s) = Ok (new ++ map ff_action no_out)).
    { unfold assignments_to_actions. rewrite (preprocess_ext a m ca A Hev fixed _), Hfa. rewrite Hta. cbn [bind].
      rewrite (schedule_complete m W ca A by_out (s_decls s) order new HFm []). cbn [app]. reflexivity. }
    split; [|rewrite Hp, Hp'; reflexivity].
    rewrite Hp.
    assert (Htm : T3 m il iu s ca = t) by exact Jm.
    pose proof (build_ok_intro m fixed il iu stmts ca (new ++ map ff_action no_out)) as Hintro.
    cbv zeta in Hintro. fold s in Hintro. rewrite Htm in Hintro.
    apply Hintro; assumption.
  Qed.
End BuildTransfer.

(* ================================================================================== *)
(* Part 3: the statements about acceptance                                             *)
(* ================================================================================== *)
Section Acceptance.
  Variables il iu : string -> bool.
  Notation build f := (build_program f gen_fixed il iu).

  (* ---- 2 ---------------------------------------------------------------------------------------- *)
  Theorem program_same_under_two_sets_holds : stmt_program_same_under_two_sets il iu.
  Proof.
    intros a b stmts p p' Hwf Ha Hb.
    assert (HJ : forall G C e w w', wf_expr e -> consts_ok G C -> check a G C e = Ok w -> check b G C e = Ok w' ->
                                    check a G C e = Ok w /\ eval a C e = eval a C e).
    { intros G C e w w' _ _ H _. split; [exact H | reflexivity]. }
    destruct (build_transfer a b a HJ gen_fixed il iu gen_fixed_ok gen_fixed_ok2 gen_fixed_widths_ok
                             stmts p p' Hwf Ha Hb) as [_ Heq].
    symmetry. exact Heq.
  Qed.

  (* ---- 1 ---------------------------------------------------------------------------------------- *)
  Theorem program_monotone_holds : stmt_program_monotone il iu.
  Proof.
    intros a b stmts p Hab Hwf Hb.
    assert (HJ : forall G C e w w', wf_expr e -> consts_ok G C -> check b G C e = Ok w -> check b G C e = Ok w' ->
                                    check a G C e = Ok w /\ eval a C e = eval b C e).
    { intros G C e w w' Hwfe HC H _. split.
      - apply (features_monotone a b G C e w Hwfe HC Hab H).
      - apply (eval_feat_indep a b G C e w (proj1 (proj2 Hab)) HC H). }
    destruct (build_transfer b b a HJ gen_fixed il iu gen_fixed_ok gen_fixed_ok2 gen_fixed_widths_ok
                             stmts p p Hwf Hb Hb) as [Hm _].
    exact Hm.
  Qed.

  (* ---- both sets together ----------------------------------------------------------------------- *)
  Theorem program_join_holds : stmt_program_join il iu.
  Proof.
    intros a b stmts p p' Hwf Ha Hb.
    assert (HJ : forall G C e w w', wf_expr e -> consts_ok G C -> check a G C e = Ok w -> check b G C e = Ok w' ->
                                    check (feat_join a b) G C e = Ok w /\ eval (feat_join a b) C e = eval a C e).
    { intros G C e w w' Hwfe HC H H'.
      pose proof (check_join a b G C HC e w w' H H') as Hm. split; [exact Hm|].
      symmetry. apply (eval_feat_indep a (feat_join a b) G C e w (proj1 (proj2 (feat_le_join_l a b))) HC Hm). }
    destruct (build_transfer a b (feat_join a b) HJ gen_fixed il iu gen_fixed_ok gen_fixed_ok2 gen_fixed_widths_ok
                             stmts p p' Hwf Ha Hb) as [Hm _].
    exact Hm.
  Qed.

  (* ---- acceptance = always-on rules + the rule of each enabled option ---------------------------- *)
  Lemma singles_le f g : In g (enabled_singles f) -> feat_le g f.
  Proof.
    unfold enabled_singles. rewrite !in_app_iff.
    intros [H|[H|[H|[H|H]]]];
      [destruct (f_sbo f) eqn:E | destruct (f_swb f) eqn:E | destruct (f_rmd f) eqn:E
       | destruct (f_dmd f) eqn:E | destruct (f_duo f) eqn:E];
      try contradiction; destruct H as [<-|[]]; unfold feat_le; cbn [f_sbo f_swb f_rmd f_dmd f_duo];
      repeat split; intros H; try discriminate H; exact E.
  Qed.

  Lemma all_off_le f : feat_le all_off f.
  Proof. unfold feat_le, all_off. cbn. repeat split; intros H; discriminate H. Qed.

  Lemma singles_join f : fold_right feat_join all_off (enabled_singles f) = f.
  Proof. destruct f as [[] [] [] [] []]; reflexivity. Qed.

  Lemma accepted_fold_join stmts : Forall wf_stmt stmts -> accepted il iu all_off stmts ->
    forall l, Forall (fun g => accepted il iu g stmts) l -> accepted il iu (fold_right feat_join all_off l) stmts.
  Proof.
    intros Hwf H0. induction l as [|g l IH]; intros Hl; cbn [fold_right]; [exact H0|].
    inversion Hl as [|? ? [p Hg] Hl']; subst. destruct (IH Hl') as [p' Hp'].
    exists p. apply (program_join_holds g _ stmts p p' Hwf Hg Hp').
  Qed.

  Theorem accepted_iff_each_enabled_option_holds : stmt_accepted_iff_each_enabled_option il iu.
  Proof.
    intros f stmts Hwf. split.
    - intros [p Hp]. split.
      + exists p. apply (program_monotone_holds all_off f stmts p (all_off_le f) Hwf Hp).
      + apply Forall_forall. intros g Hg. exists p.
        apply (program_monotone_holds g f stmts p (singles_le f g Hg) Hwf Hp).
    - intros [H0 Hl]. rewrite <- (singles_join f). apply (accepted_fold_join stmts Hwf H0 _ Hl).
  Qed.

  Theorem accepted_iff_rules_holds : stmt_accepted_iff_rules il iu.
  Proof. intros f stmts. apply accepted_iff_fault_free_gen_holds. Qed.
End Acceptance.

Theorem duo_subsumes_dmd_holds : stmt_duo_subsumes_dmd.
Proof.
  unfold stmt_duo_subsumes_dmd, count_true.
  induction flags as [|b r IH]; intros H; [cbn; lia|].
  destruct b.
  - pose proof (H O eq_refl) as H0. cbn [List.length] in H0. injection H0 as H0.
    destruct r; [cbn; lia | discriminate H0].
  - cbn [filter]. apply IH. intros i Hi. pose proof (H (S i) Hi) as H1. cbn [List.length] in H1. lia.
Qed.

(* ================================================================================== *)
(* Part 4: simulation does not depend on the options                                   *)
(* ================================================================================== *)
Lemma exec_action_same a b o G p act s :
  action_typed a G p act -> action_typed b G p act ->
  (forall n, In n (reads act) -> lookup (values s) n <> None) ->
  typed_vals G (values s) ->
  exec_action a o act s = exec_action b o act s.
Proof.
  intros Hta Htb Hrd HT.
  destruct act as [name e w0|num outp|en addr outp n isi|num inp|en addr inp n|sw]; try reflexivity.
  cbn [action_typed reads] in Hta, Htb, Hrd. unfold exec_action.
  destruct Hta as (_ & _ & Hwf & wea & Hca & _). destruct Htb as (_ & _ & _ & web & Hcb & _).
  set (Gr := fun k => if mem_str k (refs e) then G k else None).
  assert (Henv : env_ok Gr (lookup (values s))).
  { intros k w Hk. unfold Gr in Hk. destruct (mem_str k (refs e)) eqn:Em; [|discriminate Hk].
    apply mem_str_In in Em. destruct (valued_some _ _ (Hrd k Em)) as (v & Hv).
    exists v. split; [exact Hv|]. exact (HT k v w Hv Hk). }
  assert (Hext : forall f we, check f G (consts_of p) e = Ok we -> check f Gr (consts_of p) e = Ok we).
  { intros f we Hc. rewrite <- Hc. apply SchedProofs.check_ext. intros k Hk. unfold Gr.
    apply mem_str_In in Hk. rewrite Hk. reflexivity. }
  destruct (features_same_value a b Gr (consts_of p) (lookup (values s)) e wea web Hwf Henv
                                (Hext a wea Hca) (Hext b web Hcb)) as [_ Hsame].
  rewrite Hsame. reflexivity.
Qed.

Lemma exec_actions_same a b o G p : forall acts known s,
  (forall act, In act acts -> action_typed a G p act) ->
  (forall act, In act acts -> action_typed b G p act) ->
  valid_schedule known acts = true ->
  (forall k, In k known -> lookup (values s) k <> None) ->
  typed_vals G (values s) -> mach_ok (mem s) (regs s) ->
  exec_actions a o acts s = exec_actions b o acts s.
Proof.
  induction acts as [|act r IH]; intros known s Hta Htb Hv Hk HT HM; cbn [exec_actions]; [reflexivity|].
  assert (Hreads : forall n, In n (reads act) -> In n known).
  { cbn [valid_schedule] in Hv. apply andb_true_iff in Hv. exact (forallb_mem_In _ _ (proj1 Hv)). }
  rewrite <- (exec_action_same a b o G p act s (Hta act (or_introl eq_refl)) (Htb act (or_introl eq_refl))
                               (fun n Hn => Hk n (Hreads n Hn)) HT).
  pose proof (exec_action_safe a o G p act s (Hta act (or_introl eq_refl))
                (fun n Hn => Hk n (Hreads n Hn)) HT HM) as Ha.
  destruct (exec_action a o act s) as [[s' t1]|es] eqn:E1; cbn [bind fst snd]; [|reflexivity].
  destruct Ha as (HT' & HM').
  assert (Hdom : forall k, lookup (values s) k <> None -> lookup (values s') k <> None)
    by (intros k; apply (exec_action_dom a o act s s' t1 k E1)).
  assert (Hta' : forall act', In act' r -> action_typed a G p act') by (intros act' H'; apply Hta; right; exact H').
  assert (Htb' : forall act', In act' r -> action_typed b G p act') by (intros act' H'; apply Htb; right; exact H').
  assert (IH' : exec_actions a o r s' = exec_actions b o r s').
  { destruct (written act) as [w|] eqn:Ew.
    - destruct (valid_cons_pure _ _ _ _ Hv Ew) as (_ & _ & Hv').
      apply (IH (w :: known) s' Hta' Htb' Hv'); [|exact HT'|exact HM'].
      intros k [<-|Hkk].
      + exact (proj2 (exec_action_written a o act s s' t1 w E1 Ew)).
      + apply Hdom, Hk, Hkk.
    - destruct (valid_cons_effect _ _ _ Hv Ew) as (_ & _ & Hv').
      apply (IH known s' Hta' Htb' Hv'); [|exact HT'|exact HM'].
      intros k Hkk. apply Hdom, Hk, Hkk. }
  rewrite IH'. reflexivity.
Qed.

Lemma step_same a b o G p s :
  program_ok a G p -> program_ok b G p -> state_ok G p s -> step a o p s = step b o p s.
Proof.
  intros (Hacta & Hvalid & _) (Hactb & _) (Hstart & HT & HL & HF & HW). unfold step.
  assert (Hk0 : forall k, In k (known0 p) -> lookup (values s) k <> None).
  { intros k Hk. unfold known0 in Hk. apply filter_In in Hk. apply Hstart. exact (proj1 Hk). }
  rewrite (exec_actions_same a b o G p (p_actions p) (known0 p) s Hacta Hactb Hvalid Hk0 HT
                             (conj HL (conj HF HW))).
  reflexivity.
Qed.

Theorem step_feature_independent_holds : stmt_step_feature_independent.
Proof.
  intros a b o G p s Hpa Hpb Hs. split; [apply (step_same a b o G p s Hpa Hpb Hs)|].
  intros fuel. revert s Hs. induction fuel as [|fu IH]; intros s Hs; rewrite !run_unfold.
  - reflexivity.
  - destruct (done o s); [reflexivity|].
    destruct (if o_show_regs_mem o then dump_y86 o p s else Ok "") as [d|es]; cbn [bind]; [|reflexivity].
    rewrite <- (step_same a b o G p s Hpa Hpb Hs).
    pose proof (step_safe_ok a o G p s Hpa Hs) as Hst.
    destruct (step a o p s) as [[s1 t1]|es] eqn:Es; cbn [bind fst snd]; [|reflexivity].
    rewrite (IH s1 Hst). reflexivity.
Qed.

(* the width environment of an accepted program, read off the program and its declarations *)
Definition widths_env (fixed : list fixed_fn) (stmts : list stmt) (p : program) : string -> option width :=
  lookup (fold_left (fun m nv => upd m (fst nv) (wd (snd nv))) (p_consts p)
                    (fold_left (fun m nw => upd m (fst nw) (snd nw)) (bank_wires (p_banks p))
                               (s_wires (fold_left (step1 fixed) stmts (init1 fixed))))).

Lemma accepted_program_ok_explicit f fixed il iu stmts p :
  fixed_table_ok fixed = true -> fixed_table_ok2 fixed = true -> fixed_widths_ok fixed ->
  Forall wf_stmt stmts -> build_program f fixed il iu stmts = Ok p ->
  program_ok f (widths_env fixed stmts p) p.
Proof.
  intros Hok Hok2 Hwok Hwf Hb.
  pose proof Hok2 as Hok2'. unfold fixed_table_ok2 in Hok2'. apply andb_true_iff in Hok2'.
  destruct Hok2' as [Hsok Htok].
  pose proof (build_valid_schedule_sched f fixed il iu Hok Hsok stmts p Hb) as Hvs.
  pose proof (built_consts_fit f fixed il iu stmts p Hwf Hb) as Hfit.
  destruct (build_ok_inv f fixed il iu stmts p Hb) as [He [Hca [Hcr [consts [Hrc [Hte [Hun [acts [Hacts Hp]]]]]]]]].
  subst p. unfold widths_env. cbn [p_consts p_banks] in *.
  match goal with
  | |- program_ok f (lookup ?W) _ =>
      change W with (widths_of (fold_left (step1 fixed) stmts (init1 fixed))
                               (fold_left (step3_bank f il iu (fold_left (step1 fixed) stmts (init1 fixed)) consts)
                                          (s_banks (fold_left (step1 fixed) stmts (init1 fixed)))
                                          (mkSt3 [] [] (s_types (fold_left (step1 fixed) stmts (init1 fixed))) [] [] []))
                               consts)
  end.
  apply typing_core; try assumption.
  intros n v Hin. apply (Hfit n v Hin).
Qed.

Theorem simulation_same_under_two_sets_holds il iu : stmt_simulation_same_under_two_sets il iu.
Proof.
  intros a b stmts p Hwf Ha Hb.
  exists (widths_env gen_fixed stmts p).
  pose proof (accepted_program_ok_explicit a gen_fixed il iu stmts p gen_fixed_ok gen_fixed_ok2
                                           gen_fixed_widths_ok Hwf Ha) as Hpa.
  pose proof (accepted_program_ok_explicit b gen_fixed il iu stmts p gen_fixed_ok gen_fixed_ok2
                                           gen_fixed_widths_ok Hwf Hb) as Hpb.
  split; [exact Hpa|]. split; [exact Hpb|]. split.
  - apply (initial_state_safe_ok a _ p Hpa).
  - intros o s Hs. apply (step_feature_independent_holds a b o _ p s Hpa Hpb Hs).
Qed.

(* ================================================================================== *)
(* Part 5: each option guards its own rule - separating programs (computed)            *)
(* ================================================================================== *)
(* && on 64-bit operands: refused by strict-boolean-ops only *)
Definition sep_sbo : list stmt :=
  [SWire [("a", Bits 64); ("b", Bits 1)]; SAssign [(["a"], lit 2)];
   SAssign [(["b"], EBin LogicalAnd (EWire "a") (EWire "a"))]; stat_ok; pc_zero].
(* 64-bit + 32-bit: refused by strict-wire-widths-binary only *)
Definition sep_swb : list stmt :=
  [SWire [("a", Bits 64); ("b", Bits 32); ("c", Bits 64)]; SAssign [(["a"], lit 1)]; SAssign [(["b"], lit 2)];
   SAssign [(["c"], EBin Add (EWire "a") (EWire "b"))]; stat_ok; pc_zero].
(* a case expression without default arm: refused by require-mux-default only *)
Definition sep_rmd : list stmt :=
  [SWire [("x", Bits 64); ("y", Bits 64)]; SAssign [(["x"], lit 0)];
   SAssign [(["y"], EMux (ACons (EBin Equal (EWire "x") (lit 0)) (lit 1) ANil))]; stat_ok; pc_zero].
(* two default arms (the second is then unreachable): refused by disallow-multiple-mux-default
   and by disallow-unreachable-options *)
Definition sep_dmd : list stmt :=
  [SWire [("y", Bits 64)];
   SAssign [(["y"], EMux (ACons (lit 1) (lit 1) (ACons (lit 1) (lit 2) ANil)))]; stat_ok; pc_zero].
(* one default arm, not last: refused by disallow-unreachable-options only *)
Definition sep_duo : list stmt :=
  [SWire [("x", Bits 64); ("y", Bits 64)]; SAssign [(["x"], lit 0)];
   SAssign [(["y"], EMux (ACons (lit 1) (lit 1) (ACons (EBin Equal (EWire "x") (lit 0)) (lit 2) ANil)))];
   stat_ok; pc_zero].

Example sep_texts :
  parse_hcl "wire a : 64, b : 1; a = 2; b = a && a; Stat = 0b001; pc = 0;" = Some sep_sbo /\
  parse_hcl "wire a : 64, b : 32, c : 64; a = 1; b = 2; c = a + b; Stat = 0b001; pc = 0;" = Some sep_swb /\
  parse_hcl "wire x : 64, y : 64; x = 0; y = [ x == 0 : 1; ]; Stat = 0b001; pc = 0;" = Some sep_rmd /\
  parse_hcl "wire y : 64; y = [ 1 : 1; 1 : 2; ]; Stat = 0b001; pc = 0;" = Some sep_dmd /\
  parse_hcl "wire x : 64, y : 64; x = 0; y = [ 1 : 1; x == 0 : 2; ]; Stat = 0b001; pc = 0;" = Some sep_duo.
Proof. vm_compute. repeat split; reflexivity. Qed.

Theorem each_option_guards_its_rule_holds :
  stmt_each_option_guards_its_rule sep_sbo sep_swb sep_rmd sep_dmd sep_duo.
Proof.
  unfold stmt_each_option_guards_its_rule, separates.
  repeat split; intros [[] [] [] [] []]; vm_compute; reflexivity.
Qed.

(* the diagnostics are the ones the options name *)
Example sep_diagnostics :
  build_program only_sbo gen_fixed ascii_lower ascii_upper sep_sbo = Err [mkErr NonBooleanWidth []] /\
  build_program only_swb gen_fixed ascii_lower ascii_upper sep_swb = Err [mkErr MismatchedExprWidths []] /\
  build_program only_rmd gen_fixed ascii_lower ascii_upper sep_rmd = Err [mkErr NoMuxDefaultOption []] /\
  build_program only_dmd gen_fixed ascii_lower ascii_upper sep_dmd = Err [mkErr MultipleMuxDefaultOption []] /\
  build_program only_duo gen_fixed ascii_lower ascii_upper sep_dmd = Err [mkErr UnreachableOptions []] /\
  build_program only_duo gen_fixed ascii_lower ascii_upper sep_duo = Err [mkErr UnreachableOptions []].
Proof. vm_compute. repeat split; reflexivity. Qed.

(* ================================================================================== *)
(* Part 6: instances (non-vacuity)                                                     *)
(* ================================================================================== *)
Ltac wf_solve :=
  repeat (constructor; cbn [wf_stmt wf_expr wf_arms wf_items wf_width fits bits wd bits_or_128 fst snd]);
  repeat split; try exact I; try lia; try (vm_compute; reflexivity).

Example sep_swb_wf : Forall wf_stmt sep_swb.
Proof. unfold sep_swb, stat_ok, pc_zero, lit. wf_solve. Qed.

Example ex_bank_wf : Forall wf_stmt ex_bank.
Proof. unfold ex_bank, stat_ok, pc_zero, lit. wf_solve. Qed.

Definition all_on : features := mkF true true true true true.
Definition all_but_swb : features := mkF true false true true true.

Notation buildg f := (build_program f gen_fixed ascii_lower ascii_upper).

(* stmt_program_monotone: from every option but strict-wire-widths-binary down to none *)
Example ex_monotone : exists p, buildg all_but_swb sep_swb = Ok p /\ buildg all_off sep_swb = Ok p.
Proof.
  assert (H : is_ok (buildg all_but_swb sep_swb) = true) by (vm_compute; reflexivity).
  destruct (is_ok_inv _ H) as [p Hp]. exists p. split; [exact Hp|].
  apply (program_monotone_holds ascii_lower ascii_upper all_off all_but_swb sep_swb p); [|exact sep_swb_wf|exact Hp].
  apply all_off_le.
Qed.

(* stmt_program_same_under_two_sets / stmt_program_join: two incomparable option sets *)
Example ex_same_and_join :
  exists p, buildg only_sbo sep_swb = Ok p /\ buildg only_rmd sep_swb = Ok p /\
            buildg (feat_join only_sbo only_rmd) sep_swb = Ok p.
Proof.
  assert (H1 : is_ok (buildg only_sbo sep_swb) = true) by (vm_compute; reflexivity).
  assert (H2 : is_ok (buildg only_rmd sep_swb) = true) by (vm_compute; reflexivity).
  destruct (is_ok_inv _ H1) as [p Hp]. destruct (is_ok_inv _ H2) as [p' Hp'].
  pose proof (program_same_under_two_sets_holds ascii_lower ascii_upper only_sbo only_rmd sep_swb p p'
                                                sep_swb_wf Hp Hp') as <-.
  exists p. split; [exact Hp|]. split; [exact Hp'|].
  apply (program_join_holds ascii_lower ascii_upper only_sbo only_rmd sep_swb p p sep_swb_wf Hp Hp').
Qed.

(* stmt_accepted_iff_each_enabled_option, both ways *)
Example ex_iff_accepted :
  accepted ascii_lower ascii_upper all_but_swb sep_swb /\ ~ accepted ascii_lower ascii_upper all_on sep_swb.
Proof.
  split.
  - apply (accepted_iff_each_enabled_option_holds ascii_lower ascii_upper all_but_swb sep_swb sep_swb_wf).
    split; [|cbn [enabled_singles all_but_swb f_sbo f_swb f_rmd f_dmd f_duo app]; repeat constructor];
      apply is_ok_inv; vm_compute; reflexivity.
  - intros H.
    apply (accepted_iff_each_enabled_option_holds ascii_lower ascii_upper all_on sep_swb sep_swb_wf) in H.
    destruct H as [_ H]. cbn [enabled_singles all_on f_sbo f_swb f_rmd f_dmd f_duo app] in H.
    inversion H as [|? ? _ H']; subst. inversion H' as [|? ? [p Hp] _]; subst.
    vm_compute in Hp. discriminate Hp.
Qed.

(* stmt_simulation_same_under_two_sets: ex_bank (x_v = Y_v + 1) is accepted under every option set;
   with no option and with all five it is the same program and steps identically *)
Example ex_simulation :
  exists p s0,
    buildg all_off ex_bank = Ok p /\ buildg all_on ex_bank = Ok p /\ initial_state p = Ok s0 /\
    step all_off default_options p s0 = step all_on default_options p s0 /\
    (forall fuel, run fuel all_off default_options p s0 = run fuel all_on default_options p s0) /\
    exists s1 t, step all_on default_options p s0 = Ok (s1, t).
Proof.
  assert (H1 : is_ok (buildg all_off ex_bank) = true) by (vm_compute; reflexivity).
  assert (H2 : is_ok (buildg all_on ex_bank) = true) by (vm_compute; reflexivity).
  destruct (is_ok_inv _ H1) as [p Hp]. destruct (is_ok_inv _ H2) as [p' Hp'].
  pose proof (program_same_under_two_sets_holds ascii_lower ascii_upper all_off all_on ex_bank p p'
                                                ex_bank_wf Hp Hp') as <-.
  destruct (simulation_same_under_two_sets_holds ascii_lower ascii_upper all_off all_on ex_bank p
                                                 ex_bank_wf Hp Hp') as [G [Hpa [Hpb [[s0 [Hs0 Hok0]] Hsim]]]].
  exists p, s0. split; [exact Hp|]. split; [exact Hp'|]. split; [exact Hs0|].
  destruct (Hsim default_options s0 Hok0) as [Hstep Hrun]. split; [exact Hstep|]. split; [exact Hrun|].
  pose proof (step_safe_ok all_on default_options G p s0 Hpb Hok0) as Hsafe.
  destruct (step all_on default_options p s0) as [[s1 t]|es] eqn:Es.
  - exists s1, t. reflexivity.
  - exfalso. vm_compute in Hp. injection Hp as <-. vm_compute in Hs0. injection Hs0 as <-.
    vm_compute in Es. discriminate Es.
Qed.

Print Assumptions program_monotone_holds.
Print Assumptions program_same_under_two_sets_holds.
Print Assumptions program_join_holds.
Print Assumptions accepted_iff_each_enabled_option_holds.
Print Assumptions accepted_iff_rules_holds.
Print Assumptions step_feature_independent_holds.
Print Assumptions simulation_same_under_two_sets_holds.
Print Assumptions each_option_guards_its_rule_holds.
Print Assumptions duo_subsumes_dmd_holds.
Print Assumptions ex_simulation.
Print Assumptions ex_iff_accepted.
