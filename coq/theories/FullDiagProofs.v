(* Proofs of FullDiagSpec.v. *)
From Coq Require Import Permutation.
From HclV Require Import Base Expr Machine Graph GraphSpec GraphProofs Build BuildProofs Yo Region RegionSpec Lexer Parser
                         LexParseSpec TriviaSpec LexLocSpec LexLocProofs Generated SpanParser SpanParserLemmas
                         SpanParserSpec SpanParserProofs SpanBuild SpanBuildLemmas SpanBuildSpec SpanBuildProofs
                         ParseDiag ParseDiagSpec ParseDiagProofs Diag DiagSpec DiagProofs FullDiag FullDiagSpec.
From HclV Require FrontTotalSpec FrontTotalProofs RegionProofs.
Open Scope string_scope.
Open Scope list_scope.
Open Scope N_scope.

(* ====================================================================================== *)
(* unfolding equations                                                                     *)
(* ====================================================================================== *)
Section FullEquations.
  Variable korder : list string -> list string.
  Variable f : features.
  Variable G : string -> option width.
  Variable keys : list string.
  Variable C : string -> option wval.

  Notation chk := (check_full korder f G keys C).

  Lemma check_full_bin sp op l r : chk (SEBin sp op l r) =
    match kind op with
    | EqualWidth => dof wl <- chk l; dof wr <- chk r; combine_exprs_full l r wl wr
    | EqualWidthWeak =>
        if f_swb f then dof wl <- chk l; dof wr <- chk r; combine_exprs_full l r wl wr
        else dof wl <- chk l; dof wr <- chk r; FOk (wmax wl wr)
    | BooleanCombine =>
        if f_sbo f then
          dof wl <- chk l;
          if negb (possibly_boolean wl) then ferr1 (RNonBooleanWidth (espan l)) else
          dof wr <- chk r;
          if negb (possibly_boolean wr) then ferr1 (RNonBooleanWidth (espan r)) else FOk (Bits 1)
        else dof _ <- chk l; dof _ <- chk r; FOk (Bits 1)
    | BooleanFromEqualWidth =>
        dof wl <- chk l; dof wr <- chk r; dof _ <- combine_exprs_full l r wl wr; FOk (Bits 1)
    end.
  Proof. reflexivity. Qed.

  Lemma check_full_mux sp a : chk (SEMux sp a) =
    dof r <- check_arms_full korder f G keys C a (mkMS (Some Unl) false false false) [];
    let st := fst r in
    if f_rmd f && negb (ms_seen st) then ferr1 (RNoMuxDefaultOption sp)
    else if f_dmd f && ms_twice st then ferr1 (RMultipleMuxDefaultOption sp)
    else if f_duo f && ms_unreach st then ferr1 (RUnreachableOptions sp)
    else match ms_width st with
         | Some w => FOk w
         | None => ferr1 (RMismatchedMuxWidths (arm_value_spans a) (snd r))
         end.
  Proof. reflexivity. Qed.

  Lemma check_full_un sp op e1 : chk (SEUn sp op e1) =
    match op with Not => dof _ <- chk e1; FOk (Bits 1) | _ => chk e1 end.
  Proof. destruct op; reflexivity. Qed.

  Lemma check_full_slice sp e1 lo hi : chk (SESlice sp e1 lo hi) =
    if hi <? lo then ferr1 (RMisorderedBitIndexes sp) else
    dof w <- chk e1;
    match w with
    | Bits iw => if iw <? hi then ferr1 (RInvalidBitIndex sp hi) else FOk (Bits (hi - lo))
    | Unl => FOk (Bits (hi - lo))
    end.
  Proof. reflexivity. Qed.

  Lemma check_full_cat sp l r : chk (SECat sp l r) =
    dof wl <- chk l;
    match wl with
    | Bits lw =>
        dof wr <- chk r;
        match wr with
        | Bits rw => if lw + rw <=? 128 then FOk (Bits (lw + rw)) else ferr1 (RWireTooWide sp)
        | Unl => ferr1 (RNoBitWidth (espan r))
        end
    | Unl => ferr1 (RNoBitWidth (espan l))
    end.
  Proof. reflexivity. Qed.

  Lemma check_full_in sp e1 items : chk (SEIn sp e1 items) =
    dof wl <- chk e1;
    dof errs <- check_items_full korder f G keys C e1 wl items;
    match errs with [] => FOk (Bits 1) | _ => FErr errs end.
  Proof. reflexivity. Qed.

  Lemma check_arms_full_cons c v rest st ws : check_arms_full korder f G keys C (SACons c v rest) st ws =
    dof _ <- chk c;
    let unreach := ms_unreach st || ms_seen st in
    let at_ := always_true f C (erase_expr c) in
    let twice := ms_twice st || (at_ && ms_seen st) in
    let seen := ms_seen st || at_ in
    dof w <- chk v;
    let mw := match ms_width st with Some cur => wcombine cur w | None => None end in
    check_arms_full korder f G keys C rest (mkMS mw seen twice unreach) (ws ++ [w]).
  Proof. reflexivity. Qed.

  Lemma check_items_full_cons left wl e1 rest : check_items_full korder f G keys C left wl (SXCons e1 rest) =
    dof wi <- chk e1;
    dof more <- check_items_full korder f G keys C left wl rest;
    match wcombine wl wi with
    | Some _ => FOk more
    | None => FOk (FE (RMismatchedExprWidths (espan left) wl (espan e1) wi) :: more)
    end.
  Proof. reflexivity. Qed.

  (* the evaluator, in environment C with keys [keys] *)
  Notation evl := (eval_full korder f C keys).
  Definition apply_full (op : binop) (lv rv : wval) : fres wval :=
    match apply f op lv rv with
    | Ok v => FOk v
    | Err es =>
        FErr (map (fun x => match ek x with
                            | RuntimeMismatchedWidths => FE RRuntimeMismatchedWidths
                            | DivisionByZero => FE RDivisionByZero
                            | _ => finternal x
                            end) es)
    end.
  Lemma eval_full_bin sp op l r : evl (SEBin sp op l r) = dof lv <- evl l; dof rv <- evl r; apply_full op lv rv.
  Proof. reflexivity. Qed.
  Lemma eval_full_un sp op e1 : evl (SEUn sp op e1) = dof v <- evl e1; FOk (unop_apply op v).
  Proof. reflexivity. Qed.
  Lemma eval_full_mux sp a : evl (SEMux sp a) =
    dof v <- eval_arms_full korder f C keys a; FOk (as_width (dynw_arms f C (erase_arms a) Unl) v).
  Proof. reflexivity. Qed.
  Lemma eval_full_slice sp e1 lo hi : evl (SESlice sp e1 lo hi) =
    dof v <- evl e1; FOk (as_width (Bits (hi - lo)) (mkV (shr_or_zero (bits v) lo) Unl)).
  Proof. reflexivity. Qed.
  Lemma eval_full_cat sp l r : evl (SECat sp l r) =
    dof lv <- evl l;
    dof rv <- evl r;
    match wd rv with
    | Bits rb =>
        match wd lv with
        | Bits lb => FOk (as_width (Bits (sat_u8 (lb + rb))) (mkV (N.lor (shl_or_zero (bits lv) rb) (bits rv)) Unl))
        | Unl => ferr1 (RNoBitWidth (espan l))
        end
    | Unl => ferr1 (RNoBitWidth (espan r))
    end.
  Proof. reflexivity. Qed.
  Lemma eval_full_in sp e1 items : evl (SEIn sp e1 items) =
    dof v <- evl e1; eval_items_full korder f C keys (bits v) items.
  Proof. reflexivity. Qed.
  Lemma eval_arms_full_cons c v rest : eval_arms_full korder f C keys (SACons c v rest) =
    dof cv <- evl c; if is_true cv then evl v else eval_arms_full korder f C keys rest.
  Proof. reflexivity. Qed.
  Lemma eval_items_full_cons x e1 rest : eval_items_full korder f C keys x (SXCons e1 rest) =
    dof r <- evl e1; if x =? bits r then FOk true_value else eval_items_full korder f C keys x rest.
  Proof. reflexivity. Qed.
End FullEquations.

Lemma fbind_err {A B} (r : fres A) (k : A -> fres B) es :
  fbind r k = FErr es -> r = FErr es \/ exists a, r = FOk a /\ k a = FErr es.
Proof. destruct r as [a|e]; cbn [fbind]; intros H; [right; exists a; split; [reflexivity|exact H] | left; injection H as <-; reflexivity]. Qed.

Lemma fbind_ok {A B} (r : fres A) (k : A -> fres B) b :
  fbind r k = FOk b -> exists a, r = FOk a /\ k a = FOk b.
Proof. destruct r as [a|e]; cbn [fbind]; intros H; [exists a; split; [reflexivity|exact H] | discriminate H]. Qed.

(* ====================================================================================== *)
(* (a) check_full / eval_full are check_sp / eval_sp with more fields                       *)
(* ====================================================================================== *)
Definition arms_res_of (r : fres (mux_state * list width)) : sresult mux_state :=
  match r with FOk x => SOk (fst x) | FErr es => SErr (map serr_of es) end.
Definition items_res_of (r : fres (list ferr)) : sresult (list serr) :=
  match r with FOk l => SOk (map serr_of l) | FErr es => SErr (map serr_of es) end.

Section CheckSim.
  Variable korder : list string -> list string.
  Variable f : features.
  Variable G : string -> option width.
  Variable keys : list string.
  Variable C : string -> option wval.

  Notation chk := (check_full korder f G keys C).

  Lemma combine_sim l r a b : sres_of (combine_exprs_full l r a b) = combine_exprs_sp l r a b.
  Proof. unfold combine_exprs_full, combine_exprs_sp. destruct (wcombine a b); reflexivity. Qed.

  Lemma check_full_sim_all :
    (forall e, sres_of (chk e) = check_sp f G C e) /\
    (forall a st ws, arms_res_of (check_arms_full korder f G keys C a st ws) = check_arms_sp f G C a st) /\
    (forall xs left wl, items_res_of (check_items_full korder f G keys C left wl xs) = check_items_sp f G C left wl xs).
  Proof.
    apply sexpr_sarms_sexprs_ind.
    - intros sp v. reflexivity.
    - intros sp op l IHl r IHr. rewrite check_full_bin, check_sp_bin, <- IHl, <- IHr.
      destruct (kind op).
      + destruct (f_sbo f).
        * destruct (chk l) as [wl|el]; cbn [fbind sbind sres_of]; [|reflexivity].
          destruct (negb (possibly_boolean wl)); [reflexivity|].
          destruct (chk r) as [wr|er]; cbn [fbind sbind sres_of]; [|reflexivity].
          destruct (negb (possibly_boolean wr)); reflexivity.
        * destruct (chk l) as [wl|el]; cbn [fbind sbind sres_of]; [|reflexivity].
          destruct (chk r) as [wr|er]; reflexivity.
      + destruct (chk l) as [wl|el]; cbn [fbind sbind sres_of]; [|reflexivity].
        destruct (chk r) as [wr|er]; cbn [fbind sbind sres_of]; [|reflexivity].
        rewrite <- combine_sim. destruct (combine_exprs_full l r wl wr); reflexivity.
      + destruct (chk l) as [wl|el]; cbn [fbind sbind sres_of]; [|reflexivity].
        destruct (chk r) as [wr|er]; cbn [fbind sbind sres_of]; [|reflexivity].
        apply combine_sim.
      + destruct (f_swb f).
        * destruct (chk l) as [wl|el]; cbn [fbind sbind sres_of]; [|reflexivity].
          destruct (chk r) as [wr|er]; cbn [fbind sbind sres_of]; [|reflexivity].
          apply combine_sim.
        * destruct (chk l) as [wl|el]; cbn [fbind sbind sres_of]; [|reflexivity].
          destruct (chk r) as [wr|er]; reflexivity.
    - intros sp op e IH. rewrite check_full_un, check_sp_un, <- IH.
      destruct op; try reflexivity. destruct (chk e); reflexivity.
    - intros sp a IH. rewrite check_full_mux, check_sp_mux, <- (IH _ []).
      destruct (check_arms_full korder f G keys C a (mkMS (Some Unl) false false false) []) as [[st ws]|es];
        cbn [fbind sbind arms_res_of sres_of fst snd]; [|reflexivity].
      destruct (f_rmd f && negb (ms_seen st)); [reflexivity|].
      destruct (f_dmd f && ms_twice st); [reflexivity|].
      destruct (f_duo f && ms_unreach st); [reflexivity|].
      destruct (ms_width st); reflexivity.
    - intros sp n. cbn [check_full check_sp]. destruct (G n); reflexivity.
    - intros sp e IH lo hi. rewrite check_full_slice, check_sp_slice, <- IH.
      destruct (hi <? lo); [reflexivity|].
      destruct (chk e) as [w|es]; cbn [fbind sbind sres_of]; [|reflexivity].
      destruct w as [iw|]; [|reflexivity]. destruct (iw <? hi); reflexivity.
    - intros sp l IHl r IHr. rewrite check_full_cat, check_sp_cat, <- IHl, <- IHr.
      destruct (chk l) as [wl|el]; cbn [fbind sbind sres_of]; [|reflexivity].
      destruct wl as [lw|]; [|reflexivity].
      destruct (chk r) as [wr|er]; cbn [fbind sbind sres_of]; [|reflexivity].
      destruct wr as [rw|]; [|reflexivity]. destruct (lw + rw <=? 128); reflexivity.
    - intros sp e IHe items IHi. rewrite check_full_in, check_sp_in, <- IHe.
      destruct (chk e) as [wl|el]; cbn [fbind sbind sres_of]; [|reflexivity].
      rewrite <- (IHi e wl).
      destruct (check_items_full korder f G keys C e wl items) as [errs|es]; cbn [fbind sbind items_res_of sres_of]; [|reflexivity].
      destruct errs; reflexivity.
    - intros st ws. reflexivity.
    - intros c IHc v IHv rest IHr st ws. rewrite check_arms_full_cons, check_arms_sp_cons, <- IHc, <- IHv.
      destruct (chk c) as [wc|ec]; cbn [fbind sbind sres_of arms_res_of]; [|reflexivity].
      destruct (chk v) as [wv|ev]; cbn [fbind sbind sres_of arms_res_of]; [|reflexivity].
      apply IHr.
    - intros left wl. reflexivity.
    - intros e IHe rest IHr left wl. rewrite check_items_full_cons, check_items_sp_cons, <- IHe.
      destruct (chk e) as [wi|ei]; cbn [fbind sbind sres_of items_res_of]; [|reflexivity].
      rewrite <- (IHr left wl).
      destruct (check_items_full korder f G keys C left wl rest) as [more|es]; cbn [fbind sbind items_res_of]; [|reflexivity].
      destruct (wcombine wl wi); reflexivity.
  Qed.

  Lemma check_full_sim e : sres_of (chk e) = check_sp f G C e.
  Proof. apply check_full_sim_all. Qed.

  Lemma check_full_ok e w : chk e = FOk w -> check_sp f G C e = SOk w.
  Proof. intros H. rewrite <- check_full_sim, H. reflexivity. Qed.
End CheckSim.

Section EvalSim.
  Variable korder : list string -> list string.
  Variable f : features.
  Variable rho : string -> option wval.
  Variable rkeys : list string.

  Notation evl := (eval_full korder f rho rkeys).

  Lemma apply_full_sim op lv rv : sres_of (apply_full f op lv rv) = lift (apply f op lv rv).
  Proof.
    unfold apply_full. destruct (apply f op lv rv) as [v|es] eqn:E; [reflexivity|].
    destruct (apply_errs f op lv rv es E) as [-> | ->]; reflexivity.
  Qed.

  Lemma eval_full_sim_all :
    (forall e, sres_of (evl e) = eval_sp f rho e) /\
    (forall a, sres_of (eval_arms_full korder f rho rkeys a) = eval_arms_sp f rho a) /\
    (forall xs x, sres_of (eval_items_full korder f rho rkeys x xs) = eval_items_sp f rho x xs).
  Proof.
    apply sexpr_sarms_sexprs_ind.
    - intros sp v. reflexivity.
    - intros sp op l IHl r IHr. rewrite eval_full_bin, eval_sp_bin, <- IHl, <- IHr.
      destruct (evl l) as [lv|el]; cbn [fbind sbind sres_of]; [|reflexivity].
      destruct (evl r) as [rv|er]; cbn [fbind sbind sres_of]; [|reflexivity].
      apply apply_full_sim.
    - intros sp op e IH. rewrite eval_full_un, eval_sp_un, <- IH. destruct (evl e); reflexivity.
    - intros sp a IH. rewrite eval_full_mux, eval_sp_mux, <- IH.
      destruct (eval_arms_full korder f rho rkeys a); reflexivity.
    - intros sp n. cbn [eval_full eval_sp]. destruct (rho n); reflexivity.
    - intros sp e IH lo hi. rewrite eval_full_slice, eval_sp_slice, <- IH. destruct (evl e); reflexivity.
    - intros sp l IHl r IHr. rewrite eval_full_cat, eval_sp_cat, <- IHl, <- IHr.
      destruct (evl l) as [lv|el]; cbn [fbind sbind sres_of]; [|reflexivity].
      destruct (evl r) as [rv|er]; cbn [fbind sbind sres_of]; [|reflexivity].
      destruct (wd rv); [|reflexivity]. destruct (wd lv); reflexivity.
    - intros sp e IHe items IHi. rewrite eval_full_in, eval_sp_in, <- IHe.
      destruct (evl e) as [v|es]; cbn [fbind sbind sres_of]; [|reflexivity]. apply IHi.
    - reflexivity.
    - intros c IHc v IHv rest IHr. rewrite eval_arms_full_cons, eval_arms_sp_cons, <- IHc.
      destruct (evl c) as [cv|ec]; cbn [fbind sbind sres_of]; [|reflexivity].
      destruct (is_true cv); [exact IHv | exact IHr].
    - intros x. reflexivity.
    - intros e IHe rest IHr x. rewrite eval_items_full_cons, eval_items_sp_cons, <- IHe.
      destruct (evl e) as [rv|er]; cbn [fbind sbind sres_of]; [|reflexivity].
      destruct (x =? bits rv); [reflexivity | apply IHr].
  Qed.

  Lemma eval_full_sim e : sres_of (evl e) = eval_sp f rho e.
  Proof. apply eval_full_sim_all. Qed.
End EvalSim.

Theorem check_full_erases_to_sp_holds : stmt_check_full_erases_to_sp.
Proof. intros korder f G keys C e. apply check_full_sim. Qed.

Theorem eval_full_erases_to_sp_holds : stmt_eval_full_erases_to_sp.
Proof. intros korder f rho rkeys e. apply eval_full_sim. Qed.

(* ====================================================================================== *)
(* (a) build_program_full is build_program_sp with more fields                              *)
(* ====================================================================================== *)
Lemma pair_fold {S E X : Type} (stepS : S -> X -> S) (stepF : S * E -> X -> S * E) (P : S * E -> Prop) :
  (forall acc x, fst (stepF acc x) = stepS (fst acc) x) ->
  (forall acc x, P acc -> P (stepF acc x)) ->
  forall l acc, fst (fold_left stepF l acc) = fold_left stepS l (fst acc) /\ (P acc -> P (fold_left stepF l acc)).
Proof.
  intros H1 H2. induction l as [|x l IH]; intros acc; cbn [fold_left]; [split; [reflexivity | intros H; exact H]|].
  destruct (IH (stepF acc x)) as [I1 I2]. split; [rewrite I1, H1; reflexivity | intros H; exact (I2 (H2 acc x H))].
Qed.

Lemma serr_of_finternal e : serr_of (finternal e) = unlocated e.
Proof. reflexivity. Qed.

Lemma sres_of_flift {A} (r : result A) : sres_of (flift r) = lift r.
Proof. destruct r as [a|es]; cbn [flift lift sres_of]; [reflexivity|]. rewrite map_map. reflexivity. Qed.

Lemma map_serr_nil (es : list ferr) : map serr_of es = [] <-> es = [].
Proof. destruct es; cbn [map]; split; intros H; try reflexivity; discriminate. Qed.

Section BuildSim.
  Variable korder : list string -> list string.
  Variable f : features.
  Variable fixed : list fixed_fn.
  Variable is_lower : string -> bool.
  Variable is_upper : string -> bool.

  (* ---- pass 1 ---- *)
  Definition P1 (acc : sst1 * list ferr) : Prop := map serr_of (snd acc) = ss_errs (fst acc).

  Lemma cdd_sim s name sp : map serr_of (cdd_full fixed s name sp) = check_double_declare_sp fixed s name sp.
  Proof.
    unfold cdd_full, check_double_declare_sp. destruct (lookup (ss_decl_spans s) name); [reflexivity|].
    destruct (mem_str name (fixed_names fixed)); reflexivity.
  Qed.

  Lemma step1_const_full_ok acc d :
    fst (step1_const_full fixed acc d) = step1_const_sp fixed (fst acc) d /\ (P1 acc -> P1 (step1_const_full fixed acc d)).
  Proof.
    destruct acc as [s es]. destruct d as [[name nsp] e]. cbn [step1_const_full fst snd]. split; [reflexivity|].
    unfold P1. cbn [fst snd]. intros H. rewrite map_app, H, cdd_sim. reflexivity.
  Qed.

  Lemma step1_wire_full_ok acc d :
    fst (step1_wire_full fixed acc d) = step1_wire_sp fixed (fst acc) d /\ (P1 acc -> P1 (step1_wire_full fixed acc d)).
  Proof.
    destruct acc as [s es]. destruct d as [[name w] sp]. cbn [step1_wire_full fst snd]. split; [reflexivity|].
    unfold P1. cbn [fst snd]. intros H. rewrite map_app, H, cdd_sim. reflexivity.
  Qed.

  Lemma step1_assign_name_full_ok e acc nm :
    fst (step1_assign_name_full fixed e acc nm) = step1_assign_name_sp fixed e (fst acc) nm /\
    (P1 acc -> P1 (step1_assign_name_full fixed e acc nm)).
  Proof.
    destruct acc as [s es]. destruct nm as [name sp]. cbn [step1_assign_name_full fst snd]. split; [reflexivity|].
    unfold P1. cbn [fst snd step1_assign_name_sp ss_errs]. intros H. rewrite map_app, H. f_equal.
    unfold assign_name_full. destruct (lookup (ss_assign_spans s) name); [reflexivity|].
    destruct (mem_str name (fixed_out_names fixed)); reflexivity.
  Qed.

  Lemma step1_full_ok acc x :
    fst (step1_full fixed acc x) = step1_sp fixed (fst acc) x /\ (P1 acc -> P1 (step1_full fixed acc x)).
  Proof.
    destruct x as [decls|decls|assigns|name nsp regs bsp]; cbn [step1_full step1_sp].
    - apply (pair_fold (step1_const_sp fixed) (step1_const_full fixed) P1);
        intros a d; apply step1_const_full_ok.
    - apply (pair_fold (step1_wire_sp fixed) (step1_wire_full fixed) P1);
        intros a d; apply step1_wire_full_ok.
    - apply (pair_fold (fun s1 (a : sassign) => fold_left (step1_assign_name_sp fixed (snd (fst a))) (fst (fst a)) s1)
                       (fun a1 (a : sassign) => fold_left (step1_assign_name_full fixed (snd (fst a))) (fst (fst a)) a1) P1).
      + intros a x. apply (pair_fold (step1_assign_name_sp fixed (snd (fst x))) (step1_assign_name_full fixed (snd (fst x))) P1);
          intros a' nm; apply step1_assign_name_full_ok.
      + intros a x. apply (pair_fold (step1_assign_name_sp fixed (snd (fst x))) (step1_assign_name_full fixed (snd (fst x))) P1);
          intros a' nm; apply step1_assign_name_full_ok.
    - cbn [fst snd]. split; [reflexivity|]. unfold P1. cbn [fst snd ss_errs]. intros H. exact H.
  Qed.

  Lemma steps1_full_ok stmts :
    fst (fold_left (step1_full fixed) stmts (init1_sp fixed, [])) = fold_left (step1_sp fixed) stmts (init1_sp fixed) /\
    P1 (fold_left (step1_full fixed) stmts (init1_sp fixed, [])).
  Proof.
    destruct (pair_fold (step1_sp fixed) (step1_full fixed) P1
                (fun a x => proj1 (step1_full_ok a x)) (fun a x => proj2 (step1_full_ok a x)) stmts (init1_sp fixed, []))
      as [H1 H2].
    split; [exact H1 | apply H2; reflexivity].
  Qed.

  Lemma const_assigned_sim s : map serr_of (const_assigned_full s) = const_assigned_errors_sp s.
  Proof.
    unfold const_assigned_full, const_assigned_errors_sp. rewrite map_flat_map. apply flat_map_ext_in.
    intros [n sp] _. cbn [fst snd]. destruct (has (ss_consts s) n); reflexivity.
  Qed.

  Lemma const_ref_sim s : map serr_of (const_ref_full korder s) = const_ref_errors_sp s.
  Proof.
    unfold const_ref_full, const_ref_errors_sp. rewrite map_flat_map. apply flat_map_ext_in.
    intros [n e] _. cbn [fst snd]. rewrite map_flat_map. apply flat_map_ext_in. intros r _.
    destruct (has (ss_wires s) r && negb (has (ss_consts s) r)).
    - unfold serrs_for. rewrite map_map. reflexivity.
    - destruct (negb (has (ss_consts s) r)); [|reflexivity]. unfold serrs_for. rewrite map_map. reflexivity.
  Qed.

  (* ---- pass 2 ---- *)
  Lemma eval_consts_sim consts : forall order vals errs,
    (let '(v, es) := eval_consts_full korder f consts order vals errs in (v, map serr_of es)) =
    eval_consts_sp f consts order vals (map serr_of errs).
  Proof.
    induction order as [|n r IH]; intros vals errs; cbn [eval_consts_full eval_consts_sp]; [reflexivity|].
    destruct (lookup consts n) as [e|].
    - rewrite <- (check_full_sim korder f _ (map fst vals) (lookup vals) e),
              <- (eval_full_sim korder f (lookup vals) (map fst vals) e).
      destruct (check_full korder f _ (map fst vals) (lookup vals) e) as [w|es]; cbn [sres_of].
      + destruct (eval_full korder f (lookup vals) (map fst vals) e) as [v|es]; cbn [sres_of].
        * apply IH.
        * rewrite IH, map_app. reflexivity.
      + rewrite IH, map_app. reflexivity.
    - rewrite map_app. reflexivity.
  Qed.

  Lemma resolve_sim consts : sres_of (resolve_constants_full korder f consts) = resolve_constants_sp f consts.
  Proof.
    unfold resolve_constants_full, resolve_constants_sp.
    destruct (toposort string String.eqb (const_graph (amap erase_expr consts))) as [[order|cyc]|es];
      cbn [flift lift fbind sbind sres_of].
    - pose proof (eval_consts_sim consts order [] []) as H. cbn [map] in H.
      destruct (eval_consts_full korder f consts order [] []) as [vals errs]. rewrite <- H.
      destruct errs; reflexivity.
    - reflexivity.
    - rewrite map_map. reflexivity.
  Qed.

  (* ---- pass 3 ---- *)
  Lemma register_sim s consts bname inp outp t sigs defaults r :
    st_errs (fst (fst (step3_register_sp f s consts bname inp outp (t, sigs, defaults) r))) =
    st_errs t ++ map serr_of (register_errors_full korder f s consts bname inp outp (t, sigs, defaults) r).
  Proof.
    destruct r as [[[rname w] dflt] rsp]. unfold step3_register_sp, register_errors_full.
    set (in_name := (inp ++ "_" ++ rname)%string). set (out_name := (outp ++ "_" ++ rname)%string).
    set (pre_sp := flat_map _ [in_name; out_name] ++ _).
    set (pre_full := flat_map _ [in_name; out_name] ++ _).
    assert (Hpre : map serr_of pre_full = pre_sp).
    { unfold pre_full, pre_sp. rewrite !map_app. repeat f_equal.
      - rewrite map_flat_map. apply flat_map_ext_in. intros n _. destruct (lookup (ss_decl_spans s) n); reflexivity.
      - rewrite map_flat_map. apply flat_map_ext_in. intros rf _.
        destruct (has (ss_wires s) rf && negb (has consts rf)); [|reflexivity]. unfold serrs_for. rewrite map_map. reflexivity.
      - destruct (has defaults out_name); reflexivity.
      - destruct (has (ss_assigns s) out_name); reflexivity.
      - destruct (lookup (st_seen t) out_name); reflexivity.
      - destruct (lookup (add_first (st_seen t) out_name rsp) in_name); reflexivity. }
    clearbody pre_sp pre_full. subst pre_sp.
    destruct pre_full as [|p0 pre_full]; cbn [map].
    - rewrite <- (check_full_sim korder f _ (map fst consts) (lookup consts) dflt),
              <- (eval_full_sim korder f (lookup consts) (map fst consts) dflt).
      destruct (check_full korder f _ (map fst consts) (lookup consts) dflt) as [wc|es]; cbn [sres_of fst snd st_errs].
      + destruct (eval_full korder f (lookup consts) (map fst consts) dflt) as [v|es]; cbn [sres_of fst snd st_errs].
        * destruct (wcombine (wd v) w); reflexivity.
        * reflexivity.
      + reflexivity.
    - cbn [fst snd st_errs]. reflexivity.
  Qed.

  Definition P3r (base : list serr) (acc : (sst3 * list (string * string * width) * list (string * wval)) * list ferr) : Prop :=
    st_errs (fst (fst (fst acc))) = base ++ map serr_of (snd acc).

  Lemma registers_full_ok s consts bname inp outp base : forall regs acc,
    fst (fold_left (step3_register_full korder f s consts bname inp outp) regs acc) =
    fold_left (step3_register_sp f s consts bname inp outp) regs (fst acc) /\
    (P3r base acc -> P3r base (fold_left (step3_register_full korder f s consts bname inp outp) regs acc)).
  Proof.
    apply (pair_fold (step3_register_sp f s consts bname inp outp) (step3_register_full korder f s consts bname inp outp) (P3r base)).
    - intros acc r. reflexivity.
    - intros [[[t sigs] defaults] es] r H. unfold P3r in *. cbn [step3_register_full fst snd] in *.
      rewrite register_sim, H, map_app, app_assoc. reflexivity.
  Qed.

  Lemma bank_sim s consts t b :
    st_errs (step3_bank_sp f is_lower is_upper s consts t b) =
    st_errs t ++ map serr_of (bank_errors_full korder f is_lower is_upper s consts t b).
  Proof.
    destruct b as [[name nsp] regs]. unfold step3_bank_sp, bank_errors_full.
    destruct (utf8_chars name "") as [|inp [|outp [|x l]]]; try reflexivity.
    destruct (negb (is_lower inp) || negb (is_upper outp)); [reflexivity|].
    set (stall := ("stall_" ++ outp)%string). set (bubble := ("bubble_" ++ outp)%string).
    set (sp_special := flat_map _ [stall; bubble]).
    set (full_special := flat_map _ [stall; bubble]).
    assert (Hs : map serr_of full_special = sp_special).
    { unfold full_special, sp_special. rewrite map_flat_map. apply flat_map_ext_in. intros n _.
      destruct (lookup (ss_decl_spans s) n); reflexivity. }
    rewrite Hs.
    set (t1 := mkSSt3 _ _ _ _ _ _).
    destruct (registers_full_ok s consts name inp outp (st_errs t1) regs ((t1, [], []), [])) as [H1 H2].
    cbn [fst] in H1.
    assert (Hp : P3r (st_errs t1) ((t1, [], []), [])) by (unfold P3r; cbn [fst snd map]; rewrite app_nil_r; reflexivity).
    specialize (H2 Hp). unfold P3r in H2. rewrite H1 in H2.
    destruct (fold_left (step3_register_sp f s consts name inp outp) regs (t1, [], [])) as [[t2 sigs] defaults].
    cbn [fst st_errs] in H2 |- *. rewrite H2. unfold t1. cbn [st_errs]. rewrite map_app, Hs, app_assoc. reflexivity.
  Qed.

  Definition P3 (acc : sst3 * list ferr) : Prop := map serr_of (snd acc) = st_errs (fst acc).

  Lemma banks_full_ok s consts : forall banks acc,
    fst (fold_left (step3_bank_full korder f is_lower is_upper s consts) banks acc) =
    fold_left (step3_bank_sp f is_lower is_upper s consts) banks (fst acc) /\
    (P3 acc -> P3 (fold_left (step3_bank_full korder f is_lower is_upper s consts) banks acc)).
  Proof.
    apply (pair_fold (step3_bank_sp f is_lower is_upper s consts) (step3_bank_full korder f is_lower is_upper s consts) P3).
    - intros acc b. reflexivity.
    - intros [t es] b H. unfold P3 in *. cbn [step3_bank_full fst snd] in *.
      rewrite bank_sim, map_app, H. reflexivity.
  Qed.

  Lemma unset_sim s t needed : map serr_of (unset_full s t needed) = unset_errors_sp s t needed.
  Proof.
    unfold unset_full, unset_errors_sp. rewrite map_flat_map. apply flat_map_ext_in. intros n _.
    destruct (has (ss_assigns s) n); [reflexivity|].
    destruct (lookup (ss_decl_spans s) n); [reflexivity|].
    destruct (lookup (st_in_spans t) n); reflexivity.
  Qed.

  (* ---- pass 5 ---- *)
  Lemma preprocess_one_sim consts assigns g by_out no_out errs ff :
    map unlocated (snd (preprocess_one f consts assigns (g, by_out, no_out, errs) ff)) =
    map unlocated errs ++ map serr_of (preprocess_errors_full f consts assigns g ff).
  Proof.
    unfold preprocess_one, preprocess_errors_full. cbv zeta.
    assert (Hm : forall l : list string,
              map unlocated (map (fun n => mkErr UnsetBuiltinWire [n]) l) =
              map serr_of (map (fun n => FE (RUnsetBuiltinWire n)) l)).
    { intros l. rewrite !map_map. reflexivity. }
    destruct (filter (fun n => negb (has assigns n)) (fixed_in_names ff)) as [|m0 ms] eqn:Em.
    - destruct (ff_out ff) as [[o w]|]; cbn [snd map]; rewrite app_nil_r; reflexivity.
    - destruct (ff_mandatory ff).
      + destruct (ff_out ff) as [[o w]|]; cbn [snd]; rewrite map_app, Hm; reflexivity.
      + cbn [snd]. rewrite !map_app. f_equal. f_equal.
        * destruct (ff_out ff) as [[o w]|]; [|reflexivity]. destruct (graph_has_node g o); [apply Hm | reflexivity].
        * destruct (List.length (m0 :: ms) =? List.length (ff_ins ff))%nat; [reflexivity|].
          match goal with |- context [if ?b then _ else _] => destruct b end; reflexivity.
  Qed.

  Definition P5 (acc : (graph string * list (string * fixed_fn) * list fixed_fn * list err) * list ferr) : Prop :=
    map serr_of (snd acc) = map unlocated (snd (fst acc)).

  Lemma preprocess_full_ok consts assigns : forall l acc,
    fst (fold_left (preprocess_one_full f consts assigns) l acc) = fold_left (preprocess_one f consts assigns) l (fst acc) /\
    (P5 acc -> P5 (fold_left (preprocess_one_full f consts assigns) l acc)).
  Proof.
    apply (pair_fold (preprocess_one f consts assigns) (preprocess_one_full f consts assigns) P5).
    - intros acc ff. reflexivity.
    - intros [[[[g by_out] no_out] errs] es] ff H. unfold P5 in *. cbn [preprocess_one_full fst snd] in *.
      rewrite preprocess_one_sim, map_app, H. reflexivity.
  Qed.

  Lemma schedule_sim widths consts assigns aspans by_out dspans : forall order acts errs undeclared,
    (let '(a, es, u) := schedule_full korder f widths consts assigns aspans by_out dspans order acts errs undeclared in
     (a, map serr_of es, u)) =
    schedule_sp f widths consts assigns aspans by_out dspans order acts (map serr_of errs) undeclared.
  Proof.
    induction order as [|n r IH]; intros acts errs undeclared; cbn [schedule_full schedule_sp]; [reflexivity|].
    destruct (lookup assigns n) as [e|].
    - destruct (lookup widths n) as [w|].
      + rewrite <- (check_full_sim korder f (lookup widths) (map fst widths) (lookup consts) e).
        destruct (check_full korder f (lookup widths) (map fst widths) (lookup consts) e) as [we|es]; cbn [sres_of].
        * rewrite IH, map_app. destruct (wcombine w we); reflexivity.
        * rewrite IH, map_app. reflexivity.
      + rewrite IH, map_app. reflexivity.
    - destruct (lookup by_out n) as [ff|]; [apply IH|].
      destruct (lookup dspans n) as [sp|]; [rewrite IH, map_app; reflexivity | apply IH].
  Qed.

  Lemma assignments_sim widths consts assigns aspans known dspans :
    sres_of (assignments_to_actions_full korder f fixed widths consts assigns aspans known dspans) =
    assignments_to_actions_sp f fixed widths consts assigns aspans known dspans.
  Proof.
    unfold assignments_to_actions_full, assignments_to_actions_sp.
    destruct (preprocess_full_ok consts (amap erase_expr assigns) fixed
                ((assign_graph (amap erase_expr assigns) known, [], [], []), [])) as [H1 H2].
    cbn [fst] in H1. specialize (H2 eq_refl). unfold P5 in H2.
    destruct (fold_left (preprocess_one_full f consts (amap erase_expr assigns)) fixed
                        ((assign_graph (amap erase_expr assigns) known, [], [], []), [])) as [[[[g by_out] no_out] berrs] errs0].
    cbn [fst snd] in H1, H2. rewrite <- H1.
    destruct errs0 as [|e0 errs0].
    - destruct berrs as [|b0 berrs]; [|discriminate H2].
      destruct (toposort string String.eqb g) as [[order|cyc]|tes]; cbn [flift lift fbind sbind sres_of].
      + pose proof (schedule_sim widths consts assigns aspans by_out dspans order [] [] []) as H. cbn [map] in H.
        destruct (schedule_full korder f widths consts assigns aspans by_out dspans order [] [] []) as [[acts errs] und].
        rewrite <- H. destruct errs as [|e1 errs]; cbn [map app].
        * destruct und; cbn [map sres_of]; [reflexivity|]. rewrite map_map. reflexivity.
        * cbn [sres_of map]. rewrite map_app, map_map. reflexivity.
      + reflexivity.
      + rewrite map_map. reflexivity.
    - destruct berrs as [|b0 berrs]; [discriminate H2|]. cbn [sres_of]. rewrite H2. reflexivity.
  Qed.

  Lemma build_program_full_sim stmts :
    sres_of (build_program_full korder f fixed is_lower is_upper stmts) =
    build_program_sp f fixed is_lower is_upper stmts.
  Proof.
    unfold build_program_full, build_program_sp.
    destruct (steps1_full_ok stmts) as [H1 H2]. unfold P1 in H2.
    destruct (fold_left (step1_full fixed) stmts (init1_sp fixed, [])) as [s es1]. cbn [fst snd] in H1, H2.
    rewrite <- H1, <- H2, <- const_assigned_sim, <- (const_ref_sim s), <- !map_app.
    destruct (es1 ++ const_assigned_full s ++ const_ref_full korder s) as [|e0 errs1]; [|reflexivity].
    cbn [map]. rewrite <- resolve_sim.
    destruct (resolve_constants_full korder f (ss_consts s)) as [consts|res]; cbn [fbind sbind sres_of]; [|reflexivity].
    destruct (banks_full_ok s consts (ss_banks s) (mkSSt3 [] [] (ss_types s) [] [] [], [])) as [H3 H4].
    cbn [fst] in H3. specialize (H4 eq_refl). unfold P3 in H4.
    destruct (fold_left (step3_bank_full korder f is_lower is_upper s consts) (ss_banks s)
                        (mkSSt3 [] [] (ss_types s) [] [] [], [])) as [t es3].
    cbn [fst snd] in H3, H4. rewrite <- H3, <- H4, <- unset_sim, <- map_app.
    destruct (es3 ++ unset_full s t _) as [|e4 errs4]; [|reflexivity].
    cbn [map]. rewrite <- assignments_sim.
    destruct (assignments_to_actions_full korder f fixed _ consts (ss_assigns s) (ss_assign_spans s) _ (ss_decl_spans s));
      reflexivity.
  Qed.
End BuildSim.

Theorem full_erases_to_sp_holds : stmt_full_erases_to_sp.
Proof. intros korder f fixed lo up stmts. apply build_program_full_sim. Qed.

Theorem full_erases_to_build_holds : stmt_full_erases_to_build.
Proof.
  intros korder f fixed lo up stmts. rewrite build_program_full_sim. apply build_program_sp_erase.
Qed.

(* ====================================================================================== *)
(* (d) the widths; what the checker and the evaluator produce                               *)
(* ====================================================================================== *)
Section CheckWidths.
  Variable korder : list string -> list string.
  Variable f : features.
  Variable G : string -> option width.
  Variable keys : list string.
  Variable C : string -> option wval.

  Notation chk := (check_full korder f G keys C).
  Notation okd := (check_error_ok f G C).

  Lemma ok1 root e : okd root (FE e) -> Forall (okd root) [FE e].
  Proof. intros H. constructor; [exact H | constructor]. Qed.

  Lemma ferr1_inj {A} e es : @ferr1 A e = FErr es -> es = [FE e].
  Proof. unfold ferr1. intros H. injection H as <-. reflexivity. Qed.

  Lemma combine_widths root sp op l r wl wr es :
    In (SEBin sp op l r) (enodes root) ->
    chk l = FOk wl -> chk r = FOk wr -> combine_exprs_full l r wl wr = FErr es -> Forall (okd root) es.
  Proof.
    intros Hn El Er H. unfold combine_exprs_full in H. destruct (wcombine wl wr) eqn:Ew; [discriminate H|].
    apply ferr1_inj in H. subst es. apply ok1. cbn [check_error_ok].
    exists l, r. split; [apply (child_node root _ _ Hn); left; reflexivity|].
    split; [apply (child_node root _ _ Hn); right; left; reflexivity|].
    repeat (split; [reflexivity|]).
    split; [exact (check_full_ok korder f G keys C l wl El)|].
    split; [exact (check_full_ok korder f G keys C r wr Er) | exact Ew].
  Qed.

  Lemma check_widths_all :
    (forall e root, incl (enodes e) (enodes root) -> forall es, chk e = FErr es -> Forall (okd root) es) /\
    (forall a root, incl (anodes a) (enodes root) -> forall st ws,
        (forall es, check_arms_full korder f G keys C a st ws = FErr es -> Forall (okd root) es) /\
        (forall r, check_arms_full korder f G keys C a st ws = FOk r ->
           exists ws2, snd r = ws ++ ws2 /\ Forall2 (fun v w => check_sp f G C v = SOk w) (arm_values a) ws2)) /\
    (forall xs root sp e1 all_items wl,
        In (SEIn sp e1 all_items) (enodes root) -> incl (item_exprs xs) (item_exprs all_items) ->
        incl (xnodes xs) (enodes root) -> chk e1 = FOk wl ->
        (forall es, check_items_full korder f G keys C e1 wl xs = FErr es -> Forall (okd root) es) /\
        (forall errs, check_items_full korder f G keys C e1 wl xs = FOk errs -> Forall (okd root) errs)).
  Proof.
    apply sexpr_sarms_sexprs_ind.
    - intros sp v root Hi es H. discriminate H.
    - (* binary *)
      intros sp op l IHl r IHr root Hi es H.
      assert (Hself : In (SEBin sp op l r) (enodes root)) by (apply Hi; apply enodes_self).
      assert (Hil : incl (enodes l) (enodes root)).
      { intros x Hx. apply Hi. rewrite enodes_eq. right. apply in_or_app. left. exact Hx. }
      assert (Hir : incl (enodes r) (enodes root)).
      { intros x Hx. apply Hi. rewrite enodes_eq. right. apply in_or_app. right. exact Hx. }
      specialize (IHl root Hil). specialize (IHr root Hir).
      rewrite check_full_bin in H. destruct (kind op) eqn:Ek.
      + destruct (f_sbo f).
        * apply fbind_err in H. destruct H as [H|(wl & El & H)]; [exact (IHl es H)|].
          destruct (negb (possibly_boolean wl)); [apply ferr1_inj in H; subst es; apply ok1; exact I|].
          apply fbind_err in H. destruct H as [H|(wr & Er & H)]; [exact (IHr es H)|].
          destruct (negb (possibly_boolean wr)); [|discriminate H]. apply ferr1_inj in H. subst es. apply ok1. exact I.
        * apply fbind_err in H. destruct H as [H|(wl & El & H)]; [exact (IHl es H)|].
          apply fbind_err in H. destruct H as [H|(wr & Er & H)]; [exact (IHr es H)|]. discriminate H.
      + apply fbind_err in H. destruct H as [H|(wl & El & H)]; [exact (IHl es H)|].
        apply fbind_err in H. destruct H as [H|(wr & Er & H)]; [exact (IHr es H)|].
        apply fbind_err in H. destruct H as [H|(w & _ & H)]; [|discriminate H].
        exact (combine_widths root sp op l r wl wr es Hself El Er H).
      + apply fbind_err in H. destruct H as [H|(wl & El & H)]; [exact (IHl es H)|].
        apply fbind_err in H. destruct H as [H|(wr & Er & H)]; [exact (IHr es H)|].
        exact (combine_widths root sp op l r wl wr es Hself El Er H).
      + destruct (f_swb f).
        * apply fbind_err in H. destruct H as [H|(wl & El & H)]; [exact (IHl es H)|].
          apply fbind_err in H. destruct H as [H|(wr & Er & H)]; [exact (IHr es H)|].
          exact (combine_widths root sp op l r wl wr es Hself El Er H).
        * apply fbind_err in H. destruct H as [H|(wl & El & H)]; [exact (IHl es H)|].
          apply fbind_err in H. destruct H as [H|(wr & Er & H)]; [exact (IHr es H)|]. discriminate H.
    - (* unary *)
      intros sp op e IH root Hi es H.
      assert (Hie : incl (enodes e) (enodes root)).
      { intros x Hx. apply Hi. rewrite enodes_eq. right. exact Hx. }
      rewrite check_full_un in H. destruct op; try exact (IH root Hie es H).
      apply fbind_err in H. destruct H as [H|(w & _ & H)]; [exact (IH root Hie es H) | discriminate H].
    - (* mux *)
      intros sp a IH root Hi es H.
      assert (Hself : In (SEMux sp a) (enodes root)) by (apply Hi; apply enodes_self).
      assert (Hia : incl (anodes a) (enodes root)).
      { intros x Hx. apply Hi. rewrite enodes_eq. right. exact Hx. }
      destruct (IH root Hia (mkMS (Some Unl) false false false) []) as [I1 I2].
      rewrite check_full_mux in H.
      apply fbind_err in H. destruct H as [H|(r & Er & H)]; [exact (I1 es H)|].
      cbv zeta in H.
      destruct (f_rmd f && negb (ms_seen (fst r))); [apply ferr1_inj in H; subst es; apply ok1; exact I|].
      destruct (f_dmd f && ms_twice (fst r)); [apply ferr1_inj in H; subst es; apply ok1; exact I|].
      destruct (f_duo f && ms_unreach (fst r)); [apply ferr1_inj in H; subst es; apply ok1; exact I|].
      destruct (ms_width (fst r)); [discriminate H|].
      apply ferr1_inj in H. subst es. apply ok1. cbn [check_error_ok].
      destruct (I2 r Er) as (ws2 & Hws & Hall). cbn [app] in Hws.
      exists sp, a. split; [exact Hself|]. split; [reflexivity|]. rewrite Hws. exact Hall.
    - (* wire *)
      intros sp n root Hi es H. cbn [check_full] in H. destruct (G n); [discriminate H|].
      apply ferr1_inj in H. subst es. apply ok1. exact I.
    - (* slice *)
      intros sp e IH lo hi root Hi es H.
      assert (Hself : In (SESlice sp e lo hi) (enodes root)) by (apply Hi; apply enodes_self).
      assert (Hie : incl (enodes e) (enodes root)).
      { intros x Hx. apply Hi. rewrite enodes_eq. right. exact Hx. }
      rewrite check_full_slice in H. destruct (hi <? lo); [apply ferr1_inj in H; subst es; apply ok1; exact I|].
      apply fbind_err in H. destruct H as [H|(w & Ew & H)]; [exact (IH root Hie es H)|].
      destruct w as [iw|]; [|discriminate H]. destruct (iw <? hi) eqn:Ei; [|discriminate H].
      apply ferr1_inj in H. subst es. apply ok1. cbn [check_error_ok].
      exists e, lo, iw. split; [exact Hself|]. split; [exact (check_full_ok korder f G keys C e _ Ew)|].
      apply N.ltb_lt. exact Ei.
    - (* concatenation *)
      intros sp l IHl r IHr root Hi es H.
      assert (Hil : incl (enodes l) (enodes root)).
      { intros x Hx. apply Hi. rewrite enodes_eq. right. apply in_or_app. left. exact Hx. }
      assert (Hir : incl (enodes r) (enodes root)).
      { intros x Hx. apply Hi. rewrite enodes_eq. right. apply in_or_app. right. exact Hx. }
      rewrite check_full_cat in H.
      apply fbind_err in H. destruct H as [H|(wl & El & H)]; [exact (IHl root Hil es H)|].
      destruct wl as [lw|]; [|apply ferr1_inj in H; subst es; apply ok1; exact I].
      apply fbind_err in H. destruct H as [H|(wr & Er & H)]; [exact (IHr root Hir es H)|].
      destruct wr as [rw|]; [|apply ferr1_inj in H; subst es; apply ok1; exact I].
      destruct (lw + rw <=? 128); [discriminate H|]. apply ferr1_inj in H. subst es. apply ok1. exact I.
    - (* in *)
      intros sp e IHe xs IHx root Hi es H.
      assert (Hself : In (SEIn sp e xs) (enodes root)) by (apply Hi; apply enodes_self).
      assert (Hie : incl (enodes e) (enodes root)).
      { intros x Hx. apply Hi. rewrite enodes_eq. right. apply in_or_app. left. exact Hx. }
      assert (Hix : incl (xnodes xs) (enodes root)).
      { intros x Hx. apply Hi. rewrite enodes_eq. right. apply in_or_app. right. exact Hx. }
      rewrite check_full_in in H.
      apply fbind_err in H. destruct H as [H|(wl & El & H)]; [exact (IHe root Hie es H)|].
      destruct (IHx root sp e xs wl Hself (incl_refl _) Hix El) as [I1 I2].
      apply fbind_err in H. destruct H as [H|(errs & Ee & H)]; [exact (I1 es H)|].
      destruct errs as [|d errs]; [discriminate H|]. injection H as <-. exact (I2 _ Ee).
    - (* no arm *)
      intros root Hi st ws. split; [intros es H; discriminate H|].
      intros r H. injection H as <-. exists []. cbn [snd arm_values]. rewrite app_nil_r. split; [reflexivity | constructor].
    - (* an arm *)
      intros c IHc v IHv rest IHr root Hi st ws.
      assert (Hic : incl (enodes c) (enodes root)).
      { intros x Hx. apply Hi. rewrite anodes_cons. apply in_or_app. left. exact Hx. }
      assert (Hiv : incl (enodes v) (enodes root)).
      { intros x Hx. apply Hi. rewrite anodes_cons. apply in_or_app. right. apply in_or_app. left. exact Hx. }
      assert (Hir : incl (anodes rest) (enodes root)).
      { intros x Hx. apply Hi. rewrite anodes_cons. apply in_or_app. right. apply in_or_app. right. exact Hx. }
      rewrite check_arms_full_cons. split.
      + intros es H.
        apply fbind_err in H. destruct H as [H|(wc & _ & H)]; [exact (IHc root Hic es H)|].
        cbv zeta in H.
        apply fbind_err in H. destruct H as [H|(wv & _ & H)]; [exact (IHv root Hiv es H)|].
        exact (proj1 (IHr root Hir _ _) es H).
      + intros r H.
        apply fbind_ok in H. destruct H as (wc & _ & H). cbv zeta in H.
        apply fbind_ok in H. destruct H as (wv & Ev & H).
        destruct (proj2 (IHr root Hir _ _) r H) as (ws2 & Hws & Hall).
        exists (wv :: ws2). split; [rewrite Hws, <- app_assoc; reflexivity|].
        cbn [arm_values]. constructor; [exact (check_full_ok korder f G keys C v wv Ev) | exact Hall].
    - (* no item *)
      intros root sp e1 all_items wl Hself Hsub Hi El. split.
      + intros es H. discriminate H.
      + intros errs H. injection H as <-. constructor.
    - (* an item *)
      intros e IHe rest IHr root sp e1 all_items wl Hself Hsub Hi El.
      assert (Hie : incl (enodes e) (enodes root)).
      { intros x Hx. apply Hi. rewrite xnodes_cons. apply in_or_app. left. exact Hx. }
      assert (Hir : incl (xnodes rest) (enodes root)).
      { intros x Hx. apply Hi. rewrite xnodes_cons. apply in_or_app. right. exact Hx. }
      assert (Hsub' : incl (item_exprs rest) (item_exprs all_items)).
      { intros x Hx. apply Hsub. cbn [item_exprs]. right. exact Hx. }
      assert (Hin : In e (item_exprs all_items)) by (apply Hsub; cbn [item_exprs]; left; reflexivity).
      destruct (IHr root sp e1 all_items wl Hself Hsub' Hir El) as [I1 I2].
      rewrite check_items_full_cons. split.
      + intros es H.
        apply fbind_err in H. destruct H as [H|(wi & Ei & H)]; [exact (IHe root Hie es H)|].
        apply fbind_err in H. destruct H as [H|(more & Em & H)]; [exact (I1 es H)|].
        destruct (wcombine wl wi); discriminate H.
      + intros errs H.
        apply fbind_ok in H. destruct H as (wi & Ei & H).
        apply fbind_ok in H. destruct H as (more & Em & H).
        destruct (wcombine wl wi) eqn:Ew; injection H as <-; [exact (I2 _ Em)|].
        constructor; [|exact (I2 _ Em)]. cbn [check_error_ok].
        exists e1, e. split; [apply (child_node root _ _ Hself); left; reflexivity|].
        split; [apply (child_node root _ _ Hself); right; exact Hin|].
        repeat (split; [reflexivity|]).
        split; [exact (check_full_ok korder f G keys C e1 wl El)|].
        split; [exact (check_full_ok korder f G keys C e wi Ei) | exact Ew].
  Qed.
End CheckWidths.

Theorem check_full_widths_holds : stmt_check_full_widths.
Proof.
  intros korder f G keys C e es H. exact (proj1 (check_widths_all korder f G keys C) e e (incl_refl _) es H).
Qed.

Theorem check_full_expr_widths_holds : stmt_check_full_expr_widths.
Proof.
  intros korder f G keys C e es sx wx sy wy H Hin.
  pose proof (check_full_widths_holds korder f G keys C e es H) as Hall. rewrite Forall_forall in Hall.
  destruct (Hall _ Hin) as (x & y & Hx & Hy & Ex & Ey & Cx & Cy & Hw).
  exists x, y. repeat (split; [assumption|]).
  split; [rewrite <- check_sp_erase, Cx; reflexivity|].
  split; [rewrite <- check_sp_erase, Cy; reflexivity | exact Hw].
Qed.

Section EvalErrors.
  Variable korder : list string -> list string.
  Variable f : features.
  Variable rho : string -> option wval.
  Variable rkeys : list string.
  Notation evl := (eval_full korder f rho rkeys).

  Lemma apply_full_errors op lv rv es : apply_full f op lv rv = FErr es -> Forall eval_error_ok es.
  Proof.
    unfold apply_full. destruct (apply f op lv rv) as [v|es'] eqn:E; [discriminate|].
    intros H. injection H as <-.
    destruct (apply_errs f op lv rv es' E) as [-> | ->]; cbn [map ek]; constructor; try exact I; constructor.
  Qed.

  Lemma eval_errors_all :
    (forall e es, evl e = FErr es -> Forall eval_error_ok es) /\
    (forall a es, eval_arms_full korder f rho rkeys a = FErr es -> Forall eval_error_ok es) /\
    (forall xs x es, eval_items_full korder f rho rkeys x xs = FErr es -> Forall eval_error_ok es).
  Proof.
    apply sexpr_sarms_sexprs_ind.
    - intros sp v es H. discriminate H.
    - intros sp op l IHl r IHr es H. rewrite eval_full_bin in H.
      apply fbind_err in H. destruct H as [H|(lv & _ & H)]; [exact (IHl es H)|].
      apply fbind_err in H. destruct H as [H|(rv & _ & H)]; [exact (IHr es H)|].
      exact (apply_full_errors op lv rv es H).
    - intros sp op e IH es H. rewrite eval_full_un in H.
      apply fbind_err in H. destruct H as [H|(v & _ & H)]; [exact (IH es H) | discriminate H].
    - intros sp a IH es H. rewrite eval_full_mux in H.
      apply fbind_err in H. destruct H as [H|(v & _ & H)]; [exact (IH es H) | discriminate H].
    - intros sp n es H. cbn [eval_full] in H. destruct (rho n); [discriminate H|].
      injection H as <-. constructor; [exact I | constructor].
    - intros sp e IH lo hi es H. rewrite eval_full_slice in H.
      apply fbind_err in H. destruct H as [H|(v & _ & H)]; [exact (IH es H) | discriminate H].
    - intros sp l IHl r IHr es H. rewrite eval_full_cat in H.
      apply fbind_err in H. destruct H as [H|(lv & _ & H)]; [exact (IHl es H)|].
      apply fbind_err in H. destruct H as [H|(rv & _ & H)]; [exact (IHr es H)|].
      destruct (wd rv).
      + destruct (wd lv); [discriminate H|]. injection H as <-. constructor; [exact I | constructor].
      + injection H as <-. constructor; [exact I | constructor].
    - intros sp e IHe xs IHx es H. rewrite eval_full_in in H.
      apply fbind_err in H. destruct H as [H|(v & _ & H)]; [exact (IHe es H) | exact (IHx _ es H)].
    - intros es H. discriminate H.
    - intros c IHc v IHv rest IHr es H. rewrite eval_arms_full_cons in H.
      apply fbind_err in H. destruct H as [H|(cv & _ & H)]; [exact (IHc es H)|].
      destruct (is_true cv); [exact (IHv es H) | exact (IHr es H)].
    - intros x es H. discriminate H.
    - intros e IHe rest IHr x es H. rewrite eval_items_full_cons in H.
      apply fbind_err in H. destruct H as [H|(rv & _ & H)]; [exact (IHe es H)|].
      destruct (x =? bits rv); [discriminate H | exact (IHr x es H)].
  Qed.
End EvalErrors.

Theorem eval_full_errors_holds : stmt_eval_full_errors.
Proof. intros korder f rho rkeys e es H. exact (proj1 (eval_errors_all korder f rho rkeys) e es H). Qed.

(* ---- program level ------------------------------------------------------------------------------- *)
Lemma Forall_map_FE (P : ferr -> Prop) {X} (g : X -> rerror) (l : list X) :
  (forall x, P (FE (g x))) -> Forall P (map (fun x => FE (g x)) l).
Proof. intros H. induction l as [|x l IH]; cbn [map]; constructor; [apply H | exact IH]. Qed.

Section BuildWidths.
  Variable korder : list string -> list string.
  Variable f : features.
  Variable fixed : list fixed_fn.
  Variable is_lower : string -> bool.
  Variable is_upper : string -> bool.
  Variable stmts : list sstmt.

  Notation bok := (build_error_ok f stmts).
  Notation s := (fold_left (step1_sp fixed) stmts (init1_sp fixed)).
  Notation Inv := (pass1_inv f fixed stmts).

  Lemma check_to_build root G C d : In root (all_exprs stmts) -> check_error_ok f G C root d -> bok d.
  Proof.
    intros Hr H. destruct d as [e|k names]; [|destruct H].
    destruct e; cbn [check_error_ok build_error_ok] in *; try contradiction;
      try (exists root, G, C; split; assumption); exact I.
  Qed.

  Lemma eval_to_build d : eval_error_ok d -> bok d.
  Proof.
    intros H. destruct d as [e|k names]; [|destruct H].
    destruct e; cbn [eval_error_ok build_error_ok] in *; try contradiction; exact I.
  Qed.

  Lemma checks_to_build root G C es : In root (all_exprs stmts) -> Forall (check_error_ok f G C root) es -> Forall bok es.
  Proof. intros Hr. apply Forall_impl. intros d. apply check_to_build. exact Hr. Qed.
  Lemma evals_to_build es : Forall eval_error_ok es -> Forall bok es.
  Proof. apply Forall_impl. exact eval_to_build. Qed.

  (* pass 1 *)
  Lemma cdd_bok s0 name sp : Forall bok (cdd_full fixed s0 name sp).
  Proof.
    unfold cdd_full. destruct (lookup (ss_decl_spans s0) name); [repeat constructor|].
    destruct (mem_str name (fixed_names fixed)); repeat constructor.
  Qed.

  Definition Pb {S : Type} (acc : S * list ferr) : Prop := Forall bok (snd acc).

  Lemma step1_full_bok acc x : Pb acc -> Pb (step1_full fixed acc x).
  Proof.
    destruct x as [decls|decls|assigns|name nsp regs bsp]; cbn [step1_full].
    - revert acc. induction decls as [|d decls IH]; intros acc H; cbn [fold_left]; [exact H|].
      apply IH. destruct acc as [s0 es]. unfold Pb in *. cbn [step1_const_full snd] in *.
      apply Forall_app. split; [exact H | apply cdd_bok].
    - revert acc. induction decls as [|d decls IH]; intros acc H; cbn [fold_left]; [exact H|].
      apply IH. destruct acc as [s0 es]. unfold Pb in *. cbn [step1_wire_full snd] in *.
      apply Forall_app. split; [exact H | apply cdd_bok].
    - revert acc. induction assigns as [|a assigns IH]; intros acc H; cbn [fold_left]; [exact H|].
      apply IH. clear IH. revert acc H. induction (fst (fst a)) as [|nm names IHn]; intros acc H; cbn [fold_left]; [exact H|].
      apply IHn. destruct acc as [s0 es]. destruct nm as [name sp]. unfold Pb in *.
      cbn [step1_assign_name_full snd] in *. apply Forall_app. split; [exact H|].
      unfold assign_name_full. destruct (lookup (ss_assign_spans s0) name); [repeat constructor|].
      destruct (mem_str name (fixed_out_names fixed)); repeat constructor.
    - intros H. exact H.
  Qed.

  Lemma steps1_full_bok : forall l acc, Pb acc -> Pb (fold_left (step1_full fixed) l acc).
  Proof. induction l as [|x l IH]; intros acc H; cbn [fold_left]; [exact H|]. apply IH. apply step1_full_bok. exact H. Qed.

  Lemma const_assigned_bok s0 : Forall bok (const_assigned_full s0).
  Proof.
    unfold const_assigned_full. apply Forall_flat_map. intros ns _.
    destruct (has (ss_consts s0) (fst ns)); repeat constructor.
  Qed.

  Lemma const_ref_bok s0 : Forall bok (const_ref_full korder s0).
  Proof.
    unfold const_ref_full. apply Forall_flat_map. intros ne _. apply Forall_flat_map. intros r _.
    destruct (has (ss_wires s0) r && negb (has (ss_consts s0) r)).
    - apply (Forall_map_FE bok (fun sp => RNonConstantWireRead r sp)). intros sp. exact I.
    - destruct (negb (has (ss_consts s0) r)); [|constructor].
      apply (Forall_map_FE bok (fun sp => RUndeclaredWireRead r sp _)). intros sp. exact I.
  Qed.

  (* pass 2 *)
  Lemma eval_consts_bok : forall order vals errs vals' errs',
    Forall bok errs -> eval_consts_full korder f (ss_consts s) order vals errs = (vals', errs') -> Forall bok errs'.
  Proof.
    induction order as [|n r IH]; intros vals errs vals' errs' He H; cbn [eval_consts_full] in H.
    - injection H as _ <-. exact He.
    - destruct (lookup (ss_consts s) n) as [e|] eqn:En.
      2:{ injection H as _ <-. apply Forall_app. split; [exact He|]. constructor; [left; reflexivity | constructor]. }
      assert (Hroot : In e (all_exprs stmts)).
      { exact (const_in_exprs _ _ _ (latest_in _ _ _ (const_latest f fixed stmts s Inv n e En))). }
      destruct (check_full korder f _ (map fst vals) (lookup vals) e) as [wc|es] eqn:Ec.
      + destruct (eval_full korder f (lookup vals) (map fst vals) e) as [v|es] eqn:Ee.
        * exact (IH _ _ _ _ He H).
        * apply (IH _ _ _ _) in H; [exact H|]. apply Forall_app. split; [exact He|].
          apply evals_to_build. exact (eval_full_errors_holds _ _ _ _ _ _ Ee).
      + apply (IH _ _ _ _) in H; [exact H|]. apply Forall_app. split; [exact He|].
        eapply checks_to_build; [exact Hroot | exact (check_full_widths_holds _ _ _ _ _ _ _ Ec)].
  Qed.

  Lemma internal_bok es : LoopProofs.kinds internal_kind es -> Forall bok (map finternal es).
  Proof.
    intros H. induction H as [|e es He _ IH]; cbn [map]; constructor; [|exact IH].
    cbn [finternal build_error_ok]. destruct (ek e); cbn in He; try discriminate He; [left | right]; reflexivity.
  Qed.

  Lemma resolve_bok es : resolve_constants_full korder f (ss_consts s) = FErr es -> Forall bok es.
  Proof.
    unfold resolve_constants_full.
    destruct (toposort string String.eqb (const_graph (amap erase_expr (ss_consts s)))) as [[order|cyc]|tes] eqn:Et;
      cbn [flift fbind].
    - destruct (eval_consts_full korder f (ss_consts s) order [] []) as [vals errs] eqn:Ev.
      intros H. destruct errs; [discriminate H|]. injection H as <-.
      exact (eval_consts_bok order [] [] vals _ (Forall_nil _) Ev).
    - intros H. injection H as <-. repeat constructor.
    - intros H. injection H as <-. apply internal_bok. exact (toposort_err_internal string String.eqb _ tes Et).
  Qed.

  (* pass 3 *)
  Lemma register_bok consts bname nsp regs inp outp acc r :
    In (bname, nsp, regs) (bank_list stmts) -> In r regs ->
    Forall bok (register_errors_full korder f s consts bname inp outp acc r).
  Proof.
    intros Hb Hr. destruct acc as [[t sigs] defaults]. destruct r as [[[rname w] dflt] rsp].
    assert (Hroot : In dflt (all_exprs stmts)) by exact (proj2 (proj2 (bank_in _ _ _ _ Hb) rname w dflt rsp Hr)).
    unfold register_errors_full.
    set (pre := flat_map _ _ ++ _).
    assert (Hpre : Forall bok pre).
    { unfold pre.
      apply Forall_app; split; [|apply Forall_app; split; [|apply Forall_app; split; [|apply Forall_app; split; [|apply Forall_app; split]]]].
      - apply Forall_flat_map. intros n _. destruct (lookup (ss_decl_spans s) n); repeat constructor.
      - apply Forall_flat_map. intros rf _. destruct (has (ss_wires s) rf && negb (has consts rf)); [|constructor].
        apply (Forall_map_FE bok (fun sp => RNonConstantWireRead rf sp)). intros sp. exact I.
      - destruct (has defaults _); repeat constructor.
      - destruct (has (ss_assigns s) _); repeat constructor.
      - destruct (lookup (st_seen t) _); repeat constructor.
      - destruct (lookup (add_first (st_seen t) _ rsp) _); repeat constructor. }
    clearbody pre. destruct pre as [|p0 pre]; [|exact Hpre].
    destruct (check_full korder f _ (map fst consts) (lookup consts) dflt) as [wc|es] eqn:Ec.
    - destruct (eval_full korder f (lookup consts) (map fst consts) dflt) as [v|es] eqn:Ee.
      + destruct (wcombine (wd v) w); repeat constructor.
      + apply evals_to_build. exact (eval_full_errors_holds _ _ _ _ _ _ Ee).
    - eapply checks_to_build; [exact Hroot | exact (check_full_widths_holds _ _ _ _ _ _ _ Ec)].
  Qed.

  Lemma registers_bok consts bname nsp regs inp outp :
    In (bname, nsp, regs) (bank_list stmts) ->
    forall regs' acc, incl regs' regs -> Forall bok (snd acc) ->
      Forall bok (snd (fold_left (step3_register_full korder f s consts bname inp outp) regs' acc)).
  Proof.
    intros Hb. induction regs' as [|r regs' IH]; intros acc Hsub H; cbn [fold_left]; [exact H|].
    apply IH; [intros x Hx; apply Hsub; right; exact Hx|].
    unfold step3_register_full. cbn [snd]. apply Forall_app. split; [exact H|].
    apply (register_bok consts bname nsp regs inp outp (fst acc) r Hb). apply Hsub. left. reflexivity.
  Qed.

  Lemma bank_bok consts t b : In b (bank_list stmts) -> Forall bok (bank_errors_full korder f is_lower is_upper s consts t b).
  Proof.
    intros Hb. destruct b as [[name nsp] regs]. unfold bank_errors_full.
    destruct (utf8_chars name "") as [|inp [|outp [|x l]]]; try (repeat constructor).
    destruct (negb (is_lower inp) || negb (is_upper outp)); [repeat constructor|].
    apply Forall_app. split.
    - apply Forall_flat_map. intros n _. destruct (lookup (ss_decl_spans s) n); repeat constructor.
    - apply (registers_bok consts name nsp regs inp outp Hb regs _ (incl_refl _)). constructor.
  Qed.

  Lemma banks_bok consts : forall banks acc, incl banks (bank_list stmts) -> Forall bok (snd acc) ->
    Forall bok (snd (fold_left (step3_bank_full korder f is_lower is_upper s consts) banks acc)).
  Proof.
    induction banks as [|b banks IH]; intros acc Hsub H; cbn [fold_left]; [exact H|].
    apply IH; [intros x Hx; apply Hsub; right; exact Hx|].
    unfold step3_bank_full. cbn [snd]. apply Forall_app. split; [exact H|].
    apply bank_bok. apply Hsub. left. reflexivity.
  Qed.

  Lemma unset_bok t needed : Forall bok (unset_full s t needed).
  Proof.
    unfold unset_full. apply Forall_flat_map. intros n _.
    destruct (has (ss_assigns s) n); [constructor|].
    destruct (lookup (ss_decl_spans s) n); [repeat constructor|].
    destruct (lookup (st_in_spans t) n); repeat constructor.
  Qed.

  (* pass 5 *)
  Lemma preprocess_errors_bok consts assigns g ff : Forall bok (preprocess_errors_full f consts assigns g ff).
  Proof.
    unfold preprocess_errors_full. cbv zeta.
    assert (Hm : forall l : list string, Forall bok (map (fun n => FE (RUnsetBuiltinWire n)) l)).
    { intros l. apply (Forall_map_FE bok (fun n => RUnsetBuiltinWire n)). intros n. exact I. }
    destruct (filter (fun n => negb (has assigns n)) (fixed_in_names ff)) as [|m0 ms]; [constructor|].
    destruct (ff_mandatory ff); [apply Hm|].
    apply Forall_app. split.
    - destruct (ff_out ff) as [[o w]|]; [|constructor]. destruct (graph_has_node g o); [apply Hm | constructor].
    - destruct (List.length (m0 :: ms) =? List.length (ff_ins ff))%nat; [constructor|].
      match goal with |- context [if ?b then _ else _] => destruct b end; repeat constructor.
  Qed.

  Lemma preprocess_bok consts assigns : forall l acc, Forall bok (snd acc) ->
    Forall bok (snd (fold_left (preprocess_one_full f consts assigns) l acc)).
  Proof.
    induction l as [|ff l IH]; intros acc H; cbn [fold_left]; [exact H|].
    apply IH. unfold preprocess_one_full. cbn [snd]. apply Forall_app. split; [exact H | apply preprocess_errors_bok].
  Qed.

  Lemma schedule_bok widths consts by_out : forall order acts errs und acts' errs' und',
    Forall bok errs ->
    schedule_full korder f widths consts (ss_assigns s) (ss_assign_spans s) by_out (ss_decl_spans s) order acts errs und
      = (acts', errs', und') ->
    Forall bok errs'.
  Proof.
    induction order as [|n r IH]; intros acts errs und acts' errs' und' He H; cbn [schedule_full] in H.
    - injection H as _ <- _. exact He.
    - destruct (lookup (ss_assigns s) n) as [e|] eqn:Ea.
      + destruct (assigned_latest f fixed stmts s Inv n e Ea) as (nsp & Hl & _).
        destruct (lookup widths n) as [w|] eqn:Ew.
        * destruct (check_full korder f (lookup widths) (map fst widths) (lookup consts) e) as [we|es] eqn:Ec.
          -- apply (IH _ _ _ _ _ _) in H; [exact H|]. apply Forall_app. split; [exact He|].
             destruct (wcombine w we) eqn:Ewc; [constructor|]. constructor; [|constructor].
             cbn [build_error_ok]. exists nsp, e, (lookup widths), (lookup consts).
             split; [exact Hl|]. split; [reflexivity|]. split; [exact Ew|].
             split; [exact (check_full_ok korder f _ _ _ e we Ec) | exact Ewc].
          -- apply (IH _ _ _ _ _ _) in H; [exact H|]. apply Forall_app. split; [exact He|].
             eapply checks_to_build; [|exact (check_full_widths_holds _ _ _ _ _ _ _ Ec)].
             exact (proj2 (target_in _ _ _ _ (latest_in _ _ _ Hl))).
        * apply (IH _ _ _ _ _ _) in H; [exact H|]. apply Forall_app. split; [exact He | repeat constructor].
      + destruct (lookup by_out n) as [ff|]; [exact (IH _ _ _ _ _ _ He H)|].
        destruct (lookup (ss_decl_spans s) n) as [sp|]; [|exact (IH _ _ _ _ _ _ He H)].
        apply (IH _ _ _ _ _ _) in H; [exact H|]. apply Forall_app. split; [exact He | repeat constructor].
  Qed.

  Lemma assignments_bok widths consts known es :
    assignments_to_actions_full korder f fixed widths consts (ss_assigns s) (ss_assign_spans s) known (ss_decl_spans s) = FErr es ->
    Forall bok es.
  Proof.
    unfold assignments_to_actions_full.
    pose proof (preprocess_bok consts (amap erase_expr (ss_assigns s)) fixed
                  ((assign_graph (amap erase_expr (ss_assigns s)) known, [], [], []), []) (Forall_nil _)) as Hp.
    destruct (fold_left (preprocess_one_full f consts (amap erase_expr (ss_assigns s))) fixed
                        ((assign_graph (amap erase_expr (ss_assigns s)) known, [], [], []), [])) as [[[[g by_out] no_out] berrs] errs0].
    cbn [snd] in Hp. destruct errs0 as [|e0 errs0]; [|intros H; injection H as <-; exact Hp].
    destruct (toposort string String.eqb g) as [[order|cyc]|tes] eqn:Et; cbn [flift fbind].
    - destruct (schedule_full korder f widths consts (ss_assigns s) (ss_assign_spans s) by_out (ss_decl_spans s) order [] [] [])
        as [[acts errs] und] eqn:Es.
      pose proof (schedule_bok widths consts by_out order [] [] [] acts errs und (Forall_nil _) Es) as Hs.
      destruct (errs ++ map (fun n => FE (RUnsetUndeclaredWire n)) und) as [|x xs] eqn:Ex; [discriminate|].
      intros H. injection H as <-. rewrite <- Ex. apply Forall_app. split; [exact Hs|].
      apply (Forall_map_FE bok (fun n => RUnsetUndeclaredWire n)). intros n. exact I.
    - intros H. injection H as <-. repeat constructor.
    - intros H. injection H as <-. apply internal_bok. exact (toposort_err_internal string String.eqb g tes Et).
  Qed.

  Lemma build_full_bok es :
    build_program_full korder f fixed is_lower is_upper stmts = FErr es -> Forall bok es.
  Proof.
    unfold build_program_full.
    destruct (steps1_full_ok fixed stmts) as [H1 _].
    pose proof (steps1_full_bok stmts (init1_sp fixed, []) (Forall_nil _)) as Hb1. unfold Pb in Hb1.
    destruct (fold_left (step1_full fixed) stmts (init1_sp fixed, [])) as [s0 es1]. cbn [fst snd] in H1, Hb1. subst s0.
    destruct (es1 ++ const_assigned_full s ++ const_ref_full korder s) as [|e0 errs1] eqn:E1.
    2:{ intros H. injection H as <-. rewrite <- E1. apply Forall_app. split; [exact Hb1|].
        apply Forall_app. split; [apply const_assigned_bok | apply const_ref_bok]. }
    destruct (resolve_constants_full korder f (ss_consts s)) as [consts|res] eqn:Er; cbn [fbind].
    2:{ intros H. injection H as <-. exact (resolve_bok res Er). }
    assert (Hbanks : incl (ss_banks s) (bank_list stmts)).
    { rewrite (i_banks _ _ _ _ _ _ _ _ Inv). apply incl_refl. }
    pose proof (banks_bok consts (ss_banks s) (mkSSt3 [] [] (ss_types s) [] [] [], []) Hbanks (Forall_nil _)) as Hb3.
    destruct (fold_left (step3_bank_full korder f is_lower is_upper s consts) (ss_banks s)
                        (mkSSt3 [] [] (ss_types s) [] [] [], [])) as [t es3].
    cbn [snd] in Hb3.
    destruct (es3 ++ unset_full s t _) as [|e4 errs4] eqn:E4.
    2:{ intros H. injection H as <-. rewrite <- E4. apply Forall_app. split; [exact Hb3 | apply unset_bok]. }
    destruct (assignments_to_actions_full korder f fixed _ consts (ss_assigns s) (ss_assign_spans s) _ (ss_decl_spans s))
      as [acts|aes] eqn:Ea; cbn [fbind]; [discriminate|].
    intros H. injection H as <-. exact (assignments_bok _ consts _ aes Ea).
  Qed.
End BuildWidths.

Theorem full_widths_holds : stmt_full_widths.
Proof. intros korder f fixed lo up stmts es H. exact (build_full_bok korder f fixed lo up stmts es H). Qed.

(* the internal diagnostics never occur with the compiled component table *)
Theorem full_no_internal_gen_holds : stmt_full_no_internal_gen.
Proof.
  intros korder f lo up stmts es H.
  pose proof (full_erases_to_build_holds korder f gen_fixed lo up stmts) as He. rewrite H in He.
  cbn [sres_of erase_sresult] in He. symmetry in He.
  destruct (FrontTotalProofs.build_no_internal_error_gen_holds f lo up _ _ He) as [Hne Hu].
  split; [intros ->; apply Hne; reflexivity|].
  pose proof (full_widths_holds korder f gen_fixed lo up stmts es H) as Hw.
  apply Forall_forall. intros d Hd. destruct d as [e|k names]; [exact I|]. exfalso.
  rewrite Forall_forall in Hw. pose proof (Hw _ Hd) as Hk. cbn [build_error_ok] in Hk.
  assert (Hin : In (mkErr k names) (map erase_serr (map serr_of es))).
  { apply in_map_iff. exists (serr_of (FInternal k names)). split; [reflexivity|]. apply in_map. exact Hd. }
  destruct (Hu _ Hin) as [N1 N2]. cbn [ek] in N1, N2. destruct Hk; contradiction.
Qed.

(* ====================================================================================== *)
(* (e) close names                                                                         *)
(* ====================================================================================== *)
Lemma last_opt_in {A} (l : list A) x : last_opt l = Some x -> In x l.
Proof.
  induction l as [|y l IH]; cbn [last_opt]; [discriminate|].
  destruct l as [|z l]; [intros H; injection H as <-; left; reflexivity|].
  intros H. right. exact (IH H).
Qed.

Lemma Permutation_filter' {A} (p : A -> bool) l l' : Permutation l l' -> Permutation (filter p l) (filter p l').
Proof.
  induction 1 as [|x l l' _ IH|x y l|l l' l'' _ IH1 _ IH2]; cbn [filter].
  - constructor.
  - destruct (p x); [constructor; exact IH | exact IH].
  - destruct (p x), (p y); try apply Permutation_refl. apply perm_swap.
  - exact (Permutation_trans IH1 IH2).
Qed.

Theorem close_name_sound_holds : stmt_close_name_sound.
Proof.
  intros korder target keys c Hp H. unfold find_close_name, close_candidates in H.
  apply last_opt_in in H. apply filter_In in H. destruct H as [H1 H2].
  split; [exact (Permutation_in c (Hp keys) H1) | exact H2].
Qed.

Theorem close_name_unique_holds : stmt_close_name_unique.
Proof.
  intros korder target keys Hp. unfold find_close_name, close_candidates.
  pose proof (Permutation_filter' (eq_ignore_ascii_case target) _ _ (Hp keys)) as H. split.
  - intros E. rewrite E in H. apply Permutation_sym, Permutation_nil in H. rewrite H. reflexivity.
  - intros c E. rewrite E in H. apply Permutation_sym, Permutation_length_1_inv in H. rewrite H. reflexivity.
Qed.

Lemma close_name_order_free_refuted : ~ stmt_close_name_order_free.
Proof.
  intros H.
  specialize (H (fun l => l) (@rev string) "foo" ["Foo"; "FOO"] (fun l => Permutation_refl l)
                (fun l => Permutation_sym (Permutation_rev l))).
  vm_compute in H. discriminate H.
Qed.

Theorem eq_ignore_ascii_case_holds : stmt_eq_ignore_ascii_case.
Proof.
  intros a. induction a as [|x a IH]; intros [|y b]; cbn [eq_ignore_ascii_case list_ascii_of_string map]; split; intros H;
    try reflexivity; try discriminate H.
  - apply andb_true_iff in H. destruct H as [H1 H2]. apply N.eqb_eq in H1. rewrite H1. f_equal. apply IH. exact H2.
  - injection H as H1 H2. apply andb_true_iff. split; [apply N.eqb_eq; exact H1 | apply IH; exact H2].
Qed.

(* ====================================================================================== *)
(* (b) renderable                                                                          *)
(* ====================================================================================== *)
Lemma arm_spans_values_length a : List.length (arm_value_spans a) = List.length (arm_values a).
Proof. induction a as [|c v rest IH]; cbn [arm_value_spans arm_values List.length]; [reflexivity | rewrite IH; reflexivity]. Qed.

Lemma Forall2_length' {A B} (R : A -> B -> Prop) la lb : Forall2 R la lb -> List.length la = List.length lb.
Proof. induction 1; cbn [List.length]; [reflexivity | f_equal; assumption]. Qed.

Lemma check_ok_mux_length f G C root options widths :
  check_error_ok f G C root (FE (RMismatchedMuxWidths options widths)) -> List.length widths = List.length options.
Proof.
  intros (sp & a & _ & -> & Hall). rewrite arm_spans_values_length. symmetry. exact (Forall2_length' _ _ _ Hall).
Qed.

Lemma check_ok_renderable f G C root fc e : check_error_ok f G C root (FE e) -> renderable fc e = true.
Proof.
  intros H. destruct e; cbn [check_error_ok] in H; try contradiction; try reflexivity.
  cbn [renderable]. rewrite (check_ok_mux_length f G C root _ _ H). apply Nat.leb_refl.
Qed.

Lemma eval_ok_renderable fc e : eval_error_ok (FE e) -> renderable fc e = true.
Proof. intros H. destruct e; cbn [eval_error_ok] in H; try contradiction; reflexivity. Qed.

Lemma build_ok_mux_length f stmts options widths :
  build_error_ok f stmts (FE (RMismatchedMuxWidths options widths)) -> List.length widths = List.length options.
Proof. intros (root & G & C & _ & H). exact (check_ok_mux_length f G C root _ _ H). Qed.

Lemma build_ok_renderable f stmts fc e : build_error_ok f stmts (FE e) -> renderable fc e = true.
Proof.
  intros H. destruct e; cbn [build_error_ok] in H; try contradiction; try reflexivity.
  cbn [renderable]. rewrite (build_ok_mux_length f stmts _ _ H). apply Nat.leb_refl.
Qed.

Lemma pdiag_renderable fc d : renderable fc (rerror_of_pdiag d) = true.
Proof. unfold rerror_of_pdiag. destruct (fst d); reflexivity. Qed.

Theorem full_errors_renderable_holds : stmt_full_errors_renderable.
Proof.
  split; [|split; [|split; [|split]]].
  - intros korder f fixed lo up stmts es fc e H Hin.
    pose proof (full_widths_holds korder f fixed lo up stmts es H) as Hw. rewrite Forall_forall in Hw.
    exact (build_ok_renderable f stmts fc e (Hw _ Hin)).
  - intros korder f G keys C x es fc e H Hin.
    pose proof (check_full_widths_holds korder f G keys C x es H) as Hw. rewrite Forall_forall in Hw.
    exact (check_ok_renderable f G C x fc e (Hw _ Hin)).
  - intros korder f rho rkeys x es fc e H Hin.
    pose proof (eval_full_errors_holds korder f rho rkeys x es H) as Hw. rewrite Forall_forall in Hw.
    exact (eval_ok_renderable fc e (Hw _ Hin)).
  - intros r fc e Hin. unfold parse_errors_full in Hin. apply in_map_iff in Hin. destruct Hin as (d & <- & _).
    apply pdiag_renderable.
  - intros err fc. destruct err; reflexivity.
Qed.

Theorem mux_widths_complete_holds : stmt_mux_widths_complete.
Proof.
  intros korder f fixed lo up stmts es options widths H Hin.
  pose proof (full_widths_holds korder f fixed lo up stmts es H) as Hw. rewrite Forall_forall in Hw.
  exact (build_ok_mux_length f stmts _ _ (Hw _ Hin)).
Qed.

Lemma all_external_in es : forall l, all_external es = Some l -> forall e, In e l -> In (FE e) es.
Proof.
  unfold all_external. induction es as [|d es IH]; cbn [map_option]; intros l H e He.
  - injection H as <-. destruct He.
  - destruct d as [e0|k names]; [|discriminate H].
    destruct (map_option _ es) as [l'|] eqn:E; [|discriminate H]. injection H as <-.
    destruct He as [<-|He]; [left; reflexivity | right; exact (IH l' eq_refl e He)].
Qed.

(* where the errors of front_errors come from *)
Lemma front_errors_cases korder uc tiers f fixed lo up bytes es :
  front_errors korder uc tiers f fixed lo up bytes = Some es ->
  (exists toks err, lex uc bytes = (toks, Some err) /\ es = [rerror_of_lex err]) \/
  (exists toks stmts, lex uc bytes = (toks, None) /\ parse_sp tiers toks = Some stmts /\
     ((exists p, build_program_full korder f fixed lo up stmts = FOk p /\ es = []) \/
      (exists fes, build_program_full korder f fixed lo up stmts = FErr fes /\ all_external fes = Some es /\ es <> []))) \/
  (exists toks r, lex uc bytes = (toks, None) /\ parse_sp tiers toks = None /\ parse_diag tiers toks = Some r /\
                  es = parse_errors_full r /\ es <> []).
Proof.
  unfold front_errors. destruct (lex uc bytes) as [toks [err|]] eqn:El.
  - destruct (silent_prefix tiers (S (List.length toks)) toks); [|discriminate].
    intros H. injection H as <-. left. exists toks, err. split; reflexivity.
  - destruct (parse_sp tiers toks) as [stmts|] eqn:Ep.
    + intros H. right. left. exists toks, stmts. split; [reflexivity|]. split; [exact Ep|].
      destruct (build_program_full korder f fixed lo up stmts) as [p|fes] eqn:Eb.
      * injection H as <-. left. exists p. split; reflexivity.
      * right. exists fes. split; [reflexivity|].
        destruct (all_external fes) as [[|e0 l]|] eqn:Ea; [discriminate H | | discriminate H].
        injection H as <-. split; [reflexivity | discriminate].
    + destruct (parse_diag tiers toks) as [r|] eqn:Ed; [|discriminate].
      destruct (parse_errors_full r) as [|e0 l] eqn:Er; [discriminate|].
      intros H. injection H as <-. right. right. exists toks, r. split; [reflexivity|]. split; [exact Ep|].
      split; [exact Ed|]. split; [symmetry; exact Er | discriminate].
Qed.

Lemma front_errors_renderable korder uc tiers f fixed lo up bytes es fc :
  front_errors korder uc tiers f fixed lo up bytes = Some es -> forallb (renderable fc) es = true.
Proof.
  intros H. apply forallb_forall. intros e He.
  destruct (front_errors_cases _ _ _ _ _ _ _ _ _ H)
    as [(toks & err & _ & ->)|[(toks & stmts & _ & _ & [(p & _ & ->)|(fes & Hb & Ha & _)])|(toks & r & _ & _ & _ & -> & _)]].
  - destruct He as [<-|[]]. exact (proj2 (proj2 (proj2 (proj2 full_errors_renderable_holds))) err fc).
  - destruct He.
  - exact (proj1 full_errors_renderable_holds korder f fixed lo up stmts fes fc e Hb (all_external_in fes es Ha e He)).
  - exact (proj1 (proj2 (proj2 (proj2 full_errors_renderable_holds))) r fc e He).
Qed.

Theorem front_stderr_total_holds : stmt_front_stderr_total.
Proof.
  intros korder uc tiers f fixed lo up pre fname user es Hpre Huser H.
  unfold front_stderr_with. rewrite H.
  exact (render_all_total_holds uc pre user fname es Hpre Huser
           (front_errors_renderable korder uc tiers f fixed lo up _ es _ H)).
Qed.

(* ====================================================================================== *)
(* (c) the shape of the text                                                               *)
(* ====================================================================================== *)
Theorem front_stderr_blocks_holds : stmt_front_stderr_blocks.
Proof.
  intros korder uc tiers f fixed lo up pre fname user es text H Ht.
  unfold front_stderr_with in Ht. rewrite H in Ht.
  destruct (render_all_blocks_holds uc _ es text Ht) as (blocks & Hb & Htext & Hse).
  split; [intros ->; cbn [render_all] in Ht; injection Ht as <-; reflexivity|].
  split.
  { intros Hne. destruct (Hse Hne) as [Hs He]. split; [|split; assumption].
    destruct Hs as (r & ->). discriminate. }
  exists blocks. split; [|exact Htext].
  clear -Hb. induction Hb as [|e b es blocks Hr _ IH]; constructor; [|exact IH].
  destruct (render_starts_with_error_holds uc _ e b Hr) as (Hs & He & _). split; [exact Hr|]. split; assumption.
Qed.

Lemma sres_of_ok_inv {A} (r : fres A) a : sres_of r = SOk a -> r = FOk a.
Proof. destruct r; cbn [sres_of]; intros H; [injection H as ->; reflexivity | discriminate H]. Qed.

Lemma erase_sresult_ok_inv {A} (r : sresult A) a : erase_sresult r = Ok a -> r = SOk a.
Proof. destruct r; cbn [erase_sresult]; intros H; [injection H as ->; reflexivity | discriminate H]. Qed.

Theorem front_errors_accepts_holds : stmt_front_errors_accepts.
Proof.
  intros korder uc tiers f fixed lo up bytes. split.
  - intros H.
    destruct (front_errors_cases _ _ _ _ _ _ _ _ _ H)
      as [(toks & err & _ & E)|[(toks & stmts & El & Ep & [(p & Hb & _)|(fes & _ & _ & Hne)])|(toks & r & _ & _ & _ & _ & Hne)]];
      [discriminate E | | exfalso; apply Hne; reflexivity | exfalso; apply Hne; reflexivity].
    exists (map erase_stmt stmts), p. split.
    + unfold parse_text. rewrite El. rewrite <- (erase_parse_sp_holds tiers toks), Ep. reflexivity.
    + rewrite <- (full_erases_to_build_holds korder), Hb. reflexivity.
  - intros (stmts & p & Hp & Hb). unfold parse_text in Hp. unfold front_errors.
    destruct (lex uc bytes) as [toks [err|]]; [discriminate Hp|].
    rewrite <- (erase_parse_sp_holds tiers toks) in Hp.
    destruct (parse_sp tiers toks) as [l|]; [|discriminate Hp]. cbn [option_map] in Hp. injection Hp as <-.
    rewrite <- (full_erases_to_build_holds korder) in Hb.
    apply erase_sresult_ok_inv, sres_of_ok_inv in Hb. rewrite Hb. reflexivity.
Qed.

(* the spans shown are among the spans the hook lists *)
Lemma sized_options_in options : forall widths x, In x (sized_options options widths) -> In (snd x) options.
Proof.
  induction options as [|o r IH]; intros widths x H; [destruct H|].
  destruct widths as [|[n|] ws]; cbn [sized_options] in H; [destruct H | |].
  - destruct H as [<-|H]; [left; reflexivity | right; exact (IH ws x H)].
  - right. exact (IH ws x H).
Qed.

Lemma error_spans_in_hook e sp : In sp (error_spans e) -> In sp (hook_spans e).
Proof.
  destruct e; try (intros H; exact H).
  cbn [hook_spans error_spans]. intros H. apply in_map_iff in H. destruct H as (x & <- & Hx).
  destruct (mux_spans_sorted_holds options widths) as (_ & Hperm & _).
  exact (sized_options_in options widths x (Permutation_in x Hperm Hx)).
Qed.

Lemma str_bytes_bytes_of_string s : str_bytes s = bytes_of_string s.
Proof. induction s as [|c s IH]; cbn [str_bytes bytes_of_string]; [reflexivity | rewrite IH; reflexivity]. Qed.

Theorem front_stderr_in_user_file_holds : stmt_front_stderr_in_user_file.
Proof.
  intros korder uc f utext es Hsc H e He.
  set (plen := List.length preamble_bytes).
  destruct (front_errors_cases _ _ _ _ _ _ _ _ _ H)
    as [(toks & err & El & ->)|[(toks & stmts & El & Ep & [(p & _ & ->)|(fes & Hb & Ha & _)])|(toks & r & El & _ & Ed & -> & _)]].
  - (* a lexical error *)
    left. destruct He as [<-|[]].
    destruct (lexical_diagnostic_located_gen_holds uc utext (@nil N) toks err Hsc El) as (o & Ho & _).
    destruct err as [loc|loc|s0 e0]; cbn [rerror_of_lex error_spans lex_region fst snd] in *;
      intros sp [<-|[]]; unfold in_user_part; cbn [fst snd]; fold plen in Ho; try lia.
    destruct gen_preamble_ok_holds as (ptext & ptoks & Hpre & Hscp & _).
    assert (Hsc' : Forall scalar ((ptext ++ [10]) ++ utext)) by (apply Forall_app; split; assumption).
    assert (El' : lex uc (utf8 ((ptext ++ [10]) ++ utext)) = (toks, Some (LexInvalidConstant s0 e0))).
    { rewrite TriviaProofs.utf8_app, <- Hpre. exact El. }
    destruct (invalid_constant_bytes_holds uc _ toks s0 e0 Hsc' El') as (Hlt & _). lia.
  - destruct He.
  - (* the builder *)
    assert (Hparse : parse_text_sp uc doc_tiers (preamble_bytes ++ utf8 utext) = Some stmts).
    { unfold parse_text_sp. rewrite El. exact Ep. }
    rewrite Hparse.
    pose proof (full_erases_to_sp_holds korder f gen_fixed ascii_lower ascii_upper stmts) as Hsim.
    rewrite Hb in Hsim. cbn [sres_of] in Hsim. symmetry in Hsim.
    pose proof (all_external_in fes es Ha e He) as Hin.
    assert (Hd : In (serr_of (FE e)) (map serr_of fes)) by (apply in_map; exact Hin).
    destruct (build_diagnostics_in_user_file_holds f uc utext stmts _ Hsc Hparse Hsim _ Hd)
      as [Hall|(n & first & second & Hk & Hn & Hs & (s1 & Hs1 & Hf1) & Hsecond)].
    + left. intros sp Hsp. destruct (Hall sp (error_spans_in_hook e sp Hsp)) as (s1 & Hs1 & Hsp1).
      destruct (user_span_rendered_in_user_file_gen_holds uc utext (@nil N) stmts Hsc Hparse s1 sp Hs1 Hsp1)
        as (us & ue & E1 & E2 & _).
      unfold in_user_part. fold plen in E1, E2. lia.
    + right. exists n, first, second.
      assert (Hfirst : in_user_part plen first).
      { destruct (user_span_rendered_in_user_file_gen_holds uc utext (@nil N) stmts Hsc Hparse s1 first Hs1 Hf1)
          as (us & ue & E1 & E2 & _).
        unfold in_user_part. fold plen in E1, E2. lia. }
      cbn [serr_of se_kind se_names se_spans] in Hk, Hn, Hs.
      split; [|split; [exact Hfirst | exact Hsecond]].
      destruct e; cbn [rkind rnames hook_spans error_spans] in Hk, Hn, Hs; destruct Hk as [Hk|Hk]; try discriminate Hk.
      * left. injection Hn as <-. injection Hs as <- <-. reflexivity.
      * right. injection Hn as <-. injection Hs as <- <-. reflexivity.
  - (* the parser's diagnostic productions *)
    left. unfold parse_errors_full in He. apply in_map_iff in He. destruct He as (d & <- & Hd).
    assert (Hpd : parse_text_diag uc doc_tiers (preamble_bytes ++ utf8 utext) = Some r).
    { unfold parse_text_diag. rewrite El. exact Ed. }
    rewrite (diag_all_user_gen_holds uc utext r Hsc Hpd) in Hd.
    destruct (diag_user_span_rendered_gen_holds uc utext (@nil N) r Hsc Hpd d Hd) as (us & ue & E1 & E2 & _).
    assert (Hspans : error_spans (rerror_of_pdiag d) = [snd d]) by (unfold rerror_of_pdiag; destruct (fst d); reflexivity).
    rewrite Hspans. intros sp [<-|[]]. unfold in_user_part. fold plen in E1, E2. lia.
Qed.

Lemma Forall2_in_l {A B} (R : A -> B -> Prop) la lb : Forall2 R la lb -> forall a, In a la -> exists b, In b lb /\ R a b.
Proof.
  induction 1 as [|x y la lb Hxy _ IH]; intros a Ha; [destruct Ha|].
  destruct Ha as [<-|Ha]; [exists y; split; [left; reflexivity | exact Hxy]|].
  destruct (IH a Ha) as (b & Hb & Hr). exists b. split; [right; exact Hb | exact Hr].
Qed.

Theorem front_stderr_shape_holds : stmt_front_stderr_shape.
Proof.
  intros korder uc f utext fname es Hsc H fc.
  destruct gen_preamble_ok_holds as (ptext & ptoks & Hpre & Hscp & _).
  assert (Wpre : wf_text preamble_bytes) by (rewrite Hpre; apply wf_text_utf8).
  assert (Wuser : wf_text (utf8 utext)) by apply wf_text_utf8.
  destruct (front_stderr_total_holds korder uc doc_tiers f gen_fixed ascii_lower ascii_upper preamble_bytes fname
              (utf8 utext) es Wpre Wuser H) as (text & Ht).
  exists text. split; [exact Ht|].
  destruct (front_stderr_blocks_holds korder uc doc_tiers f gen_fixed ascii_lower ascii_upper preamble_bytes fname
              (utf8 utext) es text H Ht) as (H1 & H2 & blocks & Hb & _).
  split; [exact H1|]. split; [intros Hne; exact (proj2 (H2 Hne))|].
  intros e He. destruct (Forall2_in_l _ _ _ Hb e He) as (b & _ & Hr & Hs & _).
  destruct (render_regions_holds uc _ e b Hr) as (ps & Hps & Has & Hreg).
  exists b, ps. repeat (split; [assumption|]).
  destruct (front_stderr_in_user_file_holds korder uc f utext es Hsc H e He) as [Hall|(n & first & second & He' & Hf & _)].
  - left. destruct (render_regions_never_preamble_holds uc preamble_bytes (utf8 utext) fname e b Hr Hall) as (ps' & Hps' & Hh).
    unfold the_file in Hps', Hh. fold fc in Hps', Hh. unfold fc in Hps, Hps'.
    assert (E : Some ps = Some ps') by (rewrite <- Hps, <- Hps'; reflexivity). injection E as <-. exact Hh.
  - right. exists n, first, second. split; [exact He'|]. split; [exact Hf|].
    pose proof (RegionProofs.show_region_total_ok preamble_bytes (utf8 utext) fname (fst first) (snd first) Wpre Wuser) as Hne.
    destruct (show_region (new_from_data preamble_bytes (utf8 utext) fname) (fst first) (snd first)) as [out|] eqn:Hout;
      [|exfalso; apply Hne; reflexivity].
    destruct Hf as [F1 F2].
    destruct (RegionProofs.never_preamble_partial preamble_bytes (utf8 utext) fname _ _ out F1 F2 Hout) as (rest & ->).
    eexists. exists rest. split; [exact Hout | reflexivity].
Qed.

(* ====================================================================================== *)
(* examples: the text on standard error, byte for byte as the real program writes it        *)
(* ====================================================================================== *)
Module Examples.
Open Scope string_scope.

(* hclrs FILE with FILE named input.hcl; the keys of a map are iterated in insertion order *)
Definition hclrs_stderr (user : list N) : option string :=
  front_stderr (fun l => l) test_uclass doc_tiers gen_features gen_fixed ascii_lower ascii_upper
               gen_preamble (str_bytes "input.hcl") user.

(* every example below was generated from the output of the real program (harness command
   `front <hex> 1`, line `render`) and is recomputed here by the model *)
(* the user's file:
pc = 0;
Stat = STAT_AOK;
wire x : 8;
x = 0b11 + 1;

   stderr of the real program:
error: Mismatched wire widths.
       The wire 'x' is declared as 8 bits wide.
       But a 2 bit wide value is assigned to it:
     -> input.hcl:4
     |
   4 | x = 0b11 + 1;
     |     ^^^^^^^^
*)
Example ex_stderr_wire_width :
  option_map str_bytes (hclrs_stderr [112; 99; 32; 61; 32; 48; 59; 10; 83; 116; 97; 116; 32; 61; 32; 83; 84; 65; 84; 95; 65; 79; 75; 59; 10; 119; 105; 114; 101; 32; 120; 32; 58; 32; 56; 59; 10; 120; 32; 61; 32; 48; 98; 49; 49; 32; 43; 32; 49; 59; 10]) =
  Some [101; 114; 114; 111; 114; 58; 32; 77; 105; 115; 109; 97; 116; 99; 104; 101; 100; 32; 119; 105; 114; 101; 32; 119; 105; 100; 116; 104; 115; 46; 10; 32; 32; 32; 32; 32; 32; 32; 84; 104; 101; 32; 119; 105; 114; 101; 32; 39; 120; 39; 32; 105; 115; 32; 100; 101; 99; 108; 97; 114; 101; 100; 32; 97; 115; 32; 56; 32; 98; 105; 116; 115; 32; 119; 105; 100; 101; 46; 10; 32; 32; 32; 32; 32; 32; 32; 66; 117; 116; 32; 97; 32; 50; 32; 98; 105; 116; 32; 119; 105; 100; 101; 32; 118; 97; 108; 117; 101; 32; 105; 115; 32; 97; 115; 115; 105; 103; 110; 101; 100; 32; 116; 111; 32; 105; 116; 58; 10; 32; 32; 32; 32; 32; 45; 62; 32; 105; 110; 112; 117; 116; 46; 104; 99; 108; 58; 52; 10; 32; 32; 32; 32; 32; 124; 10; 32; 32; 32; 52; 32; 124; 32; 120; 32; 61; 32; 48; 98; 49; 49; 32; 43; 32; 49; 59; 10; 32; 32; 32; 32; 32; 124; 32; 32; 32; 32; 32; 94; 94; 94; 94; 94; 94; 94; 94; 10].
Proof. vm_compute. reflexivity. Qed.

(* the user's file:
pc = 0;
Stat = STAT_AOK;
wire b : 1, x : 8;
b = 1;
x = [ b : 0b11; b == 0 : 2; 1 : 0b111 ];

   stderr of the real program:
error: Mismatched wire widths for mux options.
       1 option is 2 bits wide:
     -> input.hcl:5
     |
   5 | x = [ b : 0b11; b == 0 : 2; 1 : 0b111 ];
     |           ^^^^
       1 option is 3 bits wide:
     -> input.hcl:5
     |
   5 | x = [ b : 0b11; b == 0 : 2; 1 : 0b111 ];
     |                                 ^^^^^
*)
Example ex_stderr_mux_widths :
  option_map str_bytes (hclrs_stderr [112; 99; 32; 61; 32; 48; 59; 10; 83; 116; 97; 116; 32; 61; 32; 83; 84; 65; 84; 95; 65; 79; 75; 59; 10; 119; 105; 114; 101; 32; 98; 32; 58; 32; 49; 44; 32; 120; 32; 58; 32; 56; 59; 10; 98; 32; 61; 32; 49; 59; 10; 120; 32; 61; 32; 91; 32; 98; 32; 58; 32; 48; 98; 49; 49; 59; 32; 98; 32; 61; 61; 32; 48; 32; 58; 32; 50; 59; 32; 49; 32; 58; 32; 48; 98; 49; 49; 49; 32; 93; 59; 10]) =
  Some [101; 114; 114; 111; 114; 58; 32; 77; 105; 115; 109; 97; 116; 99; 104; 101; 100; 32; 119; 105; 114; 101; 32; 119; 105; 100; 116; 104; 115; 32; 102; 111; 114; 32; 109; 117; 120; 32; 111; 112; 116; 105; 111; 110; 115; 46; 10; 32; 32; 32; 32; 32; 32; 32; 49; 32; 111; 112; 116; 105; 111; 110; 32; 105; 115; 32; 50; 32; 98; 105; 116; 115; 32; 119; 105; 100; 101; 58; 10; 32; 32; 32; 32; 32; 45; 62; 32; 105; 110; 112; 117; 116; 46; 104; 99; 108; 58; 53; 10; 32; 32; 32; 32; 32; 124; 10; 32; 32; 32; 53; 32; 124; 32; 120; 32; 61; 32; 91; 32; 98; 32; 58; 32; 48; 98; 49; 49; 59; 32; 98; 32; 61; 61; 32; 48; 32; 58; 32; 50; 59; 32; 49; 32; 58; 32; 48; 98; 49; 49; 49; 32; 93; 59; 10; 32; 32; 32; 32; 32; 124; 32; 32; 32; 32; 32; 32; 32; 32; 32; 32; 32; 94; 94; 94; 94; 10; 32; 32; 32; 32; 32; 32; 32; 49; 32; 111; 112; 116; 105; 111; 110; 32; 105; 115; 32; 51; 32; 98; 105; 116; 115; 32; 119; 105; 100; 101; 58; 10; 32; 32; 32; 32; 32; 45; 62; 32; 105; 110; 112; 117; 116; 46; 104; 99; 108; 58; 53; 10; 32; 32; 32; 32; 32; 124; 10; 32; 32; 32; 53; 32; 124; 32; 120; 32; 61; 32; 91; 32; 98; 32; 58; 32; 48; 98; 49; 49; 59; 32; 98; 32; 61; 61; 32; 48; 32; 58; 32; 50; 59; 32; 49; 32; 58; 32; 48; 98; 49; 49; 49; 32; 93; 59; 10; 32; 32; 32; 32; 32; 124; 32; 32; 32; 32; 32; 32; 32; 32; 32; 32; 32; 32; 32; 32; 32; 32; 32; 32; 32; 32; 32; 32; 32; 32; 32; 32; 32; 32; 32; 32; 32; 32; 32; 94; 94; 94; 94; 94; 10].
Proof. vm_compute. reflexivity. Qed.

(* the user's file:
pc = 0;
Stat = STAT_AOK;
wire Foo : 8, x : 8;
Foo = 1;
x = foo;

   stderr of the real program:
error: Usage of undeclared wire 'foo' in expression:
     -> input.hcl:5
     |
   5 | x = foo;
     |     ^^^
       (Did you mean 'Foo'?)
error: Wire 'foo' was read but never declared.
*)
Example ex_stderr_close_name :
  option_map str_bytes (hclrs_stderr [112; 99; 32; 61; 32; 48; 59; 10; 83; 116; 97; 116; 32; 61; 32; 83; 84; 65; 84; 95; 65; 79; 75; 59; 10; 119; 105; 114; 101; 32; 70; 111; 111; 32; 58; 32; 56; 44; 32; 120; 32; 58; 32; 56; 59; 10; 70; 111; 111; 32; 61; 32; 49; 59; 10; 120; 32; 61; 32; 102; 111; 111; 59; 10]) =
  Some [101; 114; 114; 111; 114; 58; 32; 85; 115; 97; 103; 101; 32; 111; 102; 32; 117; 110; 100; 101; 99; 108; 97; 114; 101; 100; 32; 119; 105; 114; 101; 32; 39; 102; 111; 111; 39; 32; 105; 110; 32; 101; 120; 112; 114; 101; 115; 115; 105; 111; 110; 58; 10; 32; 32; 32; 32; 32; 45; 62; 32; 105; 110; 112; 117; 116; 46; 104; 99; 108; 58; 53; 10; 32; 32; 32; 32; 32; 124; 10; 32; 32; 32; 53; 32; 124; 32; 120; 32; 61; 32; 102; 111; 111; 59; 10; 32; 32; 32; 32; 32; 124; 32; 32; 32; 32; 32; 94; 94; 94; 10; 32; 32; 32; 32; 32; 32; 32; 40; 68; 105; 100; 32; 121; 111; 117; 32; 109; 101; 97; 110; 32; 39; 70; 111; 111; 39; 63; 41; 10; 101; 114; 114; 111; 114; 58; 32; 87; 105; 114; 101; 32; 39; 102; 111; 111; 39; 32; 119; 97; 115; 32; 114; 101; 97; 100; 32; 98; 117; 116; 32; 110; 101; 118; 101; 114; 32; 100; 101; 99; 108; 97; 114; 101; 100; 46; 10].
Proof. vm_compute. reflexivity. Qed.

(* the user's file:
pc = 0;
Stat = STAT_AOK;
wire x : 8;
x = f_pc;

   stderr of the real program:
error: Usage of undeclared wire 'f_pc' in expression:
     -> input.hcl:4
     |
   4 | x = f_pc;
     |     ^^^^
       (Missing register declaration?)
error: Wire 'f_pc' was read but never declared.
*)
Example ex_stderr_register_hint :
  option_map str_bytes (hclrs_stderr [112; 99; 32; 61; 32; 48; 59; 10; 83; 116; 97; 116; 32; 61; 32; 83; 84; 65; 84; 95; 65; 79; 75; 59; 10; 119; 105; 114; 101; 32; 120; 32; 58; 32; 56; 59; 10; 120; 32; 61; 32; 102; 95; 112; 99; 59; 10]) =
  Some [101; 114; 114; 111; 114; 58; 32; 85; 115; 97; 103; 101; 32; 111; 102; 32; 117; 110; 100; 101; 99; 108; 97; 114; 101; 100; 32; 119; 105; 114; 101; 32; 39; 102; 95; 112; 99; 39; 32; 105; 110; 32; 101; 120; 112; 114; 101; 115; 115; 105; 111; 110; 58; 10; 32; 32; 32; 32; 32; 45; 62; 32; 105; 110; 112; 117; 116; 46; 104; 99; 108; 58; 52; 10; 32; 32; 32; 32; 32; 124; 10; 32; 32; 32; 52; 32; 124; 32; 120; 32; 61; 32; 102; 95; 112; 99; 59; 10; 32; 32; 32; 32; 32; 124; 32; 32; 32; 32; 32; 94; 94; 94; 94; 10; 32; 32; 32; 32; 32; 32; 32; 40; 77; 105; 115; 115; 105; 110; 103; 32; 114; 101; 103; 105; 115; 116; 101; 114; 32; 100; 101; 99; 108; 97; 114; 97; 116; 105; 111; 110; 63; 41; 10; 101; 114; 114; 111; 114; 58; 32; 87; 105; 114; 101; 32; 39; 102; 95; 112; 99; 39; 32; 119; 97; 115; 32; 114; 101; 97; 100; 32; 98; 117; 116; 32; 110; 101; 118; 101; 114; 32; 100; 101; 99; 108; 97; 114; 101; 100; 46; 10].
Proof. vm_compute. reflexivity. Qed.

(* the user's file:
pc = 0;
Stat = STAT_AOK;
reg_dstE = 1;

   stderr of the real program:
error: Wire 'reg_dstE' set, but not the rest of the register file write port with reg_dstE.
       (Did you mean to set 'reg_inputE'?)
*)
Example ex_stderr_partial_builtin :
  option_map str_bytes (hclrs_stderr [112; 99; 32; 61; 32; 48; 59; 10; 83; 116; 97; 116; 32; 61; 32; 83; 84; 65; 84; 95; 65; 79; 75; 59; 10; 114; 101; 103; 95; 100; 115; 116; 69; 32; 61; 32; 49; 59; 10]) =
  Some [101; 114; 114; 111; 114; 58; 32; 87; 105; 114; 101; 32; 39; 114; 101; 103; 95; 100; 115; 116; 69; 39; 32; 115; 101; 116; 44; 32; 98; 117; 116; 32; 110; 111; 116; 32; 116; 104; 101; 32; 114; 101; 115; 116; 32; 111; 102; 32; 116; 104; 101; 32; 114; 101; 103; 105; 115; 116; 101; 114; 32; 102; 105; 108; 101; 32; 119; 114; 105; 116; 101; 32; 112; 111; 114; 116; 32; 119; 105; 116; 104; 32; 114; 101; 103; 95; 100; 115; 116; 69; 46; 10; 32; 32; 32; 32; 32; 32; 32; 40; 68; 105; 100; 32; 121; 111; 117; 32; 109; 101; 97; 110; 32; 116; 111; 32; 115; 101; 116; 32; 39; 114; 101; 103; 95; 105; 110; 112; 117; 116; 69; 39; 63; 41; 10].
Proof. vm_compute. reflexivity. Qed.

(* the user's file:
pc = 0;
Stat = STAT_AOK;
wire a, b : 8 = 2;

   stderr of the real program:
error: Wire declaration missing width:
     -> input.hcl:3
     |
   3 | wire a, b : 8 = 2;
     |      ^
error: Wire declaration must be separate from assignment:
     -> input.hcl:3
     |
   3 | wire a, b : 8 = 2;
     |         ^^^^^^^
*)
Example ex_stderr_grammar :
  option_map str_bytes (hclrs_stderr [112; 99; 32; 61; 32; 48; 59; 10; 83; 116; 97; 116; 32; 61; 32; 83; 84; 65; 84; 95; 65; 79; 75; 59; 10; 119; 105; 114; 101; 32; 97; 44; 32; 98; 32; 58; 32; 56; 32; 61; 32; 50; 59; 10]) =
  Some [101; 114; 114; 111; 114; 58; 32; 87; 105; 114; 101; 32; 100; 101; 99; 108; 97; 114; 97; 116; 105; 111; 110; 32; 109; 105; 115; 115; 105; 110; 103; 32; 119; 105; 100; 116; 104; 58; 10; 32; 32; 32; 32; 32; 45; 62; 32; 105; 110; 112; 117; 116; 46; 104; 99; 108; 58; 51; 10; 32; 32; 32; 32; 32; 124; 10; 32; 32; 32; 51; 32; 124; 32; 119; 105; 114; 101; 32; 97; 44; 32; 98; 32; 58; 32; 56; 32; 61; 32; 50; 59; 10; 32; 32; 32; 32; 32; 124; 32; 32; 32; 32; 32; 32; 94; 10; 101; 114; 114; 111; 114; 58; 32; 87; 105; 114; 101; 32; 100; 101; 99; 108; 97; 114; 97; 116; 105; 111; 110; 32; 109; 117; 115; 116; 32; 98; 101; 32; 115; 101; 112; 97; 114; 97; 116; 101; 32; 102; 114; 111; 109; 32; 97; 115; 115; 105; 103; 110; 109; 101; 110; 116; 58; 10; 32; 32; 32; 32; 32; 45; 62; 32; 105; 110; 112; 117; 116; 46; 104; 99; 108; 58; 51; 10; 32; 32; 32; 32; 32; 124; 10; 32; 32; 32; 51; 32; 124; 32; 119; 105; 114; 101; 32; 97; 44; 32; 98; 32; 58; 32; 56; 32; 61; 32; 50; 59; 10; 32; 32; 32; 32; 32; 124; 32; 32; 32; 32; 32; 32; 32; 32; 32; 94; 94; 94; 94; 94; 94; 94; 10].
Proof. vm_compute. reflexivity. Qed.

(* the user's file:
pc = 0;
Stat = STAT_AOK;
x = $;

   stderr of the real program:
error: Parse error here:
     -> input.hcl:3
     |
   3 | x = $;
     |     ^
*)
Example ex_stderr_lexical :
  option_map str_bytes (hclrs_stderr [112; 99; 32; 61; 32; 48; 59; 10; 83; 116; 97; 116; 32; 61; 32; 83; 84; 65; 84; 95; 65; 79; 75; 59; 10; 120; 32; 61; 32; 36; 59; 10]) =
  Some [101; 114; 114; 111; 114; 58; 32; 80; 97; 114; 115; 101; 32; 101; 114; 114; 111; 114; 32; 104; 101; 114; 101; 58; 10; 32; 32; 32; 32; 32; 45; 62; 32; 105; 110; 112; 117; 116; 46; 104; 99; 108; 58; 51; 10; 32; 32; 32; 32; 32; 124; 10; 32; 32; 32; 51; 32; 124; 32; 120; 32; 61; 32; 36; 59; 10; 32; 32; 32; 32; 32; 124; 32; 32; 32; 32; 32; 94; 10].
Proof. vm_compute. reflexivity. Qed.

(* the user's file:
pc = 0;
Stat = STAT_AOK;
const HALT = 3;

   stderr of the real program:
error: Wire 'HALT' redeclared. Declared here:
     -> input.hcl:3
     |
   3 | const HALT = 3;
     |       ^^^^
       After being declared here here:
     -> <builtin>:11
     |
  11 | const HALT   = 0b0000, NOP    = 0b0001, RRMOVQ = 0b0010, IRMOVQ = 0b0011;
     |       ^^^^
*)
Example ex_stderr_preamble_constant :
  option_map str_bytes (hclrs_stderr [112; 99; 32; 61; 32; 48; 59; 10; 83; 116; 97; 116; 32; 61; 32; 83; 84; 65; 84; 95; 65; 79; 75; 59; 10; 99; 111; 110; 115; 116; 32; 72; 65; 76; 84; 32; 61; 32; 51; 59; 10]) =
  Some [101; 114; 114; 111; 114; 58; 32; 87; 105; 114; 101; 32; 39; 72; 65; 76; 84; 39; 32; 114; 101; 100; 101; 99; 108; 97; 114; 101; 100; 46; 32; 68; 101; 99; 108; 97; 114; 101; 100; 32; 104; 101; 114; 101; 58; 10; 32; 32; 32; 32; 32; 45; 62; 32; 105; 110; 112; 117; 116; 46; 104; 99; 108; 58; 51; 10; 32; 32; 32; 32; 32; 124; 10; 32; 32; 32; 51; 32; 124; 32; 99; 111; 110; 115; 116; 32; 72; 65; 76; 84; 32; 61; 32; 51; 59; 10; 32; 32; 32; 32; 32; 124; 32; 32; 32; 32; 32; 32; 32; 94; 94; 94; 94; 10; 32; 32; 32; 32; 32; 32; 32; 65; 102; 116; 101; 114; 32; 98; 101; 105; 110; 103; 32; 100; 101; 99; 108; 97; 114; 101; 100; 32; 104; 101; 114; 101; 32; 104; 101; 114; 101; 58; 10; 32; 32; 32; 32; 32; 45; 62; 32; 60; 98; 117; 105; 108; 116; 105; 110; 62; 58; 49; 49; 10; 32; 32; 32; 32; 32; 124; 10; 32; 32; 49; 49; 32; 124; 32; 99; 111; 110; 115; 116; 32; 72; 65; 76; 84; 32; 32; 32; 61; 32; 48; 98; 48; 48; 48; 48; 44; 32; 78; 79; 80; 32; 32; 32; 32; 61; 32; 48; 98; 48; 48; 48; 49; 44; 32; 82; 82; 77; 79; 86; 81; 32; 61; 32; 48; 98; 48; 48; 49; 48; 44; 32; 73; 82; 77; 79; 86; 81; 32; 61; 32; 48; 98; 48; 48; 49; 49; 59; 10; 32; 32; 32; 32; 32; 124; 32; 32; 32; 32; 32; 32; 32; 94; 94; 94; 94; 10].
Proof. vm_compute. reflexivity. Qed.

(* the user's file:
pc = 0;
Stat = STAT_AOK;
wire b : 1, y : 4;
y = 1;
b = (y + 1) == 0b111;

   stderr of the real program:
error: Mismatched wire widths.
       One side is 4 bits wide:
     -> input.hcl:5
     |
   5 | b = (y + 1) == 0b111;
     |      ^^^^^
       The other side is 3 bits wide:
     -> input.hcl:5
     |
   5 | b = (y + 1) == 0b111;
     |                ^^^^^
*)
Example ex_stderr_expr_widths :
  option_map str_bytes (hclrs_stderr [112; 99; 32; 61; 32; 48; 59; 10; 83; 116; 97; 116; 32; 61; 32; 83; 84; 65; 84; 95; 65; 79; 75; 59; 10; 119; 105; 114; 101; 32; 98; 32; 58; 32; 49; 44; 32; 121; 32; 58; 32; 52; 59; 10; 121; 32; 61; 32; 49; 59; 10; 98; 32; 61; 32; 40; 121; 32; 43; 32; 49; 41; 32; 61; 61; 32; 48; 98; 49; 49; 49; 59; 10]) =
  Some [101; 114; 114; 111; 114; 58; 32; 77; 105; 115; 109; 97; 116; 99; 104; 101; 100; 32; 119; 105; 114; 101; 32; 119; 105; 100; 116; 104; 115; 46; 10; 32; 32; 32; 32; 32; 32; 32; 79; 110; 101; 32; 115; 105; 100; 101; 32; 105; 115; 32; 52; 32; 98; 105; 116; 115; 32; 119; 105; 100; 101; 58; 10; 32; 32; 32; 32; 32; 45; 62; 32; 105; 110; 112; 117; 116; 46; 104; 99; 108; 58; 53; 10; 32; 32; 32; 32; 32; 124; 10; 32; 32; 32; 53; 32; 124; 32; 98; 32; 61; 32; 40; 121; 32; 43; 32; 49; 41; 32; 61; 61; 32; 48; 98; 49; 49; 49; 59; 10; 32; 32; 32; 32; 32; 124; 32; 32; 32; 32; 32; 32; 94; 94; 94; 94; 94; 10; 32; 32; 32; 32; 32; 32; 32; 84; 104; 101; 32; 111; 116; 104; 101; 114; 32; 115; 105; 100; 101; 32; 105; 115; 32; 51; 32; 98; 105; 116; 115; 32; 119; 105; 100; 101; 58; 10; 32; 32; 32; 32; 32; 45; 62; 32; 105; 110; 112; 117; 116; 46; 104; 99; 108; 58; 53; 10; 32; 32; 32; 32; 32; 124; 10; 32; 32; 32; 53; 32; 124; 32; 98; 32; 61; 32; 40; 121; 32; 43; 32; 49; 41; 32; 61; 61; 32; 48; 98; 49; 49; 49; 59; 10; 32; 32; 32; 32; 32; 124; 32; 32; 32; 32; 32; 32; 32; 32; 32; 32; 32; 32; 32; 32; 32; 32; 94; 94; 94; 94; 94; 10].
Proof. vm_compute. reflexivity. Qed.

(* the user's file:
pc = 0;
Stat = STAT_AOK;

   stderr of the real program:
*)
Example ex_stderr_accepted :
  option_map str_bytes (hclrs_stderr [112; 99; 32; 61; 32; 48; 59; 10; 83; 116; 97; 116; 32; 61; 32; 83; 84; 65; 84; 95; 65; 79; 75; 59; 10]) =
  Some [].
Proof. vm_compute. reflexivity. Qed.

(* all the fields: the widths of a mux (the middle option is an unsized constant) *)
Definition ex_mux_user : list N :=
  str_bytes ("pc = 0; Stat = STAT_AOK; wire b : 1, x : 8; b = 1; x = [ b : 0b11; b == 0 : 2; 1 : 0b111 ];").
Example ex_mux_fields :
  front_errors (fun l => l) test_uclass doc_tiers gen_features gen_fixed ascii_lower ascii_upper
               (preamble_bytes ++ ex_mux_user) =
  Some [RMismatchedMuxWidths [(1088, 1092)%nat; (1103, 1104)%nat; (1110, 1115)%nat] [Bits 2; Unl; Bits 3]].
Proof. vm_compute. reflexivity. Qed.

(* (a) on that program: the full builder, the located builder and the plain builder agree *)
Example ex_mux_erases :
  match parse_text_sp test_uclass doc_tiers (preamble_bytes ++ ex_mux_user) with
  | Some stmts =>
      sres_of (build_program_full (fun l => l) gen_features gen_fixed ascii_lower ascii_upper stmts) =
      SErr [mkSErr MismatchedMuxWidths [] [(1088, 1092)%nat; (1103, 1104)%nat; (1110, 1115)%nat]] /\
      build_program gen_features gen_fixed ascii_lower ascii_upper (map erase_stmt stmts) =
      Err [mkErr MismatchedMuxWidths []]
  | None => False
  end.
Proof. vm_compute. split; reflexivity. Qed.

(* two candidates for the hint: the insertion order names the last declared, another order the other *)
Definition ex_close_user : list N :=
  str_bytes ("pc = 0; Stat = STAT_AOK; wire Foo : 8, FOO : 8, x : 8; Foo = 1; FOO = 2; x = foo;").
Example ex_close_two_orders :
  front_errors (fun l => l) test_uclass doc_tiers gen_features gen_fixed ascii_lower ascii_upper
               (preamble_bytes ++ ex_close_user) =
  Some [RUndeclaredWireRead "foo" (1104, 1107)%nat (Some "FOO"); RUnsetUndeclaredWire "foo"] /\
  front_errors (@rev string) test_uclass doc_tiers gen_features gen_fixed ascii_lower ascii_upper
               (preamble_bytes ++ ex_close_user) =
  Some [RUndeclaredWireRead "foo" (1104, 1107)%nat (Some "Foo"); RUnsetUndeclaredWire "foo"].
Proof. vm_compute. split; reflexivity. Qed.

(* a lexical error after an unfinished statement that has reduced a diagnostic production: the real
   program reports MissingWireWidth and then the lexical error; the model declines (None) *)
Example ex_lexical_after_production :
  hclrs_stderr (str_bytes "wire x, $") = None /\
  hclrs_stderr (str_bytes "wire x $") <> None.
Proof. split; vm_compute; [reflexivity | discriminate]. Qed.

(* the shape theorem, instantiated *)
Example ex_shape :
  forall es,
    front_errors (fun l => l) test_uclass doc_tiers gen_features gen_fixed ascii_lower ascii_upper
                 (preamble_bytes ++ ex_mux_user) = Some es ->
    exists text, front_stderr_with (fun l => l) test_uclass doc_tiers gen_features gen_fixed ascii_lower ascii_upper
                                   preamble_bytes (str_bytes "input.hcl") ex_mux_user = Some text /\
                 starts_with "error: " text.
Proof.
  intros es H.
  destruct (SpanParserProofs.Examples.ascii_text ex_mux_user ltac:(vm_compute; reflexivity)) as [Hu Hsc].
  rewrite Hu in H.
  destruct (front_stderr_shape_holds (fun l => l) test_uclass gen_features ex_mux_user (str_bytes "input.hcl") es Hsc H)
    as (text & Ht & _ & Hne & _).
  rewrite <- Hu in Ht, H. exists text. split; [exact Ht|]. apply Hne.
  rewrite ex_mux_fields in H. injection H as <-. discriminate.
Qed.
End Examples.
