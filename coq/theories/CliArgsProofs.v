(* Property C19 over the raw argument vector: proofs of the statements of CliArgsSpec.v. *)
From Coq Require Import Permutation Lia ZifyBool ZifyNat ZifyN.
From HclV Require Import Base Cli CliArgs CliArgsSpec.
Open Scope string_scope.
Open Scope N_scope.

(* ------------------------------------------------------------------------------------------ *)
(* The option table                                                                             *)
(* ------------------------------------------------------------------------------------------ *)
Lemma flag_eqb_eq a b : flag_eqb a b = true <-> a = b.
Proof. split; [destruct a, b; cbn; intros H; try reflexivity; discriminate|intros ->; destruct b; reflexivity]. Qed.

Lemma has_flag_In f fs : has_flag f fs = true <-> In f fs.
Proof.
  unfold has_flag. rewrite existsb_exists. split.
  - intros [x [Hin He]]. apply flag_eqb_eq in He. subst. exact Hin.
  - intros Hin. exists f. split; [exact Hin|apply flag_eqb_eq; reflexivity].
Qed.

Lemma has_flag_false f fs : has_flag f fs = false <-> ~ In f fs.
Proof.
  rewrite <- has_flag_In. destruct (has_flag f fs); split; intros H.
  - discriminate.
  - exfalso. apply H. reflexivity.
  - intros H'. discriminate.
  - reflexivity.
Qed.

Lemma no_repeat_NoDup fs : no_repeat fs = true <-> NoDup fs.
Proof.
  induction fs as [|f r IH]; cbn [no_repeat].
  - split; [constructor|reflexivity].
  - rewrite andb_true_iff, negb_true_iff, has_flag_false, IH. split.
    + intros [H1 H2]. constructor; assumption.
    + intros H. inversion H; subst. split; assumption.
Qed.

Lemma short_flag_iff c f : short_flag c = Some f <-> short_name f = Some c.
Proof.
  split.
  - unfold short_flag, all_flags. cbn [find short_name].
    repeat match goal with
    | |- context [Ascii.eqb ?a c] =>
        let E := fresh "E" in destruct (Ascii.eqb a c) eqn:E;
        [apply Ascii.eqb_eq in E; subst c; intros H; inversion H; reflexivity|]
    end.
    discriminate.
  - destruct f; cbn [short_name]; intros H; inversion H; reflexivity.
Qed.

Lemma short_name_not_dash f c : short_name f = Some c -> Ascii.eqb c "-"%char = false.
Proof. destruct f; cbn [short_name]; intros H; inversion H; reflexivity. Qed.

Lemma long_flag_iff n f :
  long_flag n = Some f <-> n = long_name f \/ exists c, short_name f = Some c /\ n = String c "".
Proof.
  split.
  - intros H.
    assert (Hfind : find (fun f => String.eqb (long_name f) n) all_flags = Some f -> n = long_name f).
    { clear H. unfold all_flags. cbn [find long_name].
      repeat match goal with
      | |- context [String.eqb ?a n] =>
          let E := fresh "E" in destruct (String.eqb a n) eqn:E;
          [apply String.eqb_eq in E; subst n; intros H; inversion H; reflexivity|]
      end.
      discriminate. }
    destruct n as [|c [|c2 r]]; cbn [long_flag] in H.
    + left. apply Hfind. exact H.
    + right. exists c. split; [apply short_flag_iff; exact H|reflexivity].
    + left. apply Hfind. exact H.
  - intros [->|[c [Hs ->]]].
    + destruct f; reflexivity.
    + cbn [long_flag]. apply short_flag_iff. exact Hs.
Qed.

Lemma split_at_eq_none r n : split_at_eq r = (n, None) -> r = n.
Proof.
  revert n. induction r as [|c r IH]; intros n; cbn [split_at_eq].
  - intros H. inversion H. reflexivity.
  - destruct (Ascii.eqb c "="%char); [discriminate|].
    destruct (split_at_eq r) as [n' v] eqn:E. intros H. inversion H. subst.
    rewrite (IH n' eq_refl). reflexivity.
Qed.

Lemma split_at_eq_long_name f : split_at_eq (long_name f) = (long_name f, None).
Proof. destruct f; reflexivity. Qed.

Lemma split_at_eq_letter f c : short_name f = Some c -> split_at_eq (String c "") = (String c "", None).
Proof. destruct f; cbn [short_name]; intros H; inversion H; reflexivity. Qed.

Lemma cluster_iff s fs :
  cluster s = Some fs <-> Forall2 (fun c f => short_name f = Some c) (list_ascii_of_string s) fs.
Proof.
  revert fs. induction s as [|c r IH]; intros fs; cbn [cluster list_ascii_of_string].
  - split.
    + intros H. inversion H. constructor.
    + intros H. inversion H. reflexivity.
  - split.
    + destruct (short_flag c) as [f|] eqn:Ef; [|discriminate].
      destruct (cluster r) as [fs'|] eqn:Er; [|discriminate].
      intros H. inversion H. subst. constructor.
      * apply short_flag_iff. exact Ef.
      * apply IH. reflexivity.
    + intros H. inversion H as [|c' f cs' fs' Hf Hr]. subst.
      apply short_flag_iff in Hf. rewrite Hf.
      apply IH in Hr. rewrite Hr. reflexivity.
Qed.

(* ------------------------------------------------------------------------------------------ *)
(* One argument                                                                                 *)
(* ------------------------------------------------------------------------------------------ *)
Lemma classify_terminator a : classify a = Terminator <-> a = "--".
Proof.
  split; [|intros ->; reflexivity].
  destruct a as [|c0 [|c r]]; cbn [classify]; try discriminate.
  destruct (Ascii.eqb c0 "-"%char) eqn:E0; cbn [negb]; [|discriminate].
  destruct (Ascii.eqb c "-"%char) eqn:E1.
  - destruct r as [|c2 r2].
    + apply Ascii.eqb_eq in E0, E1. subst. reflexivity.
    + destruct (split_at_eq (String c2 r2)) as [n v]. destruct (long_flag n); [destruct v|]; discriminate.
  - destruct (cluster (String c r)); discriminate.
Qed.

Lemma classify_positional a : classify a = Positional <-> looks_like_option a = false.
Proof.
  destruct a as [|c0 [|c r]]; cbn [classify looks_like_option]; try (split; reflexivity).
  destruct (Ascii.eqb c0 "-"%char) eqn:E0; cbn [negb]; [|split; reflexivity].
  split; [|discriminate].
  destruct (Ascii.eqb c "-"%char) eqn:E1.
  - destruct r as [|c2 r2]; [discriminate|].
    destruct (split_at_eq (String c2 r2)) as [n v]. destruct (long_flag n); [destruct v|]; discriminate.
  - destruct (cluster (String c r)); discriminate.
Qed.

Lemma looks_like_option_positional a : looks_like_option a = false <-> positional a.
Proof.
  unfold positional. split.
  - destruct a as [|c0 [|c r]]; cbn [looks_like_option]; intros H.
    + left. reflexivity.
    + destruct (Ascii.eqb c0 "-"%char) eqn:E.
      * apply Ascii.eqb_eq in E. subst. right. left. reflexivity.
      * apply Ascii.eqb_neq in E. right. right. exists c0, "". split; [reflexivity|exact E].
    + apply Ascii.eqb_neq in H. right. right. exists c0, (String c r). split; [reflexivity|exact H].
  - intros [->|[->|[c [r [-> Hc]]]]]; try reflexivity.
    destruct r; cbn [looks_like_option]; [reflexivity|]. apply Ascii.eqb_neq. exact Hc.
Qed.

Lemma classify_flags a fs : classify a = Flags fs <-> spelled a fs.
Proof.
  split.
  - destruct a as [|c0 [|c r]]; cbn [classify]; try discriminate.
    destruct (Ascii.eqb c0 "-"%char) eqn:E0; cbn [negb]; [|discriminate].
    apply Ascii.eqb_eq in E0. subst c0.
    destruct (Ascii.eqb c "-"%char) eqn:E1.
    + apply Ascii.eqb_eq in E1. subst c.
      destruct r as [|c2 r2]; [discriminate|].
      destruct (split_at_eq (String c2 r2)) as [n v] eqn:Es.
      destruct (long_flag n) as [f|] eqn:El; [|discriminate].
      destruct v; [discriminate|]. intros H. inversion H. subst fs.
      apply split_at_eq_none in Es. rewrite Es.
      apply long_flag_iff in El. destruct El as [->|[c [Hs ->]]].
      * apply (sp_long f).
      * apply sp_long_letter. exact Hs.
    + destruct (cluster (String c r)) as [fs'|] eqn:Ec; [|discriminate].
      intros H. inversion H. subst fs'.
      apply cluster_iff in Ec.
      rewrite <- (string_of_list_ascii_of_string (String c r)).
      apply sp_group; [cbn [list_ascii_of_string]; discriminate|exact Ec].
  - intros H. destruct H as [f|f c Hs|cs fs Hne HF].
    + destruct f; reflexivity.
    + cbn [classify]. cbn [Ascii.eqb Bool.eqb negb].
      rewrite (split_at_eq_letter f c Hs).
      replace (long_flag (String c "")) with (Some f); [reflexivity|].
      symmetry. apply long_flag_iff. right. exists c. split; [exact Hs|reflexivity].
    + destruct cs as [|c cs]; [congruence|].
      inversion HF as [|c' f cs' fs' Hf Hr]. subst.
      cbn [string_of_list_ascii classify]. cbn [Ascii.eqb Bool.eqb negb].
      rewrite (short_name_not_dash f c Hf).
      replace (cluster (String c (string_of_list_ascii cs))) with (Some (f :: fs')); [reflexivity|].
      symmetry. apply cluster_iff. cbn [list_ascii_of_string].
      rewrite list_ascii_of_string_of_list_ascii. exact HF.
Qed.

Lemma spelled_not_terminator fs : ~ spelled "--" fs.
Proof. intros H. apply classify_flags in H. discriminate. Qed.

(* ------------------------------------------------------------------------------------------ *)
(* The whole vector: parse_argv is the reading relation                                         *)
(* ------------------------------------------------------------------------------------------ *)
Lemma collect_reads args fs ps : collect args = Some (fs, ps) <-> reads args fs ps.
Proof.
  split.
  - revert fs ps. induction args as [|a rest IH]; intros fs ps; cbn [collect].
    + intros H. inversion H. constructor.
    + destruct (classify a) as [| |fs1|] eqn:Ec.
      * destruct (collect rest) as [[fs' ps']|]; [|discriminate].
        intros H. inversion H. subst. apply rd_pos.
        -- apply looks_like_option_positional, classify_positional. exact Ec.
        -- apply IH. reflexivity.
      * apply classify_terminator in Ec. subst a. intros H. inversion H. constructor.
      * destruct (collect rest) as [[fs' ps']|]; [|discriminate].
        intros H. inversion H. subst. apply rd_opt.
        -- apply classify_flags. exact Ec.
        -- apply IH. reflexivity.
      * discriminate.
  - intros H. induction H as [|rest|a rest fs ps Hp _ IH|a rest fs1 fs ps Hs _ IH].
    + reflexivity.
    + reflexivity.
    + apply looks_like_option_positional, classify_positional in Hp.
      cbn [collect]. rewrite Hp, IH. reflexivity.
    + apply classify_flags in Hs. cbn [collect]. rewrite Hs, IH. reflexivity.
Qed.

Theorem parse_argv_characterised_holds : stmt_parse_argv_characterised.
Proof.
  intros args fs ps. unfold parse_argv. split.
  - destruct (collect args) as [[fs' ps']|] eqn:Ec; [|discriminate].
    destruct (no_repeat fs') eqn:En; [|discriminate].
    intros H. inversion H. subst. split; [apply collect_reads; exact Ec|apply no_repeat_NoDup; exact En].
  - intros [Hr Hn]. apply collect_reads in Hr. rewrite Hr.
    apply no_repeat_NoDup in Hn. rewrite Hn. reflexivity.
Qed.

(* ------------------------------------------------------------------------------------------ *)
(* Numerals and the *.yo rule                                                                   *)
(* ------------------------------------------------------------------------------------------ *)
Lemma ends_with_unfold suffix s :
  ends_with suffix s =
  if String.eqb suffix s then true
  else match s with EmptyString => false | String _ r => ends_with suffix r end.
Proof. destruct s; reflexivity. Qed.

Lemma ends_with_iff suffix s : ends_with suffix s = true <-> exists p, s = p ++ suffix.
Proof.
  split.
  - induction s as [|c r IH]; rewrite ends_with_unfold.
    + destruct (String.eqb suffix "") eqn:E; [|discriminate].
      apply String.eqb_eq in E. subst. intros _. exists "". reflexivity.
    + destruct (String.eqb suffix (String c r)) eqn:E.
      * apply String.eqb_eq in E. subst. intros _. exists "". reflexivity.
      * intros H. destruct (IH H) as [p ->]. exists (String c p). reflexivity.
  - intros [p ->]. induction p as [|c p IH].
    + cbn [append]. rewrite ends_with_unfold, String.eqb_refl. reflexivity.
    + cbn [append]. rewrite ends_with_unfold.
      destruct (String.eqb suffix (String c (p ++ suffix))); [reflexivity|exact IH].
Qed.

Lemma ends_in_dot_yo_iff y : ends_with ".yo" y = true <-> ends_in_dot_yo y.
Proof. apply ends_with_iff. Qed.

Lemma digit_val_iff c d : digit_val c = Some d <-> is_digit c /\ d = N_of_ascii c - 48.
Proof.
  unfold digit_val, is_digit. cbv zeta.
  destruct ((48 <=? N_of_ascii c) && (N_of_ascii c <=? 57)) eqn:E.
  - split.
    + intros H. inversion H. split; [lia|reflexivity].
    + intros [_ ->]. reflexivity.
  - split; [discriminate|]. intros [H _]. lia.
Qed.

Definition dstep (acc : N) (d : ascii) : N := 10 * acc + (N_of_ascii d - 48).

Lemma parse_digits_iff s acc v :
  parse_digits s acc = Some v <->
  Forall is_digit (list_ascii_of_string s) /\ v = fold_left dstep (list_ascii_of_string s) acc.
Proof.
  revert acc. induction s as [|c r IH]; intros acc; cbn [parse_digits list_ascii_of_string fold_left].
  - split.
    + intros H. inversion H. split; [constructor|reflexivity].
    + intros [_ ->]. reflexivity.
  - destruct (digit_val c) as [d|] eqn:Ed.
    + apply digit_val_iff in Ed. destruct Ed as [Hd ->]. rewrite IH. unfold dstep at 2. split.
      * intros [HF ->]. split; [constructor; assumption|reflexivity].
      * intros [HF ->]. inversion HF. subst. split; [assumption|reflexivity].
    + split; [discriminate|]. intros [HF _]. inversion HF as [|c' l Hd _]. subst.
      assert (Hs : digit_val c = Some (N_of_ascii c - 48)) by (apply digit_val_iff; split; [exact Hd|reflexivity]).
      congruence.
Qed.

Lemma strip_plus s :
  (match s with String "+"%char r => r | _ => s end)
  = match s with String c r => if Ascii.eqb c "+"%char then r else s | EmptyString => s end.
Proof. destruct s as [|[[] [] [] [] [] [] [] []] r]; reflexivity. Qed.

Lemma digit_not_plus c : is_digit c -> Ascii.eqb c "+"%char = false.
Proof.
  intros H. apply Ascii.eqb_neq. intros ->. unfold is_digit in H. cbn in H. lia.
Qed.

Lemma decimal_value_fold ds : decimal_value ds = fold_left dstep ds 0.
Proof. reflexivity. Qed.

Lemma parse_u32_iff s t : parse_u32 s = Some t <-> denotes_u32 s t.
Proof.
  unfold parse_u32, denotes_u32. cbv zeta. rewrite strip_plus. split.
  - intros H.
    assert (Hbody : forall body, body <> "" ->
              match parse_digits body 0 with
              | Some v => if v <? 2 ^ 32 then Some v else None
              | None => None
              end = Some t ->
              list_ascii_of_string body <> [] /\ Forall is_digit (list_ascii_of_string body) /\
              t = decimal_value (list_ascii_of_string body) /\ t < 2 ^ 32).
    { intros body Hne Hb. destruct (parse_digits body 0) as [v|] eqn:Ep; [|discriminate].
      destruct (v <? 2 ^ 32) eqn:El; [|discriminate]. inversion Hb. subst v.
      apply parse_digits_iff in Ep. destruct Ep as [HF Hv].
      split; [|split; [exact HF|split; [exact Hv|apply N.ltb_lt; exact El]]].
      destruct body; [congruence|cbn [list_ascii_of_string]; discriminate]. }
    destruct s as [|c r]; [discriminate|].
    destruct (Ascii.eqb c "+"%char) eqn:Ec.
    + apply Ascii.eqb_eq in Ec. subst c.
      destruct r as [|c2 r2]; [discriminate|].
      destruct (Hbody (String c2 r2)) as [H1 [H2 [H3 H4]]]; [discriminate|exact H|].
      exists (list_ascii_of_string (String c2 r2)).
      rewrite string_of_list_ascii_of_string. repeat split; try assumption. right. reflexivity.
    + destruct (Hbody (String c r)) as [H1 [H2 [H3 H4]]]; [discriminate|exact H|].
      exists (list_ascii_of_string (String c r)).
      rewrite string_of_list_ascii_of_string. repeat split; try assumption. left. reflexivity.
  - intros [ds [Hne [HF [Hs [Ht Hlt]]]]].
    assert (Hp : parse_digits (string_of_list_ascii ds) 0 = Some t).
    { apply parse_digits_iff. rewrite list_ascii_of_string_of_list_ascii. split; [exact HF|exact Ht]. }
    destruct ds as [|d ds]; [congruence|].
    assert (Hl : (t <? 2 ^ 32) = true) by (apply N.ltb_lt; exact Hlt).
    destruct Hs as [->| ->].
    + cbn [string_of_list_ascii]. inversion HF as [|d' l Hd _]. subst.
      rewrite (digit_not_plus d Hd).
      cbn [string_of_list_ascii] in Hp. rewrite Hp, Hl. reflexivity.
    + cbn [Ascii.eqb Bool.eqb].
      cbn [string_of_list_ascii] in *. rewrite Hp, Hl. reflexivity.
Qed.

(* ------------------------------------------------------------------------------------------ *)
(* The decision table Cli.main_model, outcome by outcome                                        *)
(* ------------------------------------------------------------------------------------------ *)
Lemma too_many_true (l : list string) : (3 <? N.of_nat (List.length l)) = true <-> (3 < List.length l)%nat.
Proof. lia. Qed.
Lemma too_many_false (l : list string) : (3 <? N.of_nat (List.length l)) = false <-> (List.length l <= 3)%nat.
Proof. lia. Qed.

Definition good_outcome (w : what) : Prop :=
  w = PrintedUsage \/ w = PrintedVersion \/ w = SyntaxOK \/ exists t, w = FinalState t.
Definition bad_outcome (w : what) : Prop := w = PrintedUsage \/ exists m, w = Message m.

Lemma main_model_shape i :
  (fst (main_model i) = 0 /\ good_outcome (snd (main_model i))) \/
  (fst (main_model i) = 1 /\ bad_outcome (snd (main_model i))).
Proof.
  unfold main_model, good_outcome, bad_outcome.
  destruct (i_opts_ok i); cbn [negb]; [|right; cbn; eauto].
  destruct (i_help i); [left; cbn; eauto|].
  destruct (i_version i); [left; cbn; eauto|].
  destruct (i_free i) as [|hcl rest]; [right; cbn; eauto|].
  destruct (i_hcl i); [right; cbn; eauto| |].
  - destruct (3 <? _); right; cbn; eauto.
  - destruct (3 <? _); [right; cbn; eauto|].
    destruct (i_check i); [left; cbn; eauto|].
    destruct rest as [|yo rest2]; [right; cbn; eauto|].
    destruct (ends_with ".yo" yo); cbn [negb]; [|right; cbn; eauto].
    destruct (match rest2 with [] => Some default_timeout | t :: _ => parse_u32 t end); [|right; cbn; eauto].
    destruct (i_yo i); [right; cbn; eauto|right; cbn; eauto|].
    destruct (i_sim i); [left; cbn; eauto 6|right; cbn; eauto].
Qed.

Lemma main_model_usage0 i :
  main_model i = (0, PrintedUsage) <-> i_opts_ok i = true /\ i_help i = true.
Proof.
  unfold main_model. split.
  - destruct (i_opts_ok i); cbn [negb]; [|discriminate].
    destruct (i_help i); [intros _; split; reflexivity|].
    destruct (i_version i); [discriminate|].
    destruct (i_free i) as [|hcl rest]; [discriminate|].
    destruct (i_hcl i); [discriminate| |].
    + destruct (3 <? _); discriminate.
    + destruct (3 <? _); [discriminate|].
      destruct (i_check i); [discriminate|].
      destruct rest as [|yo rest2]; [discriminate|].
      destruct (ends_with ".yo" yo); cbn [negb]; [|discriminate].
      destruct (match rest2 with [] => Some default_timeout | t :: _ => parse_u32 t end); [|discriminate].
      destruct (i_yo i); try discriminate. destruct (i_sim i); discriminate.
  - intros [-> ->]. reflexivity.
Qed.

Lemma main_model_version i e :
  main_model i = (e, PrintedVersion) <->
  e = 0 /\ i_opts_ok i = true /\ i_help i = false /\ i_version i = true.
Proof.
  unfold main_model. split.
  - destruct (i_opts_ok i); cbn [negb]; [|discriminate].
    destruct (i_help i); [discriminate|].
    destruct (i_version i); [intros H; inversion H; repeat split; reflexivity|].
    destruct (i_free i) as [|hcl rest]; [discriminate|].
    destruct (i_hcl i); [discriminate| |].
    + destruct (3 <? _); discriminate.
    + destruct (3 <? _); [discriminate|].
      destruct (i_check i); [discriminate|].
      destruct rest as [|yo rest2]; [discriminate|].
      destruct (ends_with ".yo" yo); cbn [negb]; [|discriminate].
      destruct (match rest2 with [] => Some default_timeout | t :: _ => parse_u32 t end); [|discriminate].
      destruct (i_yo i); try discriminate. destruct (i_sim i); discriminate.
  - intros [-> [-> [-> ->]]]. reflexivity.
Qed.

Lemma main_model_syntax i e :
  main_model i = (e, SyntaxOK) <->
  e = 0 /\ i_opts_ok i = true /\ i_help i = false /\ i_version i = false /\ i_check i = true /\
  i_hcl i = HclAccepted /\ (1 <= List.length (i_free i) <= 3)%nat.
Proof.
  unfold main_model. split.
  - destruct (i_opts_ok i); cbn [negb]; [|discriminate].
    destruct (i_help i); [discriminate|].
    destruct (i_version i); [discriminate|].
    destruct (i_free i) as [|hcl rest] eqn:Ef; [discriminate|].
    destruct (i_hcl i); [discriminate| |].
    + destruct (3 <? _); discriminate.
    + destruct (3 <? _) eqn:E3; [discriminate|]. apply too_many_false in E3.
      destruct (i_check i).
      * intros H; inversion H. repeat split; try reflexivity; [cbn [List.length]; lia|exact E3].
      * destruct rest as [|yo rest2]; [discriminate|].
        destruct (ends_with ".yo" yo); cbn [negb]; [|discriminate].
        destruct (match rest2 with [] => Some default_timeout | t :: _ => parse_u32 t end); [|discriminate].
        destruct (i_yo i); try discriminate. destruct (i_sim i); discriminate.
  - intros [-> [-> [-> [-> [-> [-> [H1 H3]]]]]]]. cbn [negb].
    destruct (i_free i) as [|hcl rest]; [cbn [List.length] in H1; lia|].
    apply too_many_false in H3. rewrite H3. reflexivity.
Qed.

Definition budget_spec (rest : list string) (t : N) : Prop :=
  (rest = [] /\ t = 9999) \/ (exists ts, rest = [ts] /\ parse_u32 ts = Some t).

Lemma main_model_final i e t :
  main_model i = (e, FinalState t) <->
  e = 0 /\ i_opts_ok i = true /\ i_help i = false /\ i_version i = false /\ i_check i = false /\
  i_hcl i = HclAccepted /\ i_yo i = YoLoadable /\ i_sim i = SimCompletes /\
  exists f y rest, i_free i = f :: y :: rest /\ ends_with ".yo" y = true /\ budget_spec rest t.
Proof.
  unfold main_model, budget_spec. split.
  - destruct (i_opts_ok i); cbn [negb]; [|discriminate].
    destruct (i_help i); [discriminate|].
    destruct (i_version i); [discriminate|].
    destruct (i_free i) as [|hcl rest] eqn:Ef; [discriminate|].
    destruct (i_hcl i); [discriminate| |].
    + destruct (3 <? _); discriminate.
    + destruct (3 <? _) eqn:E3; [discriminate|]. apply too_many_false in E3.
      destruct (i_check i); [discriminate|].
      destruct rest as [|yo rest2]; [discriminate|].
      destruct (ends_with ".yo" yo) eqn:Ey; cbn [negb]; [|discriminate].
      destruct rest2 as [|ts rest3].
      * destruct (i_yo i); try discriminate. destruct (i_sim i); try discriminate.
        intros H. inversion H. repeat split; try reflexivity.
        exists hcl, yo, []. repeat split; try assumption. left. split; reflexivity.
      * destruct (parse_u32 ts) as [v|] eqn:Ep; [|discriminate].
        destruct (i_yo i); try discriminate. destruct (i_sim i); try discriminate.
        intros H. inversion H. subst v. repeat split; try reflexivity.
        exists hcl, yo, (ts :: rest3). repeat split; try assumption.
        right. exists ts. split; [|exact Ep].
        destruct rest3; [reflexivity|cbn [List.length] in E3; lia].
  - intros [-> [-> [-> [-> [-> [-> [-> [-> [f [y [rest [-> [Hy Hb]]]]]]]]]]]]]. cbn [negb].
    rewrite Hy. cbn [negb].
    destruct Hb as [[-> ->]|[ts [-> Hp]]].
    + reflexivity.
    + rewrite Hp. reflexivity.
Qed.

(* ------------------------------------------------------------------------------------------ *)
(* From the decision table to the argument vector                                               *)
(* ------------------------------------------------------------------------------------------ *)
Definition inv_of (fs : list flag) (free : list string) hcl yo sim : invocation :=
  mkInv true (has_flag FHelp fs) (has_flag FVersion fs) (has_flag FCheck fs) free hcl yo sim.

Lemma main_argv_some args fs free hcl yo sim :
  parse_argv args = Some (fs, free) ->
  main_argv args hcl yo sim = main_model (inv_of fs free hcl yo sim).
Proof. intros H. unfold main_argv, invocation_of. rewrite H. reflexivity. Qed.

Lemma main_argv_none args hcl yo sim :
  parse_argv args = None -> main_argv args hcl yo sim = (1, Message "getopts").
Proof. intros H. unfold main_argv, invocation_of. rewrite H. reflexivity. Qed.

Lemma given_iff args fs free f :
  parse_argv args = Some (fs, free) -> (given args f <-> has_flag f fs = true).
Proof.
  intros Hp. unfold given. rewrite has_flag_In. split.
  - intros [fs' [free' [Hp' Hin]]]. rewrite Hp in Hp'. inversion Hp'. subst. exact Hin.
  - intros Hin. exists fs, free. split; assumption.
Qed.

Lemma not_given_iff args fs free f :
  parse_argv args = Some (fs, free) -> (~ given args f <-> has_flag f fs = false).
Proof.
  intros Hp. rewrite (given_iff args fs free f Hp). destruct (has_flag f fs); split; intros H.
  - exfalso. apply H. reflexivity.
  - discriminate.
  - reflexivity.
  - discriminate.
Qed.

Lemma positionals_iff args fs free free' :
  parse_argv args = Some (fs, free) -> (positionals args free' <-> free' = free).
Proof.
  intros Hp. unfold positionals. split.
  - intros [fs' Hp']. rewrite Hp in Hp'. inversion Hp'. reflexivity.
  - intros ->. exists fs. exact Hp.
Qed.

Lemma not_given_none args f : parse_argv args = None -> ~ given args f.
Proof. intros Hp [fs [free [Hp' _]]]. congruence. Qed.

Lemma asked_version_iff args fs free :
  parse_argv args = Some (fs, free) ->
  (asked_version args <-> has_flag FHelp fs = false /\ has_flag FVersion fs = true).
Proof.
  intros Hp. unfold asked_version.
  rewrite (given_iff _ _ _ _ Hp), (not_given_iff _ _ _ _ Hp). tauto.
Qed.

Lemma check_passes_iff args fs free hcl :
  parse_argv args = Some (fs, free) ->
  (check_passes args hcl <->
   has_flag FHelp fs = false /\ has_flag FVersion fs = false /\ has_flag FCheck fs = true /\
   hcl = HclAccepted /\ (1 <= List.length free <= 3)%nat).
Proof.
  intros Hp. unfold check_passes.
  rewrite (given_iff _ _ _ _ Hp), !(not_given_iff _ _ _ _ Hp). split.
  - intros [Hc [Hh [Hv [[free' [Hf Hl]] Ha]]]].
    apply (positionals_iff _ _ _ _ Hp) in Hf. subst free'. tauto.
  - intros [Hh [Hv [Hc [Ha Hl]]]]. repeat split; try assumption.
    exists free. split; [apply (positionals_iff _ _ _ _ Hp); reflexivity|exact Hl].
Qed.

Lemma budget_spec_iff rest t :
  budget_spec rest t <-> (rest = [] /\ t = 9999) \/ (exists ts, rest = [ts] /\ denotes_u32 ts t).
Proof.
  unfold budget_spec. split; (intros [H|[ts [H1 H2]]]; [left; exact H|right; exists ts; split; [exact H1|]]);
  apply parse_u32_iff; exact H2.
Qed.

Lemma simulated_iff args fs free hcl yo sim t :
  parse_argv args = Some (fs, free) ->
  (simulated args hcl yo sim t <->
   has_flag FHelp fs = false /\ has_flag FVersion fs = false /\ has_flag FCheck fs = false /\
   hcl = HclAccepted /\ yo = YoLoadable /\ sim = SimCompletes /\
   exists f y rest, free = f :: y :: rest /\ ends_with ".yo" y = true /\ budget_spec rest t).
Proof.
  intros Hp. unfold simulated. split.
  - intros [f [y [rest [Hf [Hh [Hv [Hc [Ha [Hy [Hb [Hyo Hs]]]]]]]]]]].
    apply (positionals_iff _ _ _ _ Hp) in Hf.
    apply (not_given_iff _ _ _ _ Hp) in Hh, Hv, Hc.
    repeat split; try assumption. exists f, y, rest.
    split; [symmetry; exact Hf|]. split; [apply ends_in_dot_yo_iff; exact Hy|apply budget_spec_iff; exact Hb].
  - intros [Hh [Hv [Hc [Ha [Hyo [Hs [f [y [rest [Hf [Hy Hb]]]]]]]]]]].
    exists f, y, rest.
    apply (not_given_iff _ _ _ _ Hp) in Hh, Hv, Hc.
    repeat split; try assumption.
    + exists fs. rewrite Hp, Hf. reflexivity.
    + apply ends_in_dot_yo_iff. exact Hy.
    + apply budget_spec_iff. exact Hb.
Qed.

(* the four good outcomes, in terms of the argument vector *)
Lemma argv_usage0 args hcl yo sim :
  main_argv args hcl yo sim = (0, PrintedUsage) <-> asked_help args.
Proof.
  destruct (parse_argv args) as [[fs free]|] eqn:Hp.
  - rewrite (main_argv_some _ _ _ _ _ _ Hp), main_model_usage0. unfold asked_help.
    rewrite (given_iff _ _ _ _ Hp). cbn [inv_of i_opts_ok i_help]. tauto.
  - rewrite (main_argv_none _ _ _ _ Hp). split; [discriminate|].
    intros H. exfalso. exact (not_given_none _ _ Hp H).
Qed.

Lemma argv_version args hcl yo sim e :
  main_argv args hcl yo sim = (e, PrintedVersion) <-> e = 0 /\ asked_version args.
Proof.
  destruct (parse_argv args) as [[fs free]|] eqn:Hp.
  - rewrite (main_argv_some _ _ _ _ _ _ Hp), main_model_version, (asked_version_iff _ _ _ Hp).
    cbn [inv_of i_opts_ok i_help i_version]. tauto.
  - rewrite (main_argv_none _ _ _ _ Hp). split; [discriminate|].
    intros [_ [H _]]. exfalso. exact (not_given_none _ _ Hp H).
Qed.

Lemma argv_syntax args hcl yo sim e :
  main_argv args hcl yo sim = (e, SyntaxOK) <-> e = 0 /\ check_passes args hcl.
Proof.
  destruct (parse_argv args) as [[fs free]|] eqn:Hp.
  - rewrite (main_argv_some _ _ _ _ _ _ Hp), main_model_syntax, (check_passes_iff _ _ _ _ Hp).
    cbn [inv_of i_opts_ok i_help i_version i_check i_hcl i_free]. tauto.
  - rewrite (main_argv_none _ _ _ _ Hp). split; [discriminate|].
    intros [_ [H _]]. exfalso. exact (not_given_none _ _ Hp H).
Qed.

Lemma argv_final args hcl yo sim e t :
  main_argv args hcl yo sim = (e, FinalState t) <-> e = 0 /\ simulated args hcl yo sim t.
Proof.
  destruct (parse_argv args) as [[fs free]|] eqn:Hp.
  - rewrite (main_argv_some _ _ _ _ _ _ Hp), main_model_final, (simulated_iff _ _ _ _ _ _ _ Hp).
    cbn [inv_of i_opts_ok i_help i_version i_check i_hcl i_yo i_sim i_free]. tauto.
  - rewrite (main_argv_none _ _ _ _ Hp). split; [discriminate|].
    intros [_ [f [y [rest [[fs H] _]]]]]. congruence.
Qed.

Lemma argv_shape args hcl yo sim :
  let r := main_argv args hcl yo sim in
  (fst r = 0 /\ good_outcome (snd r)) \/ (fst r = 1 /\ bad_outcome (snd r)).
Proof. apply main_model_shape. Qed.

(* (a) *)
Theorem exit_zero_iff_holds : stmt_exit_zero_iff.
Proof.
  intros args hcl yo sim r.
  assert (H1 : r = (0, PrintedUsage) <-> asked_help args) by apply argv_usage0.
  assert (H2 : r = (0, PrintedVersion) <-> asked_version args).
  { unfold r. rewrite argv_version. tauto. }
  assert (H3 : r = (0, SyntaxOK) <-> check_passes args hcl).
  { unfold r. rewrite argv_syntax. tauto. }
  assert (H4 : forall t, r = (0, FinalState t) <-> simulated args hcl yo sim t).
  { intros t. unfold r. rewrite argv_final. tauto. }
  split; [exact H1|]. split; [exact H2|]. split; [exact H3|]. split; [exact H4|].
  pose proof (argv_shape args hcl yo sim) as Hs. cbv zeta in Hs. fold r in Hs.
  destruct r as [e w]. cbn [fst snd] in *. split.
  - split.
    + intros ->. destruct Hs as [[_ Hg]|[Hc _]]; [|discriminate].
      destruct Hg as [->|[->|[->|[t ->]]]].
      * left. apply H1. reflexivity.
      * right. left. apply H2. reflexivity.
      * right. right. left. apply H3. reflexivity.
      * right. right. right. exists t. apply H4. reflexivity.
    + intros [H|[H|[H|[t H]]]]; [apply H1 in H|apply H2 in H|apply H3 in H|apply H4 in H];
        inversion H; reflexivity.
  - intros Hne. destruct Hs as [[H _]|[H _]]; [contradiction|exact H].
Qed.

(* (b) *)
Theorem no_final_state_on_failure_holds : stmt_no_final_state_on_failure.
Proof.
  intros args hcl yo sim r.
  pose proof (argv_shape args hcl yo sim) as Hs. cbv zeta in Hs. fold r in Hs.
  unfold good_outcome, bad_outcome in Hs.
  destruct r as [e w]. cbn [fst snd] in *. split; [|split].
  - intros ->. destruct Hs as [[Hc _]|[_ Hb]]; [discriminate|]. split; [exact Hb|].
    intros t ->. destruct Hb as [Hb|[m Hb]]; discriminate.
  - intros Hw. destruct Hs as [[He _]|[_ Hb]]; [exact He|]. exfalso.
    destruct Hb as [->|[m ->]]; destruct Hw as [Hw|[Hw|[t Hw]]]; discriminate.
  - intros m ->. destruct Hs as [[_ Hg]|[He _]]; [|exact He]. exfalso.
    destruct Hg as [Hg|[Hg|[Hg|[t Hg]]]]; discriminate.
Qed.

(* (c) *)
Theorem check_simulates_nothing_holds : stmt_check_simulates_nothing.
Proof.
  intros args hcl yo sim t Hc Hw.
  destruct (main_argv args hcl yo sim) as [e w] eqn:Hr. cbn [snd] in Hw. subst w.
  apply argv_final in Hr. destruct Hr as [_ [f [y [rest [_ [_ [_ [Hn _]]]]]]]]. exact (Hn Hc).
Qed.

(* (e) *)
Theorem yo_name_rule_holds : stmt_yo_name_rule.
Proof.
  intros args hcl yo sim e t Hr. apply argv_final in Hr.
  destruct Hr as [_ [f [y [rest [Hp [_ [_ [_ [_ [Hy _]]]]]]]]]].
  exists (f :: y :: rest), y. repeat split; [exact Hp|exact Hy].
Qed.

(* (d) *)
Theorem timeout_honoured_holds : stmt_timeout_honoured.
Proof.
  intros args hcl yo sim. split.
  - intros e t Hr. apply argv_final in Hr.
    destruct Hr as [_ [f [y [rest [Hp [_ [_ [_ [_ [_ [Hb _]]]]]]]]]]].
    exists (f :: y :: rest). split; [exact Hp|].
    destruct Hb as [[-> ->]|[ts [-> Hd]]].
    + left. split; reflexivity.
    + right. split; [reflexivity|]. exists ts. split; [reflexivity|exact Hd].
  - intros free ts [fs Hp] Hn Hbad Hh Hv Hc.
    pose proof (argv_shape args hcl yo sim) as Hs. cbv zeta in Hs.
    destruct Hs as [[He Hg]|[He _]]; [exfalso|exact He].
    destruct (main_argv args hcl yo sim) as [e w] eqn:Hr. cbn [fst snd] in *. subst e.
    destruct Hg as [->|[->|[->|[t ->]]]].
    + apply argv_usage0 in Hr. exact (Hh Hr).
    + apply argv_version in Hr. destruct Hr as [_ [Hr _]]. exact (Hv Hr).
    + apply argv_syntax in Hr. destruct Hr as [_ [Hr _]]. exact (Hc Hr).
    + apply argv_final in Hr.
      destruct Hr as [_ [f [y [rest [[fs' Hp'] [_ [_ [_ [_ [_ [Hb _]]]]]]]]]]].
      rewrite Hp in Hp'. inversion Hp'. subst.
      destruct Hb as [[-> _]|[ts' [-> Hd]]]; cbn [nth_error] in Hn; [discriminate|].
      inversion Hn. subst. apply Hbad. exists t. exact Hd.
Qed.

(* every cause of failure *)
Lemma exit_one_unless args hcl yo sim :
  ~ asked_help args -> ~ asked_version args -> ~ check_passes args hcl ->
  (forall t, ~ simulated args hcl yo sim t) -> fst (main_argv args hcl yo sim) = 1.
Proof.
  intros H1 H2 H3 H4.
  destruct (exit_zero_iff_holds args hcl yo sim) as [_ [_ [_ [_ [H0 Hne]]]]]. cbv zeta in H0, Hne.
  apply Hne. intros He. apply H0 in He.
  destruct He as [H|[H|[H|[t H]]]]; [exact (H1 H)|exact (H2 H)|exact (H3 H)|exact (H4 t H)].
Qed.

Theorem each_failure_cause_exits_one_holds : stmt_each_failure_cause_exits_one.
Proof.
  intros args hcl yo sim r. split.
  - intros Hwf. apply main_argv_none.
    destruct (parse_argv args) as [[fs free]|] eqn:Hp; [|reflexivity].
    exfalso. apply Hwf. exists fs, free. exact Hp.
  - intros free [fs Hp] Hh Hv.
    assert (Hh' : ~ asked_help args) by exact Hh.
    assert (Hv' : ~ asked_version args) by (intros [H _]; exact (Hv H)).
    assert (Hsim : forall t, simulated args hcl yo sim t ->
              hcl = HclAccepted /\ yo = YoLoadable /\ sim = SimCompletes /\ ~ given args FCheck /\
              exists f y rest, free = f :: y :: rest /\ ends_in_dot_yo y /\
                ((rest = [] /\ t = 9999) \/ (exists ts, rest = [ts] /\ denotes_u32 ts t))).
    { intros t [f [y [rest [Hf [_ [_ [Hc [Ha [Hy [Hb [Hyo Hs]]]]]]]]]]].
      apply (positionals_iff _ _ _ _ Hp) in Hf.
      repeat split; try assumption. exists f, y, rest. repeat split; [symmetry; exact Hf|exact Hy|exact Hb]. }
    assert (Hchk : check_passes args hcl ->
              given args FCheck /\ hcl = HclAccepted /\ (1 <= List.length free <= 3)%nat).
    { intros [Hc [_ [_ [[free' [Hf Hl]] Ha]]]].
      apply (positionals_iff _ _ _ _ Hp) in Hf. subst free'. tauto. }
    apply (not_given_iff _ _ _ _ Hp) in Hh, Hv.
    assert (Hr : r = main_model (inv_of fs free hcl yo sim)) by (apply main_argv_some; exact Hp).
    split; [|split; [|split; [|split]]].
    + intros ->. rewrite Hr. unfold main_model, inv_of. cbn [i_opts_ok i_help i_version i_free negb].
      rewrite Hh, Hv. reflexivity.
    + intros Hl. apply exit_one_unless; try assumption.
      * intros H. apply Hchk in H. lia.
      * intros t H. apply Hsim in H.
        destruct H as [_ [_ [_ [_ [f [y [rest [-> [_ [[-> _]|[ts [-> _]]]]]]]]]]]]; cbn [List.length] in Hl; lia.
    + intros Hne ->. rewrite Hr. unfold main_model, inv_of.
      cbn [i_opts_ok i_help i_version i_free i_hcl negb]. rewrite Hh, Hv.
      destruct free; [congruence|reflexivity].
    + intros ->. apply exit_one_unless; try assumption.
      * intros H. apply Hchk in H. destruct H as [_ [H _]]. discriminate.
      * intros t H. apply Hsim in H. destruct H as [H _]. discriminate.
    + intros Hc.
      assert (Hc' : ~ check_passes args hcl) by (intros H; apply Hchk in H; tauto).
      split; [|split; [|split; [|split; [|split]]]].
      * intros Hl. apply exit_one_unless; try assumption.
        intros t H. apply Hsim in H.
        destruct H as [_ [_ [_ [_ [f [y [rest [-> _]]]]]]]]. cbn [List.length] in Hl. lia.
      * intros y Hn Hy. apply exit_one_unless; try assumption.
        intros t H. apply Hsim in H.
        destruct H as [_ [_ [_ [_ [f [y' [rest [-> [Hy' _]]]]]]]]]. cbn [nth_error] in Hn.
        inversion Hn. subst. exact (Hy Hy').
      * intros ts Hn Hbad. apply exit_one_unless; try assumption.
        intros t H. apply Hsim in H.
        destruct H as [_ [_ [_ [_ [f [y' [rest [-> [_ [[-> _]|[ts' [-> Hd]]]]]]]]]]]];
          cbn [nth_error] in Hn; [discriminate|].
        inversion Hn. subst. apply Hbad. exists t. exact Hd.
      * intros ->. apply exit_one_unless; try assumption.
        intros t H. apply Hsim in H. destruct H as [_ [H _]]. discriminate.
      * intros ->. apply exit_one_unless; try assumption.
        intros t H. apply Hsim in H. destruct H as [_ [H _]]. discriminate.
      * intros ->. apply exit_one_unless; try assumption.
        intros t H. apply Hsim in H. destruct H as [_ [_ [H _]]]. discriminate.
Qed.

(* DRAFT refuted: under --check the third positional is not looked at *)
Lemma abc_not_numeral : ~ exists t, denotes_u32 "abc" t.
Proof. intros [t H]. apply parse_u32_iff in H. vm_compute in H. discriminate. Qed.

Theorem bad_timeout_always_fails_draft_refuted : ~ stmt_bad_timeout_always_fails_draft.
Proof.
  intros H.
  specialize (H ["-c"; "f.hcl"; "p.yo"; "abc"] HclAccepted YoLoadable SimCompletes
                ["f.hcl"; "p.yo"; "abc"] "abc").
  assert (Hp : positionals ["-c"; "f.hcl"; "p.yo"; "abc"] ["f.hcl"; "p.yo"; "abc"])
    by (exists [FCheck]; reflexivity).
  specialize (H Hp eq_refl abc_not_numeral). vm_compute in H. discriminate.
Qed.

(* ------------------------------------------------------------------------------------------ *)
(* (f), (g): the part of the command line before `--`                                           *)
(* ------------------------------------------------------------------------------------------ *)
Definition flags_of (a : string) : list flag := match classify a with Flags fs => fs | _ => [] end.
Definition is_bad (a : string) : bool := match classify a with Bad => true | _ => false end.

Lemma collect_app pre tail :
  ~ In "--" pre ->
  collect (pre ++ tail) =
  if existsb is_bad pre then None
  else match collect tail with
       | None => None
       | Some (fs, free) =>
           Some ((flat_map flags_of pre ++ fs)%list, (positional_part pre ++ free)%list)
       end.
Proof.
  induction pre as [|a pre IH]; intros Hno.
  - cbn [app existsb flat_map positional_part filter]. destruct (collect tail) as [[fs free]|]; reflexivity.
  - assert (Ha : a <> "--") by (intros ->; apply Hno; left; reflexivity).
    assert (Hno' : ~ In "--" pre) by (intros H; apply Hno; right; exact H).
    specialize (IH Hno'). unfold positional_part in *.
    cbn [app collect existsb flat_map filter]. rewrite IH.
    destruct (classify a) as [| |fs1|] eqn:Ec.
    + assert (Hb : is_bad a = false) by (unfold is_bad; rewrite Ec; reflexivity).
      assert (Hf : flags_of a = []) by (unfold flags_of; rewrite Ec; reflexivity).
      apply classify_positional in Ec. rewrite Ec, Hb, Hf. cbn [negb orb app].
      destruct (existsb is_bad pre); [reflexivity|]. destruct (collect tail) as [[fs free]|]; reflexivity.
    + apply classify_terminator in Ec. contradiction.
    + assert (Hb : is_bad a = false) by (unfold is_bad; rewrite Ec; reflexivity).
      assert (Hf : flags_of a = fs1) by (unfold flags_of; rewrite Ec; reflexivity).
      rewrite Hb, Hf.
      destruct (looks_like_option a) eqn:El.
      * cbn [negb orb]. destruct (existsb is_bad pre); [reflexivity|].
        destruct (collect tail) as [[fs free]|]; [|reflexivity]. rewrite app_assoc. reflexivity.
      * apply classify_positional in El. congruence.
    + assert (Hb : is_bad a = true) by (unfold is_bad; rewrite Ec; reflexivity).
      rewrite Hb. reflexivity.
Qed.

(* main_argv as a function of the result of the scan *)
Definition finish (o : option (list flag * list string)) hcl yo sim : N * what :=
  main_model
    match (match o with
           | Some (fs, free) => if no_repeat fs then Some (fs, free) else None
           | None => None
           end) with
    | None => mkInv false false false false [] hcl yo sim
    | Some (fs, free) =>
        mkInv true (has_flag FHelp fs) (has_flag FVersion fs) (has_flag FCheck fs) free hcl yo sim
    end.

Lemma main_argv_finish args hcl yo sim : main_argv args hcl yo sim = finish (collect args) hcl yo sim.
Proof. reflexivity. Qed.

Lemma existsb_perm {A} (p : A -> bool) l l' : Permutation l l' -> existsb p l = existsb p l'.
Proof.
  intros H. induction H as [|x l l' _ IH|x y l|l l' l'' _ IH1 _ IH2]; cbn [existsb].
  - reflexivity.
  - rewrite IH. reflexivity.
  - destruct (p x), (p y); reflexivity.
  - rewrite IH1. exact IH2.
Qed.

Lemma no_repeat_perm fs fs' : Permutation fs fs' -> no_repeat fs = no_repeat fs'.
Proof.
  intros H. destruct (no_repeat fs) eqn:E, (no_repeat fs') eqn:E'; try reflexivity.
  - apply no_repeat_NoDup in E. apply (Permutation_NoDup H), no_repeat_NoDup in E. congruence.
  - apply no_repeat_NoDup in E'. apply (Permutation_NoDup (Permutation_sym H)), no_repeat_NoDup in E'.
    congruence.
Qed.

Lemma finish_perm fs fs' free hcl yo sim :
  Permutation fs fs' -> finish (Some (fs, free)) hcl yo sim = finish (Some (fs', free)) hcl yo sim.
Proof.
  intros H. unfold finish. rewrite (no_repeat_perm _ _ H).
  destruct (no_repeat fs'); [|reflexivity].
  unfold has_flag. rewrite !(existsb_perm _ _ _ H). reflexivity.
Qed.

Lemma scan_perm pre pre' tail :
  ~ In "--" pre -> Permutation pre pre' -> positional_part pre = positional_part pre' ->
  (collect (pre ++ tail) = None /\ collect (pre' ++ tail) = None) \/
  exists fs fs' free, collect (pre ++ tail) = Some (fs, free) /\ collect (pre' ++ tail) = Some (fs', free) /\
    Permutation fs fs'.
Proof.
  intros Hno Hperm Hpos.
  assert (Hno' : ~ In "--" pre') by (intros H; apply Hno; apply (Permutation_in _ (Permutation_sym Hperm) H)).
  rewrite (collect_app pre tail Hno), (collect_app pre' tail Hno').
  rewrite <- (existsb_perm is_bad _ _ Hperm), <- Hpos.
  destruct (existsb is_bad pre); [left; split; reflexivity|].
  destruct (collect tail) as [[fs free]|]; [|left; split; reflexivity].
  right. eexists _, _, _. split; [reflexivity|]. split; [reflexivity|].
  apply Permutation_app_tail. apply Permutation_flat_map. exact Hperm.
Qed.

Theorem option_order_free_holds : stmt_option_order_free.
Proof.
  intros pre pre' tail hcl yo sim Hno Hperm Hpos. rewrite !main_argv_finish.
  destruct (scan_perm pre pre' tail Hno Hperm Hpos) as [[-> ->]|[fs [fs' [free [-> [-> Hp]]]]]].
  - reflexivity.
  - apply finish_perm. exact Hp.
Qed.

Theorem option_order_free_in_world_holds : stmt_option_order_free_in_world.
Proof.
  intros w pre pre' tail Hno Hperm Hpos. unfold main_in_world.
  assert (Hfree : match parse_argv (pre ++ tail) with Some (_, free) => free | None => [] end
                = match parse_argv (pre' ++ tail) with Some (_, free) => free | None => [] end).
  { unfold parse_argv.
    destruct (scan_perm pre pre' tail Hno Hperm Hpos) as [[-> ->]|[fs [fs' [free [-> [-> Hp]]]]]].
    - reflexivity.
    - rewrite (no_repeat_perm _ _ Hp). destruct (no_repeat fs'); reflexivity. }
  rewrite Hfree. apply option_order_free_holds; assumption.
Qed.

(* spelling *)
Lemma collect_same_class pre a a' fs post :
  ~ In "--" pre -> classify a = Flags fs -> classify a' = Flags fs ->
  collect (pre ++ a :: post) = collect (pre ++ a' :: post).
Proof.
  intros Hno Ha Ha'. rewrite !(collect_app pre _ Hno). cbn [collect]. rewrite Ha, Ha'. reflexivity.
Qed.

Theorem spelling_free_holds : stmt_spelling_free.
Proof.
  intros pre post f c hcl yo sim Hno Hs. rewrite !main_argv_finish.
  rewrite (collect_same_class pre (String "-" (String c "")) ("--" ++ long_name f) [f] post Hno);
    [reflexivity| |].
  - apply classify_flags. apply (sp_group [c] [f]); [discriminate|].
    constructor; [exact Hs|constructor].
  - apply classify_flags. apply sp_long.
Qed.

(* groups *)
Lemma cluster_app s1 s2 :
  cluster (s1 ++ s2) =
  match cluster s1, cluster s2 with Some a, Some b => Some (a ++ b)%list | _, _ => None end.
Proof.
  induction s1 as [|c r IH]; cbn [append cluster].
  - destruct (cluster s2); reflexivity.
  - destruct (short_flag c); [|reflexivity]. rewrite IH.
    destruct (cluster r), (cluster s2); reflexivity.
Qed.

Lemma classify_group g c r :
  g = String c r -> c <> "-"%char ->
  classify ("-" ++ g) = match cluster g with Some fs => Flags fs | None => Bad end.
Proof.
  intros -> Hc. apply Ascii.eqb_neq in Hc. cbn [append classify]. cbn [Ascii.eqb Bool.eqb negb].
  rewrite Hc. reflexivity.
Qed.

Theorem group_is_sequence_holds : stmt_group_is_sequence.
Proof.
  intros pre post c1 r1 c2 r2 hcl yo sim Hno Hc1 Hc2. rewrite !main_argv_finish.
  remember (String c1 r1) as g1 eqn:Eg1. remember (String c2 r2) as g2 eqn:Eg2.
  rewrite !(collect_app pre _ Hno). cbn [collect].
  assert (Eg12 : g1 ++ g2 = String c1 (r1 ++ g2)) by (rewrite Eg1; reflexivity).
  rewrite (classify_group (g1 ++ g2) c1 (r1 ++ g2) Eg12 Hc1).
  rewrite (classify_group g1 c1 r1 Eg1 Hc1), (classify_group g2 c2 r2 Eg2 Hc2).
  rewrite cluster_app.
  destruct (cluster g1) as [a|], (cluster g2) as [b|], (collect post) as [[fs free]|];
    try reflexivity.
  rewrite <- app_assoc. reflexivity.
Qed.

(* (g) output options *)
Lemma has_flag_ext f fs fs' : (In f fs <-> In f fs') -> has_flag f fs = has_flag f fs'.
Proof.
  intros H. destruct (has_flag f fs) eqn:E, (has_flag f fs') eqn:E'; try reflexivity.
  - apply has_flag_In, H, has_flag_In in E. congruence.
  - apply has_flag_In, H, has_flag_In in E'. congruence.
Qed.

Lemma not_output_H : ~ is_output_flag FHelp.
Proof. intros [H|[H|[H|[H|[H|H]]]]]; discriminate. Qed.
Lemma not_output_V : ~ is_output_flag FVersion.
Proof. intros [H|[H|[H|[H|[H|H]]]]]; discriminate. Qed.
Lemma not_output_C : ~ is_output_flag FCheck.
Proof. intros [H|[H|[H|[H|[H|H]]]]]; discriminate. Qed.

Theorem output_options_irrelevant_holds : stmt_output_options_irrelevant.
Proof.
  intros args args' fs fs' free hcl yo sim Hp Hp' Hagree.
  rewrite (main_argv_some _ _ _ _ _ _ Hp), (main_argv_some _ _ _ _ _ _ Hp'). unfold inv_of.
  rewrite (has_flag_ext FHelp fs fs' (Hagree _ not_output_H)).
  rewrite (has_flag_ext FVersion fs fs' (Hagree _ not_output_V)).
  rewrite (has_flag_ext FCheck fs fs' (Hagree _ not_output_C)).
  reflexivity.
Qed.

Lemma NoDup_app_drop_l {A} (l l' : list A) : NoDup (l ++ l') -> NoDup l'.
Proof.
  induction l as [|x l IH]; cbn [app]; intros H; [exact H|]. inversion H. subst. apply IH. assumption.
Qed.

Theorem output_option_removal_holds : stmt_output_option_removal.
Proof.
  intros pre o fs_o post hcl yo sim Hno Hsp Hout [fs1 [free1 Hwf]].
  apply classify_flags in Hsp.
  assert (Hwf' := Hwf). unfold parse_argv in Hwf'.
  rewrite (collect_app pre _ Hno) in Hwf'. cbn [collect] in Hwf'. rewrite Hsp in Hwf'.
  destruct (existsb is_bad pre) eqn:Eb; [discriminate|].
  destruct (collect post) as [[fs free]|] eqn:Ec; [|discriminate].
  destruct (no_repeat _) eqn:En in Hwf'; [|discriminate]. inversion Hwf'. subst fs1 free1. clear Hwf'.
  assert (Hp2 : parse_argv (pre ++ post) = Some ((flat_map flags_of pre ++ fs)%list, (positional_part pre ++ free)%list)).
  { unfold parse_argv. rewrite (collect_app pre _ Hno), Eb, Ec.
    replace (no_repeat (flat_map flags_of pre ++ fs)) with true; [reflexivity|].
    symmetry. apply no_repeat_NoDup. apply no_repeat_NoDup in En.
    apply (NoDup_app_drop_l fs_o).
    apply (Permutation_NoDup (Permutation_app_swap_app _ _ _) En). }
  apply (output_options_irrelevant_holds _ _ _ _ _ hcl yo sim Hwf Hp2).
  intros f Hf. rewrite !in_app_iff. split; [|tauto].
  intros [H|[H|H]]; [left; exact H| |right; exact H].
  exfalso. apply Hf. rewrite Forall_forall in Hout. apply Hout. exact H.
Qed.

Theorem output_option_insertion_draft_refuted : ~ stmt_output_option_insertion_draft.
Proof.
  intros H.
  specialize (H ["-d"] "-d" [FDebug] ["f.hcl"; "p.yo"] HclAccepted YoLoadable SimCompletes).
  assert (Hno : ~ In "--" ["-d"]) by (intros [E|[]]; discriminate).
  assert (Hsp : spelled "-d" [FDebug]) by (apply classify_flags; reflexivity).
  assert (Hout : Forall is_output_flag [FDebug]) by (constructor; [left; reflexivity|constructor]).
  specialize (H Hno Hsp Hout). vm_compute in H. discriminate.
Qed.

(* ------------------------------------------------------------------------------------------ *)
(* Examples (all by computation)                                                                *)
(* ------------------------------------------------------------------------------------------ *)
Notation ok_run := (fun args => main_argv args HclAccepted YoLoadable SimCompletes).

(* how getopts reads the vector *)
Example ex_group : parse_argv ["-dq"; "f.hcl"; "p.yo"] = Some ([FDebug; FQuiet], ["f.hcl"; "p.yo"]).
Proof. reflexivity. Qed.
Example ex_terminator : parse_argv ["--"; "-d"] = Some ([], ["-d"]).
Proof. reflexivity. Qed.
Example ex_terminator_last : parse_argv ["f.hcl"; "--"] = Some ([], ["f.hcl"]).
Proof. reflexivity. Qed.
Example ex_terminator_twice : parse_argv ["--"; "--"; "-h"] = Some ([], ["--"; "-h"]).
Proof. reflexivity. Qed.
Example ex_twice : parse_argv ["-d"; "-d"] = None.
Proof. reflexivity. Qed.
Example ex_twice_other_spelling : parse_argv ["-d"; "--debug"] = None.
Proof. reflexivity. Qed.
Example ex_twice_in_group : parse_argv ["-qdq"] = None /\ parse_argv ["-dq"; "f.hcl"; "-q"] = None.
Proof. split; reflexivity. Qed.
Example ex_valued : parse_argv ["--debug=1"] = None /\ parse_argv ["--debug="] = None.
Proof. split; reflexivity. Qed.
Example ex_lone_dash : parse_argv ["-"; "p.yo"] = Some ([], ["-"; "p.yo"]).
Proof. reflexivity. Qed.
Example ex_empty_string : parse_argv [""; "-c"] = Some ([FCheck], [""]).
Proof. reflexivity. Qed.
Example ex_options_after_positionals :
  parse_argv ["f.hcl"; "-t"; "p.yo"; "--trace-assignments"; "12"; "-i"]
  = Some ([FTesting; FTrace; FInteractive], ["f.hcl"; "p.yo"; "12"]).
Proof. reflexivity. Qed.
Example ex_unknown :
  parse_argv ["--bogus"] = None /\ parse_argv ["-Z"] = None /\ parse_argv ["-dZ"] = None /\
  parse_argv ["--chec"] = None /\ parse_argv ["--Check"] = None /\ parse_argv ["-version"] = None /\
  parse_argv ["---d"] = None /\ parse_argv ["--="] = None /\ parse_argv ["-d-"] = None /\
  parse_argv ["--v"] = None /\ parse_argv ["-5"] = None.
Proof. repeat split; reflexivity. Qed.
(* the crate reads a one-letter long name as the short name (observed on the real binary) *)
Example ex_one_letter_long :
  parse_argv ["--d"] = Some ([FDebug], []) /\ parse_argv ["--c"; "f.hcl"] = Some ([FCheck], ["f.hcl"]) /\
  parse_argv ["-d"; "--d"] = None /\ parse_argv ["--d=1"] = None.
Proof. repeat split; reflexivity. Qed.
(* an error is raised where it is met: before the terminator, not after it *)
Example ex_error_position : parse_argv ["--bogus"; "--"] = None /\ parse_argv ["--"; "--bogus"] = Some ([], ["--bogus"]).
Proof. split; reflexivity. Qed.

Example ex_reads :
  reads ["-dq"; "f.hcl"; "--c"; "--version"; "--"; "-x"]
        [FDebug; FQuiet; FCheck; FVersion] ["f.hcl"; "-x"].
Proof. apply (proj1 (parse_argv_characterised_holds _ _ _)). reflexivity. Qed.

(* (a) the outcomes *)
Example ex_help :
  main_argv ["-h"] HclUnreadable YoMissing SimAborts = (0, PrintedUsage) /\
  main_argv ["nonexistent.hcl"; "--help"; "--version"] HclUnreadable YoMissing SimAborts = (0, PrintedUsage) /\
  main_argv ["-h"; "-h"] HclAccepted YoLoadable SimCompletes = (1, Message "getopts") /\
  main_argv ["--"; "-h"] HclUnreadable YoMissing SimCompletes = (1, Message "Error reading").
Proof. repeat split; reflexivity. Qed.
Example ex_version :
  main_argv ["--version"] HclUnreadable YoMissing SimAborts = (0, PrintedVersion) /\
  main_argv ["-c"; "--version"; "a"; "b"; "c"; "d"] HclRejected YoMissing SimAborts = (0, PrintedVersion).
Proof. split; reflexivity. Qed.
Example ex_check :
  main_argv ["-c"; "f.hcl"] HclAccepted YoMissing SimAborts = (0, SyntaxOK) /\
  main_argv ["f.hcl"; "p.txt"; "abc"; "--check"] HclAccepted YoMissing SimAborts = (0, SyntaxOK) /\
  main_argv ["-c"; "f.hcl"; "p.yo"; "1"; "x"] HclAccepted YoLoadable SimCompletes = (1, PrintedUsage) /\
  main_argv ["-c"; "f.hcl"] HclRejected YoLoadable SimCompletes = (1, Message "diagnostics") /\
  main_argv ["-c"] HclAccepted YoLoadable SimCompletes = (1, PrintedUsage).
Proof. repeat split; reflexivity. Qed.
Example ex_final :
  ok_run ["-dq"; "f.hcl"; "p.yo"] = (0, FinalState 9999) /\
  ok_run ["f.hcl"; "p.yo"; "+5"] = (0, FinalState 5) /\
  ok_run ["f.hcl"; "p.yo"; "007"] = (0, FinalState 7) /\
  ok_run ["f.hcl"; "p.yo"; "0"] = (0, FinalState 0) /\
  ok_run ["f.hcl"; "p.yo"; "4294967295"] = (0, FinalState 4294967295).
Proof. repeat split; reflexivity. Qed.
Example ex_failures :
  ok_run [] = (1, PrintedUsage) /\
  ok_run ["-d"] = (1, PrintedUsage) /\
  ok_run ["f.hcl"] = (1, PrintedUsage) /\
  ok_run ["f.hcl"; "p.yo"; "1"; "2"] = (1, PrintedUsage) /\
  ok_run ["f.hcl"; "p.yo"; "4294967296"] = (1, Message "timeout") /\
  ok_run ["f.hcl"; "p.yo"; "-1"] = (1, Message "getopts") /\
  ok_run ["f.hcl"; "p.yo"; "--"; "-1"] = (1, Message "timeout") /\
  ok_run ["f.hcl"; "p.yo"; ""] = (1, Message "timeout") /\
  ok_run ["f.hcl"; "p.yo"; "+"] = (1, Message "timeout") /\
  ok_run ["f.hcl"; "p.yo"; "1 "] = (1, Message "timeout") /\
  ok_run ["-"; "p.yo"] = (0, FinalState 9999) /\
  main_argv ["-"; "p.yo"] HclUnreadable YoLoadable SimCompletes = (1, Message "Error reading") /\
  main_argv ["f.hcl"; "p.yo"] HclRejected YoLoadable SimCompletes = (1, Message "diagnostics") /\
  main_argv ["f.hcl"; "p.yo"] HclAccepted YoMissing SimCompletes = (1, Message "open") /\
  main_argv ["f.hcl"; "p.yo"] HclAccepted YoUnloadable SimCompletes = (1, Message "load") /\
  main_argv ["f.hcl"; "p.yo"] HclAccepted YoLoadable SimAborts = (1, Message "simulation").
Proof. repeat split; reflexivity. Qed.

(* non-vacuity of (a): each condition is met by a command line, and by the theorem gives its outcome *)
Example ex_simulated : simulated ["-q"; "f.hcl"; "p.yo"; "+5"] HclAccepted YoLoadable SimCompletes 5.
Proof.
  apply (proj1 (proj2 (proj2 (proj2 (exit_zero_iff_holds ["-q"; "f.hcl"; "p.yo"; "+5"] HclAccepted YoLoadable SimCompletes))))).
  reflexivity.
Qed.
Example ex_check_passes : check_passes ["f.hcl"; "p.txt"; "abc"; "-c"] HclAccepted.
Proof.
  apply (proj1 (proj2 (proj2 (exit_zero_iff_holds ["f.hcl"; "p.txt"; "abc"; "-c"] HclAccepted YoMissing SimAborts)))).
  reflexivity.
Qed.
Example ex_asked_version : asked_version ["x"; "--version"].
Proof. apply (proj1 (proj2 (exit_zero_iff_holds ["x"; "--version"] HclUnreadable YoMissing SimAborts))). reflexivity. Qed.
Example ex_asked_help : asked_help ["--version"; "--h"].
Proof. apply (proj1 (exit_zero_iff_holds ["--version"; "--h"] HclUnreadable YoMissing SimAborts)). reflexivity. Qed.

(* (c) *)
Example ex_check_given : given ["f.hcl"; "p.yo"; "-qc"] FCheck /\ ok_run ["f.hcl"; "p.yo"; "-qc"] = (0, SyntaxOK).
Proof. split; [exists [FQuiet; FCheck], ["f.hcl"; "p.yo"]; split; [reflexivity|right; left; reflexivity]|reflexivity]. Qed.

(* (d) numerals *)
Example ex_denotes : denotes_u32 "+5" 5 /\ denotes_u32 "4294967295" 4294967295 /\ denotes_u32 "007" 7.
Proof. repeat split; apply parse_u32_iff; reflexivity. Qed.
Example ex_not_numerals :
  (~ exists t, denotes_u32 "4294967296" t) /\ (~ exists t, denotes_u32 "" t) /\
  (~ exists t, denotes_u32 "+" t) /\ (~ exists t, denotes_u32 "++5" t) /\ (~ exists t, denotes_u32 "0x10" t) /\
  (~ exists t, denotes_u32 "99999999999999999999" t).
Proof. repeat split; intros [t H]; apply parse_u32_iff in H; vm_compute in H; discriminate. Qed.

(* (e) the name rule is "ends in .yo", case-sensitively *)
Example ex_yo_names :
  ok_run ["f.hcl"; "PROG.YO"] = (1, Message "extension") /\
  ok_run ["f.hcl"; "prog.Yo"] = (1, Message "extension") /\
  ok_run ["f.hcl"; "prog.yo.bak"] = (1, Message "extension") /\
  ok_run ["f.hcl"; "progyo"] = (1, Message "extension") /\
  ok_run ["f.hcl"; "prog.yo "] = (1, Message "extension") /\
  ok_run ["f.hcl"; ".yo"] = (0, FinalState 9999) /\
  ok_run ["f.hcl"; "prog..yo"] = (0, FinalState 9999) /\
  ok_run ["f.hcl"; "dir.yo/x.yo"] = (0, FinalState 9999).
Proof. repeat split; reflexivity. Qed.
Example ex_not_dot_yo : ~ ends_in_dot_yo "PROG.YO" /\ ends_in_dot_yo ".yo".
Proof.
  split.
  - intros H. apply ends_in_dot_yo_iff in H. vm_compute in H. discriminate.
  - exists "". reflexivity.
Qed.

(* (f) *)
Example ex_order_free :
  let pre := ["-d"; "f.hcl"; "p.yo"] in let pre' := (["f.hcl"; "p.yo"] ++ ["-d"])%list in
  let tail := ["--"; "7"] in
  ~ In "--" pre /\ Permutation pre pre' /\ positional_part pre = positional_part pre' /\
  ok_run (pre ++ tail)%list = (0, FinalState 7) /\ ok_run (pre' ++ tail)%list = (0, FinalState 7).
Proof.
  cbv zeta. split; [intros [E|[E|[E|[]]]]; discriminate|].
  split; [apply Permutation_cons_append|]. repeat split; reflexivity.
Qed.
Example ex_order_free_errors_too :
  ok_run ["-d"; "f.hcl"; "-Z"; "p.yo"] = ok_run ["-Z"; "f.hcl"; "p.yo"; "-d"] /\
  ok_run ["-q"; "f.hcl"; "-c"; "p.yo"; "-t"] = ok_run ["-tcq"; "f.hcl"; "p.yo"].
Proof. split; reflexivity. Qed.
Example ex_spelling :
  ok_run (List.app ["f.hcl"] (String "-" (String "d" "") :: ["p.yo"])) = (0, FinalState 9999) /\
  ok_run (List.app ["f.hcl"] (("--" ++ long_name FDebug) :: ["p.yo"])) = (0, FinalState 9999) /\
  ok_run ["-c"; "f.hcl"] = ok_run ["--check"; "f.hcl"].
Proof. repeat split; reflexivity. Qed.
Example ex_group_sequence :
  ok_run (List.app [] (("-" ++ String "d" "" ++ String "q" "t") :: ["f.hcl"; "p.yo"])) = (0, FinalState 9999) /\
  ok_run (List.app [] (("-" ++ String "d" "") :: ("-" ++ String "q" "t") :: ["f.hcl"; "p.yo"])) = (0, FinalState 9999).
Proof. split; reflexivity. Qed.

(* (g) *)
Example ex_output_options :
  parse_argv ["-dq"; "f.hcl"; "p.yo"] = Some ([FDebug; FQuiet], ["f.hcl"; "p.yo"]) /\
  parse_argv ["f.hcl"; "p.yo"; "--trace-assignments"] = Some ([FTrace], ["f.hcl"; "p.yo"]) /\
  (forall f, ~ is_output_flag f -> (In f [FDebug; FQuiet] <-> In f [FTrace])) /\
  ok_run ["-dq"; "f.hcl"; "p.yo"] = ok_run ["f.hcl"; "p.yo"; "--trace-assignments"].
Proof.
  split; [reflexivity|]. split; [reflexivity|]. split; [|reflexivity].
  intros f Hf. unfold is_output_flag in Hf. cbn [In].
  split; intros Hi; exfalso; apply Hf.
  - destruct Hi as [<-|[<-|[]]]; tauto.
  - destruct Hi as [<-|[]]; tauto.
Qed.
Example ex_output_removal :
  spelled "-dqti" [FDebug; FQuiet; FTesting; FInteractive] /\
  well_formed (["-c"] ++ "-dqti" :: ["f.hcl"])%list /\
  ok_run (["-c"] ++ "-dqti" :: ["f.hcl"])%list = (0, SyntaxOK) /\ ok_run (["-c"] ++ ["f.hcl"])%list = (0, SyntaxOK).
Proof.
  split; [apply classify_flags; reflexivity|]. split; [eexists _, _; reflexivity|]. split; reflexivity.
Qed.
Example ex_output_flags_all_eight_runs :
  forall o, In o ["-d"; "--debug"; "-q"; "--quiet"; "-t"; "--testing"; "-i"; "--interactive";
                  "--ungroup-debug-wires"; "--trace-assignments"; "-dqti"] ->
    ok_run [o; "f.hcl"; "p.yo"; "3"] = ok_run ["f.hcl"; "p.yo"; "3"] /\
    main_argv [o; "f.hcl"; "p.yo"] HclAccepted YoLoadable SimAborts = main_argv ["f.hcl"; "p.yo"] HclAccepted YoLoadable SimAborts /\
    main_argv ["-c"; o; "f.hcl"] HclRejected YoLoadable SimAborts = main_argv ["-c"; "f.hcl"] HclRejected YoLoadable SimAborts.
Proof.
  intros o Hin. cbn [In] in Hin.
  repeat (destruct Hin as [<-|Hin]; [repeat split; reflexivity|]). contradiction.
Qed.

(* the world version *)
Example ex_world :
  let w := mkWorld (fun f => if String.eqb f "f.hcl" then HclAccepted else HclUnreadable)
                   (fun y => if String.eqb y "p.yo" then YoLoadable else YoMissing)
                   (fun _ _ t => if t <? 3 then SimCompletes else SimAborts) in
  main_in_world w ["-d"; "f.hcl"; "p.yo"; "2"] = (0, FinalState 2) /\
  main_in_world w ["f.hcl"; "p.yo"; "2"; "-d"] = (0, FinalState 2) /\
  main_in_world w ["f.hcl"; "p.yo"] = (1, Message "simulation") /\
  main_in_world w ["f.hcl"; "q.yo"] = (1, Message "open") /\
  main_in_world w ["--"; "-d"; "f.hcl"] = (1, Message "Error reading").
Proof. cbv zeta. repeat split; reflexivity. Qed.
