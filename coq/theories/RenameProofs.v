(* Proofs of the statements of RenameSpec.v (C12, renaming half). *)
From Coq Require Import ZifyBool ZifyNat ZifyN Permutation.
From HclV Require Import Base Expr ExprSpec ExprLemmas ExprProofs Machine MachineSpec MachineProofs Graph GraphSpec
                         GraphProofs Build BuildSpec Generated BuildProofs TableSpec TableProofs RenameSpec.
Open Scope list_scope.

(* ====================================================================================== *)
(* Part 1: expressions                                                                     *)
(* ====================================================================================== *)
(* unfolding equations (cbn does not refold the cross calls of mutual fixpoints) *)
Section RenUnfold.
  Variable r : string -> string.
  Lemma rename_mux a : rename_expr r (EMux a) = EMux (rename_arms r a).
  Proof. reflexivity. Qed.
  Lemma rename_in e items : rename_expr r (EIn e items) = EIn (rename_expr r e) (rename_exprs r items).
  Proof. reflexivity. Qed.
  Lemma rename_arms_cons c v rest :
    rename_arms r (ACons c v rest) = ACons (rename_expr r c) (rename_expr r v) (rename_arms r rest).
  Proof. reflexivity. Qed.
  Lemma rename_exprs_cons e rest : rename_exprs r (XCons e rest) = XCons (rename_expr r e) (rename_exprs r rest).
  Proof. reflexivity. Qed.
  Lemma rename_bin op l x : rename_expr r (EBin op l x) = EBin op (rename_expr r l) (rename_expr r x).
  Proof. reflexivity. Qed.
  Lemma rename_un op e : rename_expr r (EUn op e) = EUn op (rename_expr r e).
  Proof. reflexivity. Qed.
  Lemma rename_slice e lo hi : rename_expr r (ESlice e lo hi) = ESlice (rename_expr r e) lo hi.
  Proof. reflexivity. Qed.
  Lemma rename_cat l x : rename_expr r (ECat l x) = ECat (rename_expr r l) (rename_expr r x).
  Proof. reflexivity. Qed.
  Lemma rename_wire n : rename_expr r (EWire n) = EWire (r n).
  Proof. reflexivity. Qed.
End RenUnfold.
Lemma refs_mux a : refs (EMux a) = refs_arms a.
Proof. reflexivity. Qed.
Lemma refs_in e items : refs (EIn e items) = refs e ++ refs_items items.
Proof. reflexivity. Qed.
Lemma refs_arms_cons c v rest : refs_arms (ACons c v rest) = refs c ++ refs v ++ refs_arms rest.
Proof. reflexivity. Qed.
Lemma refs_items_cons e rest : refs_items (XCons e rest) = refs e ++ refs_items rest.
Proof. reflexivity. Qed.
Lemma refs_bin op l x : refs (EBin op l x) = refs l ++ refs x.
Proof. reflexivity. Qed.
Lemma refs_cat l x : refs (ECat l x) = refs l ++ refs x.
Proof. reflexivity. Qed.

Ltac ren_unfold :=
  rewrite ?rename_mux, ?rename_in, ?rename_arms_cons, ?rename_exprs_cons, ?rename_bin, ?rename_un,
          ?rename_slice, ?rename_cat, ?rename_wire.
Ltac refs_unfold_in H :=
  rewrite ?refs_mux, ?refs_in, ?refs_arms_cons, ?refs_items_cons, ?refs_bin, ?refs_cat in H.

Lemma refs_rename_all r :
  (forall e, refs (rename_expr r e) = map r (refs e)) /\
  (forall a, refs_arms (rename_arms r a) = map r (refs_arms a)) /\
  (forall items, refs_items (rename_exprs r items) = map r (refs_items items)).
Proof.
  apply expr_arms_exprs_ind; intros; ren_unfold;
    rewrite ?refs_mux, ?refs_in, ?refs_arms_cons, ?refs_items_cons, ?refs_bin, ?refs_cat, ?map_app;
    try congruence; try reflexivity; cbn [refs rename_expr]; assumption.
Qed.

Theorem refs_rename_holds : stmt_refs_rename.
Proof. intros r e. apply (proj1 (refs_rename_all r)). Qed.

Lemma rename_err_plain r q k names :
  match k with
  | DuplicateRegister | MismatchedRegisterDefaultWidths | InvalidRegisterBankName | PartialFixedInput => False
  | _ => True
  end -> rename_err r q (mkErr k names) = mkErr k (map r names).
Proof. destruct k; cbn; intros H; try contradiction; reflexivity. Qed.

Section ExprRename.
  Variable f : features.
  Variables r q : string -> string.

  Notation RR := (rename_expr_result r q).

  Lemma RR_err1_nil {A} k :
    match k with
    | DuplicateRegister | MismatchedRegisterDefaultWidths | InvalidRegisterBankName | PartialFixedInput => False
    | _ => True
    end -> RR (@err1 A k []) = err1 k [].
  Proof. intros H. unfold err1. cbn [rename_expr_result map]. rewrite rename_err_plain by exact H. reflexivity. Qed.

  (* ---- the evaluator ---------------------------------------------------------------------- *)
  Section Eval.
    Variables rho rho' : string -> option wval.

    Definition rel_on (l : list string) : Prop := forall k, In k l -> rho' (r k) = rho k.

    Lemma rel_app_l a b : rel_on (a ++ b) -> rel_on a.
    Proof. intros H k Hk. apply H. apply in_or_app. left. exact Hk. Qed.
    Lemma rel_app_r a b : rel_on (a ++ b) -> rel_on b.
    Proof. intros H k Hk. apply H. apply in_or_app. right. exact Hk. Qed.

    Lemma dynw_rename_all :
      (forall e, rel_on (refs e) -> dynw f rho' (rename_expr r e) = dynw f rho e) /\
      (forall a, rel_on (refs_arms a) -> forall acc, dynw_arms f rho' (rename_arms r a) acc = dynw_arms f rho a acc) /\
      (forall items : exprs, True).
    Proof.
      apply expr_arms_exprs_ind.
      - intros v _. reflexivity.
      - intros op l IHl x IHx H. refs_unfold_in H. ren_unfold. cbn [dynw].
        rewrite (IHl (rel_app_l _ _ H)), (IHx (rel_app_r _ _ H)). reflexivity.
      - intros op e IHe H. refs_unfold_in H. ren_unfold. cbn [dynw]. rewrite (IHe H). reflexivity.
      - intros a IHa H. refs_unfold_in H. ren_unfold. rewrite !dynw_mux. apply IHa. exact H.
      - intros n H. ren_unfold. cbn [dynw]. rewrite (H n (or_introl eq_refl)). reflexivity.
      - intros e IHe lo hi H. reflexivity.
      - intros l IHl x IHx H. refs_unfold_in H. ren_unfold. cbn [dynw].
        rewrite (IHl (rel_app_l _ _ H)), (IHx (rel_app_r _ _ H)). reflexivity.
      - intros e IHe items _ H. reflexivity.
      - intros _ acc. reflexivity.
      - intros c IHc v IHv rest IHr H acc. refs_unfold_in H. ren_unfold.
        rewrite !dynw_arms_cons.
        rewrite (IHv (rel_app_l _ _ (rel_app_r _ _ H))). apply IHr. apply (rel_app_r _ _ (rel_app_r _ _ H)).
      - exact I.
      - intros; exact I.
    Qed.

    Lemma apply_RR op lv rv : RR (apply f op lv rv) = apply f op lv rv.
    Proof.
      unfold apply.
      destruct (kind op); cbn [bind].
      - destruct (is_div op && (bits rv =? 0)%N); [apply RR_err1_nil; exact I | reflexivity].
      - destruct (is_div op && (bits rv =? 0)%N); [apply RR_err1_nil; exact I | reflexivity].
      - destruct (wcombine (wd lv) (wd rv)); cbn [bind].
        + destruct (is_div op && (bits rv =? 0)%N); [apply RR_err1_nil; exact I | reflexivity].
        + apply (RR_err1_nil (A := wval)). exact I.
      - destruct (f_swb f).
        + destruct (wcombine (wd lv) (wd rv)); cbn [bind].
          * destruct (is_div op && (bits rv =? 0)%N); [apply RR_err1_nil; exact I | reflexivity].
          * apply (RR_err1_nil (A := wval)). exact I.
        + cbn [bind]. destruct (is_div op && (bits rv =? 0)%N); [apply RR_err1_nil; exact I | reflexivity].
    Qed.

    Lemma eval_rename_all :
      (forall e, rel_on (refs e) -> eval f rho' (rename_expr r e) = RR (eval f rho e)) /\
      (forall a, rel_on (refs_arms a) -> eval_arms f rho' (rename_arms r a) = RR (eval_arms f rho a)) /\
      (forall items, rel_on (refs_items items) ->
         forall x, eval_items f rho' x (rename_exprs r items) = RR (eval_items f rho x items)).
    Proof.
      apply expr_arms_exprs_ind.
      - intros v _. reflexivity.
      - intros op l IHl x IHx H. refs_unfold_in H. ren_unfold. cbn [eval].
        rewrite (IHl (rel_app_l _ _ H)), (IHx (rel_app_r _ _ H)).
        destruct (eval f rho l) as [lv|es]; cbn [bind rename_expr_result]; [|reflexivity].
        destruct (eval f rho x) as [rv|es]; cbn [bind rename_expr_result]; [|reflexivity].
        symmetry. apply apply_RR.
      - intros op e IHe H. refs_unfold_in H. ren_unfold. cbn [eval]. rewrite (IHe H).
        destruct (eval f rho e) as [v|es]; reflexivity.
      - intros a IHa H. refs_unfold_in H. ren_unfold. rewrite !eval_mux. rewrite (IHa H).
        rewrite (proj1 (proj2 dynw_rename_all) a H).
        destruct (eval_arms f rho a) as [v|es]; reflexivity.
      - intros n H. ren_unfold. cbn [eval]. rewrite (H n (or_introl eq_refl)).
        destruct (rho n); [reflexivity|]. unfold err1. cbn [rename_expr_result map].
        rewrite rename_err_plain by exact I. reflexivity.
      - intros e IHe lo hi H. refs_unfold_in H. ren_unfold. cbn [eval]. rewrite (IHe H).
        destruct (eval f rho e) as [v|es]; reflexivity.
      - intros l IHl x IHx H. refs_unfold_in H. ren_unfold. cbn [eval].
        rewrite (IHl (rel_app_l _ _ H)), (IHx (rel_app_r _ _ H)).
        destruct (eval f rho l) as [lv|es]; cbn [bind rename_expr_result]; [|reflexivity].
        destruct (eval f rho x) as [rv|es]; cbn [bind rename_expr_result]; [|reflexivity].
        destruct (wd rv); [destruct (wd lv); [reflexivity|]|]; symmetry; apply (RR_err1_nil (A := wval)); exact I.
      - intros e IHe items IHi H. refs_unfold_in H. ren_unfold. rewrite !eval_in.
        rewrite (IHe (rel_app_l _ _ H)).
        destruct (eval f rho e) as [v|es]; cbn [bind rename_expr_result]; [|reflexivity].
        apply IHi. apply (rel_app_r _ _ H).
      - intros _. reflexivity.
      - intros c IHc v IHv rest IHr H. refs_unfold_in H. ren_unfold. rewrite !eval_arms_cons.
        rewrite (IHc (rel_app_l _ _ H)).
        destruct (eval f rho c) as [cv|es]; cbn [bind rename_expr_result]; [|reflexivity].
        destruct (is_true cv).
        + apply IHv. apply (rel_app_l _ _ (rel_app_r _ _ H)).
        + apply IHr. apply (rel_app_r _ _ (rel_app_r _ _ H)).
      - intros _ x. reflexivity.
      - intros e IHe rest IHr H x. refs_unfold_in H. ren_unfold. rewrite !eval_items_cons.
        rewrite (IHe (rel_app_l _ _ H)).
        destruct (eval f rho e) as [v|es]; cbn [bind rename_expr_result]; [|reflexivity].
        destruct (x =? bits v)%N; [reflexivity|]. apply IHr. apply (rel_app_r _ _ H).
    Qed.
  End Eval.

  Lemma eval_rename rho rho' e :
    (forall k, In k (refs e) -> rho' (r k) = rho k) ->
    eval f rho' (rename_expr r e) = RR (eval f rho e).
  Proof. intros H. apply (proj1 (eval_rename_all rho rho')). exact H. Qed.

  Lemma always_true_rename C C' e :
    (forall k, In k (refs e) -> C' (r k) = C k) ->
    always_true f C' (rename_expr r e) = always_true f C e.
  Proof.
    intros H. unfold always_true. rewrite (eval_rename C C' e H).
    destruct (eval f C e); reflexivity.
  Qed.
End ExprRename.

Section CheckRename.
  Variable f : features.
  Variables r q : string -> string.
  Variables (G G' : string -> option width) (C C' : string -> option wval).

  Notation RR := (rename_expr_result r q).
  Definition crel (l : list string) : Prop :=
    (forall k, In k l -> G' (r k) = G k) /\ (forall k, In k l -> C' (r k) = C k).

  Lemma crel_app_l a b : crel (a ++ b) -> crel a.
  Proof. intros [H1 H2]. split; intros k Hk; [apply H1 | apply H2]; apply in_or_app; left; exact Hk. Qed.
  Lemma crel_app_r a b : crel (a ++ b) -> crel b.
  Proof. intros [H1 H2]. split; intros k Hk; [apply H1 | apply H2]; apply in_or_app; right; exact Hk. Qed.

  Lemma RR_e1 {A} k :
    match k with
    | DuplicateRegister | MismatchedRegisterDefaultWidths | InvalidRegisterBankName | PartialFixedInput => False
    | _ => True
    end -> @err1 A k [] = RR (err1 k []).
  Proof. intros H. symmetry. apply RR_err1_nil. exact H. Qed.

  Lemma combine_RR a b : combine_exprs a b = RR (combine_exprs a b).
  Proof. unfold combine_exprs. destruct (wcombine a b); [reflexivity | apply RR_e1; exact I]. Qed.

  Ltac rr_solve :=
    repeat first
      [ reflexivity
      | apply RR_e1; exact I
      | apply combine_RR
      | match goal with
        | |- context [combine_exprs ?a ?b] => unfold combine_exprs; destruct (wcombine a b); cbn [bind rename_expr_result]
        end
      | match goal with
        | |- bind (RR ?x) _ = RR (bind ?x _) => destruct x; cbn [bind rename_expr_result]
        | |- bind ?x _ = RR (bind ?x _) => destruct x; cbn [bind rename_expr_result]
        | |- (if ?b then _ else _) = RR (if ?b then _ else _) => destruct b
        | |- match ?x with _ => _ end = RR (match ?x with _ => _ end) => destruct x
        end ].

  Lemma check_rename_all :
    (forall e, crel (refs e) -> check f G' C' (rename_expr r e) = RR (check f G C e)) /\
    (forall a, crel (refs_arms a) -> forall st,
        check_arms f G' C' (rename_arms r a) st = RR (check_arms f G C a st)) /\
    (forall items, crel (refs_items items) -> forall wl,
        check_items f G' C' wl (rename_exprs r items) = RR (check_items f G C wl items) /\
        forall more, check_items f G C wl items = Ok more -> map (rename_err r q) more = more).
  Proof.
    apply expr_arms_exprs_ind.
    - intros v _. reflexivity.
    - intros op l IHl x IHx H. refs_unfold_in H. ren_unfold. cbn [check].
      rewrite (IHl (crel_app_l _ _ H)), (IHx (crel_app_r _ _ H)).
      destruct (kind op); [destruct (f_sbo f)| | |destruct (f_swb f)]; rr_solve.
    - intros op e IHe H. ren_unfold. cbn [check]. rewrite (IHe H). destruct op; rr_solve.
    - intros a IHa H. refs_unfold_in H. ren_unfold. rewrite !check_mux_eq. rewrite (IHa H). rr_solve.
    - intros n [H _]. ren_unfold. cbn [check]. rewrite (H n (or_introl eq_refl)).
      destruct (G n); [reflexivity|]. unfold err1. cbn [rename_expr_result map].
      rewrite rename_err_plain by exact I. reflexivity.
    - intros e IHe lo hi H. ren_unfold. cbn [check]. rewrite (IHe H). rr_solve.
    - intros l IHl x IHx H. refs_unfold_in H. ren_unfold. cbn [check].
      rewrite (IHl (crel_app_l _ _ H)), (IHx (crel_app_r _ _ H)).
      destruct (check f G C l) as [[lw|]|es]; cbn [bind rename_expr_result]; rr_solve.
    - intros e IHe items IHi H. refs_unfold_in H. ren_unfold. rewrite !check_in_eq.
      rewrite (IHe (crel_app_l _ _ H)).
      destruct (check f G C e) as [wl|es]; cbn [bind rename_expr_result]; [|reflexivity].
      destruct (IHi (crel_app_r _ _ H) wl) as [I1 I2]. rewrite I1.
      destruct (check_items f G C wl items) as [more|es]; cbn [bind rename_expr_result]; [|reflexivity].
      destruct more as [|m more]; [reflexivity|]. cbn [rename_expr_result]. rewrite (I2 _ eq_refl). reflexivity.
    - intros _ st. reflexivity.
    - intros c IHc v IHv rest IHr H st. refs_unfold_in H. ren_unfold. rewrite !check_arms_cons_eq.
      rewrite (IHc (crel_app_l _ _ H)).
      destruct (check f G C c) as [wc|es]; cbn [bind rename_expr_result]; [|reflexivity].
      rewrite (IHv (crel_app_l _ _ (crel_app_r _ _ H))).
      destruct (check f G C v) as [wv|es]; cbn [bind rename_expr_result]; [|reflexivity].
      rewrite (always_true_rename f r q C C' c) by (apply (crel_app_l _ _ H)).
      apply IHr. apply (crel_app_r _ _ (crel_app_r _ _ H)).
    - intros _ wl. split; [reflexivity|]. intros more Hm. cbn [check_items] in Hm. injection Hm as <-. reflexivity.
    - intros e IHe rest IHr H wl. refs_unfold_in H. ren_unfold. rewrite !check_items_cons_eq.
      rewrite (IHe (crel_app_l _ _ H)).
      destruct (IHr (crel_app_r _ _ H) wl) as [I1 I2]. rewrite I1. split.
      + destruct (check f G C e) as [wi|es]; cbn [bind rename_expr_result]; [|reflexivity].
        destruct (check_items f G C wl rest) as [more|es]; cbn [bind rename_expr_result]; [|reflexivity].
        destruct (wcombine wl wi); reflexivity.
      + intros more Hm.
        destruct (check f G C e) as [wi|es]; cbn [bind] in Hm; [|discriminate Hm].
        destruct (check_items f G C wl rest) as [more0|es]; cbn [bind] in Hm; [|discriminate Hm].
        destruct (wcombine wl wi); injection Hm as <-; [apply I2; reflexivity|].
        cbn [map]. rewrite (I2 _ eq_refl). reflexivity.
  Qed.
End CheckRename.

Theorem check_rename_holds : stmt_check_rename.
Proof.
  intros f r q G G' C C' e H1 H2. apply (proj1 (check_rename_all f r q G G' C C')). split; assumption.
Qed.

Theorem eval_rename_holds : stmt_eval_rename.
Proof. intros f r q rho rho' e H. apply eval_rename. exact H. Qed.

(* ====================================================================================== *)
(* Part 2: the sorter only compares nodes                                                  *)
(* ====================================================================================== *)
Section SortRename.
  Variables A B : Type.
  Variable eqA : A -> A -> bool.
  Variable eqB : B -> B -> bool.
  Variable h : A -> B.
  Hypothesis Heq : forall a b, eqB (h a) (h b) = eqA a b.

  Notation mg := (map_graph h).

  Lemma assoc_map {V W} (gv : V -> W) (l : list (A * V)) n :
    assoc B eqB (map (fun kv => (h (fst kv), gv (snd kv))) l) (h n) = option_map gv (assoc A eqA l n).
  Proof.
    induction l as [|[k v] l IH]; cbn [map assoc fst snd]; [reflexivity|].
    rewrite Heq. destruct (eqA n k); [reflexivity | exact IH].
  Qed.

  Lemma memb_map n l : memb B eqB (h n) (map h l) = memb A eqA n l.
  Proof.
    unfold memb. induction l as [|x l IH]; cbn [map existsb]; [reflexivity|]. rewrite Heq, IH. reflexivity.
  Qed.

  Lemma succs_map g n : succs B eqB (mg g) (h n) = map h (succs A eqA g n).
  Proof.
    unfold succs, map_graph. cbn [g_succ]. rewrite (assoc_map (map h)).
    destruct (assoc A eqA (g_succ g) n); reflexivity.
  Qed.

  Lemma preds_map g n : preds B eqB (mg g) (h n) = map h (preds A eqA g n).
  Proof.
    unfold preds, map_graph. cbn [g_succ].
    induction (g_succ g) as [|[k v] l IH]; cbn [map filter fst snd]; [reflexivity|].
    rewrite memb_map. destruct (memb A eqA n v); cbn [map fst]; rewrite IH; reflexivity.
  Qed.

  Lemma has_pred_map g n : has_pred B eqB (mg g) (h n) = has_pred A eqA g n.
  Proof.
    unfold has_pred, map_graph. cbn [g_succ].
    induction (g_succ g) as [|[k v] l IH]; cbn [map existsb fst snd]; [reflexivity|].
    rewrite memb_map, IH. reflexivity.
  Qed.

  Lemma init_queue_map g : init_queue B eqB (mg g) = map h (init_queue A eqA g).
  Proof.
    unfold init_queue. change (g_nodes (mg g)) with (map h (g_nodes g)).
    induction (g_nodes g) as [|n l IH]; cbn [map filter]; [reflexivity|].
    rewrite has_pred_map. destruct (has_pred A eqA g n); cbn [negb map]; rewrite IH; reflexivity.
  Qed.

  Definition mapc (l : list (A * N)) : list (B * N) := map (fun kv => (h (fst kv), snd kv)) l.

  Lemma init_counts_map g : init_counts B eqB (mg g) = mapc (init_counts A eqA g).
  Proof.
    unfold init_counts, mapc. change (g_nodes (mg g)) with (map h (g_nodes g)).
    rewrite !map_map. apply map_ext. intros n. cbn [fst snd]. rewrite preds_map, map_length. reflexivity.
  Qed.

  Lemma set_count_map l n c : set_count B eqB (mapc l) (h n) c = mapc (set_count A eqA l n c).
  Proof.
    unfold mapc. induction l as [|[k v] l IH]; cbn [map set_count fst snd]; [reflexivity|].
    rewrite Heq. destruct (eqA n k); cbn [map fst snd]; [reflexivity | rewrite IH; reflexivity].
  Qed.

  Definition mapv (l : list (A * A)) : list (B * B) := map (fun p => (h (fst p), h (snd p))) l.

  Lemma visited_map cur out visited :
    existsb (pair_eqb B eqB (h cur, h out)) (mapv visited) = existsb (pair_eqb A eqA (cur, out)) visited.
  Proof.
    unfold mapv. induction visited as [|[a b] l IH]; cbn [map existsb]; [reflexivity|].
    unfold pair_eqb at 1 3. cbn [fst snd]. rewrite !Heq, IH. reflexivity.
  Qed.

  Definition map_vo (x : result (list (A * N) * list (A * A) * list A))
    : result (list (B * N) * list (B * B) * list B) :=
    match x with
    | Ok (c, v, qu) => Ok (mapc c, mapv v, map h qu)
    | Err es => Err es
    end.

  Lemma visit_outs_map cur : forall outs counts visited queue,
    visit_outs B eqB (h cur) (map h outs) (mapc counts) (mapv visited) (map h queue) =
    map_vo (visit_outs A eqA cur outs counts visited queue).
  Proof.
    induction outs as [|out outs IH]; intros counts visited queue; cbn [map visit_outs]; [reflexivity|].
    rewrite visited_map. destruct (existsb (pair_eqb A eqA (cur, out)) visited); [apply IH|].
    assert (Ha : assoc B eqB (mapc counts) (h out) = assoc A eqA counts out).
    { unfold mapc. rewrite (assoc_map (fun c : N => c)). destruct (assoc A eqA counts out); reflexivity. }
    rewrite Ha.
    destruct (assoc A eqA counts out) as [c|].
    - destruct (c =? 0)%N; [reflexivity|].
      rewrite set_count_map.
      change ((h cur, h out) :: mapv visited) with (mapv ((cur, out) :: visited)).
      destruct (c - 1 =? 0)%N.
      + replace (map h queue ++ [h out]) with (map h (queue ++ [out])) by (rewrite map_app; reflexivity).
        apply IH.
      + apply IH.
    - reflexivity.
  Qed.

  Definition map_ko (x : result (list A * list (A * A))) : result (list B * list (B * B)) :=
    match x with
    | Ok (o, v) => Ok (map h o, mapv v)
    | Err es => Err es
    end.

  Lemma kahn_loop_map g : forall fuel queue counts visited acc,
    kahn_loop B eqB fuel (mg g) (map h queue) (mapc counts) (mapv visited) (map h acc) =
    map_ko (kahn_loop A eqA fuel g queue counts visited acc).
  Proof.
    induction fuel as [|fu IH]; intros queue counts visited acc.
    - destruct queue as [|cur rest]; cbn [map kahn_loop map_ko]; [rewrite map_rev; reflexivity | reflexivity].
    - destruct queue as [|cur rest]; cbn [map kahn_loop map_ko]; [rewrite map_rev; reflexivity|].
      rewrite succs_map, visit_outs_map.
      destruct (visit_outs A eqA cur (succs A eqA g cur) counts visited rest) as [[[c1 v1] q1]|es];
        cbn [map_vo bind]; [|reflexivity].
      change (h cur :: map h acc) with (map h (cur :: acc)). apply IH.
  Qed.

  Definition mapp (ps : parents_t A) : parents_t B := map (fun kv => (h (fst kv), option_map h (snd kv))) ps.

  Lemma set_parent_map ps n p : set_parent B eqB (mapp ps) (h n) (option_map h p) = mapp (set_parent A eqA ps n p).
  Proof.
    unfold mapp. induction ps as [|[k v] l IH]; cbn [map set_parent fst snd]; [reflexivity|].
    rewrite Heq. destruct (eqA n k); cbn [map fst snd]; [reflexivity | rewrite IH; reflexivity].
  Qed.

  Lemma back_path_map ps cur : forall fuel path last,
    back_path B eqB fuel (mapp ps) (h cur) (map h path) (h last) =
    option_map (map h) (back_path A eqA fuel ps cur path last).
  Proof.
    induction fuel as [|fu IH]; intros path last; cbn [back_path]; rewrite Heq.
    - destruct (eqA last cur); reflexivity.
    - destruct (eqA last cur); [reflexivity|].
      assert (Ha : assoc B eqB (mapp ps) (h last) = option_map (option_map h) (assoc A eqA ps last))
        by (unfold mapp; apply (assoc_map (option_map h))).
      rewrite Ha.
      destruct (assoc A eqA ps last) as [[gp|]|]; cbn [option_map]; try reflexivity.
      change (h gp :: map h path) with (map h (gp :: path)). apply IH.
  Qed.

  Definition maps (st : list (option A * A)) : list (option B * B) :=
    map (fun x => (option_map h (fst x), h (snd x))) st.

  Definition map_fc (x : result (list A)) : result (list B) :=
    match x with Ok l => Ok (map h l) | Err es => Err es end.

  Lemma push_succs_map cur : forall outs rest,
    fold_left (fun st out => (Some (h cur), out) :: st) (map h outs) (maps rest) =
    maps (fold_left (fun st out => (Some cur, out) :: st) outs rest).
  Proof.
    induction outs as [|o outs IH]; intros rest; cbn [map fold_left]; [reflexivity|].
    change ((Some (h cur), h o) :: maps rest) with (maps ((Some cur, o) :: rest)). apply IH.
  Qed.

  Lemma find_cycle_loop_map g : forall fuel stack ps,
    find_cycle_loop B eqB fuel (mg g) (maps stack) (mapp ps) = map_fc (find_cycle_loop A eqA fuel g stack ps).
  Proof.
    induction fuel as [|fu IH]; intros stack ps; cbn [find_cycle_loop]; [reflexivity|].
    destruct stack as [|[mp cur] rest]; cbn [maps map fst snd]; [reflexivity|]. fold (maps rest).
    assert (Ha : assoc B eqB (mapp ps) (h cur) = option_map (option_map h) (assoc A eqA ps cur))
      by (unfold mapp; apply (assoc_map (option_map h))).
    rewrite Ha.
    rewrite succs_map.
    assert (Hst : (if match option_map (option_map h) (assoc A eqA ps cur) with Some _ => true | None => false end
                   then maps rest
                   else fold_left (fun st out => (Some (h cur), out) :: st) (map h (succs A eqA g cur)) (maps rest)) =
                  maps (if match assoc A eqA ps cur with Some _ => true | None => false end
                        then rest
                        else fold_left (fun st out => (Some cur, out) :: st) (succs A eqA g cur) rest)).
    { destruct (assoc A eqA ps cur); cbn [option_map]; [reflexivity | apply push_succs_map]. }
    rewrite Hst.
    assert (Hk : match option_map (option_map h) (assoc A eqA ps cur) with Some _ => true | None => false end =
                 match assoc A eqA ps cur with Some _ => true | None => false end)
      by (destruct (assoc A eqA ps cur); reflexivity).
    rewrite Hk.
    destruct mp as [parent|]; cbn [option_map].
    - destruct (match assoc A eqA ps cur with Some _ => true | None => false end).
      + change (g_nodes (mg g)) with (map h (g_nodes g)). rewrite map_length.
        change [h parent] with (map h [parent]). rewrite back_path_map.
        destruct (back_path A eqA (S (List.length (g_nodes g))) ps cur [parent] parent); cbn [option_map];
          [reflexivity | apply IH].
      + change (Some (h parent)) with (option_map h (Some parent)). rewrite set_parent_map. apply IH.
    - change (@None B) with (option_map h (@None A)). rewrite set_parent_map. apply IH.
  Qed.

  Lemma edge_total_map g : edge_total B (mg g) = edge_total A g.
  Proof.
    unfold edge_total, map_graph. cbn [g_succ].
    induction (g_succ g) as [|[k v] l IH]; cbn [map fold_right fst snd]; [reflexivity|].
    rewrite map_length, IH. reflexivity.
  Qed.

  Lemma find_cycle_map g : find_cycle B eqB (mg g) = map_fc (find_cycle A eqA g).
  Proof.
    unfold find_cycle. rewrite edge_total_map. change (g_nodes (mg g)) with (map h (g_nodes g)).
    rewrite map_length, map_map.
    change (@nil (B * option B)) with (mapp []).
    replace (map (fun x => (None, h x)) (g_nodes g)) with (maps (map (fun n => (None, n)) (g_nodes g)))
      by (unfold maps; rewrite map_map; reflexivity).
    apply find_cycle_loop_map.
  Qed.

  Theorem toposort_map g : toposort B eqB (mg g) = map_sort_result h (toposort A eqA g).
  Proof.
    unfold toposort. change (g_nodes (mg g)) with (map h (g_nodes g)). rewrite map_length.
    rewrite init_queue_map, init_counts_map.
    change (@nil (B * B)) with (mapv []). change (@nil B) with (map h []).
    rewrite kahn_loop_map.
    destruct (kahn_loop A eqA (S (List.length (g_nodes g))) g (init_queue A eqA g) (init_counts A eqA g) [] [])
      as [[order visited]|es]; cbn [map_ko bind map_sort_result]; [|reflexivity].
    unfold mapv. rewrite map_length. change (g_num_edges (mg g)) with (g_num_edges g).
    destruct (N.of_nat (List.length visited) =? g_num_edges g)%N; [reflexivity|].
    rewrite find_cycle_map. destruct (find_cycle A eqA g); reflexivity.
  Qed.
End SortRename.

Theorem toposort_rename_holds : stmt_toposort_rename.
Proof. intros A B eqA eqB h Heq g. apply toposort_map. exact Heq. Qed.

(* the failures of the sorter carry no names *)
Section SortErrShape.
  Variable node : Type.
  Variable eqb : node -> node -> bool.
  Definition bare (es : list err) : Prop := es = [mkErr Panicked []] \/ es = [mkErr OutOfFuel []].

  Lemma visit_outs_bare cur : forall outs counts visited queue es,
    visit_outs node eqb cur outs counts visited queue = Err es -> bare es.
  Proof.
    induction outs as [|out rest IH]; intros counts visited queue es H; cbn [visit_outs] in H; [discriminate H|].
    destruct (existsb (pair_eqb node eqb (cur, out)) visited); [apply IH in H; exact H|].
    destruct ((match assoc node eqb counts out with Some c => c | None => 0 end) =? 0)%N.
    - unfold err1 in H. injection H as <-. left. reflexivity.
    - apply IH in H. exact H.
  Qed.

  Lemma kahn_loop_bare g : forall fuel queue counts visited acc es,
    kahn_loop node eqb fuel g queue counts visited acc = Err es -> bare es.
  Proof.
    induction fuel as [|fu IH]; intros queue counts visited acc es H.
    - destruct queue as [|cur rest]; cbn [kahn_loop] in H; [discriminate H|].
      unfold err1 in H. injection H as <-. right. reflexivity.
    - destruct queue as [|cur rest]; cbn [kahn_loop] in H; [discriminate H|].
      destruct (visit_outs node eqb cur (succs node eqb g cur) counts visited rest) as [[[c1 v1] q1]|es1] eqn:E;
        cbn [bind] in H.
      + apply IH in H. exact H.
      + injection H as <-. apply visit_outs_bare in E. exact E.
  Qed.

  Lemma find_cycle_loop_bare g : forall fuel stack ps es,
    find_cycle_loop node eqb fuel g stack ps = Err es -> bare es.
  Proof.
    induction fuel as [|fu IH]; intros stack ps es H; cbn [find_cycle_loop] in H.
    - unfold err1 in H. injection H as <-. right. reflexivity.
    - destruct stack as [|[mp cur] rest].
      + unfold err1 in H. injection H as <-. left. reflexivity.
      + destruct mp as [parent|].
        * destruct (match assoc node eqb ps cur with Some _ => true | None => false end).
          -- destruct (back_path node eqb (S (List.length (g_nodes g))) ps cur [parent] parent);
               [discriminate H | apply IH in H; exact H].
          -- apply IH in H. exact H.
        * apply IH in H. exact H.
  Qed.

  Lemma toposort_bare g es : toposort node eqb g = Err es -> bare es.
  Proof.
    unfold toposort. intros H.
    destruct (kahn_loop node eqb (S (List.length (g_nodes g))) g (init_queue node eqb g)
                        (init_counts node eqb g) [] []) as [[order visited]|es1] eqn:E; cbn [bind] in H.
    - destruct (N.of_nat (List.length visited) =? g_num_edges g)%N; [discriminate H|].
      unfold find_cycle in H.
      destruct (find_cycle_loop node eqb (S (List.length (g_nodes g) + edge_total node g)) g
                                (map (fun n => (None, n)) (g_nodes g)) []) as [c|es2] eqn:E2; cbn [bind] in H.
      + discriminate H.
      + injection H as <-. apply find_cycle_loop_bare in E2. exact E2.
    - injection H as <-. apply kahn_loop_bare in E. exact E.
  Qed.
End SortErrShape.

Lemma bare_rename r q es : bare es -> map (rename_err r q) es = es.
Proof. intros [-> | ->]; reflexivity. Qed.

(* ====================================================================================== *)
(* Part 3: Program::new commutes with a renaming that is injective on ALL names            *)
(* ====================================================================================== *)
(* the general case (injective on the relevant names only) is reduced to this one in Part 5 *)
Section GlobalRename.
  Variables r q : string -> string.
  Hypothesis r_inj : forall a b, r a = r b -> a = b.

  Notation RE := (rename_expr r).
  Notation rerr := (rename_err r q).

  (* ---- names and association lists ------------------------------------------------------------ *)
  Lemma eqb_r a b : String.eqb (r a) (r b) = String.eqb a b.
  Proof.
    destruct (String.eqb a b) eqn:E.
    - apply String.eqb_eq in E. subst b. apply String.eqb_refl.
    - apply String.eqb_neq. intros H. apply r_inj in H. apply String.eqb_neq in E. contradiction.
  Qed.

  Lemma mem_str_r x l : mem_str (r x) (map r l) = mem_str x l.
  Proof. induction l as [|y l IH]; cbn [map mem_str]; [reflexivity|]. rewrite eqb_r, IH. reflexivity. Qed.

  Lemma add_set_r x l : add_set (r x) (map r l) = map r (add_set x l).
  Proof.
    unfold add_set. rewrite mem_str_r. destruct (mem_str x l); [reflexivity|]. rewrite map_app. reflexivity.
  Qed.

  Lemma nodup_str_r l : nodup_str (map r l) = map r (nodup_str l).
  Proof.
    induction l as [|x l IH]; cbn [map nodup_str]; [reflexivity|].
    rewrite mem_str_r, IH. destruct (mem_str x l); reflexivity.
  Qed.

  Lemma count_str_r x l : count_str (r x) (map r l) = count_str x l.
  Proof. induction l as [|y l IH]; cbn [map count_str]; [reflexivity|]. rewrite eqb_r, IH. reflexivity. Qed.

  Definition mk {V W} (g : V -> W) (m : list (string * V)) : list (string * W) :=
    map (fun kv => (r (fst kv), g (snd kv))) m.

  Lemma rename_keys_mk {V} (m : list (string * V)) : rename_keys r m = mk (fun v => v) m.
  Proof. reflexivity. Qed.

  Lemma lookup_mk {V W} (g : V -> W) m k : lookup (mk g m) (r k) = option_map g (lookup m k).
  Proof.
    induction m as [|[k0 v0] m IH]; cbn [mk map lookup fst snd]; [reflexivity|].
    rewrite eqb_r. destruct (String.eqb k k0); [reflexivity | exact IH].
  Qed.

  Lemma has_mk {V W} (g : V -> W) m k : has (mk g m) (r k) = has m k.
  Proof. unfold has. rewrite lookup_mk. destruct (lookup m k); reflexivity. Qed.

  Lemma upd_mk {V W} (g : V -> W) m k v : upd (mk g m) (r k) (g v) = mk g (upd m k v).
  Proof.
    induction m as [|[k0 v0] m IH]; cbn [mk map upd fst snd]; [reflexivity|].
    rewrite eqb_r. destruct (String.eqb k k0); cbn [map fst snd]; [reflexivity|].
    f_equal. exact IH.
  Qed.

  Lemma map_fst_mk {V W} (g : V -> W) m : map fst (mk g m) = map r (map fst m).
  Proof. unfold mk. rewrite !map_map. reflexivity. Qed.

  Lemma mk_app {V W} (g : V -> W) a b : mk g (a ++ b) = mk g a ++ mk g b.
  Proof. unfold mk. apply map_app. Qed.

  Lemma mk_fixed {V} (m : list (string * V)) : (forall k, In k (map fst m) -> r k = k) -> mk (fun v => v) m = m.
  Proof.
    induction m as [|[k v] m IH]; intros H; cbn [mk map fst snd]; [reflexivity|].
    rewrite (H k (or_introl eq_refl)). f_equal. apply IH. intros k0 Hk0. apply H. right. exact Hk0.
  Qed.

  Lemma map_fixed (l : list string) : (forall k, In k l -> r k = k) -> map r l = l.
  Proof.
    induction l as [|k l IH]; intros H; cbn [map]; [reflexivity|].
    rewrite (H k (or_introl eq_refl)). f_equal. apply IH. intros k0 Hk0. apply H. right. exact Hk0.
  Qed.

  Lemma refs_RE e : refs (RE e) = map r (refs e).
  Proof. apply refs_rename_holds. Qed.

  (* folds *)
  Lemma fold_left_ren {S S' X X'} (ren : S -> S') (renx : X -> X') (step : S -> X -> S) (step' : S' -> X' -> S')
        (l : list X) :
    (forall s x, In x l -> step' (ren s) (renx x) = ren (step s x)) ->
    forall s, fold_left step' (map renx l) (ren s) = ren (fold_left step l s).
  Proof.
    induction l as [|x l IH]; intros H s; cbn [map fold_left]; [reflexivity|].
    rewrite (H s x (or_introl eq_refl)). apply IH. intros s0 x0 Hx0. apply H. right. exact Hx0.
  Qed.

  Lemma flat_map_ren {X X' Y Y'} (renx : X -> X') (reny : Y -> Y') (g : X -> list Y) (g' : X' -> list Y')
        (l : list X) :
    (forall x, In x l -> g' (renx x) = map reny (g x)) ->
    flat_map g' (map renx l) = map reny (flat_map g l).
  Proof.
    induction l as [|x l IH]; intros H; cbn [map flat_map]; [reflexivity|].
    rewrite map_app, (H x (or_introl eq_refl)), IH; [reflexivity|].
    intros x0 Hx0. apply H. right. exact Hx0.
  Qed.

  Lemma errs_for_r k n c :
    match k with
    | DuplicateRegister | MismatchedRegisterDefaultWidths | InvalidRegisterBankName | PartialFixedInput => False
    | _ => True
    end -> errs_for k (r n) c = map rerr (errs_for k n c).
  Proof.
    intros H. unfold errs_for. induction c as [|c IH]; cbn [repeat map]; [reflexivity|].
    rewrite IH. rewrite (rename_err_plain r q k [n] H). reflexivity.
  Qed.

  Lemma rerr_one k n :
    match k with
    | DuplicateRegister | MismatchedRegisterDefaultWidths | InvalidRegisterBankName | PartialFixedInput => False
    | _ => True
    end -> [mkErr k [r n]] = map rerr [mkErr k [n]].
  Proof. intros H. cbn [map]. rewrite (rename_err_plain r q k [n] H). reflexivity. Qed.

  (* ---- the component table ---------------------------------------------------------------------- *)
  Variable f : features.
  Variable fixed : list fixed_fn.
  Variables is_lower is_upper : string -> bool.
  Hypothesis Hfix : forall n, In n (fixed_names fixed) -> r n = n.
  Hypothesis Hact : forall ff, In ff fixed -> rename_action r (ff_action ff) = ff_action ff.
  Hypothesis Hen : forall ff en, In ff fixed -> ff_enable ff = Some en -> r en = en.

  Lemma fixed_names_r : map r (fixed_names fixed) = fixed_names fixed.
  Proof. apply map_fixed. exact Hfix. Qed.

  Lemma fixed_out_fix n : In n (fixed_out_names fixed) -> r n = n.
  Proof. intros H. apply Hfix. apply fixed_out_in_names. exact H. Qed.

  Lemma fixed_out_names_r : map r (fixed_out_names fixed) = fixed_out_names fixed.
  Proof. apply map_fixed. exact fixed_out_fix. Qed.

  (* ---- step 1 ------------------------------------------------------------------------------------ *)
  Definition ren_regs (regs : list (string * width * expr)) : list (string * width * expr) :=
    map (fun x => (q (fst (fst x)), snd (fst x), RE (snd x))) regs.
  Definition ren_bankdecl (b : string * list (string * width * expr)) := (fst b, ren_regs (snd b)).

  Definition ren_st1 (s : st1) : st1 :=
    mkSt1 (mk (fun w => w) (s_wires s)) (map r (s_decls s)) (mk RE (s_assigns s)) (map r (s_assigned s))
          (map r (s_needed s)) (mk RE (s_consts s)) (map ren_bankdecl (s_banks s))
          (mk (fun t => t) (s_types s)) (map rerr (s_errs s)).

  Lemma cdd_ren s n :
    check_double_declare fixed (ren_st1 s) (r n) = map rerr (check_double_declare fixed s n).
  Proof.
    unfold check_double_declare. cbn [ren_st1 s_decls]. rewrite mem_str_r.
    destruct (mem_str n (s_decls s)); [apply rerr_one; exact I|].
    rewrite <- fixed_names_r at 1. rewrite mem_str_r.
    destruct (mem_str n (fixed_names fixed)); [apply rerr_one; exact I | reflexivity].
  Qed.

  Lemma step1_const_ren s d :
    step1_const fixed (ren_st1 s) (r (fst d), RE (snd d)) = ren_st1 (step1_const fixed s d).
  Proof.
    destruct d as [n e]. unfold step1_const. cbn [fst snd]. unfold ren_st1 at 2. cbn [s_wires s_decls s_assigns s_assigned s_needed s_consts s_banks s_types s_errs].
    rewrite cdd_ren. unfold ren_st1. cbn [s_wires s_decls s_assigns s_assigned s_needed s_consts s_banks s_types s_errs].
    rewrite add_set_r, (upd_mk RE), (upd_mk (fun t : wtype => t)), map_app. reflexivity.
  Qed.

  Lemma step1_wire_ren s d :
    step1_wire fixed (ren_st1 s) (r (fst d), snd d) = ren_st1 (step1_wire fixed s d).
  Proof.
    destruct d as [n w]. unfold step1_wire. cbn [fst snd]. unfold ren_st1 at 2. cbn [s_wires s_decls s_assigns s_assigned s_needed s_consts s_banks s_types s_errs].
    rewrite cdd_ren. unfold ren_st1. cbn [s_wires s_decls s_assigns s_assigned s_needed s_consts s_banks s_types s_errs].
    rewrite !add_set_r, (upd_mk (fun w : width => w)), (upd_mk (fun t : wtype => t)), map_app. reflexivity.
  Qed.

  Lemma step1_assign_name_ren e s n :
    step1_assign_name fixed (RE e) (ren_st1 s) (r n) = ren_st1 (step1_assign_name fixed e s n).
  Proof.
    unfold step1_assign_name. unfold ren_st1 at 2. cbn [s_wires s_decls s_assigns s_assigned s_needed s_consts s_banks s_types s_errs].
    unfold ren_st1. cbn [s_wires s_decls s_assigns s_assigned s_needed s_consts s_banks s_types s_errs].
    rewrite add_set_r, (upd_mk RE), map_app, mem_str_r.
    rewrite <- fixed_out_names_r at 1. rewrite mem_str_r.
    f_equal. f_equal.
    destruct (mem_str n (s_assigned s)); [apply rerr_one; exact I|].
    destruct (mem_str n (fixed_out_names fixed)); [apply rerr_one; exact I | reflexivity].
  Qed.

  Lemma step1_ren s x : step1 fixed (ren_st1 s) (rename_stmt r q x) = ren_st1 (step1 fixed s x).
  Proof.
    destruct x as [decls|decls|assigns|name regs]; cbn [rename_stmt step1].
    - apply (fold_left_ren ren_st1 (fun ne : string * expr => (r (fst ne), RE (snd ne)))).
      intros s0 d _. apply step1_const_ren.
    - apply (fold_left_ren ren_st1 (fun nw : string * width => (r (fst nw), snd nw))).
      intros s0 d _. apply step1_wire_ren.
    - apply (fold_left_ren ren_st1 (fun ne : list string * expr => (map r (fst ne), RE (snd ne)))).
      intros s0 a _. cbn [fst snd]. apply (fold_left_ren ren_st1 r). intros s1 n _. apply step1_assign_name_ren.
    - unfold ren_st1. cbn [s_wires s_decls s_assigns s_assigned s_needed s_consts s_banks s_types s_errs].
      rewrite map_app. reflexivity.
  Qed.

  Lemma fixed_wires_keys : map fst (fixed_wires fixed) = fixed_names fixed.
  Proof. reflexivity. Qed.

  Lemma init1_ren : ren_st1 (init1 fixed) = init1 fixed.
  Proof.
    unfold ren_st1, init1. cbn [s_wires s_decls s_assigns s_assigned s_needed s_consts s_banks s_types s_errs map mk].
    f_equal.
    - apply mk_fixed. intros k Hk.
      apply (fold_upd_keys_In (fixed_wires fixed) [] k) in Hk. destruct Hk as [[]|Hk]. apply Hfix. exact Hk.
    - apply mk_fixed. intros k Hk.
      apply (fold_upd_keys_In (fixed_types fixed) [] k) in Hk. destruct Hk as [[]|Hk]. apply Hfix.
      unfold fixed_names, fixed_wires. unfold fixed_types in Hk.
      apply in_map_iff in Hk. destruct Hk as [[k0 t0] [Hk0 Hk]]. cbn [fst] in Hk0. subst k0.
      apply in_flat_map in Hk. destruct Hk as [ff [Hff Hk]]. apply in_app_iff in Hk.
      apply in_map_iff. destruct Hk as [Hk|Hk].
      + apply in_map_iff in Hk. destruct Hk as [[n w] [Hnw Hin]]. cbn [fst] in Hnw. injection Hnw as <- <-.
        exists (n, Bits w). split; [reflexivity|]. apply in_flat_map. exists ff. split; [exact Hff|].
        apply in_or_app. left. apply in_map_iff. exists (n, w). split; [reflexivity | exact Hin].
      + destruct (ff_out ff) as [[o w]|] eqn:Eo; [|destruct Hk]. destruct Hk as [Hk|[]]. injection Hk as <- <-.
        exists (o, Bits w). split; [reflexivity|]. apply in_flat_map. exists ff. split; [exact Hff|].
        apply in_or_app. right. rewrite Eo. left. reflexivity.
  Qed.

  Lemma S1_ren stmts :
    fold_left (step1 fixed) (map (rename_stmt r q) stmts) (init1 fixed) =
    ren_st1 (fold_left (step1 fixed) stmts (init1 fixed)).
  Proof.
    rewrite <- init1_ren at 1. apply (fold_left_ren ren_st1 (rename_stmt r q)). intros s x _. apply step1_ren.
  Qed.

  Lemma const_assigned_errors_ren s :
    const_assigned_errors (ren_st1 s) = map rerr (const_assigned_errors s).
  Proof.
    unfold const_assigned_errors. cbn [ren_st1 s_assigned s_consts].
    apply (flat_map_ren r rerr). intros n _. rewrite has_mk.
    destruct (has (s_consts s) n); [apply rerr_one; exact I | reflexivity].
  Qed.

  Lemma const_ref_errors_ren s : const_ref_errors (ren_st1 s) = map rerr (const_ref_errors s).
  Proof.
    unfold const_ref_errors. cbn [ren_st1 s_wires s_consts].
    refine (flat_map_ren (fun kv : string * expr => (r (fst kv), RE (snd kv))) rerr _ _ (s_consts s) _).
    intros [n e] _. cbn [fst snd]. rewrite refs_RE, nodup_str_r.
    apply (flat_map_ren r rerr). intros x _.
    rewrite !has_mk, count_str_r.
    destruct (has (s_wires s) x && negb (has (s_consts s) x)); [apply errs_for_r; exact I|].
    destruct (negb (has (s_consts s) x)); [apply errs_for_r; exact I | reflexivity].
  Qed.

  (* ---- graphs ----------------------------------------------------------------------------------- *)
  Notation mg := (map_graph r).

  Lemma lookup_succ_mg (g : graph string) a :
    lookup (g_succ (mg g)) (r a) = option_map (map r) (lookup (g_succ g) a).
  Proof. unfold map_graph. cbn [g_succ]. apply (lookup_mk (map r)). Qed.

  Lemma graph_insert_ren g a b : graph_insert (mg g) (r a) (r b) = mg (graph_insert g a b).
  Proof.
    unfold graph_insert. rewrite lookup_succ_mg.
    change (g_nodes (mg g)) with (map r (g_nodes g)). change (g_num_edges (mg g)) with (g_num_edges g).
    change (g_succ (mg g)) with (mk (map r) (g_succ g)).
    rewrite !add_set_r.
    destruct (lookup (g_succ g) a) as [l|]; cbn [option_map]; unfold map_graph; cbn [g_nodes g_succ g_num_edges].
    - rewrite add_set_r, (upd_mk (map r)). reflexivity.
    - fold (mk (map r) (g_succ g)). fold (mk (map r) (g_succ g ++ [(a, [b])])). rewrite mk_app. reflexivity.
  Qed.

  Lemma graph_add_node_ren g a : graph_add_node (mg g) (r a) = mg (graph_add_node g a).
  Proof.
    unfold graph_add_node, map_graph. cbn [g_nodes g_succ g_num_edges]. rewrite add_set_r. reflexivity.
  Qed.

  Lemma empty_graph_ren : mg empty_graph = empty_graph.
  Proof. reflexivity. Qed.

  Lemma const_graph_ren cs : const_graph (mk RE cs) = mg (const_graph cs).
  Proof.
    unfold const_graph. rewrite <- empty_graph_ren at 1. unfold mk.
    apply (fold_left_ren mg (fun kv : string * expr => (r (fst kv), RE (snd kv)))).
    intros g [n e] _. cbn [fst snd]. rewrite refs_RE, nodup_str_r.
    rewrite (fold_left_ren mg r (fun g1 x => graph_insert g1 x n) (fun g1 x => graph_insert g1 x (r n))).
    - apply graph_add_node_ren.
    - intros g1 x _. apply graph_insert_ren.
  Qed.

  Lemma toposort_ren g :
    toposort string String.eqb (mg g) = map_sort_result r (toposort string String.eqb g).
  Proof. apply toposort_map. exact eqb_r. Qed.

  (* ---- constants ---------------------------------------------------------------------------------- *)
  Notation idv := (fun v : wval => v).

  Lemma cenv_ren (vals : list (string * wval)) k :
    match lookup (mk idv vals) (r k) with Some v => Some (wd v) | None => None end =
    match lookup vals k with Some v => Some (wd v) | None => None end.
  Proof. rewrite lookup_mk. destruct (lookup vals k); reflexivity. Qed.

  Lemma lookup_idv (vals : list (string * wval)) k : lookup (mk idv vals) (r k) = lookup vals k.
  Proof. rewrite lookup_mk. destruct (lookup vals k); reflexivity. Qed.

  Lemma check_consts_ren (vals : list (string * wval)) e :
    check f (fun k => match lookup (mk idv vals) k with Some v => Some (wd v) | None => None end)
          (lookup (mk idv vals)) (RE e) =
    rename_expr_result r q
      (check f (fun k => match lookup vals k with Some v => Some (wd v) | None => None end) (lookup vals) e).
  Proof.
    apply check_rename_holds; intros k _; [apply cenv_ren | apply lookup_idv].
  Qed.

  Lemma eval_consts_env_ren (vals : list (string * wval)) e :
    eval f (lookup (mk idv vals)) (RE e) = rename_expr_result r q (eval f (lookup vals) e).
  Proof. apply eval_rename_holds. intros k _. apply lookup_idv. Qed.

  Lemma eval_consts_ren cs : forall order vals errs,
    eval_consts f (mk RE cs) (map r order) (mk idv vals) (map rerr errs) =
    (mk idv (fst (eval_consts f cs order vals errs)), map rerr (snd (eval_consts f cs order vals errs))).
  Proof.
    induction order as [|n order IH]; intros vals errs; cbn [map eval_consts]; [reflexivity|].
    rewrite (lookup_mk RE). destruct (lookup cs n) as [e|]; cbn [option_map].
    - rewrite check_consts_ren.
      destruct (check f (fun k => match lookup vals k with Some v => Some (wd v) | None => None end)
                      (lookup vals) e) as [wc|esc]; cbn [rename_expr_result].
      + rewrite eval_consts_env_ren. destruct (eval f (lookup vals) e) as [v|es]; cbn [rename_expr_result].
        * rewrite (upd_mk idv). apply IH.
        * rewrite <- map_app. apply IH.
      + rewrite <- map_app. apply IH.
    - cbn [fst snd]. rewrite map_app. cbn [map]. rewrite (rename_err_plain r q Panicked [n] I). reflexivity.
  Qed.

  Definition ren_consts_result (x : result (list (string * wval))) : result (list (string * wval)) :=
    match x with Ok vals => Ok (mk idv vals) | Err es => Err (map rerr es) end.

  Lemma resolve_constants_ren cs :
    resolve_constants f (mk RE cs) = ren_consts_result (resolve_constants f cs).
  Proof.
    unfold resolve_constants. rewrite const_graph_ren, toposort_ren.
    destruct (toposort string String.eqb (const_graph cs)) as [[order|cyc]|es] eqn:Et; cbn [map_sort_result bind].
    - pose proof (eval_consts_ren cs order [] []) as H. cbn [map mk] in H.
      rewrite H.
      destruct (eval_consts f cs order [] []) as [vals errs]. cbn [fst snd].
      destruct errs as [|e0 errs]; reflexivity.
    - unfold err1. cbn [ren_consts_result map]. rewrite (rename_err_plain r q WireLoop cyc I). reflexivity.
    - cbn [ren_consts_result]. rewrite (bare_rename r q es (toposort_bare _ _ _ _ Et)). reflexivity.
  Qed.

  (* ---- step 3: register banks ------------------------------------------------------------------- *)
  Definition ren_sigs (sigs : list (string * string * width)) : list (string * string * width) :=
    map (fun sg => (r (fst (fst sg)), r (snd (fst sg)), snd sg)) sigs.

  Definition ren_st3 (t : st3) : st3 :=
    mkSt3 (map (rename_bank r) (t_banks t)) (map r (t_defaulted t)) (mk (fun x => x) (t_types t))
          (map r (t_seen t)) (map r (t_in_spans t)) (map rerr (t_errs t)).

  Definition ren_acc (a : st3 * list (string * string * width) * list (string * wval)) :=
    (ren_st3 (fst (fst a)), ren_sigs (snd (fst a)), mk idv (snd a)).

  Lemma step3_register_ren s consts bn inp outp acc rn w d :
    r (inp ++ "_" ++ rn)%string = (inp ++ "_" ++ q rn)%string ->
    r (outp ++ "_" ++ rn)%string = (outp ++ "_" ++ q rn)%string ->
    step3_register f (ren_st1 s) (mk idv consts) bn inp outp (ren_acc acc) (q rn, w, RE d) =
    ren_acc (step3_register f s consts bn inp outp acc (rn, w, d)).
  Proof.
    intros Hi Ho. destruct acc as [[t sigs] defaults]. unfold ren_acc at 1. cbn [fst snd].
    unfold step3_register. cbv zeta. rewrite <- Hi, <- Ho.
    cbn [ren_st1 ren_st3 s_decls s_wires s_assigns t_seen t_types t_banks t_defaulted t_in_spans t_errs].
    match goal with
    | |- match ?p' with [] => _ | _ :: _ => _ end = ren_acc (match ?p with [] => _ | _ :: _ => _ end) =>
        assert (Hpre : p' = map rerr p)
    end.
    { rewrite !map_app. rewrite refs_RE, nodup_str_r, add_set_r, !mem_str_r, !has_mk.
      f_equal; [|f_equal; [|f_equal; [|f_equal; [|f_equal]]]].
      - cbn [flat_map]. rewrite !mem_str_r, !map_app, app_nil_r. cbn [map].
        f_equal; [destruct (mem_str _ (s_decls s)); [apply rerr_one; exact I | reflexivity]|].
        rewrite app_nil_r. destruct (mem_str _ (s_decls s)); [apply rerr_one; exact I | reflexivity].
      - apply (flat_map_ren r rerr). intros x _. rewrite !has_mk, count_str_r.
        destruct (has (s_wires s) x && negb (has consts x)); [apply errs_for_r; exact I | reflexivity].
      - destruct (has defaults _); reflexivity.
      - destruct (has (s_assigns s) _); [apply rerr_one; exact I | reflexivity].
      - destruct (mem_str _ (t_seen t)); [apply rerr_one; exact I | reflexivity].
      - destruct (mem_str _ (add_set _ (t_seen t))); [apply rerr_one; exact I | reflexivity]. }
    rewrite Hpre. clear Hpre.
    match goal with
    | |- match map rerr ?p with [] => _ | _ :: _ => _ end = _ => destruct p as [|e0 pre]
    end; cbn [map].
    - rewrite check_consts_ren.
      destruct (check f (fun k => match lookup consts k with Some v => Some (wd v) | None => None end)
                      (lookup consts) d) as [wc|esc]; cbn [rename_expr_result].
      + rewrite eval_consts_env_ren. destruct (eval f (lookup consts) d) as [v|es]; cbn [rename_expr_result].
        * unfold ren_acc, ren_st3. cbn [fst snd t_seen t_types t_banks t_defaulted t_in_spans t_errs].
          rewrite !add_set_r, !(upd_mk (fun x : wtype => x)), (upd_mk idv), !map_app.
          unfold ren_sigs. rewrite map_app. cbn [map fst snd].
          destruct (wcombine (wd v) w); reflexivity.
        * unfold ren_acc, ren_st3. cbn [fst snd t_seen t_types t_banks t_defaulted t_in_spans t_errs].
          rewrite !add_set_r, !(upd_mk (fun x : wtype => x)), !map_app. reflexivity.
      + unfold ren_acc, ren_st3. cbn [fst snd t_seen t_types t_banks t_defaulted t_in_spans t_errs].
        rewrite !add_set_r, !(upd_mk (fun x : wtype => x)), !map_app. reflexivity.
    - unfold ren_acc, ren_st3. cbn [fst snd t_seen t_types t_banks t_defaulted t_in_spans t_errs].
      rewrite !add_set_r, !(upd_mk (fun x : wtype => x)), !map_app. reflexivity.
  Qed.

  Lemma fold_add_set_r xs : forall l,
    fold_left (fun l x => add_set x l) (map r xs) (map r l) = map r (fold_left (fun l x => add_set x l) xs l).
  Proof.
    induction xs as [|x xs IH]; intros l; cbn [map fold_left]; [reflexivity|]. rewrite add_set_r. apply IH.
  Qed.

  Lemma step3_bank_ren s consts t name regs :
    bank_compatible r q (SBank name regs) ->
    step3_bank f is_lower is_upper (ren_st1 s) (mk idv consts) (ren_st3 t) (ren_bankdecl (name, regs)) =
    ren_st3 (step3_bank f is_lower is_upper s consts t (name, regs)).
  Proof.
    intros Hc. cbn [bank_compatible] in Hc. unfold ren_bankdecl. cbn [fst snd]. unfold step3_bank.
    destruct (utf8_chars name "") as [|inp [|outp [|x l]]];
      try (unfold ren_st3; cbn [t_seen t_types t_banks t_defaulted t_in_spans t_errs]; rewrite map_app; reflexivity).
    destruct Hc as [Hst [Hbu Hregs]].
    destruct (negb (is_lower inp) || negb (is_upper outp));
      [unfold ren_st3; cbn [t_seen t_types t_banks t_defaulted t_in_spans t_errs]; rewrite map_app; reflexivity|].
    cbv zeta.
    set (stall := ("stall_" ++ outp)%string) in *. set (bubble := ("bubble_" ++ outp)%string) in *.
    cbn [ren_st1 s_assigns s_decls].
    assert (Hhs : has (mk RE (s_assigns s)) stall = has (s_assigns s) stall) by (rewrite <- Hst at 1; apply has_mk).
    assert (Hhb : has (mk RE (s_assigns s)) bubble = has (s_assigns s) bubble) by (rewrite <- Hbu at 1; apply has_mk).
    assert (Hms : mem_str stall (map r (s_decls s)) = mem_str stall (s_decls s))
      by (rewrite <- Hst at 1; apply mem_str_r).
    assert (Hmb : mem_str bubble (map r (s_decls s)) = mem_str bubble (s_decls s))
      by (rewrite <- Hbu at 1; apply mem_str_r).
    rewrite Hhs, Hhb. cbn [flat_map]. rewrite Hms, Hmb.
    match goal with
    | |- context [fold_left (step3_register f ?s' ?c' name inp outp) (ren_regs regs) ?a0] =>
        assert (Hfold : fold_left (step3_register f s' c' name inp outp) (ren_regs regs) a0 =
                        ren_acc (fold_left (step3_register f s consts name inp outp) regs
                                   (mkSt3 (t_banks t)
                                      (fold_left (fun l x => add_set x l)
                                         ((if has (s_assigns s) stall then [] else [stall]) ++
                                          (if has (s_assigns s) bubble then [] else [bubble])) (t_defaulted t))
                                      (upd (upd (t_types t) stall TRegisterBankSpecial) bubble TRegisterBankSpecial)
                                      (t_seen t) (t_in_spans t)
                                      (t_errs t ++ ((if mem_str stall (s_decls s)
                                                     then [mkErr RedeclaredWire [stall]] else []) ++
                                                    (if mem_str bubble (s_decls s)
                                                     then [mkErr RedeclaredWire [bubble]] else []) ++ [])), [], [])))
    end.
    { unfold ren_regs.
      rewrite <- (fold_left_ren ren_acc (fun x : string * width * expr => (q (fst (fst x)), snd (fst x), RE (snd x)))
                   (step3_register f s consts name inp outp)
                   (step3_register f (ren_st1 s) (mk idv consts) name inp outp) regs).
      - f_equal. unfold ren_acc, ren_st3. cbn [fst snd t_seen t_types t_banks t_defaulted t_in_spans t_errs map ren_sigs].
        rewrite <- fold_add_set_r.
        rewrite <- (upd_mk (fun x : wtype => x) _ bubble), <- (upd_mk (fun x : wtype => x) _ stall).
        rewrite !map_app, Hst, Hbu.
        assert (E1 : map r (if has (s_assigns s) stall then [] else [stall]) =
                     (if has (s_assigns s) stall then [] else [stall]))
          by (destruct (has (s_assigns s) stall); cbn [map]; rewrite ?Hst; reflexivity).
        assert (E2 : map r (if has (s_assigns s) bubble then [] else [bubble]) =
                     (if has (s_assigns s) bubble then [] else [bubble]))
          by (destruct (has (s_assigns s) bubble); cbn [map]; rewrite ?Hbu; reflexivity).
        assert (E3 : map rerr (if mem_str stall (s_decls s) then [mkErr RedeclaredWire [stall]] else []) =
                     (if mem_str stall (s_decls s) then [mkErr RedeclaredWire [stall]] else []))
          by (destruct (mem_str stall (s_decls s)); [rewrite <- rerr_one by exact I; rewrite Hst|]; reflexivity).
        assert (E4 : map rerr (if mem_str bubble (s_decls s) then [mkErr RedeclaredWire [bubble]] else []) =
                     (if mem_str bubble (s_decls s) then [mkErr RedeclaredWire [bubble]] else []))
          by (destruct (mem_str bubble (s_decls s)); [rewrite <- rerr_one by exact I; rewrite Hbu|]; reflexivity).
        rewrite E1, E2, E3, E4. reflexivity.
      - intros a [[rn w] d] Hin. destruct (Hregs _ Hin) as [Hi Ho]. cbn [fst snd] in *.
        apply step3_register_ren; assumption. }
    rewrite Hfold. clear Hfold.
    match goal with
    | |- context [fold_left (step3_register f s consts name inp outp) regs ?a0] =>
        destruct (fold_left (step3_register f s consts name inp outp) regs a0) as [[t2 sigs] defaults]
    end.
    unfold ren_acc, ren_st3. cbn [fst snd t_seen t_types t_banks t_defaulted t_in_spans t_errs].
    rewrite map_app. cbn [map]. unfold rename_bank. cbn [b_label b_signals b_defaults b_stall b_bubble].
    rewrite Hst, Hbu. reflexivity.
  Qed.

  Lemma T3_ren s consts :
    (forall b, In b (s_banks s) -> bank_compatible r q (SBank (fst b) (snd b))) ->
    fold_left (step3_bank f is_lower is_upper (ren_st1 s) (mk idv consts)) (s_banks (ren_st1 s))
              (mkSt3 [] [] (s_types (ren_st1 s)) [] [] []) =
    ren_st3 (fold_left (step3_bank f is_lower is_upper s consts) (s_banks s) (mkSt3 [] [] (s_types s) [] [] [])).
  Proof.
    intros Hb. cbn [ren_st1 s_banks s_types].
    change (mkSt3 [] [] (mk (fun t : wtype => t) (s_types s)) [] [] [])
      with (ren_st3 (mkSt3 [] [] (s_types s) [] [] [])).
    apply (fold_left_ren ren_st3 ren_bankdecl). intros t [name regs] Hin.
    apply step3_bank_ren. apply (Hb _ Hin).
  Qed.

  Notation idw := (fun w : width => w).

  Lemma bank_wires_ren banks : bank_wires (map (rename_bank r) banks) = mk idw (bank_wires banks).
  Proof.
    unfold bank_wires, mk. rewrite flat_map_concat_map, map_map.
    rewrite (flat_map_concat_map _ banks), concat_map, map_map. f_equal. apply map_ext. intros b.
    unfold rename_bank. cbn [b_signals b_stall b_bubble]. rewrite map_app. cbn [map fst snd]. f_equal.
    rewrite flat_map_concat_map, map_map, (flat_map_concat_map _ (b_signals b)), concat_map, map_map.
    f_equal. apply map_ext. intros [[i o] w]. reflexivity.
  Qed.

  Lemma all_out_names_ren banks : all_out_names (map (rename_bank r) banks) = map r (all_out_names banks).
  Proof.
    unfold all_out_names. rewrite flat_map_concat_map, map_map.
    rewrite (flat_map_concat_map _ banks), concat_map, map_map. f_equal. apply map_ext. intros b.
    unfold rename_bank. cbn [b_signals]. rewrite !map_map. reflexivity.
  Qed.

  Lemma all_in_names_ren banks : all_in_names (map (rename_bank r) banks) = map r (all_in_names banks).
  Proof.
    unfold all_in_names. rewrite flat_map_concat_map, map_map.
    rewrite (flat_map_concat_map _ banks), concat_map, map_map. f_equal. apply map_ext. intros b.
    unfold rename_bank. cbn [b_signals]. rewrite !map_map. reflexivity.
  Qed.

  Lemma fold_upd_ren {V W} (g : V -> W) (l : list (string * V)) : forall m,
    fold_left (fun m nw => upd m (fst nw) (snd nw)) (mk g l) (mk g m) =
    mk g (fold_left (fun m nw => upd m (fst nw) (snd nw)) l m).
  Proof.
    induction l as [|[k v] l IH]; intros m; cbn [mk map fold_left fst snd]; [reflexivity|].
    rewrite (upd_mk g). apply IH.
  Qed.

  Lemma fold_upd_wd_ren (l : list (string * wval)) : forall m,
    fold_left (fun m nv => upd m (fst nv) (wd (snd nv))) (mk idv l) (mk idw m) =
    mk idw (fold_left (fun m nv => upd m (fst nv) (wd (snd nv))) l m).
  Proof.
    induction l as [|[k v] l IH]; intros m; cbn [mk map fold_left fst snd]; [reflexivity|].
    rewrite (upd_mk idw). apply IH.
  Qed.

  Lemma unset_errors_ren s t needed :
    unset_errors (ren_st1 s) (ren_st3 t) (map r needed) = map rerr (unset_errors s t needed).
  Proof.
    unfold unset_errors. cbn [ren_st1 ren_st3 s_assigns s_decls t_in_spans].
    apply (flat_map_ren r rerr). intros n _. rewrite has_mk, !mem_str_r.
    destruct (has (s_assigns s) n); [reflexivity|].
    destruct (mem_str n (s_decls s)); [apply rerr_one; exact I|].
    destruct (mem_str n (t_in_spans t)); apply rerr_one; exact I.
  Qed.

  (* ---- assignments_to_actions -------------------------------------------------------------------- *)
  Lemma assign_graph_ren assigns known :
    assign_graph (mk RE assigns) (map r known) = mg (assign_graph assigns known).
  Proof.
    unfold assign_graph. rewrite <- empty_graph_ren at 1. unfold mk.
    apply (fold_left_ren mg (fun kv : string * expr => (r (fst kv), RE (snd kv)))).
    intros g [n e] _. cbn [fst snd]. rewrite refs_RE, nodup_str_r, graph_add_node_ren.
    apply (fold_left_ren mg r). intros g1 x _. rewrite mem_str_r.
    destruct (mem_str x known); [reflexivity | apply graph_insert_ren].
  Qed.

  Definition ren_pacc (a : graph string * list (string * fixed_fn) * list fixed_fn * list err) :=
    (mg (fst (fst (fst a))), snd (fst (fst a)), snd (fst a), map rerr (snd a)).

  Lemma fixed_in_fix ff n : In ff fixed -> In n (fixed_in_names ff) -> r n = n.
  Proof. intros Hff Hn. apply Hfix. apply (fixed_in_in_names fixed ff n Hff Hn). Qed.

  Lemma has_fixed {V W} (g : V -> W) m n : r n = n -> has (mk g m) n = has m n.
  Proof. intros H. rewrite <- H at 1. apply has_mk. Qed.

  Lemma filter_ext_In {X} (p1 p2 : X -> bool) (l : list X) :
    (forall x, In x l -> p1 x = p2 x) -> filter p1 l = filter p2 l.
  Proof.
    induction l as [|x l IH]; intros H; cbn [filter]; [reflexivity|].
    rewrite (H x (or_introl eq_refl)), IH; [reflexivity|]. intros y Hy. apply H. right. exact Hy.
  Qed.

  Lemma unset_builtin_fixed (l : list string) :
    (forall n, In n l -> r n = n) ->
    map rerr (map (fun n => mkErr UnsetBuiltinWire [n]) l) = map (fun n => mkErr UnsetBuiltinWire [n]) l.
  Proof.
    intros H. rewrite map_map. apply map_ext_in. intros n Hn.
    rewrite (rename_err_plain r q UnsetBuiltinWire [n] I). cbn [map]. rewrite (H n Hn). reflexivity.
  Qed.

  Lemma preprocess_one_ren consts assigns acc ff :
    In ff fixed ->
    preprocess_one f (mk idv consts) (mk RE assigns) (ren_pacc acc) ff =
    ren_pacc (preprocess_one f consts assigns acc ff).
  Proof.
    intros Hff. destruct acc as [[[g by_out] no_out] errs]. unfold ren_pacc at 1. cbn [fst snd].
    unfold preprocess_one. cbv zeta.
    assert (Hf1 : filter (fun n => negb (has (mk RE assigns) n)) (fixed_in_names ff) =
                  filter (fun n => negb (has assigns n)) (fixed_in_names ff)).
    { apply filter_ext_In. intros n Hn. rewrite (has_fixed RE assigns n (fixed_in_fix ff n Hff Hn)). reflexivity. }
    assert (Hf2 : filter (fun n => has (mk RE assigns) n) (fixed_in_names ff) =
                  filter (fun n => has assigns n) (fixed_in_names ff)).
    { apply filter_ext_In. intros n Hn. apply (has_fixed RE assigns n (fixed_in_fix ff n Hff Hn)). }
    rewrite Hf1, Hf2.
    set (missing := filter (fun n => negb (has assigns n)) (fixed_in_names ff)).
    assert (Hmfix : forall n, In n missing -> r n = n).
    { intros n Hn. apply filter_In in Hn. apply (fixed_in_fix ff n Hff (proj1 Hn)). }
    assert (Hinstall : forall errs1,
              match ff_out ff with
              | None => (mg g, by_out, no_out ++ [ff], map rerr errs1)
              | Some (o, _) =>
                  (fold_left (fun g1 n => graph_insert g1 n o) (fixed_in_names ff) (mg g), upd by_out o ff, no_out,
                   map rerr errs1)
              end =
              ren_pacc match ff_out ff with
                       | None => (g, by_out, no_out ++ [ff], errs1)
                       | Some (o, _) =>
                           (fold_left (fun g1 n => graph_insert g1 n o) (fixed_in_names ff) g, upd by_out o ff,
                            no_out, errs1)
                       end).
    { intros errs1. destruct (ff_out ff) as [[o w]|] eqn:Eo; [|reflexivity].
      unfold ren_pacc. cbn [fst snd]. f_equal. f_equal. f_equal.
      assert (Ho : r o = o) by (apply fixed_out_fix; apply (In_fixed_out_names fixed ff o w Hff Eo)).
      rewrite <- (map_fixed (fixed_in_names ff)) at 1 by (intros n Hn; apply (fixed_in_fix ff n Hff Hn)).
      apply (fold_left_ren mg r). intros g1 n _. rewrite <- Ho at 1. apply graph_insert_ren. }
    destruct missing as [|m ms] eqn:Em.
    - apply Hinstall.
    - destruct (ff_mandatory ff).
      + rewrite <- Hinstall. rewrite map_app, (unset_builtin_fixed (m :: ms) Hmfix). reflexivity.
      + unfold ren_pacc. cbn [fst snd]. f_equal. rewrite !map_app. f_equal. f_equal.
        * destruct (ff_out ff) as [[o w]|] eqn:Eo; [|reflexivity].
          assert (Ho : r o = o) by (apply fixed_out_fix; apply (In_fixed_out_names fixed ff o w Hff Eo)).
          unfold graph_has_node. change (g_nodes (mg g)) with (map r (g_nodes g)).
          rewrite <- Ho at 1. rewrite mem_str_r.
          destruct (mem_str o (g_nodes g)); [symmetry; apply (unset_builtin_fixed (m :: ms) Hmfix) | reflexivity].
        * destruct (List.length (m :: ms) =? List.length (ff_ins ff))%nat; [reflexivity|].
          assert (Hdis :
            match ff_enable ff with
            | Some en =>
                match lookup (mk RE assigns) en with
                | Some ee => match eval f (lookup (mk idv consts)) ee with
                             | Ok v => negb (is_true v)
                             | Err _ => false
                             end
                | None => false
                end
            | None => false
            end =
            match ff_enable ff with
            | Some en =>
                match lookup assigns en with
                | Some ee => match eval f (lookup consts) ee with
                             | Ok v => negb (is_true v)
                             | Err _ => false
                             end
                | None => false
                end
            | None => false
            end).
          { destruct (ff_enable ff) as [en|] eqn:Een; [|reflexivity].
            rewrite <- (Hen ff en Hff Een) at 1. rewrite (lookup_mk RE).
            destruct (lookup assigns en) as [ee|]; cbn [option_map]; [|reflexivity].
            rewrite eval_consts_env_ren. destruct (eval f (lookup consts) ee); reflexivity. }
          rewrite Hdis.
          match goal with |- (if ?b then _ else _) = _ => destruct b end; reflexivity.
  Qed.

  Lemma preprocess_keys consts assigns : forall l acc,
    (forall ff, In ff l -> In ff fixed) ->
    (forall n ff, lookup (snd (fst (fst acc))) n = Some ff -> In ff fixed) ->
    (forall n, In n (map fst (snd (fst (fst acc)))) -> r n = n) ->
    let acc' := fold_left (preprocess_one f consts assigns) l acc in
    (forall n ff, lookup (snd (fst (fst acc'))) n = Some ff -> In ff fixed) /\
    (forall n, In n (map fst (snd (fst (fst acc')))) -> r n = n).
  Proof.
    induction l as [|ff l IH]; intros acc Hl H1 H2; cbn [fold_left]; [split; assumption|].
    apply IH; [intros ff0 H0; apply Hl; right; exact H0 | |].
    - destruct acc as [[[g by_out] no_out] errs]. cbn [fst snd] in *. unfold preprocess_one. cbv zeta.
      assert (Hff : In ff fixed) by (apply Hl; left; reflexivity).
      destruct (filter (fun n => negb (has assigns n)) (fixed_in_names ff)) as [|m ms];
        [|destruct (ff_mandatory ff)]; try (destruct (ff_out ff) as [[o w]|]); cbn [fst snd]; try exact H1;
        intros n ff0 Hl0; rewrite lookup_upd in Hl0; destruct (String.eqb n o);
        [injection Hl0 as <-; exact Hff | apply (H1 n ff0 Hl0) | injection Hl0 as <-; exact Hff | apply (H1 n ff0 Hl0)].
    - destruct acc as [[[g by_out] no_out] errs]. cbn [fst snd] in *. unfold preprocess_one. cbv zeta.
      assert (Hff : In ff fixed) by (apply Hl; left; reflexivity).
      destruct (filter (fun n => negb (has assigns n)) (fixed_in_names ff)) as [|m ms];
        [|destruct (ff_mandatory ff)]; try (destruct (ff_out ff) as [[o w]|] eqn:Eo); cbn [fst snd]; try exact H2;
        intros n Hn; rewrite map_fst_upd in Hn; apply add_set_In in Hn;
        (destruct Hn as [Hn|Hn]; [apply (H2 n Hn) | subst n; apply fixed_out_fix; apply (In_fixed_out_names fixed ff o w Hff Eo)]).
  Qed.

  Lemma preprocess_no_out consts assigns : forall l acc,
    (forall ff, In ff l -> In ff fixed) ->
    (forall ff, In ff (snd (fst acc)) -> In ff fixed) ->
    forall ff, In ff (snd (fst (fold_left (preprocess_one f consts assigns) l acc))) -> In ff fixed.
  Proof.
    induction l as [|ff l IH]; intros acc Hl H1; cbn [fold_left]; [exact H1|].
    apply IH; [intros ff0 H0; apply Hl; right; exact H0|].
    destruct acc as [[[g by_out] no_out] errs]. cbn [fst snd] in *. unfold preprocess_one. cbv zeta.
    assert (Hff : In ff fixed) by (apply Hl; left; reflexivity).
    destruct (filter (fun n => negb (has assigns n)) (fixed_in_names ff)) as [|m ms];
      [|destruct (ff_mandatory ff)]; try (destruct (ff_out ff) as [[o w]|]); cbn [fst snd]; try exact H1;
      intros ff0 H0; apply in_app_iff in H0; (destruct H0 as [H0|[<-|[]]]; [apply H1; exact H0 | exact Hff]).
  Qed.

  Notation RA := (rename_action r).

  Lemma schedule_ren widths consts assigns by_out decls :
    (forall n ff, lookup by_out n = Some ff -> In ff fixed) ->
    (forall n, In n (map fst by_out) -> r n = n) ->
    forall order acts errs und,
      schedule f (mk idw widths) (mk idv consts) (mk RE assigns) by_out (map r decls) (map r order)
               (map RA acts) (map rerr errs) (map r und) =
      (let x := schedule f widths consts assigns by_out decls order acts errs und in
       (map RA (fst (fst x)), map rerr (snd (fst x)), map r (snd x))).
  Proof.
    intros Hby1 Hby2.
    assert (Hby : forall n, lookup by_out (r n) = lookup by_out n).
    { intros n. rewrite <- (mk_fixed by_out Hby2) at 1. rewrite lookup_mk.
      destruct (lookup by_out n); reflexivity. }
    induction order as [|n order IH]; intros acts errs und; cbn [map schedule]; [reflexivity|].
    rewrite (lookup_mk RE). destruct (lookup assigns n) as [e|]; cbn [option_map].
    - rewrite (lookup_mk idw). destruct (lookup widths n) as [w|]; cbn [option_map].
      + assert (Hc : check f (lookup (mk idw widths)) (lookup (mk idv consts)) (RE e) =
                     rename_expr_result r q (check f (lookup widths) (lookup consts) e)).
        { apply check_rename_holds; intros k _; [|apply lookup_idv].
          rewrite lookup_mk. destruct (lookup widths k); reflexivity. }
        rewrite Hc. destruct (check f (lookup widths) (lookup consts) e) as [we|es]; cbn [rename_expr_result].
        * replace (map RA acts ++ [AAssign (r n) (RE e) w]) with (map RA (acts ++ [AAssign n e w]))
            by (rewrite map_app; reflexivity).
          replace (map rerr errs ++ match wcombine w we with
                                    | Some _ => []
                                    | None => [mkErr MismatchedWireWidths [r n]]
                                    end)
            with (map rerr (errs ++ match wcombine w we with
                                    | Some _ => []
                                    | None => [mkErr MismatchedWireWidths [n]]
                                    end))
            by (rewrite map_app; destruct (wcombine w we); [reflexivity | rewrite <- rerr_one by exact I; reflexivity]).
          apply IH.
        * rewrite <- map_app. apply IH.
      + replace (map rerr errs ++ [mkErr UndeclaredWireAssigned [r n]])
          with (map rerr (errs ++ [mkErr UndeclaredWireAssigned [n]]))
          by (rewrite map_app, <- rerr_one by exact I; reflexivity).
        apply IH.
    - rewrite Hby. destruct (lookup by_out n) as [ff|] eqn:El.
      + replace (map RA acts ++ [ff_action ff]) with (map RA (acts ++ [ff_action ff]))
          by (rewrite map_app; cbn [map]; rewrite (Hact ff (Hby1 n ff El)); reflexivity).
        apply IH.
      + rewrite mem_str_r. destruct (mem_str n decls).
        * replace (map rerr errs ++ [mkErr UnsetWire [r n]]) with (map rerr (errs ++ [mkErr UnsetWire [n]]))
            by (rewrite map_app, <- rerr_one by exact I; reflexivity).
          apply IH.
        * rewrite add_set_r. apply IH.
  Qed.

  Definition ren_acts_result (x : result (list action)) : result (list action) :=
    match x with Ok acts => Ok (map RA acts) | Err es => Err (map rerr es) end.

  Lemma a2a_ren widths consts assigns known decls :
    assignments_to_actions f fixed (mk idw widths) (mk idv consts) (mk RE assigns) (map r known) (map r decls) =
    ren_acts_result (assignments_to_actions f fixed widths consts assigns known decls).
  Proof.
    unfold assignments_to_actions. rewrite assign_graph_ren.
    change (mg (assign_graph assigns known), @nil (string * fixed_fn), @nil fixed_fn, @nil err)
      with (ren_pacc (assign_graph assigns known, [], [], [])).
    rewrite <- (map_id fixed) at 1.
    rewrite (fold_left_ren ren_pacc (fun ff : fixed_fn => ff) (preprocess_one f consts assigns)
               (preprocess_one f (mk idv consts) (mk RE assigns)) fixed)
      by (intros a ff Hff; apply preprocess_one_ren; exact Hff).
    destruct (preprocess_keys consts assigns fixed (assign_graph assigns known, [], [], [])
                (fun ff H => H) (fun n ff (H : lookup [] n = Some ff) => match (eq_ind None (fun o => match o with None => True | Some _ => False end) I _ H) with end)
                (fun n (H : In n []) => match H with end)) as [K1 K2].
    cbv zeta in K1, K2.
    pose proof (preprocess_no_out consts assigns fixed (assign_graph assigns known, [], [], [])
                  (fun ff H => H) (fun ff (H : In ff []) => match H with end)) as K3.
    destruct (fold_left (preprocess_one f consts assigns) fixed (assign_graph assigns known, [], [], []))
      as [[[g by_out] no_out] errs0].
    unfold ren_pacc. cbn [fst snd] in *.
    destruct errs0 as [|e0 errs0]; cbn [map]; [|reflexivity].
    rewrite toposort_ren.
    destruct (toposort string String.eqb g) as [[order|cyc]|es] eqn:Et; cbn [map_sort_result bind].
    - pose proof (schedule_ren widths consts assigns by_out decls K1 K2 order [] [] []) as Hs.
      cbn [map] in Hs. rewrite Hs. cbv zeta.
      destruct (schedule f widths consts assigns by_out decls order [] [] []) as [[acts errs] und]. cbn [fst snd].
      replace (map rerr errs ++ map (fun n => mkErr UnsetUndeclaredWire [n]) (map r und))
        with (map rerr (errs ++ map (fun n => mkErr UnsetUndeclaredWire [n]) und)).
      2:{ rewrite map_app, !map_map. reflexivity. }
      destruct (errs ++ map (fun n => mkErr UnsetUndeclaredWire [n]) und) as [|e1 errs1]; cbn [map ren_acts_result];
        [|reflexivity].
      rewrite map_app, map_map. f_equal. f_equal. apply map_ext_in. intros ff Hin.
      symmetry. apply Hact. apply K3. exact Hin.
    - unfold err1. cbn [ren_acts_result map]. rewrite (rename_err_plain r q WireLoop cyc I). reflexivity.
    - cbn [ren_acts_result]. rewrite (bare_rename r q es (toposort_bare _ _ _ _ Et)). reflexivity.
  Qed.

  (* ---- Program::new ---------------------------------------------------------------------------------- *)
  Lemma S1_banks_in stmts b :
    In b (s_banks (fold_left (step1 fixed) stmts (init1 fixed))) -> In (SBank (fst b) (snd b)) stmts.
  Proof.
    rewrite S1_banks, fold_snoc. cbn [app]. intros H. apply in_flat_map in H. destruct H as [x [Hx Hb]].
    destruct x as [d|d|a|n regs]; cbn [bpairs] in Hb; try contradiction.
    destruct Hb as [<-|[]]. exact Hx.
  Qed.

  Theorem build_program_ren stmts :
    (forall x, In x stmts -> bank_compatible r q x) ->
    build_program f fixed is_lower is_upper (map (rename_stmt r q) stmts) =
    rename_build_result r q (build_program f fixed is_lower is_upper stmts).
  Proof.
    intros Hbanks. unfold build_program. rewrite S1_ren.
    set (s := fold_left (step1 fixed) stmts (init1 fixed)).
    assert (Hb : forall b, In b (s_banks s) -> bank_compatible r q (SBank (fst b) (snd b))).
    { intros b Hin. apply Hbanks. apply S1_banks_in. exact Hin. }
    rewrite const_assigned_errors_ren, const_ref_errors_ren.
    change (s_errs (ren_st1 s)) with (map rerr (s_errs s)). rewrite <- !map_app.
    destruct (s_errs s ++ const_assigned_errors s ++ const_ref_errors s) as [|e0 es0]; cbn [map];
      [|reflexivity].
    change (s_consts (ren_st1 s)) with (mk RE (s_consts s)). rewrite resolve_constants_ren.
    destruct (resolve_constants f (s_consts s)) as [consts|es2]; cbn [ren_consts_result bind rename_build_result];
      [|reflexivity].
    rewrite (T3_ren s consts Hb).
    set (t := fold_left (step3_bank f is_lower is_upper s consts) (s_banks s) (mkSt3 [] [] (s_types s) [] [] [])).
    cbn [ren_st3 ren_st1 t_banks t_defaulted t_types t_errs s_wires s_needed s_assigns s_decls].
    rewrite all_in_names_ren, fold_add_set_r.
    rewrite unset_errors_ren, <- map_app.
    match goal with
    | |- match map rerr ?x with [] => _ | _ :: _ => _ end = _ => destruct x as [|e1 es1]
    end; cbn [map]; [|reflexivity].
    rewrite bank_wires_ren, (fold_upd_ren idw), fold_upd_wd_ren, all_out_names_ren, map_fst_mk, <- !map_app.
    rewrite a2a_ren.
    match goal with
    | |- bind (ren_acts_result ?x) _ = _ => destruct x as [acts|es4]
    end; cbn [ren_acts_result bind rename_build_result]; reflexivity.
  Qed.
End GlobalRename.

(* ====================================================================================== *)
(* Part 4: running commutes with a renaming that is injective on all names                 *)
(* ====================================================================================== *)
Definition Rres {A B} (R : A -> B -> Prop) (x : result A) (x' : result B) : Prop :=
  match x, x' with
  | Ok a, Ok b => R a b
  | Err _, Err _ => True
  | _, _ => False
  end.

Lemma Rres_bind {A B C D} (R : A -> B -> Prop) (Q : C -> D -> Prop) x x' (k : A -> result C) (k' : B -> result D) :
  Rres R x x' -> (forall a b, R a b -> Rres Q (k a) (k' b)) -> Rres Q (bind x k) (bind x' k').
Proof.
  destruct x as [a|es], x' as [b|es']; cbn [Rres bind]; intros H Hk; try contradiction; [apply Hk; exact H | exact I].
Qed.

Lemma Rres_ok {A B} (R : A -> B -> Prop) a b : R a b -> Rres R (Ok a) (Ok b).
Proof. intros H. exact H. Qed.

Lemma Rres_err {A B} (R : A -> B -> Prop) es es' : Rres R (Err es) (Err es').
Proof. exact I. Qed.

Section GlobalRun.
  Variable r : string -> string.
  Hypothesis r_inj : forall a b, r a = r b -> a = b.

  Notation RE := (rename_expr r).
  Notation RA := (rename_action r).
  Notation idv := (fun v : wval => v).
  Notation mkv := (mk r idv).
  Notation RS := (rename_state r).

  Lemma rename_state_values s : values (RS s) = mkv (values s).
  Proof. reflexivity. Qed.

  Lemma get_value_ren vals k : Rres eq (get_value vals k) (get_value (mkv vals) (r k)).
  Proof.
    unfold get_value. rewrite (lookup_mk r r_inj idv). destruct (lookup vals k); cbn [option_map]; [reflexivity | exact I].
  Qed.

  Lemma enabled_ren vals en : Rres eq (enabled vals en) (enabled (mkv vals) (option_map r en)).
  Proof.
    destruct en as [w|]; cbn [enabled option_map]; [|reflexivity].
    apply (Rres_bind eq eq _ _ _ _ (get_value_ren vals w)). intros a b <-. reflexivity.
  Qed.

  Definition st_rel (x : mstate * string) (x' : mstate * string) : Prop := fst x' = RS (fst x).

  Lemma set_values_ren s k v : set_values (RS s) (upd (mkv (values s)) (r k) v) = RS (set_values s (upd (values s) k v)).
  Proof.
    unfold set_values, rename_state. cbn [values mem regs last_status cycle].
    rewrite rename_keys_mk. rewrite <- (upd_mk r r_inj idv). reflexivity.
  Qed.

  Lemma exec_action_ren f o a s : Rres st_rel (exec_action f o a s) (exec_action f o (RA a) (RS s)).
  Proof.
    destruct a as [name e w|num outp|en addr outp nb ins|num inp|en addr inp nb|w]; cbn [exec_action rename_action];
      rewrite ?rename_state_values.
    - assert (He : eval f (lookup (mkv (values s))) (RE e) =
                   rename_expr_result r (fun x => x) (eval f (lookup (values s)) e)).
      { apply eval_rename_holds. intros k _. rewrite (lookup_mk r r_inj idv). destruct (lookup (values s) k); reflexivity. }
      rewrite He. destruct (eval f (lookup (values s)) e) as [r0|es]; cbn [rename_expr_result bind]; [|exact I].
      unfold st_rel. cbn [fst Rres]. apply set_values_ren.
    - apply (Rres_bind eq st_rel _ _ _ _ (get_value_ren (values s) num)). intros nv ? <-.
      change (regs (RS s)) with (regs s).
      destruct (bits nv mod two64 <? N.of_nat (List.length (regs s)))%N; unfold st_rel; cbn [fst Rres]; apply set_values_ren.
    - apply (Rres_bind eq st_rel _ _ _ _ (enabled_ren (values s) en)). intros dr ? <-.
      destruct dr.
      + apply (Rres_bind eq st_rel _ _ _ _ (get_value_ren (values s) addr)). intros av ? <-.
        destruct (16 <? nb)%N; [exact I|]. change (mem (RS s)) with (mem s).
        unfold st_rel. cbn [fst Rres]. apply set_values_ren.
      + unfold st_rel. cbn [fst Rres]. apply set_values_ren.
    - apply (Rres_bind eq st_rel _ _ _ _ (get_value_ren (values s) num)). intros nv ? <-.
      change (regs (RS s)) with (regs s).
      destruct ((bits nv mod two64 <? N.of_nat (List.length (regs s)))%N && negb (bits nv mod two64 =? zero_register)%N).
      + apply (Rres_bind eq st_rel _ _ _ _ (get_value_ren (values s) inp)). intros iv ? <-.
        unfold st_rel. cbn [fst Rres]. reflexivity.
      + unfold st_rel. cbn [fst Rres]. reflexivity.
    - apply (Rres_bind eq st_rel _ _ _ _ (enabled_ren (values s) en)). intros dw ? <-.
      destruct dw.
      + apply (Rres_bind eq st_rel _ _ _ _ (get_value_ren (values s) addr)). intros av ? <-.
        apply (Rres_bind eq st_rel _ _ _ _ (get_value_ren (values s) inp)). intros iv ? <-.
        destruct (16 <? nb)%N; [exact I|]. unfold st_rel. cbn [fst Rres]. reflexivity.
      + unfold st_rel. cbn [fst Rres]. reflexivity.
    - apply (Rres_bind eq st_rel _ _ _ _ (get_value_ren (values s) w)). intros v ? <-.
      unfold st_rel. cbn [fst Rres]. reflexivity.
  Qed.

  Lemma exec_actions_ren f o : forall acts s,
    Rres st_rel (exec_actions f o acts s) (exec_actions f o (map RA acts) (RS s)).
  Proof.
    induction acts as [|a acts IH]; intros s; cbn [map exec_actions]; [reflexivity|].
    apply (Rres_bind st_rel st_rel _ _ _ _ (exec_action_ren f o a s)). intros x x' Hx. unfold st_rel in Hx.
    rewrite Hx. apply (Rres_bind st_rel st_rel _ _ _ _ (IH (fst x))). intros y y' Hy. exact Hy.
  Qed.

  (* ---- the clock edge ------------------------------------------------------------------------------- *)
  Definition vrel (v v' : list (string * wval)) : Prop := v' = mkv v.

  Lemma set_defaults_ren : forall dfl vals,
    Rres vrel (set_defaults vals dfl) (set_defaults (mkv vals) (mkv dfl)).
  Proof.
    induction dfl as [|[k v] dfl IH]; intros vals; cbn [mk map set_defaults fst snd]; [reflexivity|].
    rewrite (has_mk r r_inj idv). destruct (has vals k); [|exact I].
    rewrite (upd_mk r r_inj idv). apply IH.
  Qed.

  Lemma copy_signals_ren : forall sigs vals,
    Rres vrel (copy_signals vals sigs)
         (copy_signals (mkv vals) (map (fun sg => (r (fst (fst sg)), r (snd (fst sg)), snd sg)) sigs)).
  Proof.
    induction sigs as [|[[i o] w] sigs IH]; intros vals; cbn [map copy_signals fst snd]; [reflexivity|].
    apply (Rres_bind eq vrel _ _ _ _ (get_value_ren vals i)). intros nv ? <-.
    rewrite (has_mk r r_inj idv). destruct (has vals o); [|exact I].
    rewrite (upd_mk r r_inj idv). apply IH.
  Qed.

  Lemma process_banks_ren : forall banks vals,
    Rres vrel (process_banks vals banks) (process_banks (mkv vals) (map (rename_bank r) banks)).
  Proof.
    induction banks as [|b banks IH]; intros vals; cbn [map process_banks]; [reflexivity|].
    unfold rename_bank at 1 2 3 4. cbn [b_stall b_bubble b_defaults b_signals].
    apply (Rres_bind eq vrel _ _ _ _ (get_value_ren vals (b_stall b))). intros st ? <-.
    apply (Rres_bind eq vrel _ _ _ _ (get_value_ren vals (b_bubble b))). intros bu ? <-.
    apply (Rres_bind vrel vrel).
    - destruct (is_true bu); [apply set_defaults_ren|].
      destruct (negb (is_true st)); [apply copy_signals_ren | reflexivity].
    - intros v1 v1' ->. apply IH.
  Qed.

  Definition srel (s s' : mstate) : Prop := s' = RS s.

  Lemma step_ren f o p s :
    Rres st_rel (step f o p s) (step f o (rename_program r p) (RS s)).
  Proof.
    unfold step. cbn [rename_program p_actions p_banks].
    apply (Rres_bind st_rel st_rel _ _ _ _ (exec_actions_ren f o (p_actions p) s)). intros x x' Hx.
    unfold st_rel in Hx. rewrite Hx.
    assert (Ht1 : exists t, (if o_show_wire_values o then dump_values o p (values (fst x)) else Ok ""%string) = Ok t).
    { destruct (o_show_wire_values o); [apply table_total_holds | eexists; reflexivity]. }
    assert (Ht2 : exists t, (if o_show_wire_values o
                             then dump_values o (rename_program r p) (values (RS (fst x))) else Ok ""%string) = Ok t).
    { destruct (o_show_wire_values o); [apply table_total_holds | eexists; reflexivity]. }
    destruct Ht1 as [t1 ->]. destruct Ht2 as [t2 ->]. cbn [bind].
    rewrite rename_state_values.
    apply (Rres_bind vrel st_rel _ _ _ _ (process_banks_ren (p_banks p) (values (fst x)))). intros v2 v2' ->.
    unfold st_rel. cbn [fst Rres]. reflexivity.
  Qed.

  Lemma iter_step_ren f o p : forall n s,
    Rres srel (iter_step n f o p s) (iter_step n f o (rename_program r p) (RS s)).
  Proof.
    induction n as [|n IH]; intros s; cbn [iter_step]; [reflexivity|].
    apply (Rres_bind st_rel srel _ _ _ _ (step_ren f o p s)). intros x x' Hx. unfold st_rel in Hx.
    rewrite Hx. apply IH.
  Qed.

  (* ---- the initial state ----------------------------------------------------------------------------- *)
  Lemma init_signals_ren dfl : forall sigs vals,
    Rres vrel (init_signals vals dfl sigs)
         (init_signals (mkv vals) (mkv dfl) (map (fun sg => (r (fst (fst sg)), r (snd (fst sg)), snd sg)) sigs)).
  Proof.
    induction sigs as [|[[i o] w] sigs IH]; intros vals; cbn [map init_signals fst snd]; [reflexivity|].
    rewrite (lookup_mk r r_inj idv). destruct (lookup dfl o) as [d|]; cbn [option_map]; [|exact I].
    rewrite !(upd_mk r r_inj idv). apply IH.
  Qed.

  Lemma init_banks_ren : forall banks vals,
    Rres vrel (init_banks vals banks) (init_banks (mkv vals) (map (rename_bank r) banks)).
  Proof.
    induction banks as [|b banks IH]; intros vals; cbn [map init_banks]; [reflexivity|].
    unfold rename_bank at 1 2 3 4. cbn [b_stall b_bubble b_defaults b_signals].
    apply (Rres_bind vrel vrel _ _ _ _ (init_signals_ren (b_defaults b) (b_signals b) vals)). intros v1 v1' ->.
    rewrite !(upd_mk r r_inj idv). apply IH.
  Qed.

  Lemma initial_state_ren p : Rres srel (initial_state p) (initial_state (rename_program r p)).
  Proof.
    unfold initial_state. cbn [rename_program p_consts p_banks].
    apply (Rres_bind vrel srel _ _ _ _ (init_banks_ren (p_banks p) (p_consts p))). intros v v' ->. reflexivity.
  Qed.
End GlobalRun.

(* ====================================================================================== *)
(* Part 5: from "injective on the relevant names" to "injective on all names"              *)
(* ====================================================================================== *)
Open Scope string_scope.

Fixpoint pad (n : nat) : string := match n with O => "" | S k => String "!"%char (pad k) end.

Lemma length_pad n : String.length (pad n) = n.
Proof. induction n as [|n IH]; cbn [pad String.length]; [reflexivity | rewrite IH; reflexivity]. Qed.

Lemma sapp_inj_l p : forall a b, p ++ a = p ++ b -> a = b.
Proof. induction p as [|c p IH]; intros a b H; cbn [append] in H; [exact H|]. injection H as H. apply IH. exact H. Qed.

Definition maxlen (l : list string) : nat := fold_right (fun s m => Nat.max (String.length s) m) O l.

Lemma maxlen_le l s : In s l -> (String.length s <= maxlen l)%nat.
Proof.
  induction l as [|x l IH]; intros H; [destruct H|]. cbn [maxlen fold_right]. fold (maxlen l).
  destruct H as [<-|H]; [lia|]. apply IH in H. lia.
Qed.

(* r on the names of S, a fresh injective padding elsewhere *)
Definition ext (r : string -> string) (S : list string) (k : nat) (x : string) : string :=
  if mem_str x S then r x else pad (k + Datatypes.S (maxlen (map r S))) ++ x.

Lemma ext_agree r S k x : In x S -> ext r S k x = r x.
Proof. intros H. unfold ext. apply mem_str_In in H. rewrite H. reflexivity. Qed.

Lemma ext_out r S k x : ~ In x S -> ext r S k x = pad (k + Datatypes.S (maxlen (map r S))) ++ x.
Proof. intros H. unfold ext. apply mem_str_false in H. rewrite H. reflexivity. Qed.

Lemma ext_inj r S k :
  (forall a b, In a S -> In b S -> r a = r b -> a = b) -> forall a b, ext r S k a = ext r S k b -> a = b.
Proof.
  intros Hinj a b H. unfold ext in H.
  destruct (mem_str a S) eqn:Ea, (mem_str b S) eqn:Eb.
  - apply mem_str_In in Ea, Eb. apply Hinj; assumption.
  - apply mem_str_In in Ea. exfalso.
    assert (Hl : (String.length (r a) <= maxlen (map r S))%nat) by (apply maxlen_le, in_map, Ea).
    rewrite H, sapp_length, length_pad in Hl. lia.
  - apply mem_str_In in Eb. exfalso.
    assert (Hl : (String.length (r b) <= maxlen (map r S))%nat) by (apply maxlen_le, in_map, Eb).
    rewrite <- H, sapp_length, length_pad in Hl. lia.
  - apply sapp_inj_l in H. exact H.
Qed.

Lemma ext_differ r S x : ext r S 0 x = ext r S 1 x -> In x S.
Proof.
  intros H. destruct (mem_str x S) eqn:E; [apply mem_str_In; exact E|]. exfalso.
  unfold ext in H. rewrite E in H. apply (f_equal String.length) in H.
  rewrite !sapp_length, !length_pad in H. lia.
Qed.

Close Scope string_scope.

(* ---- two renamings that agree on the names of an object rename it alike, and conversely ---------- *)
Lemma map_agree {A B} (g1 g2 : A -> B) (l : list A) : (forall x, In x l -> g1 x = g2 x) <-> map g1 l = map g2 l.
Proof.
  induction l as [|x l IH]; cbn [map]; [split; [reflexivity | intros _ y []]|]. split.
  - intros H. rewrite (H x (or_introl eq_refl)). f_equal. apply IH. intros y Hy. apply H. right. exact Hy.
  - intros H. injection H as H1 H2. intros y [<-|Hy]; [exact H1 | apply (proj2 IH H2 y Hy)].
Qed.

Section Agree.
  Variables r1 r2 : string -> string.
  Definition agree (l : list string) : Prop := forall n, In n l -> r1 n = r2 n.

  Lemma agree_app a b : agree (a ++ b) <-> agree a /\ agree b.
  Proof.
    unfold agree. split.
    - intros H. split; intros n Hn; apply H; apply in_or_app; [left | right]; exact Hn.
    - intros [Ha Hb] n Hn. apply in_app_iff in Hn. destruct Hn; [apply Ha | apply Hb]; assumption.
  Qed.

  Lemma agree_cons x l : agree (x :: l) <-> r1 x = r2 x /\ agree l.
  Proof.
    unfold agree. split.
    - intros H. split; [apply H; left; reflexivity | intros n Hn; apply H; right; exact Hn].
    - intros [Hx Hl] n [<-|Hn]; [exact Hx | apply Hl; exact Hn].
  Qed.

  Lemma agree_nil : agree [].
  Proof. intros n []. Qed.

  Lemma agree_map l : agree l <-> map r1 l = map r2 l.
  Proof. apply map_agree. Qed.

  Lemma rename_expr_agree_all :
    (forall e, agree (refs e) <-> rename_expr r1 e = rename_expr r2 e) /\
    (forall a, agree (refs_arms a) <-> rename_arms r1 a = rename_arms r2 a) /\
    (forall items, agree (refs_items items) <-> rename_exprs r1 items = rename_exprs r2 items).
  Proof.
    apply expr_arms_exprs_ind.
    - intros v. split; [reflexivity | intros _; apply agree_nil].
    - intros op l IHl x IHx. rewrite refs_bin, agree_app, IHl, IHx, !rename_bin. split.
      + intros [-> ->]. reflexivity.
      + intros H. injection H as H1 H2. split; assumption.
    - intros op e IHe. rewrite !rename_un. cbn [refs]. rewrite IHe. split; [intros ->; reflexivity|].
      intros H. injection H as H. exact H.
    - intros a IHa. rewrite refs_mux, !rename_mux, IHa. split; [intros ->; reflexivity|].
      intros H. injection H as H. exact H.
    - intros n. rewrite !rename_wire. cbn [refs]. rewrite agree_cons. split.
      + intros [-> _]. reflexivity.
      + intros H. injection H as H. split; [exact H | apply agree_nil].
    - intros e IHe lo hi. rewrite !rename_slice. cbn [refs]. rewrite IHe. split; [intros ->; reflexivity|].
      intros H. injection H as H. exact H.
    - intros l IHl x IHx. rewrite refs_cat, agree_app, IHl, IHx, !rename_cat. split.
      + intros [-> ->]. reflexivity.
      + intros H. injection H as H1 H2. split; assumption.
    - intros e IHe items IHi. rewrite refs_in, agree_app, IHe, IHi, !rename_in. split.
      + intros [-> ->]. reflexivity.
      + intros H. injection H as H1 H2. split; assumption.
    - split; [reflexivity | intros _; apply agree_nil].
    - intros c IHc v IHv rest IHr. rewrite refs_arms_cons, !agree_app, IHc, IHv, IHr, !rename_arms_cons. split.
      + intros [-> [-> ->]]. reflexivity.
      + intros H. injection H as H1 H2 H3. repeat split; assumption.
    - split; [reflexivity | intros _; apply agree_nil].
    - intros e IHe rest IHr. rewrite refs_items_cons, agree_app, IHe, IHr, !rename_exprs_cons. split.
      + intros [-> ->]. reflexivity.
      + intros H. injection H as H1 H2. split; assumption.
  Qed.

  Lemma rename_expr_agree e : agree (refs e) <-> rename_expr r1 e = rename_expr r2 e.
  Proof. apply (proj1 rename_expr_agree_all). Qed.

  Lemma agree_flat_map {X} (g : X -> list string) (l : list X) :
    agree (flat_map g l) <-> forall x, In x l -> agree (g x).
  Proof.
    unfold agree. split.
    - intros H x Hx n Hn. apply H. apply in_flat_map. exists x. split; assumption.
    - intros H n Hn. apply in_flat_map in Hn. destruct Hn as [x [Hx Hn]]. apply (H x Hx n Hn).
  Qed.

  Lemma rename_stmt_agree q x : agree (stmt_mentions x) -> rename_stmt r1 q x = rename_stmt r2 q x.
  Proof.
    destruct x as [d|d|a|name regs]; cbn [stmt_mentions rename_stmt]; intros H; f_equal.
    - apply map_agree. intros [n e] Hin. cbn [fst snd].
      rewrite agree_flat_map in H. specialize (H _ Hin). cbn [fst snd] in H. apply agree_cons in H.
      destruct H as [-> H]. apply rename_expr_agree in H. rewrite H. reflexivity.
    - apply map_agree. intros [n w] Hin. cbn [fst snd]. rewrite (H n); [reflexivity|].
      apply in_map_iff. exists (n, w). split; [reflexivity | exact Hin].
    - apply map_agree. intros [ns e] Hin. cbn [fst snd].
      rewrite agree_flat_map in H. specialize (H _ Hin). cbn [fst snd] in H. apply agree_app in H.
      destruct H as [H1 H2]. apply agree_map in H1. apply rename_expr_agree in H2. rewrite H1, H2. reflexivity.
    - apply map_agree. intros [[rn w] e] Hin. cbn [fst snd].
      rewrite agree_flat_map in H. specialize (H _ Hin). cbn [fst snd] in H.
      apply rename_expr_agree in H. rewrite H. reflexivity.
  Qed.

  (* ---- programs ----------------------------------------------------------------------------------- *)
  Definition action_names (a : action) : list string :=
    match a with
    | AAssign n e _ => n :: refs e
    | AReadReg num outp => [num; outp]
    | AReadMemory en addr outp _ _ => opt_list en ++ [addr; outp]
    | AWriteReg num inp => [num; inp]
    | AWriteMemory en addr inp _ => opt_list en ++ [addr; inp]
    | ASetStatus w => [w]
    end.

  Lemma agree_opt en : agree (opt_list en) <-> option_map r1 en = option_map r2 en.
  Proof.
    destruct en as [w|]; cbn [opt_list option_map].
    - rewrite agree_cons. split; [intros [-> _]; reflexivity | intros H; injection H as H; split; [exact H | apply agree_nil]].
    - split; [reflexivity | intros _; apply agree_nil].
  Qed.

  Lemma rename_action_agree a : agree (action_names a) <-> rename_action r1 a = rename_action r2 a.
  Proof.
    destruct a as [n e w|num outp|en addr outp nb ins|num inp|en addr inp nb|w]; cbn [action_names rename_action].
    - rewrite agree_cons, rename_expr_agree. split; [intros [-> ->]; reflexivity|].
      intros H. injection H as H1 H2. split; assumption.
    - rewrite !agree_cons. split; [intros [-> [-> _]]; reflexivity|].
      intros H. injection H as H1 H2. repeat split; try assumption. apply agree_nil.
    - rewrite agree_app, agree_opt, !agree_cons. split; [intros [-> [-> [-> _]]]; reflexivity|].
      intros H. injection H as H1 H2 H3. repeat split; try assumption. apply agree_nil.
    - rewrite !agree_cons. split; [intros [-> [-> _]]; reflexivity|].
      intros H. injection H as H1 H2. repeat split; try assumption. apply agree_nil.
    - rewrite agree_app, agree_opt, !agree_cons. split; [intros [-> [-> [-> _]]]; reflexivity|].
      intros H. injection H as H1 H2 H3. repeat split; try assumption. apply agree_nil.
    - rewrite agree_cons. split; [intros [-> _]; reflexivity|].
      intros H. injection H as H. split; [exact H | apply agree_nil].
  Qed.

  Lemma rename_keys_agree {V} (m : list (string * V)) : agree (map fst m) <-> rename_keys r1 m = rename_keys r2 m.
  Proof.
    unfold rename_keys. rewrite <- map_agree. unfold agree. split.
    - intros H [k v] Hin. cbn [fst snd]. rewrite (H k); [reflexivity|].
      apply in_map_iff. exists (k, v). split; [reflexivity | exact Hin].
    - intros H n Hn. apply in_map_iff in Hn. destruct Hn as [[k v] [<- Hin]]. specialize (H _ Hin).
      cbn [fst snd] in H. injection H as H. exact H.
  Qed.

  Definition bank_all_names (b : bank) : list string :=
    flat_map (fun sg => [fst (fst sg); snd (fst sg)]) (b_signals b) ++ map fst (b_defaults b) ++
    [b_stall b; b_bubble b].

  Lemma rename_bank_agree b : agree (bank_all_names b) <-> rename_bank r1 b = rename_bank r2 b.
  Proof.
    unfold bank_all_names, rename_bank. rewrite !agree_app, agree_flat_map, rename_keys_agree, !agree_cons. split.
    - intros [H1 [H2 [H3 [H4 _]]]]. rewrite H2, H3, H4. f_equal.
      apply map_agree. intros [[i o] w] Hin. specialize (H1 _ Hin). cbn [fst snd] in *.
      apply agree_cons in H1. destruct H1 as [-> H1]. apply agree_cons in H1. destruct H1 as [-> _]. reflexivity.
    - intros H. injection H as H1 H2 H3 H4. split; [|split; [exact H2 | split; [exact H3 | split; [exact H4 | apply agree_nil]]]].
      intros [[i o] w] Hin. apply (proj2 (map_agree _ _ _) H1) in Hin. cbn [fst snd] in *. injection Hin as Hi Ho.
      apply agree_cons. split; [exact Hi|]. apply agree_cons. split; [exact Ho | apply agree_nil].
  Qed.

  Definition prog_names (p : program) : list string :=
    map fst (p_consts p) ++ flat_map action_names (p_actions p) ++ flat_map bank_all_names (p_banks p) ++
    p_defaulted p ++ map fst (p_types p).

  Lemma rename_program_agree p : agree (prog_names p) <-> rename_program r1 p = rename_program r2 p.
  Proof.
    unfold prog_names, rename_program. rewrite !agree_app, !agree_flat_map, !rename_keys_agree, agree_map. split.
    - intros [H1 [H2 [H3 [H4 H5]]]]. rewrite H1, H4, H5. f_equal.
      + apply map_agree. intros a Ha. apply rename_action_agree. apply H2. exact Ha.
      + apply map_agree. intros b Hb. apply rename_bank_agree. apply H3. exact Hb.
    - intros H. injection H as H1 H2 H3 H4 H5. split; [exact H1|]. split; [|split; [|split; assumption]].
      + intros a Ha. apply rename_action_agree. apply (proj2 (map_agree _ _ _) H2 a Ha).
      + intros b Hb. apply rename_bank_agree. apply (proj2 (map_agree _ _ _) H3 b Hb).
  Qed.

  (* ---- diagnostics --------------------------------------------------------------------------------- *)
  Definition err_wire_names (e : err) : list string :=
    match ek e with
    | DuplicateRegister | MismatchedRegisterDefaultWidths | InvalidRegisterBankName | PartialFixedInput => []
    | _ => enames e
    end.

  Lemma rename_err_agree q e : agree (err_wire_names e) <-> rename_err r1 q e = rename_err r2 q e.
  Proof.
    destruct e as [k names]. unfold err_wire_names, rename_err. cbn [ek enames].
    destruct k; cbn [rename_err_names];
      try (split; [reflexivity | intros _; apply agree_nil]);
      rewrite agree_map; (split; [intros ->; reflexivity | intros H; injection H as H; exact H]).
  Qed.

  Definition result_names (x : result program) : list string :=
    match x with Ok p => prog_names p | Err es => flat_map err_wire_names es end.

  Lemma rename_build_result_agree q x :
    agree (result_names x) <-> rename_build_result r1 q x = rename_build_result r2 q x.
  Proof.
    destruct x as [p|es]; cbn [result_names rename_build_result].
    - rewrite rename_program_agree. split; [intros ->; reflexivity | intros H; congruence].
    - rewrite agree_flat_map. split.
      + intros H. f_equal. apply map_agree. intros e He. apply rename_err_agree. apply H. exact He.
      + intros H e He. injection H as H. apply (proj2 (rename_err_agree q e)). apply (proj2 (map_agree _ _ _) H e He).
  Qed.
End Agree.

Lemma rename_expr_id_all :
  (forall e, rename_expr (fun x => x) e = e) /\
  (forall a, rename_arms (fun x => x) a = a) /\
  (forall items, rename_exprs (fun x => x) items = items).
Proof.
  apply expr_arms_exprs_ind; intros; ren_unfold; cbn beta; try reflexivity; congruence.
Qed.

Lemma rename_action_id a : rename_action (fun x => x) a = a.
Proof.
  destruct a as [n e w|num outp|en addr outp nb ins|num inp|en addr inp nb|w]; cbn [rename_action];
    rewrite ?(proj1 rename_expr_id_all); try reflexivity; destruct en; reflexivity.
Qed.

Lemma rename_action_fixed r a : (forall n, In n (action_names a) -> r n = n) -> rename_action r a = a.
Proof.
  intros H. rewrite <- (rename_action_id a) at 2. apply rename_action_agree. exact H.
Qed.

(* the component table of the compiled code: its actions and enable signals only mention its wires *)
Lemma gen_action_names_fixed ff n :
  In ff gen_fixed -> In n (action_names (ff_action ff)) -> In n (fixed_all_names gen_fixed).
Proof.
  assert (H : forallb (fun ff => forallb (fun n => mem_str n (fixed_all_names gen_fixed))
                                        (action_names (ff_action ff))) gen_fixed = true)
    by (vm_compute; reflexivity).
  intros Hff Hn. rewrite forallb_forall in H. specialize (H ff Hff). rewrite forallb_forall in H.
  apply mem_str_In. apply H. exact Hn.
Qed.

Lemma gen_enable_fixed ff en :
  In ff gen_fixed -> ff_enable ff = Some en -> In en (fixed_all_names gen_fixed).
Proof.
  assert (H : forallb (fun ff => match ff_enable ff with
                                 | Some en => mem_str en (fixed_all_names gen_fixed)
                                 | None => true
                                 end) gen_fixed = true)
    by (vm_compute; reflexivity).
  intros Hff Hen. rewrite forallb_forall in H. specialize (H ff Hff). rewrite Hen in H.
  apply mem_str_In. exact H.
Qed.

Section Reduce.
  Variables r q : string -> string.
  Variable stmts : list stmt.
  Hypothesis Hcons : consistent_renaming r q gen_fixed stmts.

  Let S := relevant_names gen_fixed stmts.
  Let rk (k : nat) := ext r S k.

  Lemma rk_agree k n : In n S -> rk k n = r n.
  Proof. apply ext_agree. Qed.

  Lemma rk_inj k : forall a b, rk k a = rk k b -> a = b.
  Proof. apply ext_inj. apply (proj1 Hcons). Qed.

  Lemma fixed_in_S n : In n (fixed_all_names gen_fixed) -> In n S.
  Proof. intros H. unfold S, relevant_names. apply in_or_app. left. exact H. Qed.

  Lemma mentions_in_S x n : In x stmts -> In n (stmt_mentions x) -> In n S.
  Proof.
    intros Hx Hn. unfold S, relevant_names. apply in_or_app. right. apply in_or_app. left.
    apply in_flat_map. exists x. split; assumption.
  Qed.

  Lemma signals_in_S x n : In x stmts -> In n (bank_signals_of x) -> In n S.
  Proof.
    intros Hx Hn. unfold S, relevant_names. apply in_or_app. right. apply in_or_app. right.
    apply in_flat_map. exists x. split; assumption.
  Qed.

  Lemma rk_fix k n : In n (fixed_names gen_fixed) -> rk k n = n.
  Proof.
    intros H. rewrite fixed_names_all in H. rewrite (rk_agree k n (fixed_in_S n H)).
    apply (proj1 (proj2 Hcons)). exact H.
  Qed.

  Lemma rk_act k ff : In ff gen_fixed -> rename_action (rk k) (ff_action ff) = ff_action ff.
  Proof.
    intros Hff. apply rename_action_fixed. intros n Hn. apply rk_fix. rewrite fixed_names_all.
    apply (gen_action_names_fixed ff n Hff Hn).
  Qed.

  Lemma rk_en k ff en : In ff gen_fixed -> ff_enable ff = Some en -> rk k en = en.
  Proof.
    intros Hff He. apply rk_fix. rewrite fixed_names_all. apply (gen_enable_fixed ff en Hff He).
  Qed.

  Lemma rk_compat k x : In x stmts -> bank_compatible (rk k) q x.
  Proof.
    intros Hx. pose proof (proj2 (proj2 Hcons) x Hx) as Hc.
    destruct x as [d|d|a|name regs]; cbn [bank_compatible] in *; try exact I.
    pose proof (signals_in_S (SBank name regs)) as HS. cbn [bank_signals_of] in HS.
    destruct (utf8_chars name "") as [|inp [|outp [|c l]]]; try exact I.
    destruct Hc as [Hst [Hbu Hregs]].
    split; [|split].
    - rewrite rk_agree; [exact Hst|]. apply (HS _ Hx). left. reflexivity.
    - rewrite rk_agree; [exact Hbu|]. apply (HS _ Hx). right. left. reflexivity.
    - intros y Hy. destruct (Hregs y Hy) as [Hi Ho]. split.
      + rewrite rk_agree; [exact Hi|]. apply (HS _ Hx). right. right. apply in_flat_map. exists y.
        split; [exact Hy | left; reflexivity].
      + rewrite rk_agree; [exact Ho|]. apply (HS _ Hx). right. right. apply in_flat_map. exists y.
        split; [exact Hy | right; left; reflexivity].
  Qed.

  Lemma stmts_rk k : map (rename_stmt r q) stmts = map (rename_stmt (rk k) q) stmts.
  Proof.
    apply map_agree. intros x Hx. apply rename_stmt_agree. intros n Hn.
    symmetry. apply rk_agree. apply (mentions_in_S x n Hx Hn).
  Qed.

  Lemma build_rk f il iu k :
    build_program f gen_fixed il iu (map (rename_stmt r q) stmts) =
    rename_build_result (rk k) q (build_program f gen_fixed il iu stmts).
  Proof.
    rewrite (stmts_rk k).
    apply (build_program_ren (rk k) q (rk_inj k) f gen_fixed il iu (rk_fix k) (rk_act k) (rk_en k) stmts).
    intros x Hx. apply rk_compat. exact Hx.
  Qed.

  (* every name of what Program::new returns is a relevant name *)
  Lemma result_names_in_S f il iu n :
    In n (result_names (build_program f gen_fixed il iu stmts)) -> In n S.
  Proof.
    intros Hn. apply (ext_differ r S n).
    assert (H : rename_build_result (rk 0) q (build_program f gen_fixed il iu stmts) =
                rename_build_result (rk 1) q (build_program f gen_fixed il iu stmts))
      by (rewrite <- !build_rk; reflexivity).
    apply rename_build_result_agree in H. apply (H n Hn).
  Qed.

  Lemma build_r f il iu :
    build_program f gen_fixed il iu (map (rename_stmt r q) stmts) =
    rename_build_result r q (build_program f gen_fixed il iu stmts).
  Proof.
    rewrite (build_rk f il iu 0). apply rename_build_result_agree. intros n Hn.
    apply rk_agree. apply (result_names_in_S f il iu n Hn).
  Qed.
End Reduce.

Theorem rename_acceptance_holds : stmt_rename_acceptance.
Proof. intros f il iu r q stmts Hc. apply build_r. exact Hc. Qed.

(* ====================================================================================== *)
(* Part 6: running the renamed program                                                      *)
(* ====================================================================================== *)
Lemma written_in_action_names a w : written a = Some w -> In w (action_names a).
Proof.
  destruct a as [n e w0|num outp|en addr outp nb ins|num inp|en addr inp nb|w0]; cbn [written action_names];
    intros H; try discriminate H; injection H as <-.
  - left. reflexivity.
  - right. left. reflexivity.
  - apply in_or_app. right. right. left. reflexivity.
Qed.

Lemma keys_in_prog_names p s k : keys_inv p s -> In k (map fst (values s)) -> In k (prog_names p).
Proof.
  intros [_ H] Hk. apply H in Hk. unfold prog_names. destruct Hk as [Hk|[Hk|Hk]].
  - apply in_or_app. left. exact Hk.
  - apply in_or_app. right. apply in_or_app. right. apply in_or_app. left.
    unfold bank_signal_names in Hk. apply in_flat_map in Hk. destruct Hk as [b [Hb Hk]].
    apply in_flat_map. exists b. split; [exact Hb|]. unfold bank_all_names.
    apply in_app_iff in Hk. destruct Hk as [Hk|Hk].
    + apply in_or_app. left. exact Hk.
    + apply in_or_app. right. apply in_or_app. right. destruct Hk as [<-|[<-|[]]]; [right; left | left]; reflexivity.
  - apply in_or_app. right. apply in_or_app. left.
    unfold written_names in Hk. apply in_flat_map in Hk. destruct Hk as [a [Ha Hk]].
    apply in_flat_map. exists a. split; [exact Ha|].
    destruct (written a) as [w|] eqn:Ew; [|destruct Hk]. destruct Hk as [<-|[]].
    apply written_in_action_names. exact Ew.
Qed.

Lemma iter_step_keys_inv f o p : forall n s s', keys_inv p s -> iter_step n f o p s = Ok s' -> keys_inv p s'.
Proof.
  induction n as [|n IH]; intros s s' Hk H; cbn [iter_step] in H; [injection H as <-; exact Hk|].
  destruct (step f o p s) as [[s1 t]|es] eqn:Es; cbn [bind fst] in H; [|discriminate H].
  apply (IH s1 s'); [|exact H]. apply (keys_inv_step_holds f o p s s1 t Hk Es).
Qed.

Section Simulate.
  Variables r q : string -> string.
  Variable stmts : list stmt.
  Hypothesis Hcons : consistent_renaming r q gen_fixed stmts.
  Variables (f : features) (il iu : string -> bool) (p : program).
  Hypothesis Hbuild : build_program f gen_fixed il iu stmts = Ok p.

  Let S := relevant_names gen_fixed stmts.
  Let r0 := ext r S 0.

  Lemma r0_inj : forall a b, r0 a = r0 b -> a = b.
  Proof. apply ext_inj. apply (proj1 Hcons). Qed.

  Lemma prog_names_in_S n : In n (prog_names p) -> In n S.
  Proof.
    intros Hn. apply (result_names_in_S r q stmts Hcons f il iu n). rewrite Hbuild. exact Hn.
  Qed.

  Lemma program_r0 : rename_program r0 p = rename_program r p.
  Proof.
    apply rename_program_agree. intros n Hn. apply ext_agree. apply prog_names_in_S. exact Hn.
  Qed.

  Lemma state_r0 s : keys_inv p s -> rename_state r0 s = rename_state r s.
  Proof.
    intros Hk. unfold rename_state. f_equal. apply rename_keys_agree. intros n Hn.
    apply ext_agree. apply prog_names_in_S. apply (keys_in_prog_names p s n Hk Hn).
  Qed.

  Lemma initial_sim : same_run r (initial_state p) (initial_state (rename_program r p)).
  Proof.
    pose proof (initial_state_ren r0 r0_inj p) as H. rewrite program_r0 in H.
    destruct (initial_state p) as [s0|es] eqn:E0, (initial_state (rename_program r p)) as [s0'|es'];
      cbn [Rres same_run] in *; try exact H.
    unfold srel in H. rewrite H. apply state_r0. apply (keys_inv_initial_holds p s0 E0).
  Qed.

  Lemma iter_sim o s0 n : initial_state p = Ok s0 ->
    same_run r (iter_step n f o p s0) (iter_step n f o (rename_program r p) (rename_state r s0)).
  Proof.
    intros E0. pose proof (keys_inv_initial_holds p s0 E0) as Hk0.
    pose proof (iter_step_ren r0 r0_inj f o p n s0) as H. rewrite program_r0, (state_r0 s0 Hk0) in H.
    destruct (iter_step n f o p s0) as [s|es] eqn:E,
             (iter_step n f o (rename_program r p) (rename_state r s0)) as [s'|es'];
      cbn [Rres same_run] in *; try exact H.
    unfold srel in H. rewrite H. apply state_r0. apply (iter_step_keys_inv f o p n s0 s Hk0 E).
  Qed.

  Lemma lookup_r (vals : list (string * wval)) k : In k S -> (forall x, In x (map fst vals) -> In x S) ->
    lookup (rename_keys r vals) (r k) = lookup vals k.
  Proof.
    intros Hk Hkeys.
    assert (E1 : rename_keys r vals = rename_keys r0 vals).
    { apply rename_keys_agree. intros n Hn. symmetry. apply ext_agree. apply Hkeys. exact Hn. }
    rewrite E1, <- (ext_agree r S 0 k Hk). fold r0. rewrite rename_keys_mk, (lookup_mk r0 r0_inj).
    destruct (lookup vals k); reflexivity.
  Qed.
End Simulate.

Theorem rename_simulation_holds : stmt_rename_simulation.
Proof.
  intros f il iu o r q stmts p Hc Hb. split.
  - apply (initial_sim r q stmts Hc f il iu p Hb).
  - intros s0 n E0. apply (iter_sim r q stmts Hc f il iu p Hb o s0 n E0).
Qed.

Theorem rename_wire_values_holds : stmt_rename_wire_values.
Proof.
  intros f il iu o r q stmts p s0 n s Hc Hb E0 En.
  pose proof (iter_sim r q stmts Hc f il iu p Hb o s0 n E0) as H. rewrite En in H.
  destruct (iter_step n f o (rename_program r p) (rename_state r s0)) as [s'|es]; cbn [same_run] in H; [|contradiction].
  exists s'. split; [reflexivity|]. subst s'. cbn [rename_state values mem regs last_status cycle].
  split; [|repeat split; reflexivity].
  intros k Hk. apply (lookup_r r q stmts Hc (values s) k Hk).
  intros x Hx. apply (prog_names_in_S r q stmts Hc f il iu p Hb).
  apply (keys_in_prog_names p s x); [|exact Hx].
  apply (iter_step_keys_inv f o p n s0 s (keys_inv_initial_holds p s0 E0) En).
Qed.

(* ====================================================================================== *)
(* Part 7: the state dump                                                                   *)
(* ====================================================================================== *)
Theorem dump_y86_as_id_holds : stmt_dump_y86_as_id.
Proof.
  assert (H1 : forall vals sigs loc, dump_bank_signals_as (fun x => x) vals sigs loc = dump_bank_signals vals sigs loc).
  { intros vals. induction sigs as [|[[i o] w] sigs IH]; intros loc; cbn [dump_bank_signals_as dump_bank_signals];
      [reflexivity|].
    destruct (get_value vals o) as [v|es]; cbn [bind]; [|reflexivity]. rewrite IH. reflexivity. }
  assert (H2 : forall vals b, dump_bank_as (fun x => x) vals b = dump_bank vals b).
  { intros vals b. unfold dump_bank_as, dump_bank. rewrite H1. reflexivity. }
  assert (H3 : forall vals bs, dump_bank_list_as (fun x => x) vals bs = dump_bank_list vals bs).
  { intros vals. induction bs as [|b bs IH]; cbn [dump_bank_list_as dump_bank_list]; [reflexivity|].
    rewrite H2, IH. reflexivity. }
  assert (H4 : forall vals banks ls, dump_banks_in_as (fun x => x) vals banks ls = dump_banks_in vals banks ls).
  { intros vals banks. induction ls as [|l ls IH]; cbn [dump_banks_in_as dump_banks_in]; [reflexivity|].
    rewrite H3, IH. reflexivity. }
  intros o p s. unfold dump_y86_as, dump_y86, dump_custom_registers_as, dump_custom_registers.
  rewrite !H4. reflexivity.
Qed.

Section GlobalDump.
  Variables r q : string -> string.
  Hypothesis r_inj : forall a b, r a = r b -> a = b.
  Notation idv := (fun v : wval => v).
  Notation mkv := (mk r idv).
  Notation RB := (rename_bank r).

  Definition sig_ok (sg : string * string * width) : Prop :=
    after_underscore (r (fst (fst sg))) = q (after_underscore (fst (fst sg))).
  Definition bank_ok (b : bank) : Prop :=
    r (b_stall b) = b_stall b /\ forall sg, In sg (b_signals b) -> sig_ok sg.

  Lemma dump_bank_signals_ren vals : forall sigs loc,
    (forall sg, In sg sigs -> sig_ok sg) ->
    Rres eq (dump_bank_signals_as q vals sigs loc)
         (dump_bank_signals (mkv vals) (map (fun sg => (r (fst (fst sg)), r (snd (fst sg)), snd sg)) sigs) loc).
  Proof.
    induction sigs as [|[[i o] w] sigs IH]; intros loc H; cbn [map dump_bank_signals_as dump_bank_signals fst snd];
      [reflexivity|].
    pose proof (H (i, o, w) (or_introl eq_refl)) as Hs. unfold sig_ok in Hs. cbn [fst snd] in Hs. rewrite Hs.
    apply (Rres_bind eq eq _ _ _ _ (get_value_ren r r_inj vals o)). intros v ? <-.
    apply (Rres_bind eq eq).
    - apply IH. intros sg Hsg. apply H. right. exact Hsg.
    - intros rest ? <-. reflexivity.
  Qed.

  Lemma dump_bank_ren vals b : bank_ok b -> Rres eq (dump_bank_as q vals b) (dump_bank (mkv vals) (RB b)).
  Proof.
    intros [_ Hs]. unfold dump_bank_as, dump_bank, rename_bank. cbn [b_label b_signals b_stall b_bubble].
    apply (Rres_bind eq eq _ _ _ _ (get_value_ren r r_inj vals (b_stall b))). intros st ? <-.
    apply (Rres_bind eq eq _ _ _ _ (get_value_ren r r_inj vals (b_bubble b))). intros bu ? <-.
    apply (Rres_bind eq eq _ _ _ _ (dump_bank_signals_ren vals (b_signals b) 18 Hs)). intros body ? <-.
    reflexivity.
  Qed.

  Lemma dump_bank_list_ren vals : forall bs, (forall b, In b bs -> bank_ok b) ->
    Rres eq (dump_bank_list_as q vals bs) (dump_bank_list (mkv vals) (map RB bs)).
  Proof.
    induction bs as [|b bs IH]; intros H; cbn [map dump_bank_list_as dump_bank_list]; [reflexivity|].
    apply (Rres_bind eq eq _ _ _ _ (dump_bank_ren vals b (H b (or_introl eq_refl)))). intros t ? <-.
    apply (Rres_bind eq eq).
    - apply IH. intros b0 Hb0. apply H. right. exact Hb0.
    - intros rest ? <-. reflexivity.
  Qed.

  Lemma bank_letter_ren b : bank_ok b -> bank_letter (RB b) = bank_letter b.
  Proof. intros [H _]. unfold bank_letter, rename_bank. cbn [b_stall]. rewrite H. reflexivity. Qed.

  Lemma banks_with_ren l : forall banks, (forall b, In b banks -> bank_ok b) ->
    banks_with (map RB banks) l = map RB (banks_with banks l).
  Proof.
    unfold banks_with. induction banks as [|b banks IH]; intros H; cbn [map filter]; [reflexivity|].
    rewrite (bank_letter_ren b (H b (or_introl eq_refl))), IH by (intros b0 Hb0; apply H; right; exact Hb0).
    destruct (String.eqb (bank_letter b) l); reflexivity.
  Qed.

  Lemma banks_with_ok banks l b : (forall b, In b banks -> bank_ok b) -> In b (banks_with banks l) -> bank_ok b.
  Proof. intros H Hb. unfold banks_with in Hb. apply filter_In in Hb. apply H. apply Hb. Qed.

  Lemma dump_banks_in_ren vals banks : (forall b, In b banks -> bank_ok b) -> forall ls,
    Rres eq (dump_banks_in_as q vals banks ls) (dump_banks_in (mkv vals) (map RB banks) ls).
  Proof.
    intros H. induction ls as [|l ls IH]; cbn [dump_banks_in_as dump_banks_in]; [reflexivity|].
    rewrite (banks_with_ren l banks H).
    apply (Rres_bind eq eq _ _ _ _ (dump_bank_list_ren vals (banks_with banks l) (fun b Hb => banks_with_ok banks l b H Hb))).
    intros t ? <-. apply (Rres_bind eq eq _ _ _ _ IH). intros rest ? <-. reflexivity.
  Qed.

  Lemma dump_custom_registers_ren vals banks : (forall b, In b banks -> bank_ok b) ->
    Rres eq (dump_custom_registers_as q vals banks) (dump_custom_registers (mkv vals) (map RB banks)).
  Proof.
    intros H. unfold dump_custom_registers_as, dump_custom_registers.
    assert (Hl : map bank_letter (map RB banks) = map bank_letter banks).
    { rewrite map_map. apply map_ext_in. intros b Hb. apply bank_letter_ren. apply H. exact Hb. }
    rewrite Hl.
    apply (Rres_bind eq eq _ _ _ _ (dump_banks_in_ren vals banks H fixed_letters)). intros t1 ? <-.
    apply (Rres_bind eq eq _ _ _ _ (dump_banks_in_ren vals banks H _)). intros t2 ? <-. reflexivity.
  Qed.

  Hypothesis r_stat : r "Stat"%string = "Stat"%string.

  Lemma status_ren s d : status_or_default (rename_state r s) d = status_or_default s d.
  Proof.
    unfold status_or_default. rewrite rename_state_values. rewrite <- r_stat at 1.
    rewrite (lookup_mk r r_inj idv). destruct (lookup (values s) "Stat"%string); reflexivity.
  Qed.

  Lemma dump_y86_ren o p s : (forall b, In b (p_banks p) -> bank_ok b) ->
    Rres eq (dump_y86_as q o p s) (dump_y86 o (rename_program r p) (rename_state r s)).
  Proof.
    intros H. unfold dump_y86_as, dump_y86.
    assert (Hh : halted (rename_state r s) = halted s) by (unfold halted; rewrite status_ren; reflexivity).
    assert (Ht : timed_out o (rename_state r s) = timed_out o s) by reflexivity.
    assert (Hd : done o (rename_state r s) = done o s) by (unfold done; rewrite !status_ren, Ht; reflexivity).
    assert (Hn : name_status y86_statuses (rename_state r s) = name_status y86_statuses s)
      by (unfold name_status; rewrite status_ren; reflexivity).
    rewrite Hh, Ht, Hd, Hn.
    change (cycle (rename_state r s)) with (cycle s). change (regs (rename_state r s)) with (regs s).
    change (mem (rename_state r s)) with (mem s). cbn [rename_program p_banks]. rewrite rename_state_values.
    apply (Rres_bind eq eq).
    - destruct (o_show_banks o); [apply dump_custom_registers_ren; exact H | reflexivity].
    - intros banks ? <-. reflexivity.
  Qed.
End GlobalDump.

(* ---- where the banks of an accepted program come from -------------------------------------------- *)
Open Scope string_scope.

Definition sig_from (inp outp : string) (regs : list (string * width * expr)) (sg : string * string * width) : Prop :=
  exists rn d, In (rn, snd sg, d) regs /\ fst (fst sg) = inp ++ "_" ++ rn /\ snd (fst sg) = outp ++ "_" ++ rn.

Definition bank_from (il : string -> bool) (decls : list (string * list (string * width * expr))) (b : bank) : Prop :=
  exists name regs inp outp,
    In (name, regs) decls /\ utf8_chars name "" = [inp; outp] /\ il inp = true /\
    b_stall b = "stall_" ++ outp /\ b_bubble b = "bubble_" ++ outp /\
    forall sg, In sg (b_signals b) -> sig_from inp outp regs sg.

Lemma fold_left_inv_in {A B} (P : A -> Prop) (g : A -> B -> A) (l : list B) :
  (forall a x, In x l -> P a -> P (g a x)) -> forall a, P a -> P (fold_left g l a).
Proof.
  induction l as [|x l IH]; intros H a Ha; cbn [fold_left]; [exact Ha|].
  apply IH; [intros a0 x0 Hx0; apply H; right; exact Hx0 | apply H; [left; reflexivity | exact Ha]].
Qed.

Section BankFrom.
  Variables (f : features) (il iu : string -> bool).

  Lemma step3_register_sigs s consts bn inp outp regs acc x :
    In x regs ->
    (forall sg, In sg (snd (fst acc)) -> sig_from inp outp regs sg) ->
    forall sg, In sg (snd (fst (step3_register f s consts bn inp outp acc x))) -> sig_from inp outp regs sg.
  Proof.
    intros Hx Hacc. destruct acc as [[t sigs] defaults]. destruct x as [[rn w] d]. cbn [fst snd] in Hacc.
    unfold step3_register. cbv beta iota zeta.
    match goal with
    | |- context [match ?pre with [] => _ | _ :: _ => _ end] => destruct pre as [|e0 pre0]
    end; [|exact Hacc].
    match goal with
    | |- context [check ?a ?b ?c ?d] => destruct (check a b c d) as [wc|esc]
    end; [|exact Hacc].
    destruct (eval f (lookup consts) d) as [v|es]; [|exact Hacc].
    cbn [fst snd]. intros sg Hsg. apply in_app_iff in Hsg. destruct Hsg as [Hsg|[<-|[]]]; [apply Hacc; exact Hsg|].
    exists rn, d. cbn [fst snd]. split; [exact Hx | split; reflexivity].
  Qed.

  Lemma step3_bank_from s consts t b :
    In b (s_banks s) ->
    (forall b0, In b0 (t_banks t) -> bank_from il (s_banks s) b0) ->
    forall b0, In b0 (t_banks (step3_bank f il iu s consts t b)) -> bank_from il (s_banks s) b0.
  Proof.
    intros Hb Ht. destruct b as [name regs]. unfold step3_bank.
    destruct (utf8_chars name "") as [|inp [|outp [|c l]]] eqn:Eu; cbn [t_banks]; try exact Ht.
    destruct (negb (il inp) || negb (iu outp)) eqn:Ecase; cbn [t_banks]; [exact Ht|].
    apply orb_false_iff in Ecase. destruct Ecase as [Ei _]. apply negb_false_iff in Ei.
    cbv zeta.
    match goal with
    | |- context [fold_left (step3_register f s consts name inp outp) regs ?a0] =>
        assert (Hf : (forall sg, In sg (snd (fst (fold_left (step3_register f s consts name inp outp) regs a0))) ->
                                 sig_from inp outp regs sg) /\
                     t_banks (fst (fst (fold_left (step3_register f s consts name inp outp) regs a0))) = t_banks t)
    end.
    { apply (fold_left_inv_in (fun a => (forall sg, In sg (snd (fst a)) -> sig_from inp outp regs sg) /\
                                        t_banks (fst (fst a)) = t_banks t)).
      - intros a x Hx [H1 H2]. split.
        + apply step3_register_sigs; assumption.
        + rewrite <- H2. apply (step3_register_keeps f s consts name inp outp a x).
      - cbn [fst snd t_banks]. split; [intros sg [] | reflexivity]. }
    match goal with
    | |- context [fold_left (step3_register f s consts name inp outp) regs ?a0] =>
        destruct (fold_left (step3_register f s consts name inp outp) regs a0) as [[t2 sigs] defaults]
    end.
    cbn [fst snd t_banks] in *. destruct Hf as [Hs Hk]. intros b0 Hb0. apply in_app_iff in Hb0.
    destruct Hb0 as [Hb0|[<-|[]]]; [apply Ht; rewrite <- Hk; exact Hb0|].
    exists name, regs, inp, outp. cbn [b_stall b_bubble b_signals].
    split; [exact Hb|]. split; [exact Eu|]. split; [exact Ei|]. split; [reflexivity|]. split; [reflexivity | exact Hs].
  Qed.

  Lemma T3_bank_from s consts b :
    In b (t_banks (fold_left (step3_bank f il iu s consts) (s_banks s) (mkSt3 [] [] (s_types s) [] [] []))) ->
    bank_from il (s_banks s) b.
  Proof.
    revert b.
    apply (fold_left_inv_in (fun t => forall b0, In b0 (t_banks t) -> bank_from il (s_banks s) b0)).
    - intros t x Hx Ht. apply step3_bank_from; assumption.
    - cbn [t_banks]. intros b0 [].
  Qed.
End BankFrom.

Lemma after_underscore_conts : forall conts x, all_cont conts = true -> after_underscore (conts ++ "_" ++ x) = x.
Proof.
  induction conts as [|c conts IH]; intros x H; cbn [append after_underscore].
  - reflexivity.
  - cbn [all_cont] in H. apply andb_true_iff in H. destruct H as [Hc H].
    unfold is_cont in Hc. apply andb_true_iff in Hc. destruct Hc as [Hc _].
    destruct (N_of_ascii c =? 95)%N eqn:E; [apply N.eqb_eq in E; rewrite E in Hc; discriminate Hc|].
    apply IH. exact H.
Qed.

Lemma after_underscore_sig il inp x :
  underscore_not_lower il -> il inp = true -> charform inp -> after_underscore (inp ++ "_" ++ x) = x.
Proof.
  intros Hu Hi [a [conts [-> Hc]]]. cbn [append after_underscore].
  destruct (N_of_ascii a =? 95)%N eqn:E.
  - exfalso. apply N.eqb_eq in E.
    assert (Ha : a = "_"%char) by (rewrite <- (ascii_N_embedding a), E; reflexivity).
    subst a. rewrite (Hu conts) in Hi. discriminate Hi.
  - apply after_underscore_conts. exact Hc.
Qed.

Close Scope string_scope.

Section DumpFinal.
  Variables r q : string -> string.
  Variable stmts : list stmt.
  Hypothesis Hcons : consistent_renaming r q gen_fixed stmts.
  Variables (f : features) (il iu : string -> bool) (p : program).
  Hypothesis Hbuild : build_program f gen_fixed il iu stmts = Ok p.
  Hypothesis Hil : underscore_not_lower il.

  Let S := relevant_names gen_fixed stmts.
  Let r0 := ext r S 0.

  Lemma banks_ok b : In b (p_banks p) -> bank_ok r0 q b.
  Proof.
    intros Hb.
    destruct (build_ok_inv f gen_fixed il iu stmts p Hbuild) as [_ [_ [_ [consts [_ [_ [_ [acts [_ Hp]]]]]]]]].
    rewrite Hp in Hb. cbn [p_banks] in Hb. apply T3_bank_from in Hb.
    destruct Hb as [name [regs [inp [outp [Hin [Eu [Hi [Hst [Hbu Hsigs]]]]]]]]].
    assert (Hx : In (SBank name regs) stmts) by (apply (S1_banks_in gen_fixed stmts (name, regs) Hin)).
    pose proof (rk_compat r q stmts Hcons 0 (SBank name regs) Hx) as Hc. cbn [bank_compatible] in Hc.
    rewrite Eu in Hc. destruct Hc as [Hs [_ Hregs]].
    assert (Hcf : charform inp).
    { pose proof (utf8_chars_charform name ""%string (or_introl eq_refl)) as Hf. rewrite Eu in Hf.
      inversion Hf; assumption. }
    split.
    - rewrite Hst. exact Hs.
    - intros sg Hsg. destruct (Hsigs sg Hsg) as [rn [d [Hreg [Hi1 _]]]].
      unfold sig_ok. rewrite Hi1. destruct (Hregs _ Hreg) as [Hr _]. cbn [fst snd] in Hr.
      unfold r0, S. rewrite Hr.
      rewrite !(after_underscore_sig il inp _ Hil Hi Hcf). reflexivity.
  Qed.

  Lemma stat_fixed : r0 "Stat"%string = "Stat"%string.
  Proof.
    assert (Hs : In "Stat"%string (fixed_names gen_fixed)) by (vm_compute; auto).
    apply (rk_fix r q stmts Hcons 0 _ Hs).
  Qed.

  Lemma dump_sim o s : keys_inv p s ->
    same_text (dump_y86_as q o p s) (dump_y86 o (rename_program r p) (rename_state r s)).
  Proof.
    intros Hk.
    pose proof (dump_y86_ren r0 q (r0_inj r q stmts Hcons) stat_fixed o p s banks_ok) as H.
    unfold r0, S in H.
    rewrite (program_r0 r q stmts Hcons f il iu p Hbuild), (state_r0 r q stmts Hcons f il iu p Hbuild s Hk) in H.
    destruct (dump_y86_as q o p s), (dump_y86 o (rename_program r p) (rename_state r s)); exact H.
  Qed.
End DumpFinal.

Theorem rename_dump_holds : stmt_rename_dump.
Proof.
  intros f il iu o r q stmts p s0 n s Hil Hc Hb E0 En.
  apply (dump_sim r q stmts Hc f il iu p Hb Hil o s).
  apply (iter_step_keys_inv f o p n s0 s (keys_inv_initial_holds p s0 E0) En).
Qed.

Theorem rename_dump_equal_holds : stmt_rename_dump_equal.
Proof.
  intros f il iu o r stmts p s0 n s Hil Hc Hb E0 En.
  rewrite <- dump_y86_as_id_holds. apply (rename_dump_holds f il iu o r (fun x => x) stmts p s0 n s Hil Hc Hb E0 En).
Qed.

(* ====================================================================================== *)
(* Part 8: a decision procedure for the side condition, examples, necessity                 *)
(* ====================================================================================== *)
Open Scope string_scope.

Definition inj_onb (r : string -> string) (l : list string) : bool :=
  forallb (fun a => forallb (fun b => implb (String.eqb (r a) (r b)) (String.eqb a b)) l) l.

Definition bank_compatibleb (r q : string -> string) (s : stmt) : bool :=
  match s with
  | SBank name regs =>
      match utf8_chars name "" with
      | [inp; outp] =>
          String.eqb (r ("stall_" ++ outp)) ("stall_" ++ outp) &&
          String.eqb (r ("bubble_" ++ outp)) ("bubble_" ++ outp) &&
          forallb (fun x => String.eqb (r (inp ++ "_" ++ fst (fst x))) (inp ++ "_" ++ q (fst (fst x))) &&
                            String.eqb (r (outp ++ "_" ++ fst (fst x))) (outp ++ "_" ++ q (fst (fst x)))) regs
      | _ => true
      end
  | _ => true
  end.

Definition consistent_renamingb (r q : string -> string) (fixed : list fixed_fn) (stmts : list stmt) : bool :=
  inj_onb r (relevant_names fixed stmts) &&
  forallb (fun n => String.eqb (r n) n) (fixed_all_names fixed) &&
  forallb (bank_compatibleb r q) stmts.

Lemma consistent_renamingb_sound r q fixed stmts :
  consistent_renamingb r q fixed stmts = true -> consistent_renaming r q fixed stmts.
Proof.
  unfold consistent_renamingb. intros H. apply andb_true_iff in H. destruct H as [H H3].
  apply andb_true_iff in H. destruct H as [H1 H2]. split; [|split].
  - intros a b Ha Hb E. unfold inj_onb in H1. rewrite forallb_forall in H1. specialize (H1 a Ha).
    rewrite forallb_forall in H1. specialize (H1 b Hb). rewrite E, String.eqb_refl in H1. cbn [implb] in H1.
    apply String.eqb_eq. exact H1.
  - intros n Hn. rewrite forallb_forall in H2. apply String.eqb_eq. apply H2. exact Hn.
  - intros s Hs. rewrite forallb_forall in H3. specialize (H3 s Hs).
    destruct s as [d|d|a|name regs]; cbn [bank_compatible bank_compatibleb] in *; try exact I.
    destruct (utf8_chars name "") as [|inp [|outp [|c l]]]; try exact I.
    apply andb_true_iff in H3. destruct H3 as [H3 H6]. apply andb_true_iff in H3. destruct H3 as [H4 H5].
    apply String.eqb_eq in H4, H5. split; [exact H4|]. split; [exact H5|].
    intros x Hx. rewrite forallb_forall in H6. specialize (H6 x Hx). apply andb_true_iff in H6.
    destruct H6 as [H6 H7]. apply String.eqb_eq in H6, H7. split; assumption.
Qed.

(* ---- a program with a register bank, renamed ------------------------------------------------------ *)
(* register xY { c : 4 = 1; } wire a : 4; a = Y_c + 1; x_c = a; Stat = [Y_c == 3 : 2; 1 : 1]; pc = 0; *)
Definition ex_stmts : list stmt :=
  [SBank "xY" [("c", Bits 4, EConst (mkV 1 Unl))];
   SWire [("a", Bits 4)];
   SAssign [(["a"], EBin Add (EWire "Y_c") (EConst (mkV 1 Unl)))];
   SAssign [(["x_c"], EWire "a")];
   SAssign [(["Stat"], EMux (ACons (EBin Equal (EWire "Y_c") (EConst (mkV 3 Unl))) (EConst (mkV 2 Unl))
                             (ACons (EConst (mkV 1 Unl)) (EConst (mkV 1 Unl)) ANil)))];
   SAssign [(["pc"], EConst (mkV 0 Unl))]].

(* a -> Alpha (differs from a possible "alpha" only in case: irrelevant), register c -> count *)
Definition ex_r (n : string) : string :=
  if String.eqb n "a" then "Alpha" else if String.eqb n "x_c" then "x_count"
  else if String.eqb n "Y_c" then "Y_count" else n.
Definition ex_q (n : string) : string := if String.eqb n "c" then "count" else n.

Example ex_consistent : consistent_renaming ex_r ex_q gen_fixed ex_stmts.
Proof. apply consistent_renamingb_sound. vm_compute. reflexivity. Qed.

Example ex_renamed :
  map (rename_stmt ex_r ex_q) ex_stmts =
  [SBank "xY" [("count", Bits 4, EConst (mkV 1 Unl))];
   SWire [("Alpha", Bits 4)];
   SAssign [(["Alpha"], EBin Add (EWire "Y_count") (EConst (mkV 1 Unl)))];
   SAssign [(["x_count"], EWire "Alpha")];
   SAssign [(["Stat"], EMux (ACons (EBin Equal (EWire "Y_count") (EConst (mkV 3 Unl))) (EConst (mkV 2 Unl))
                             (ACons (EConst (mkV 1 Unl)) (EConst (mkV 1 Unl)) ANil)))];
   SAssign [(["pc"], EConst (mkV 0 Unl))]].
Proof. vm_compute. reflexivity. Qed.

Example ex_accepted :
  exists p, build_program gen_features gen_fixed ascii_lower ascii_upper ex_stmts = Ok p /\
            build_program gen_features gen_fixed ascii_lower ascii_upper (map (rename_stmt ex_r ex_q) ex_stmts) =
            Ok (rename_program ex_r p) /\
            map (fun a => match a with AAssign n _ _ => n | _ => "" end) (p_actions p) =
            ["a"; "Stat"; "pc"; "x_c"; ""; ""].
Proof.
  destruct (build_program gen_features gen_fixed ascii_lower ascii_upper ex_stmts) as [p|es] eqn:E;
    [|vm_compute in E; discriminate E].
  exists p. split; [reflexivity|]. split.
  - rewrite (rename_acceptance_holds gen_features ascii_lower ascii_upper ex_r ex_q ex_stmts ex_consistent), E. reflexivity.
  - vm_compute in E. injection E as <-. reflexivity.
Qed.

(* three cycles: Y_c counts 1, 2, 3 then Stat = 2 (halt); the renamed run has the same values under
   the new names *)
Example ex_run :
  exists p s0 s,
    build_program gen_features gen_fixed ascii_lower ascii_upper ex_stmts = Ok p /\
    initial_state p = Ok s0 /\ iter_step 3 gen_features default_options p s0 = Ok s /\
    lookup (values s) "a" = Some (mkV 4 (Bits 4)) /\ lookup (values s) "Y_c" = Some (mkV 4 (Bits 4)) /\
    exists s', iter_step 3 gen_features default_options (rename_program ex_r p) (rename_state ex_r s0) = Ok s' /\
               lookup (values s') "Alpha" = Some (mkV 4 (Bits 4)) /\
               lookup (values s') "Y_count" = Some (mkV 4 (Bits 4)) /\
               lookup (values s') "a" = None.
Proof.
  destruct (build_program gen_features gen_fixed ascii_lower ascii_upper ex_stmts) as [p|es] eqn:E;
    [|vm_compute in E; discriminate E].
  vm_compute in E. injection E as <-.
  eexists. eexists. eexists. split; [reflexivity|]. split; [vm_compute; reflexivity|].
  split; [vm_compute; reflexivity|]. split; [vm_compute; reflexivity|]. split; [vm_compute; reflexivity|].
  eexists. split; [vm_compute; reflexivity|]. split; [vm_compute; reflexivity|].
  split; vm_compute; reflexivity.
Qed.

(* a rejected program: the diagnostics are renamed, in the same order *)
Definition ex_bad : list stmt :=
  [SWire [("a", Bits 4); ("b", Bits 4)]; SAssign [(["a"], EWire "b")]; SAssign [(["b"], EWire "a")];
   SAssign [(["Stat"], EConst (mkV 1 Unl))]; SAssign [(["pc"], EWire "zzz")]].
Definition ex_r2 (n : string) : string :=
  if String.eqb n "a" then "first" else if String.eqb n "b" then "second" else if String.eqb n "zzz" then "ZZZ" else n.

Example ex_rejected :
  consistent_renaming ex_r2 (fun x => x) gen_fixed ex_bad /\
  build_program gen_features gen_fixed ascii_lower ascii_upper ex_bad = Err [mkErr WireLoop ["a"; "b"]] /\
  build_program gen_features gen_fixed ascii_lower ascii_upper (map (rename_stmt ex_r2 (fun x => x)) ex_bad)
  = Err [mkErr WireLoop ["first"; "second"]].
Proof.
  split; [apply consistent_renamingb_sound; vm_compute; reflexivity|]. split; vm_compute; reflexivity.
Qed.

(* the checker and the evaluator *)
Example ex_check_eval :
  check gen_features (fun k => if String.eqb k "Alpha" then Some (Bits 4) else None) (fun _ => None)
        (rename_expr ex_r (EBin Add (EWire "a") (EConst (mkV 1 Unl)))) = Ok (Bits 4) /\
  eval gen_features (fun k => if String.eqb k "Alpha" then Some (mkV 7 (Bits 4)) else None)
       (rename_expr ex_r (EBin Add (EWire "a") (EConst (mkV 1 Unl)))) = Ok (mkV 8 (Bits 4)) /\
  check gen_features (fun _ => None) (fun _ => None) (rename_expr ex_r (EWire "a")) =
  Err [mkErr UndeclaredWireRead ["Alpha"]].
Proof. vm_compute. repeat split; reflexivity. Qed.

(* the sorter on integer nodes renamed to strings *)
Example ex_toposort :
  toposort string String.eqb
    (map_graph (fun n : N => if (n =? 1)%N then "one" else if (n =? 2)%N then "two" else "three")
               (mkGraph [1; 2; 3]%N [(3, [1]); (1, [2])]%N 2)) = Ok (inl ["three"; "one"; "two"]).
Proof. vm_compute. reflexivity. Qed.

(* ---- the side conditions are needed (and are what a user expects) ----------------------------------- *)
(* not injective: two wires merged *)
Example need_injective :
  let r := fun n => if String.eqb n "b" then "a" else n in
  (exists p, build_program gen_features gen_fixed ascii_lower ascii_upper
               [SWire [("a", Bits 4); ("b", Bits 4)]; SAssign [(["a"], EConst (mkV 1 Unl))];
                SAssign [(["b"], EConst (mkV 2 Unl))];
                SAssign [(["Stat"], EConst (mkV 1 Unl))]; SAssign [(["pc"], EConst (mkV 0 Unl))]] = Ok p) /\
  build_program gen_features gen_fixed ascii_lower ascii_upper
    (map (rename_stmt r (fun x => x))
       [SWire [("a", Bits 4); ("b", Bits 4)]; SAssign [(["a"], EConst (mkV 1 Unl))];
        SAssign [(["b"], EConst (mkV 2 Unl))];
        SAssign [(["Stat"], EConst (mkV 1 Unl))]; SAssign [(["pc"], EConst (mkV 0 Unl))]])
  = Err [mkErr RedeclaredWire ["a"]; mkErr DoubleAssignedWire ["a"]].
Proof. vm_compute. split; [eexists; reflexivity | reflexivity]. Qed.

(* a built-in wire renamed: pc is no longer driven *)
Example need_builtins_fixed :
  let r := fun n => if String.eqb n "pc" then "program_counter" else n in
  build_program gen_features gen_fixed ascii_lower ascii_upper
    (map (rename_stmt r (fun x => x))
       [SAssign [(["Stat"], EConst (mkV 1 Unl))]; SAssign [(["pc"], EConst (mkV 0 Unl))]])
  = Err [mkErr UnsetBuiltinWire ["pc"]].
Proof. vm_compute. reflexivity. Qed.

(* a register renamed without its signals: x_c is no longer the input of a register *)
Example need_bank_compatible :
  build_program gen_features gen_fixed ascii_lower ascii_upper
    (map (rename_stmt (fun x => x) ex_q) ex_stmts)
  = Err [mkErr UnsetRegisterInputWire ["x_count"]].
Proof. vm_compute. reflexivity. Qed.

(* a plain wire renamed onto a bank signal name *)
Example need_fresh_for_signals :
  let r := fun n => if String.eqb n "a" then "Y_c" else n in
  exists es, build_program gen_features gen_fixed ascii_lower ascii_upper (map (rename_stmt r (fun x => x)) ex_stmts)
             = Err es /\ es <> [].
Proof. vm_compute. eexists. split; [reflexivity | discriminate]. Qed.

Close Scope string_scope.

Print Assumptions refs_rename_holds.
Print Assumptions check_rename_holds.
Print Assumptions eval_rename_holds.
Print Assumptions toposort_rename_holds.
Print Assumptions rename_acceptance_holds.
Print Assumptions rename_simulation_holds.
Print Assumptions rename_wire_values_holds.
Print Assumptions dump_y86_as_id_holds.
Print Assumptions rename_dump_holds.
Print Assumptions rename_dump_equal_holds.
Print Assumptions consistent_renamingb_sound.
