(* Proofs of the statements of LexRoundTripSpec.v. *)
From HclV Require Import Base Expr Build Lexer Parser LexParseSpec LexParseProofs TriviaSpec TriviaProofs
  LexRoundTripSpec.
From Coq Require Import ZifyBool ZifyNat ZifyN.
Open Scope list_scope.
Open Scope N_scope.

(* ====================================================================================== *)
(* 1. the range of the lexer                                                              *)
(* ====================================================================================== *)
(* the lexer's state: what is left of the character stream of an encoded text *)
Definition St (bytes : list N) (cs : list (nat * N)) : Prop :=
  exists pre rem, bytes = pre ++ utf8 rem /\ cs = cidx (List.length pre) rem /\ Forall scalar rem.

Lemma St_drop bytes pre a b :
  bytes = pre ++ utf8 (a ++ b) -> Forall scalar (a ++ b) -> St bytes (cidx (List.length pre + blen a) b).
Proof.
  intros Hb Hsc. exists (pre ++ utf8 a), b. split; [|split].
  - rewrite Hb, utf8_app, app_assoc. reflexivity.
  - rewrite app_length. reflexivity.
  - apply Forall_app in Hsc. exact (proj2 Hsc).
Qed.

(* get_while on any stream: the longest prefix satisfying p is consumed *)
Lemma get_while_split p rem : forall pos len,
  exists a b, rem = a ++ b /\ forallb p a = true /\
    match b with [] => True | x :: _ => p x = false end /\
    get_while p (cidx pos rem) len =
      (cidx (pos + blen a) b, match b with [] => len | _ :: _ => (pos + blen a)%nat end).
Proof.
  induction rem as [|c r IH]; intros pos len.
  - exists [], []. repeat split.
  - destruct (p c) eqn:Hc.
    + destruct (IH (pos + clen c)%nat len) as (a & b & -> & Ha & Hb & E).
      exists (c :: a), b. split; [reflexivity|]. split; [cbn [forallb]; rewrite Hc; exact Ha|]. split; [exact Hb|].
      cbn [app cidx get_while]. rewrite Hc, E, blen_cons, Nat.add_assoc. reflexivity.
    + exists [], (c :: r). split; [reflexivity|]. split; [reflexivity|]. split; [exact Hc|].
      cbn [app cidx get_while]. rewrite Hc, blen_nil, Nat.add_0_r. reflexivity.
Qed.

Lemma skip_block_nil f len : skip_block_comment f [] len = None.
Proof. destruct f; reflexivity. Qed.

(* a closed block comment leaves a suffix of the stream *)
Lemma skip_block_sound len f : forall pos rem rest,
  skip_block_comment f (cidx pos rem) len = Some rest ->
  exists a b, rem = a ++ b /\ rest = cidx (pos + blen a) b.
Proof.
  induction f as [|f IHf]; intros pos rem rest H; [discriminate H|].
  revert pos H. induction rem as [|x r IHr]; intros pos H; [discriminate H|].
  destruct (N.eq_dec x 42) as [->|Hne].
  - destruct r as [|y r2].
    + cbn [cidx] in H. change (skip_block_comment (S f) [(pos, 42)] len) with (skip_block_comment f [] len) in H.
      rewrite skip_block_nil in H. discriminate H.
    + destruct (N.eq_dec y 47) as [->|Hy].
      * rewrite !cidx_ascii in H by lia.
        change (skip_block_comment (S f) ((pos, 42) :: ((pos + 1)%nat, 47) :: cidx (pos + 1 + 1) r2) len)
          with (Some (cidx (pos + 1 + 1) r2)) in H.
        injection H as <-. exists [42; 47], r2. split; [reflexivity|].
        f_equal. rewrite blen_ascii by reflexivity. cbn [List.length]. lia.
      * rewrite cidx_ascii, cidx_cons in H by lia. rewrite skip_block_star_other in H by exact Hy.
        rewrite <- cidx_cons in H. destruct (IHf _ _ _ H) as (a & b & E & ->).
        exists (42 :: a), b. split; [cbn [app]; rewrite E; reflexivity|].
        f_equal. rewrite blen_cons, clen_ascii by lia. lia.
  - rewrite cidx_cons, skip_block_nonstar in H by exact Hne.
    destruct (IHr _ H) as (a & b & -> & ->).
    exists (x :: a), b. split; [reflexivity|]. f_equal. rewrite blen_cons. lia.
Qed.

(* ---- the operator branch of Lexer::next ---- *)
Definition is_fixed (t : token) : bool :=
  match t with TLit _ | TIdentifier _ => false | _ => true end.

Lemma fixed_lexable uc t : is_fixed t = true -> lexable uc t.
Proof. destruct t; try discriminate; intros _; exact I. Qed.

Section OpBranch.
  Variable uc : N -> uclass.
  Variable bytes : list N.
  Variable len : nat.
  Local Notation LN := (lex_next uc).

  Lemma ln_else f i c r :
    is_whitespace uc c = false -> is_start_identifier_char uc c = false -> is_decimal_char c = false ->
    LN (S f) bytes len ((i, c) :: r) =
    match c with
    | 35 => let '(rest, _) := get_while is_not_newline r len in LN f bytes len rest
    | 47 =>
        match r with
        | (_, 47) :: _ => let '(rest, _) := get_while is_not_newline r len in LN f bytes len rest
        | (_, 42) :: r2 =>
            match skip_block_comment (S (List.length r2)) r2 len with
            | Some rest => LN f bytes len rest
            | None => LexErr (LexUnterminatedComment i) []
            end
        | _ => LexTok (i, TDivide, (i + 1)%nat) r
        end
    | 38 => let '(t, rest) := two_char i TAnd [(38, TAndAnd)] r in LexTok t rest
    | 124 => let '(t, rest) := two_char i TOr [(124, TOrOr)] r in LexTok t rest
    | 61 => let '(t, rest) := two_char i TAssign [(61, TEqual)] r in LexTok t rest
    | 62 => let '(t, rest) := two_char i TGreater [(62, TRightShift); (61, TGreaterEqual)] r in LexTok t rest
    | 60 => let '(t, rest) := two_char i TLess [(60, TLeftShift); (61, TLessEqual)] r in LexTok t rest
    | 33 => let '(t, rest) := two_char i TNot [(61, TNotEqual)] r in LexTok t rest
    | 58 => LexTok (i, TColon, (i + 1)%nat) r
    | 126 => LexTok (i, TComplement, (i + 1)%nat) r
    | 44 => LexTok (i, TComma, (i + 1)%nat) r
    | 59 => LexTok (i, TSemicolon, (i + 1)%nat) r
    | 46 => match r with
            | (_, 46) :: r2 => LexTok (i, TDotDot, (i + 2)%nat) r2
            | _ => LexErr (LexLexicalError i) r
            end
    | 43 => LexTok (i, TPlus, (i + 1)%nat) r
    | 45 => LexTok (i, TMinus, (i + 1)%nat) r
    | 94 => LexTok (i, TXor, (i + 1)%nat) r
    | 42 => LexTok (i, TTimes, (i + 1)%nat) r
    | 40 => LexTok (i, TOpenParen, (i + 1)%nat) r
    | 41 => LexTok (i, TCloseParen, (i + 1)%nat) r
    | 91 => LexTok (i, TOpenBracket, (i + 1)%nat) r
    | 93 => LexTok (i, TCloseBracket, (i + 1)%nat) r
    | 123 => LexTok (i, TOpenBrace, (i + 1)%nat) r
    | 125 => LexTok (i, TCloseBrace, (i + 1)%nat) r
    | _ => LexErr (LexLexicalError i) r
    end.
  Proof. intros H1 H2 H3. cbn [lex_next]. rewrite H1, H2, H3. reflexivity. Qed.

  (* a token produced by two_char is fixed and leaves r or its tail *)
  Lemma two_char_fixed i dflt options r t rest :
    is_fixed dflt = true -> forallb (fun o : N * token => is_fixed (snd o)) options = true ->
    two_char i dflt options r = (t, rest) -> is_fixed (tk t) = true /\ (rest = r \/ rest = tl r).
  Proof.
    intros Hd Ho. unfold two_char. destruct r as [|[j c2] r'].
    - intros H. injection H as <- <-. split; [exact Hd|left; reflexivity].
    - destruct (find (fun o : N * token => fst o =? c2) options) as [[k u]|] eqn:Hf.
      + intros H. injection H as <- <-. split; [|right; reflexivity].
        apply find_some in Hf. destruct Hf as [Hin _].
        exact (proj1 (forallb_forall _ _) Ho _ Hin).
      + intros H. injection H as <- <-. split; [exact Hd|left; reflexivity].
  Qed.

  (* what the operator branch can do: a fixed token leaving r or its tail, or a comment after
     which the search goes on in a suffix *)
  Lemma op_branch f i c r tok rest :
    is_whitespace uc c = false -> is_start_identifier_char uc c = false -> is_decimal_char c = false ->
    LN (S f) bytes len ((i, c) :: r) = LexTok tok rest ->
    (is_fixed (tk tok) = true /\ fst (fst tok) = i /\ (rest = r \/ rest = tl r)) \/
    (c = 35 /\ LN f bytes len (fst (get_while is_not_newline r len)) = LexTok tok rest) \/
    (c = 47 /\ exists j r', r = (j, 47) :: r' /\
        LN f bytes len (fst (get_while is_not_newline r len)) = LexTok tok rest) \/
    (c = 47 /\ exists j r2 r3, r = (j, 42) :: r2 /\
        skip_block_comment (S (List.length r2)) r2 len = Some r3 /\ LN f bytes len r3 = LexTok tok rest).
  Proof.
    intros H1 H2 H3 H.
    destruct (N.eq_dec c 35) as [->|H35].
    { right; left. split; [reflexivity|]. rewrite ln_hash in H.
      destruct (get_while is_not_newline r len) as [rest0 x]. exact H. }
    destruct (N.eq_dec c 47) as [->|H47].
    { destruct r as [|[j c2] r'].
      - rewrite ln_divide_end in H. injection H as <- <-. left. repeat split. left; reflexivity.
      - destruct (N.eq_dec c2 47) as [->|Hc47].
        + right; right; left. split; [reflexivity|]. exists j, r'. split; [reflexivity|].
          rewrite ln_slashes in H. destruct (get_while is_not_newline ((j, 47) :: r') len) as [rest0 x]. exact H.
        + destruct (N.eq_dec c2 42) as [->|Hc42].
          * right; right; right. split; [reflexivity|]. exists j, r'. rewrite ln_block in H.
            destruct (skip_block_comment (S (List.length r')) r' len) as [r3|]; [|discriminate H].
            exists r3. repeat split. exact H.
          * rewrite ln_divide in H by assumption. injection H as <- <-. left. repeat split. left; reflexivity. }
    destruct (N.eq_dec c 46) as [->|H46].
    { left. rewrite ln_else in H by assumption.
      destruct r as [|[j c2] r']; [discriminate H|].
      destruct (N.eq_dec c2 46) as [->|Hc46]; [injection H as <- <-; repeat split; right; reflexivity|].
      exfalso. revert H. case_char c2; try discriminate; congruence. }
    left. rewrite ln_else in H by assumption.
    assert (Htwo : forall dflt options,
               is_fixed dflt = true -> forallb (fun o : N * token => is_fixed (snd o)) options = true ->
               (let '(t, rest0) := two_char i dflt options r in LexTok t rest0) = LexTok tok rest ->
               is_fixed (tk tok) = true /\ fst (fst tok) = i /\ (rest = r \/ rest = tl r)).
    { intros dflt options Hd Ho E.
      destruct (two_char i dflt options r) as [t rest0] eqn:E2. injection E as <- <-.
      destruct (two_char_fixed _ _ _ _ _ _ Hd Ho E2) as [Hf Hr]. split; [exact Hf|]. split; [|exact Hr].
      revert E2. unfold two_char. destruct r as [|[j c2] r'].
      - intros E2. injection E2 as <- _. reflexivity.
      - destruct (find (fun o : N * token => fst o =? c2) options) as [[k u]|]; intros E2; injection E2 as <- _; reflexivity. }
    revert H. case_char c; try discriminate; try congruence;
      try (intros H; injection H as <- <-; repeat split; left; reflexivity);
      intros H; refine (Htwo _ _ _ _ H); reflexivity.
  Qed.
End OpBranch.

(* ---- words ---- *)
Lemma bytes_eqb_refl a : bytes_eqb a a = true.
Proof. induction a as [|x a IH]; [reflexivity|]. cbn [bytes_eqb]. rewrite N.eqb_refl, IH. reflexivity. Qed.

Lemma resolve_lexable uc c a :
  is_start_identifier_char uc c = true -> forallb (is_identifier_char uc) a = true -> Forall scalar (c :: a) ->
  lexable uc (resolve_identifier (utf8 (c :: a))).
Proof.
  intros Hc Ha Hsc. unfold resolve_identifier.
  destruct (bytes_eqb (utf8 (c :: a)) kw_wire) eqn:E1; [exact I|].
  destruct (bytes_eqb (utf8 (c :: a)) kw_const) eqn:E2; [exact I|].
  destruct (bytes_eqb (utf8 (c :: a)) kw_register) eqn:E3; [exact I|].
  destruct (bytes_eqb (utf8 (c :: a)) kw_in) eqn:E4; [exact I|].
  cbn [lexable]. exists c, a. repeat split; try assumption.
  intros Hin. change keywords with [kw_wire; kw_const; kw_register; kw_in] in Hin. cbn [In] in Hin.
  destruct Hin as [Hk|[Hk|[Hk|[Hk|[]]]]]; rewrite <- Hk, bytes_eqb_refl in *; discriminate.
Qed.

Section Range.
  Variable uc : N -> uclass.
  Local Notation LN := (lex_next uc).

  Lemma word_range bytes pre c r f tok rest :
    bytes = pre ++ utf8 (c :: r) -> Forall scalar (c :: r) -> is_start_identifier_char uc c = true ->
    LN (S f) bytes (List.length bytes) (cidx (List.length pre) (c :: r)) = LexTok tok rest ->
    lexable uc (tk tok) /\ fst (fst tok) = List.length pre /\ St bytes rest.
  Proof.
    intros Hb Hsc Hc H. rewrite cidx_cons in H.
    rewrite ln_word in H; [|apply start_not_white; exact Hc|exact Hc].
    destruct (get_while_split (is_identifier_char uc) r (List.length pre + clen c) (List.length bytes))
      as (a & b & -> & Ha & _ & E).
    rewrite E in H. injection H as <- <-.
    assert (Hlen : List.length bytes = (List.length pre + blen (c :: a) + blen b)%nat).
    { rewrite Hb. apply (bytes_length pre (c :: a) b). }
    assert (Hlast : match b with [] => List.length bytes | _ :: _ => (List.length pre + clen c + blen a)%nat end
                    = (List.length pre + blen (c :: a))%nat).
    { rewrite blen_cons. destruct b; [rewrite Hlen, blen_cons, blen_nil|]; lia. }
    rewrite Hlast. unfold tk. cbn [fst snd].
    change (c :: a ++ b) with ((c :: a) ++ b) in Hb, Hsc.
    rewrite Hb at 1. rewrite slice_piece by reflexivity.
    split; [|split; [reflexivity|]].
    - apply resolve_lexable; [exact Hc|exact Ha|]. apply Forall_app in Hsc. exact (proj1 Hsc).
    - rewrite <- Nat.add_assoc, <- blen_cons. apply St_drop; assumption.
  Qed.

  (* ---- literals ---- *)
  Lemma constant_of_none_inl bytes radix ts te s e tok :
    constant_of bytes radix ts te s e None = inl tok ->
    exists v, v < two128 /\ tok = (s, TLit (mkV v Unl), e).
  Proof.
    unfold constant_of. destruct (N.ltb_spec (digits_value radix (slice bytes ts te) 0) two128) as [Hv|]; [|discriminate].
    intros H. injection H as <-. eexists. split; [exact Hv|reflexivity].
  Qed.

  Lemma constant_of_some_inl bytes radix ts te s e n tok :
    constant_of bytes radix ts te s e (Some n) = inl tok ->
    n <= 128 /\ tok = (s, TLit (mkV (digits_value radix (slice bytes ts te) 0) (Bits n)), e).
  Proof.
    unfold constant_of. destruct (digits_value radix (slice bytes ts te) 0 <? two128); [|discriminate].
    destruct (N.leb_spec n 128) as [Hn|]; [|discriminate].
    intros H. injection H as <-. split; [exact Hn|reflexivity].
  Qed.

  Lemma unsized_lexable v s e : v < two128 -> lexable uc (tk (s, TLit (mkV v Unl), e)).
  Proof. intros H. exact H. Qed.

  Lemma St_nil bytes : St bytes [].
  Proof. exists bytes, []. split; [cbn [utf8 flat_map]; rewrite app_nil_r; reflexivity|]. split; [reflexivity|constructor]. Qed.

  Lemma literal_range bytes pre d r tok rest :
    bytes = pre ++ utf8 (d :: r) -> Forall scalar (d :: r) -> dec_digit d = true ->
    handle_constant bytes (List.length bytes) (List.length pre) (cidx (List.length pre + 1) r) = (inl tok, rest) ->
    lexable uc (tk tok) /\ fst (fst tok) = List.length pre /\ St bytes rest.
  Proof.
    intros Hb Hsc Hd H. set (p := List.length pre) in *. set (len := List.length bytes) in *.
    assert (Hd128 : d < 128) by (apply N.ltb_lt, dec_lt128; exact Hd).
    assert (Hsc_r : Forall scalar r) by (inversion Hsc; assumption).
    (* the state after the first digit and k more characters *)
    assert (Hdrop : forall a b, r = a ++ b -> St bytes (cidx (p + 1 + blen a) b)).
    { intros a b ->. change (d :: a ++ b) with ((d :: a) ++ b) in Hb, Hsc.
      pose proof (St_drop bytes pre (d :: a) b Hb Hsc) as HS.
      rewrite blen_cons, clen_ascii, Nat.add_assoc in HS by exact Hd128. exact HS. }
    assert (Hnone : forall radix ts te e, constant_of bytes radix ts te p e None = inl tok ->
                      lexable uc (tk tok) /\ fst (fst tok) = p).
    { intros radix ts te e E. destruct (constant_of_none_inl _ _ _ _ _ _ _ E) as (v & Hv & ->).
      split; [exact Hv|reflexivity]. }
    destruct r as [|c2 r2].
    - cbn [cidx] in H. change (handle_constant bytes len p []) with
        (constant_of bytes 10 p (p + 1) p (p + 1) None, @nil (nat * N)) in H.
      injection H as E <-. destruct (Hnone _ _ _ _ E). repeat split; try assumption. apply St_nil.
    - rewrite cidx_cons in H.
      destruct (N.eq_dec c2 120) as [->|H120].
      { destruct r2 as [|h r3]; [discriminate H|]. rewrite cidx_cons, hc_hex_step in H.
        destruct (is_hexadecimal_char h); [|discriminate H].
        destruct (get_while_split is_hexadecimal_char r3 (p + 1 + clen 120 + clen h) len) as (a & b & -> & _ & _ & E).
        rewrite E in H. injection H as E2 <-. destruct (Hnone _ _ _ _ E2). repeat split; try assumption.
        specialize (Hdrop (120 :: h :: a) b eq_refl).
        rewrite !blen_cons in Hdrop. rewrite <- !Nat.add_assoc in *. exact Hdrop. }
      destruct (N.eq_dec c2 98) as [->|H98].
      { destruct r2 as [|b0 r3]; [discriminate H|]. rewrite cidx_cons, hc_bin_step in H.
        destruct (is_binary_char b0) eqn:Hb0; [|discriminate H].
        destruct (get_while_split is_binary_char r3 (p + 1 + clen 98 + clen b0) len) as (a & b & -> & Ha & _ & E).
        rewrite E in H.
        assert (Hall : forallb bin_digit (b0 :: a) = true) by (cbn [forallb]; apply andb_true_iff; split; [exact Hb0|exact Ha]).
        pose proof (digits_ascii _ _ bin_lt128 Hall) as Hasc.
        assert (Hasc2 : forallb (fun x => x <? 128) (d :: 98 :: b0 :: a) = true).
        { cbn [forallb] in *. apply N.ltb_lt in Hd128. rewrite Hd128. exact Hasc. }
        pose proof (forallb_cons_true _ _ _ Hasc) as [Hb128 Ha128]. apply N.ltb_lt in Hb128.
        rewrite (clen_ascii 98), (clen_ascii b0), (blen_ascii _ Ha128) in H by (try exact Hb128; lia).
        assert (Hlen : len = (p + blen (d :: 98%N :: b0 :: a) + blen b)%nat).
        { unfold len. rewrite Hb. apply (bytes_length pre (d :: 98 :: b0 :: a) b). }
        rewrite (blen_ascii _ Hasc2) in Hlen. cbn [List.length] in Hlen.
        assert (Hlast : match b with [] => len | _ :: _ => (p + 1 + 1 + 1 + List.length a)%nat end
                        = (p + 2 + List.length (b0 :: a))%nat).
        { cbn [List.length]. destruct b; [rewrite Hlen, blen_nil|]; lia. }
        rewrite Hlast in H.
        assert (Hslice : slice bytes (p + 2) (p + 2 + List.length (b0 :: a)) = b0 :: a).
        { assert (Hbytes : bytes = (pre ++ [d; 98]) ++ (b0 :: a) ++ utf8 b).
          { rewrite Hb. change (d :: 98 :: b0 :: a ++ b) with ((d :: 98 :: b0 :: a) ++ b).
            rewrite utf8_app, (utf8_ascii _ Hasc2), <- !app_assoc. reflexivity. }
          rewrite Hbytes. apply slice_mid; rewrite app_length; reflexivity. }
        assert (Hconst : forall rest0,
                   (constant_of bytes 2 (p + 2) (p + 2 + List.length (b0 :: a)) p (p + 2 + List.length (b0 :: a))
                      (Some (N.of_nat (p + 2 + List.length (b0 :: a) - (p + 2)))), rest0) = (inl tok, rest) ->
                   lexable uc (tk tok) /\ fst (fst tok) = p /\ rest = rest0).
        { intros rest0 E0. injection E0 as E0 <-.
          destruct (constant_of_some_inl _ _ _ _ _ _ _ _ E0) as (Hn & ->).
          cbn [List.length] in Hslice |- *. rewrite Hslice, digits_value_0. split; [|split; reflexivity].
          unfold tk. cbn [fst snd lexable].
          replace (p + 2 + S (List.length a) - (p + 2))%nat with (List.length (b0 :: a)) in * by (cbn [List.length]; lia).
          split; [cbn [List.length] in *; lia|]. apply bin_positional_bound. exact Hall. }
        assert (HS : St bytes (cidx (p + 1 + 1 + 1 + List.length a) b)).
        { specialize (Hdrop (98 :: b0 :: a) b eq_refl).
          rewrite !blen_cons, (clen_ascii 98), (clen_ascii b0), (blen_ascii _ Ha128) in Hdrop by (try exact Hb128; lia).
          rewrite <- !Nat.add_assoc in *. exact Hdrop. }
        destruct b as [|c3 b'].
        - cbn [cidx] in H. destruct (Hconst _ H) as (L1 & L2 & ->). split; [exact L1|]. split; [exact L2|apply St_nil].
        - rewrite cidx_cons in H. destruct (is_decimal_char c3); [discriminate H|].
          rewrite <- cidx_cons in H. destruct (Hconst _ H) as (L1 & L2 & ->). split; [exact L1|]. split; [exact L2|exact HS]. }
      rewrite handle_constant_other in H by assumption.
      destruct (is_decimal_char c2) eqn:Hc2.
      + rewrite <- cidx_cons in H.
        destruct (get_while_split is_decimal_char (c2 :: r2) (p + 1) len) as (a & b & Eab & _ & _ & E).
        rewrite E in H. injection H as E2 <-. destruct (Hnone _ _ _ _ E2). repeat split; try assumption.
        apply Hdrop. exact Eab.
      + injection H as E2 <-. destruct (Hnone _ _ _ _ E2). repeat split; try assumption.
        rewrite <- cidx_cons. specialize (Hdrop [] (c2 :: r2) eq_refl).
        rewrite blen_nil, Nat.add_0_r in Hdrop. exact Hdrop.
  Qed.
End Range.

Section RangeMain.
  Variable uc : N -> uclass.
  Local Notation LN := (lex_next uc).

  Lemma St_tail bytes i c r : St bytes ((i, c) :: r) -> St bytes r.
  Proof.
    intros (pre & rem & Hb & Hcs & Hsc). destruct rem as [|x rem']; [discriminate Hcs|].
    cbn [cidx] in Hcs. injection Hcs as _ _ Hr. rewrite Hr.
    change (x :: rem') with ([x] ++ rem') in Hb, Hsc.
    pose proof (St_drop bytes pre [x] rem' Hb Hsc) as HS.
    rewrite blen_cons, blen_nil, Nat.add_0_r in HS. exact HS.
  Qed.

  (* every token Lexer::next returns is in the domain, starts at or after the current position,
     and leaves the lexer in a proper state *)
  Lemma lex_next_range f : forall bytes pre rem tok rest,
    bytes = pre ++ utf8 rem -> Forall scalar rem ->
    LN f bytes (List.length bytes) (cidx (List.length pre) rem) = LexTok tok rest ->
    lexable uc (tk tok) /\ (List.length pre <= fst (fst tok))%nat /\ St bytes rest.
  Proof.
    induction f as [|f IH]; intros bytes pre rem tok rest Hb Hsc H; [discriminate H|].
    destruct rem as [|c r]; [discriminate H|].
    assert (Hsc_r : Forall scalar r) by (inversion Hsc; assumption).
    (* continuing after a prefix a of the remaining text *)
    assert (Hcont : forall a b, c :: r = a ++ b ->
               LN f bytes (List.length bytes) (cidx (List.length pre + blen a) b) = LexTok tok rest ->
               lexable uc (tk tok) /\ (List.length pre <= fst (fst tok))%nat /\ St bytes rest).
    { intros a b Eab E. rewrite Eab in Hb, Hsc.
      assert (Hb' : bytes = (pre ++ utf8 a) ++ utf8 b) by (rewrite Hb, utf8_app, app_assoc; reflexivity).
      assert (Hl : (List.length pre + blen a)%nat = List.length (pre ++ utf8 a)) by (rewrite app_length; reflexivity).
      rewrite Hl in E. apply Forall_app in Hsc.
      destruct (IH bytes _ b tok rest Hb' (proj2 Hsc) E) as (L1 & L2 & L3).
      split; [exact L1|]. split; [|exact L3]. rewrite app_length in L2. lia. }
    destruct (is_whitespace uc c) eqn:Hw.
    { rewrite cidx_cons, ln_white in H by exact Hw.
      apply (Hcont [c] r eq_refl). rewrite blen_cons, blen_nil, Nat.add_0_r. exact H. }
    destruct (is_start_identifier_char uc c) eqn:Hs.
    { destruct (word_range uc bytes pre c r f tok rest Hb Hsc Hs H) as (L1 & L2 & L3).
      split; [exact L1|]. split; [lia|exact L3]. }
    destruct (is_decimal_char c) eqn:Hd.
    { assert (Hc128 : c < 128) by (apply N.ltb_lt, dec_lt128; exact Hd).
      rewrite cidx_ascii in H by exact Hc128. rewrite lex_next_digit in H by exact Hd.
      destruct (handle_constant bytes (List.length bytes) (List.length pre) (cidx (List.length pre + 1) r))
        as [[tok0|e0] rest0] eqn:E; [|discriminate H].
      injection H as <- <-.
      destruct (literal_range uc bytes pre c r tok0 rest0 Hb Hsc Hd E) as (L1 & L2 & L3).
      split; [exact L1|]. split; [lia|exact L3]. }
    rewrite cidx_cons in H.
    destruct (op_branch uc bytes (List.length bytes) f _ c _ tok rest Hw Hs Hd H)
      as [(Hfix & Hst & Hrest)|[(-> & E)|[(-> & j & r' & Er & E)|(-> & j & r2 & r3 & Er & Esk & E)]]].
    - split; [apply fixed_lexable; exact Hfix|]. split; [lia|].
      assert (HS : St bytes (cidx (List.length pre + clen c) r)).
      { pose proof (St_drop bytes pre [c] r Hb Hsc) as HS. rewrite blen_cons, blen_nil, Nat.add_0_r in HS. exact HS. }
      destruct Hrest as [-> | ->]; [exact HS|].
      destruct (cidx (List.length pre + clen c) r) as [|[j x] tl0] eqn:Ec; [exact HS|].
      cbn [tl]. apply (St_tail bytes j x). exact HS.
    - destruct (get_while_split is_not_newline r (List.length pre + clen 35) (List.length bytes)) as (a & b & Eab & _ & _ & G).
      rewrite G in E. cbn [fst] in E.
      apply (Hcont (35 :: a) b); [rewrite Eab; reflexivity|].
      rewrite blen_cons, Nat.add_assoc. exact E.
    - destruct (get_while_split is_not_newline r (List.length pre + clen 47) (List.length bytes)) as (a & b & Eab & _ & _ & G).
      rewrite G in E. cbn [fst] in E.
      apply (Hcont (47 :: a) b); [rewrite Eab; reflexivity|].
      rewrite blen_cons, Nat.add_assoc. exact E.
    - destruct r as [|x r0]; [discriminate Er|]. rewrite cidx_cons in Er. injection Er as _ Ex Er2. subst x.
      rewrite <- Er2 in Esk. destruct (skip_block_sound _ _ _ _ _ Esk) as (a & b & Eab & ->).
      apply (Hcont (47 :: 42 :: a) b); [rewrite Eab; reflexivity|].
      rewrite !blen_cons, !Nat.add_assoc. exact E.
  Qed.

  Lemma lex_loop_range bytes : forall fuel cs acc,
    St bytes cs -> Forall (fun t => lexable uc (tk t)) acc ->
    Forall (fun t => lexable uc (tk t)) (fst (lex_loop uc fuel bytes (List.length bytes) cs acc)).
  Proof.
    induction fuel as [|fuel IH]; intros cs acc HS Hacc.
    - cbn [lex_loop fst]. apply Forall_rev. exact Hacc.
    - cbn [lex_loop].
      destruct (lex_next uc (S (List.length cs)) bytes (List.length bytes) cs) as [tok rest|e rest|] eqn:E.
      + destruct HS as (pre & rem & Hb & -> & Hsc).
        destruct (lex_next_range _ _ _ _ _ _ Hb Hsc E) as (L1 & _ & L3).
        apply IH; [exact L3|]. constructor; assumption.
      + cbn [fst]. apply Forall_rev. exact Hacc.
      + cbn [fst]. apply Forall_rev. exact Hacc.
  Qed.
End RangeMain.

Theorem lexer_output_lexable_holds : stmt_lexer_output_lexable.
Proof.
  intros uc text Hsc t Hin. unfold lex in Hin.
  set (bytes := utf8 text) in *.
  assert (HS : St bytes (char_indices (S (List.length bytes)) bytes 0)).
  { exists [], text. split; [reflexivity|]. split; [|exact Hsc].
    apply char_indices_utf8; [exact Hsc|]. pose proof (length_le_blen text). unfold blen in H. fold bytes in H. lia. }
  pose proof (lex_loop_range uc bytes (S (List.length bytes)) _ [] HS (Forall_nil _)) as HF.
  apply in_map_iff in Hin. destruct Hin as (tok & <- & Hin).
  exact (proj1 (Forall_forall _ _) HF tok Hin).
Qed.

(* the draft for arbitrary bytes fails on ill-formed UTF-8: the bytes C3 29 (a lead byte followed by
   ")" instead of a continuation byte) are decoded by the model as U+00E9, a letter for
   test_uclass, and become an "identifier" whose name is not the encoding of any characters *)
Lemma lexer_output_lexable_any_bytes_refuted : ~ stmt_lexer_output_lexable_any_bytes.
Proof.
  intros H. specialize (H test_uclass [195; 41] (TIdentifier [195; 41]) ltac:(vm_compute; left; reflexivity)).
  cbn [lexable] in H. destruct H as (c & cs & E & _).
  cbn [utf8 flat_map] in E. unfold utf8_char in E.
  destruct (c <? 128) eqn:E1; [cbn [app] in E; injection E as E _; rewrite <- E in E1; discriminate E1|].
  destruct (c <? 2048); [cbn [app] in E; injection E as _ E _; lia|].
  destruct (c <? 65536); cbn [app] in E; injection E as _ E _; lia.
Qed.

(* ====================================================================================== *)
(* 2. canonical printing is a right inverse of the lexer                                  *)
(* ====================================================================================== *)
(* the items of a printed token list, for a choice of separators *)
Fixpoint items_from (sepf : token -> token -> list N) (prev : token) (ts : list token) : list item :=
  match ts with
  | [] => []
  | u :: r => (sepf prev u, u, spell u) :: items_from sepf u r
  end.

Definition blank_sep (_ _ : token) : list N := [32].
Definition min_sep (uc : N -> uclass) (t u : token) : list N :=
  if must_separate uc t (spell t) (spell u) then [32] else [].

Section Print.
  Variable uc : N -> uclass.
  Variable sepf : token -> token -> list N.
  Hypothesis Hsepf : forall t u,
    (sepf t u = [] /\ must_separate uc t (spell t) (spell u) = false) \/ sepf t u = [32].

  Lemma sepf_trivia t u : trivia uc (sepf t u).
  Proof.
    destruct (Hsepf t u) as [[-> _]| ->]; [apply tv_nil|]. apply tv_white; [reflexivity|apply tv_nil].
  Qed.

  Lemma sepf_scalar t u : Forall scalar (sepf t u).
  Proof. destruct (Hsepf t u) as [[-> _]| ->]; [constructor|]. apply scalar_check. reflexivity. Qed.

  Lemma items_separated : forall r t sep0,
    trivia uc sep0 -> lexable uc t -> Forall (lexable uc) r ->
    separated uc ((sep0, t, spell t) :: items_from sepf t r) [].
  Proof.
    induction r as [|u r IH]; intros t sep0 Hsep Ht Hr.
    - cbn [items_from separated]. split; [exact Hsep|].
      split; [exact (proj1 (canonical_spelling_holds uc t Ht))|].
      split; [intros _; discriminate|apply tf_closed, tv_nil].
    - inversion Hr as [|? ? Hu Hr']; subst.
      cbn [items_from]. cbn [separated]. split; [exact Hsep|].
      split; [exact (proj1 (canonical_spelling_holds uc t Ht))|]. split.
      + split.
        * intros E. destruct (Hsepf t u) as [[_ Hm]|E2]; [exact Hm|]. rewrite E2 in E. discriminate E.
        * intros _. destruct (Hsepf t u) as [[-> _]| ->]; discriminate.
      + apply (IH u (sepf t u)); [apply sepf_trivia|exact Hu|exact Hr'].
  Qed.

  Lemma items_scalar : forall r t sep0,
    Forall scalar sep0 -> lexable uc t -> Forall (lexable uc) r ->
    Forall scalar (text_of ((sep0, t, spell t) :: items_from sepf t r) []).
  Proof.
    induction r as [|u r IH]; intros t sep0 Hsep Ht Hr.
    - cbn [items_from text_of]. apply Forall_app. split; [exact Hsep|].
      apply Forall_app. split; [exact (proj2 (canonical_spelling_holds uc t Ht))|constructor].
    - inversion Hr as [|? ? Hu Hr']; subst.
      cbn [items_from]. cbn [text_of]. apply Forall_app. split; [exact Hsep|].
      apply Forall_app. split; [exact (proj2 (canonical_spelling_holds uc t Ht))|].
      apply (IH u (sepf t u)); [apply sepf_scalar|exact Hu|exact Hr'].
  Qed.

  Lemma items_tokens : forall r t sep0,
    map item_token ((sep0, t, spell t) :: items_from sepf t r) = t :: r.
  Proof.
    induction r as [|u r IH]; intros t sep0; [reflexivity|].
    cbn [items_from]. rewrite map_cons. f_equal. apply (IH u (sepf t u)).
  Qed.

  Lemma printed_lexes_back t r :
    lexable uc t -> Forall (lexable uc) r ->
    let text := text_of (([], t, spell t) :: items_from sepf t r) [] in
    Forall scalar text /\ lexes_to uc text (t :: r).
  Proof.
    intros Ht Hr. cbv zeta.
    pose proof (items_scalar r t [] (Forall_nil _) Ht Hr) as Hsc. split; [exact Hsc|].
    unfold lexes_to. rewrite <- (items_tokens r t []).
    apply trivia_irrelevant_separated_holds; [|exact Hsc].
    apply items_separated; [apply tv_nil|exact Ht|exact Hr].
  Qed.
End Print.

Lemma print_blank_text : forall r t sep0,
  text_of ((sep0, t, spell t) :: items_from blank_sep t r) [] =
  sep0 ++ spell t ++ flat_map (fun u => [32] ++ spell u) r.
Proof.
  induction r as [|u r IH]; intros t sep0; [reflexivity|].
  cbn [items_from]. cbn [text_of]. cbn [text_of] in IH. rewrite (IH u (blank_sep t u)). reflexivity.
Qed.

Lemma print_min_text uc : forall r t sep0,
  text_of ((sep0, t, spell t) :: items_from (min_sep uc) t r) [] = sep0 ++ print_min uc (t :: r).
Proof.
  induction r as [|u r IH]; intros t sep0; [reflexivity|].
  cbn [items_from]. cbn [text_of]. cbn [text_of] in IH. rewrite (IH u (min_sep uc t u)). reflexivity.
Qed.

Theorem print_lexes_back_holds : stmt_print_lexes_back.
Proof.
  intros uc ts Hts. destruct ts as [|t r].
  { repeat split; try constructor. }
  inversion Hts as [|? ? Ht Hr]; subst.
  assert (Hblank : forall t u, (blank_sep t u = [] /\ must_separate uc t (spell t) (spell u) = false)
                               \/ blank_sep t u = [32]) by (intros; right; reflexivity).
  assert (Hmin : forall t u, (min_sep uc t u = [] /\ must_separate uc t (spell t) (spell u) = false)
                             \/ min_sep uc t u = [32]).
  { intros t0 u. unfold min_sep. destruct (must_separate uc t0 (spell t0) (spell u)); [right|left; split]; reflexivity. }
  pose proof (printed_lexes_back uc blank_sep Hblank t r Ht Hr) as [B1 B2].
  pose proof (printed_lexes_back uc (min_sep uc) Hmin t r Ht Hr) as [M1 M2].
  rewrite print_blank_text in B1, B2. rewrite print_min_text in M1, M2.
  split; [exact B1|]. split; [exact B2|]. split; [exact M1|exact M2].
Qed.

Theorem canonical_print_lexes_back_holds : stmt_canonical_print_lexes_back.
Proof.
  intros uc text toks err Hsc Hlex.
  assert (Hlexable : Forall (lexable uc) (map tk toks)).
  { apply Forall_forall. intros t Hin. apply (lexer_output_lexable_holds uc text Hsc).
    rewrite Hlex. exact Hin. }
  destruct (print_lexes_back_holds uc _ Hlexable) as (_ & B & _ & M). split; assumption.
Qed.

Theorem reprint_same_meaning_holds : stmt_reprint_same_meaning.
Proof.
  intros uc tiers text toks Hsc Hlex.
  destruct (canonical_print_lexes_back_holds uc text toks None Hsc Hlex) as [B M].
  unfold lexes_to in B, M. cbv zeta in B, M.
  split.
  - destruct (lex uc (utf8 (print_blank (map tk toks)))) as [toks' e'] eqn:E. cbn [fst snd] in B.
    destruct B as [Bt ->]. exact (text_meaning_by_tokens_holds uc tiers _ _ toks' toks E Hlex Bt).
  - destruct (lex uc (utf8 (print_min uc (map tk toks)))) as [toks' e'] eqn:E. cbn [fst snd] in M.
    destruct M as [Mt ->]. exact (text_meaning_by_tokens_holds uc tiers _ _ toks' toks E Hlex Mt).
Qed.

(* non-vacuity: a text with comments, odd spacing, hexadecimal and non-canonical spellings *)
Definition rt_text : list N :=
  bytes_of_string "/* c */ wire  a_1:8 ;a_1=0x1F+0b0101 /(b>>2)>= 007 # end".

Example canonical_print_example :
  let ts := map tk (fst (lex test_uclass (utf8 rt_text))) in
  Forall scalar rt_text /\ snd (lex test_uclass (utf8 rt_text)) = None /\
  print_blank ts = bytes_of_string "wire a_1 : 8 ; a_1 = 31 + 0b0101 / ( b >> 2 ) >= 7" /\
  print_min test_uclass ts = bytes_of_string "wire a_1:8;a_1=31+0b0101/(b>>2)>=7" /\
  map tk (fst (lex test_uclass (utf8 (print_min test_uclass ts)))) = ts /\
  map tk (fst (lex test_uclass (utf8 (print_blank ts)))) = ts.
Proof. cbv zeta. split; [apply scalar_check; vm_compute; reflexivity|]. vm_compute. repeat split. Qed.

(* blanks that print_min must keep *)
Example print_min_example :
  print_min test_uclass [TWire; TIdentifier [97]; TLit (mkV 1 Unl); TLit (mkV 2 Unl); TAnd; TAnd; TDivide;
                         TTimes; TGreater; TAssign; TRightShift; TAssign; TLit (mkV 1 (Bits 1)); TIdentifier [120]]
  = bytes_of_string "wire a 1 2& &/ *> =>>=0b1x".
Proof. vm_compute. reflexivity. Qed.

(* ====================================================================================== *)
(* 3. clash is exact                                                                      *)
(* ====================================================================================== *)
Lemma lex_loop_acc uc bytes len : forall fuel cs acc,
  fst (lex_loop uc fuel bytes len cs acc) = rev acc ++ fst (lex_loop uc fuel bytes len cs []).
Proof.
  induction fuel as [|fuel IH]; intros cs acc.
  - cbn [lex_loop fst rev app]. rewrite app_nil_r. reflexivity.
  - cbn [lex_loop]. destruct (lex_next uc (S (List.length cs)) bytes len cs) as [tok rest|e rest|].
    + rewrite (IH rest (tok :: acc)), (IH rest [tok]). cbn [rev app]. rewrite <- app_assoc. reflexivity.
    + cbn [fst rev app]. rewrite app_nil_r. reflexivity.
    + cbn [fst rev app]. rewrite app_nil_r. reflexivity.
Qed.

(* the first token of a text is what the first call of Lexer::next returns *)
Lemma first_token uc text : Forall scalar text ->
  hd_error (fst (lex uc (utf8 text))) =
  match lex_next uc (S (List.length text)) (utf8 text) (List.length (utf8 text)) (cidx 0 text) with
  | LexTok tok _ => Some tok
  | _ => None
  end.
Proof.
  intros Hsc. unfold lex. rewrite (char_indices_utf8 text _ _ Hsc) by (pose proof (length_le_blen text); unfold blen in *; lia).
  cbn [lex_loop]. rewrite cidx_length.
  destruct (lex_next uc (S (List.length text)) (utf8 text) (List.length (utf8 text)) (cidx 0 text)) as [tok rest|e rest|];
    [|reflexivity|reflexivity].
  rewrite lex_loop_acc. reflexivity.
Qed.

(* whatever the fuel, the first call does not return the token t ending at e *)
Definition not_first (uc : N -> uclass) (text : list N) (t : token) (e : nat) : Prop :=
  forall f tok rest', lex_next uc (S f) (utf8 text) (List.length (utf8 text)) (cidx 0 text) = LexTok tok rest' ->
    tok <> (O, t, e).

(* get_while consumes at least every prefix whose characters all satisfy p *)
Lemma prefix_max (p : N -> bool) x : forall y a b,
  forallb p x = true -> x ++ y = a ++ b -> forallb p a = true ->
  match b with [] => True | h :: _ => p h = false end -> exists z, a = x ++ z.
Proof.
  induction x as [|h x IH]; intros y a b Hx E Ha Hb; [exists a; reflexivity|].
  apply forallb_cons_true in Hx. destruct Hx as [Hh Hx].
  destruct a as [|h' a'].
  - cbn [app] in E. subst b. rewrite Hh in Hb. discriminate Hb.
  - cbn [app] in E. injection E as <- E. apply forallb_cons_true in Ha. destruct Ha as [_ Ha].
    destruct (IH y a' b Hx E Ha Hb) as (z & ->). exists z. reflexivity.
Qed.

Lemma utf8_length_text text : List.length (utf8 text) = blen text.
Proof. reflexivity. Qed.

Section Clash.
  Variable uc : N -> uclass.

  (* the scanner's end offset after a maximal run *)
  Lemma run_end (p : N -> bool) x c rest pos a b len :
    forallb p x = true -> p c = true -> x ++ c :: rest = a ++ b -> forallb p a = true ->
    match b with [] => True | h :: _ => p h = false end ->
    len = (pos + blen a + blen b)%nat ->
    (pos + blen x < match b with [] => len | _ :: _ => (pos + blen a)%nat end)%nat.
  Proof.
    intros Hx Hc E Ha Hb Hlen.
    assert (Hxc : forallb p (x ++ [c]) = true) by (rewrite forallb_app, Hx; cbn [forallb]; rewrite Hc; reflexivity).
    replace (x ++ c :: rest) with ((x ++ [c]) ++ rest) in E by (rewrite <- app_assoc; reflexivity).
    destruct (prefix_max p _ _ _ _ Hxc E Ha Hb) as (z & ->).
    rewrite !blen_app, blen_cons, blen_nil in *. pose proof (clen_pos c). destruct b; lia.
  Qed.

  Lemma word_clash c0 cs c rest tkn :
    is_start_identifier_char uc c0 = true -> forallb (is_identifier_char uc) cs = true ->
    is_identifier_char uc c = true ->
    not_first uc ((c0 :: cs) ++ c :: rest) tkn (blen (c0 :: cs)).
  Proof.
    intros Hc0 Hcs Hc f tok rest' H Heq.
    change ((c0 :: cs) ++ c :: rest) with (c0 :: (cs ++ c :: rest)) in H.
    assert (HL : List.length (utf8 (c0 :: cs ++ c :: rest)) = (clen c0 + blen (cs ++ c :: rest))%nat).
    { rewrite utf8_length_text, blen_cons. reflexivity. }
    set (L := List.length (utf8 (c0 :: cs ++ c :: rest))) in *.
    rewrite cidx_cons in H. rewrite ln_word in H; [|apply start_not_white; exact Hc0|exact Hc0].
    destruct (get_while_split (is_identifier_char uc) (cs ++ c :: rest) (0 + clen c0) L) as (a & b & Eab & Ha & Hb & E).
    rewrite E in H. injection H as <- _. injection Heq as _ Hend.
    assert (HL2 : L = (0 + clen c0 + blen a + blen b)%nat) by (rewrite HL, Eab, blen_app; lia).
    pose proof (run_end _ cs c rest (0 + clen c0) a b L Hcs Hc Eab Ha Hb HL2) as Hrun.
    cbn [Nat.add] in Hrun. rewrite Hend, blen_cons in Hrun. lia.
  Qed.
End Clash.

Section Clash2.
  Variable uc : N -> uclass.

  (* the result of the constant scanner, when it is a token, ends where the scanner says *)
  Lemma hc_token_end bytes radix ts te s e w rest0 tok rest' :
    match (constant_of bytes radix ts te s e w, rest0) with
    | (inl t, rest) => LexTok t rest
    | (inr err, rest) => LexErr err rest
    end = LexTok tok rest' -> snd tok = e.
  Proof.
    destruct w as [n|].
    - destruct (constant_of bytes radix ts te s e (Some n)) as [t0|err] eqn:E; [|discriminate].
      destruct (constant_of_some_inl _ _ _ _ _ _ _ _ E) as (_ & ->). intros H. injection H as <- _. reflexivity.
    - destruct (constant_of bytes radix ts te s e None) as [t0|err] eqn:E; [|discriminate].
      destruct (constant_of_none_inl _ _ _ _ _ _ _ E) as (v & _ & ->). intros H. injection H as <- _. reflexivity.
  Qed.

  Lemma decimal_clash d ds c rest tkn :
    forallb dec_digit (d :: ds) = true -> dec_digit c = true ->
    not_first uc ((d :: ds) ++ c :: rest) tkn (blen (d :: ds)).
  Proof.
    intros Hall Hc f tok rest' H Heq.
    destruct (forallb_cons_true _ _ _ Hall) as [Hd Hds].
    assert (Hd128 : d < 128) by (apply N.ltb_lt, dec_lt128; exact Hd).
    change ((d :: ds) ++ c :: rest) with (d :: (ds ++ c :: rest)) in H.
    assert (HL : List.length (utf8 (d :: ds ++ c :: rest)) = (1 + blen (ds ++ c :: rest))%nat).
    { rewrite utf8_length_text, blen_cons, clen_ascii by exact Hd128. reflexivity. }
    set (L := List.length (utf8 (d :: ds ++ c :: rest))) in *.
    set (bytes := utf8 (d :: ds ++ c :: rest)) in *.
    rewrite cidx_ascii in H by exact Hd128. rewrite lex_next_digit in H by exact Hd.
    assert (Hhead : exists c2 T, ds ++ c :: rest = c2 :: T /\ dec_digit c2 = true).
    { destruct ds as [|d2 ds']; [exists c, rest; split; [reflexivity|exact Hc]|].
      exists d2, (ds' ++ c :: rest). split; [reflexivity|]. exact (proj1 (forallb_cons_true _ _ _ Hds)). }
    destruct Hhead as (c2 & T & ET & Hc2).
    assert (Hc2ne : c2 <> 120 /\ c2 <> 98) by (unfold dec_digit in Hc2; lia).
    rewrite ET, cidx_cons in H. rewrite handle_constant_other in H by tauto.
    change (is_decimal_char c2) with (dec_digit c2) in H. rewrite Hc2 in H.
    rewrite <- cidx_cons, <- ET in H.
    destruct (get_while_split is_decimal_char (ds ++ c :: rest) (0 + 1) L) as (a & b & Eab & Ha & Hb & E).
    rewrite E in H. apply hc_token_end in H. rewrite Heq in H. cbn [snd] in H.
    assert (HL2 : L = (0 + 1 + blen a + blen b)%nat) by (rewrite HL, Eab, blen_app; lia).
    pose proof (run_end uc is_decimal_char ds c rest (0 + 1) a b L Hds Hc Eab Ha Hb HL2) as Hrun.
    rewrite <- H, blen_cons, clen_ascii in Hrun by exact Hd128. lia.
  Qed.

  Lemma digit_prefix_clash d c rest tkn :
    dec_digit d = true -> c = 120 \/ c = 98 -> not_first uc ([d] ++ c :: rest) tkn 1.
  Proof.
    intros Hd Hc f tok rest' H Heq.
    assert (Hd128 : d < 128) by (apply N.ltb_lt, dec_lt128; exact Hd).
    change ([d] ++ c :: rest) with (d :: c :: rest) in H.
    set (L := List.length (utf8 (d :: c :: rest))) in *. set (bytes := utf8 (d :: c :: rest)) in *.
    rewrite cidx_ascii in H by exact Hd128. rewrite lex_next_digit in H by exact Hd.
    destruct rest as [|h r3]; [destruct Hc as [-> | ->]; discriminate H|].
    rewrite !cidx_cons in H. destruct Hc as [-> | ->].
    - rewrite hc_hex_step in H. destruct (is_hexadecimal_char h); [|discriminate H].
      destruct (get_while_split is_hexadecimal_char r3 (0 + 1 + clen 120 + clen h) L) as (a & b & Eab & _ & _ & E).
      rewrite E in H. apply hc_token_end in H. rewrite Heq in H. cbn [snd] in H.
      assert (HL : L = (1 + 1 + clen h + blen a + blen b)%nat).
      { unfold L, bytes. rewrite utf8_length_text, Eab, !blen_cons, blen_app, !clen_ascii by lia. lia. }
      rewrite (clen_ascii 120) in H by lia. pose proof (clen_pos h). destruct b; lia.
    - rewrite hc_bin_step in H. destruct (is_binary_char h); [|discriminate H].
      destruct (get_while_split is_binary_char r3 (0 + 1 + clen 98 + clen h) L) as (a & b & Eab & _ & _ & E).
      rewrite E in H.
      assert (HL : L = (1 + 1 + clen h + blen a + blen b)%nat).
      { unfold L, bytes. rewrite utf8_length_text, Eab, !blen_cons, blen_app, !clen_ascii by lia. lia. }
      rewrite (clen_ascii 98) in H by lia. pose proof (clen_pos h).
      destruct b as [|c3 b'].
      + cbn [cidx] in H. apply hc_token_end in H. rewrite Heq in H. cbn [snd] in H. rewrite blen_nil in HL. lia.
      + rewrite cidx_cons in H. destruct (is_decimal_char c3); [discriminate H|].
        apply hc_token_end in H. rewrite Heq in H. cbn [snd] in H. lia.
  Qed.

  Lemma hex_clash h hs c rest tkn :
    forallb hex_digit (h :: hs) = true -> hex_digit c = true ->
    not_first uc (hexp (h :: hs) ++ c :: rest) tkn (blen (hexp (h :: hs))).
  Proof.
    intros Hall Hc f tok rest' H Heq.
    destruct (forallb_cons_true _ _ _ Hall) as [Hh Hhs].
    pose proof (digits_ascii _ _ hex_lt128 Hall) as Hasc.
    destruct (forallb_cons_true _ _ _ Hasc) as [Hh128 Hhs128]. apply N.ltb_lt in Hh128.
    change (hexp (h :: hs) ++ c :: rest) with (48 :: 120 :: h :: (hs ++ c :: rest)) in H.
    assert (HL : List.length (utf8 (48 :: 120 :: h :: hs ++ c :: rest)) = (3 + blen (hs ++ c :: rest))%nat).
    { rewrite utf8_length_text, !blen_cons, !clen_ascii by (try exact Hh128; lia). reflexivity. }
    set (L := List.length (utf8 (48 :: 120 :: h :: hs ++ c :: rest))) in *.
    set (bytes := utf8 (48 :: 120 :: h :: hs ++ c :: rest)) in *.
    rewrite (cidx_ascii 0 48), (cidx_ascii (0 + 1) 120), (cidx_ascii (0 + 1 + 1) h) in H by (try exact Hh128; lia).
    rewrite lex_next_digit in H by reflexivity. rewrite hc_hex_step in H.
    change (is_hexadecimal_char h) with (hex_digit h) in H. rewrite Hh in H.
    destruct (get_while_split is_hexadecimal_char (hs ++ c :: rest) (0 + 1 + 1 + 1) L) as (a & b & Eab & Ha & Hb & E).
    rewrite E in H. apply hc_token_end in H. rewrite Heq in H. cbn [snd] in H.
    assert (HL2 : L = (0 + 1 + 1 + 1 + blen a + blen b)%nat) by (rewrite HL, Eab, blen_app; lia).
    pose proof (run_end uc is_hexadecimal_char hs c rest (0 + 1 + 1 + 1) a b L Hhs Hc Eab Ha Hb HL2) as Hrun.
    assert (Hbl : blen (hexp (h :: hs)) = (3 + blen hs)%nat).
    { unfold hexp. cbn [app]. rewrite !blen_cons, !clen_ascii by (try exact Hh128; lia). reflexivity. }
    rewrite <- H, Hbl in Hrun. lia.
  Qed.

  Lemma bin_clash b0 bs c rest tkn :
    forallb bin_digit (b0 :: bs) = true -> dec_digit c = true ->
    not_first uc (binp (b0 :: bs) ++ c :: rest) tkn (blen (binp (b0 :: bs))).
  Proof.
    intros Hall Hc f tok rest' H Heq.
    destruct (forallb_cons_true _ _ _ Hall) as [Hb0 Hbs].
    pose proof (digits_ascii _ _ bin_lt128 Hall) as Hasc.
    destruct (forallb_cons_true _ _ _ Hasc) as [Hb128 Hbs128]. apply N.ltb_lt in Hb128.
    change (binp (b0 :: bs) ++ c :: rest) with (48 :: 98 :: b0 :: (bs ++ c :: rest)) in H.
    assert (HL : List.length (utf8 (48 :: 98 :: b0 :: bs ++ c :: rest)) = (3 + blen (bs ++ c :: rest))%nat).
    { rewrite utf8_length_text, !blen_cons, !clen_ascii by (try exact Hb128; lia). reflexivity. }
    set (L := List.length (utf8 (48 :: 98 :: b0 :: bs ++ c :: rest))) in *.
    set (bytes := utf8 (48 :: 98 :: b0 :: bs ++ c :: rest)) in *.
    rewrite (cidx_ascii 0 48), (cidx_ascii (0 + 1) 98), (cidx_ascii (0 + 1 + 1) b0) in H by (try exact Hb128; lia).
    rewrite lex_next_digit in H by reflexivity. rewrite hc_bin_step in H.
    change (is_binary_char b0) with (bin_digit b0) in H. rewrite Hb0 in H.
    destruct (get_while_split is_binary_char (bs ++ c :: rest) (0 + 1 + 1 + 1) L) as (a & b & Eab & Ha & Hb & E).
    rewrite E in H.
    assert (HL2 : L = (0 + 1 + 1 + 1 + blen a + blen b)%nat) by (rewrite HL, Eab, blen_app; lia).
    assert (Hbl : blen (binp (b0 :: bs)) = (3 + blen bs)%nat).
    { unfold binp. cbn [app]. rewrite !blen_cons, !clen_ascii by (try exact Hb128; lia). reflexivity. }
    destruct (bin_digit c) eqn:Hbc.
    - (* the literal goes on *)
      pose proof (run_end uc is_binary_char bs c rest (0 + 1 + 1 + 1) a b L Hbs Hbc Eab Ha Hb HL2) as Hrun.
      destruct b as [|c3 b'].
      + cbn [cidx] in H. apply hc_token_end in H. rewrite Heq in H. cbn [snd] in H. rewrite <- H, Hbl in Hrun. lia.
      + rewrite cidx_cons in H. destruct (is_decimal_char c3); [discriminate H|].
        apply hc_token_end in H. rewrite Heq in H. cbn [snd] in H. rewrite <- H, Hbl in Hrun. lia.
    - (* the scanner stops at c, a decimal digit: a lexical error *)
      destruct (prefix_max is_binary_char bs (c :: rest) a b Hbs Eab Ha Hb) as (z & ->).
      rewrite <- app_assoc in Eab. apply app_inv_head in Eab.
      destruct z as [|z0 z'].
      + cbn [app] in Eab. subst b. rewrite cidx_cons in H.
        change (is_decimal_char c) with (dec_digit c) in H. rewrite Hc in H. discriminate H.
      + cbn [app] in Eab. injection Eab as <- _. rewrite forallb_app in Ha. cbn [forallb] in Ha.
        change (is_binary_char c) with (bin_digit c) in Ha. rewrite Hbc in Ha.
        rewrite andb_false_r in Ha. discriminate Ha.
  Qed.
End Clash2.

Section Clash3.
  Variable uc : N -> uclass.

  (* after a comment opened at offset 0 every token starts later *)
  Lemma later_token text a b f tok rest' :
    text = a ++ b -> Forall scalar text -> (1 <= blen a)%nat ->
    lex_next uc f (utf8 text) (List.length (utf8 text)) (cidx (0 + blen a) b) = LexTok tok rest' ->
    fst (fst tok) <> O.
  Proof.
    intros -> Hsc Ha H.
    assert (Hb : utf8 (a ++ b) = utf8 a ++ utf8 b) by apply utf8_app.
    apply Forall_app in Hsc.
    change (0 + blen a)%nat with (List.length (utf8 a)) in H.
    destruct (lex_next_range uc f (utf8 (a ++ b)) (utf8 a) b tok rest' Hb (proj2 Hsc) H) as (_ & Hle & _).
    unfold blen in Ha. lia.
  Qed.

  Ltac eqb_compute H :=
    repeat match type of H with
           | context [?a =? ?b] =>
               let v := eval vm_compute in (a =? b) in change (a =? b) with v in H
           end.

  Lemma op_clash t s0 c rest :
    fixed_spelling t = Some s0 -> is_keyword_token t = false ->
    clash uc t (bytes_of_string s0) c = true -> Forall scalar (bytes_of_string s0 ++ c :: rest) ->
    not_first uc (bytes_of_string s0 ++ c :: rest) t (blen (bytes_of_string s0)).
  Proof.
    intros Hfix Hnk Hcl Hsc f tok rest' H Heq.
    destruct t; try discriminate Hfix; try discriminate Hnk; try discriminate Hcl;
      injection Hfix as <-; cbn [clash] in Hcl; compute_spelling; cbn [app] in H, Hsc.
    - (* > *)
      apply orb_true_iff in Hcl. destruct Hcl as [Hc|Hc]; apply N.eqb_eq in Hc; subst c;
        rewrite !cidx_ascii in H by lia;
        rewrite (ln_two uc _ _ f _ 62 TGreater [(62, TRightShift); (61, TGreaterEqual)]) in H by tauto;
        unfold two_char in H; cbn [find fst] in H; eqb_compute H; injection H as <- _; discriminate Heq.
    - (* < *)
      apply orb_true_iff in Hcl. destruct Hcl as [Hc|Hc]; apply N.eqb_eq in Hc; subst c;
        rewrite !cidx_ascii in H by lia;
        rewrite (ln_two uc _ _ f _ 60 TLess [(60, TLeftShift); (61, TLessEqual)]) in H by tauto;
        unfold two_char in H; cbn [find fst] in H; eqb_compute H; injection H as <- _; discriminate Heq.
    - (* = *)
      apply N.eqb_eq in Hcl; subst c. rewrite !cidx_ascii in H by lia.
      rewrite (ln_two uc _ _ f _ 61 TAssign [(61, TEqual)]) in H by tauto.
      unfold two_char in H; cbn [find fst] in H; eqb_compute H; injection H as <- _; discriminate Heq.
    - (* & *)
      apply N.eqb_eq in Hcl; subst c. rewrite !cidx_ascii in H by lia.
      rewrite (ln_two uc _ _ f _ 38 TAnd [(38, TAndAnd)]) in H by tauto.
      unfold two_char in H; cbn [find fst] in H; eqb_compute H; injection H as <- _; discriminate Heq.
    - (* | *)
      apply N.eqb_eq in Hcl; subst c. rewrite !cidx_ascii in H by lia.
      rewrite (ln_two uc _ _ f _ 124 TOr [(124, TOrOr)]) in H by tauto.
      unfold two_char in H; cbn [find fst] in H; eqb_compute H; injection H as <- _; discriminate Heq.
    - (* / *)
      assert (Hne : fst (fst tok) <> O); [|rewrite Heq in Hne; apply Hne; reflexivity].
      apply orb_true_iff in Hcl. destruct Hcl as [Hc|Hc]; apply N.eqb_eq in Hc; subst c.
      + rewrite (cidx_ascii 0 47) in H by lia. rewrite cidx_cons in H. rewrite ln_slashes in H.
        rewrite <- cidx_cons in H. set (text := 47 :: 47 :: rest) in *.
        destruct (get_while_split is_not_newline (47 :: rest) (0 + 1) (List.length (utf8 text))) as (a & b & Eab & _ & _ & E).
        rewrite E in H.
        apply (later_token text (47 :: a) b f tok rest'); [unfold text; rewrite Eab; reflexivity|exact Hsc| |].
        * rewrite blen_cons. pose proof (clen_pos 47). lia.
        * rewrite blen_cons, clen_ascii by lia. exact H.
      + rewrite (cidx_ascii 0 47), (cidx_ascii (0 + 1) 42) in H by lia. rewrite ln_block in H.
        set (text := 47 :: 42 :: rest) in *.
        destruct (skip_block_comment (S (List.length (cidx (0 + 1 + 1) rest))) (cidx (0 + 1 + 1) rest)
                    (List.length (utf8 text))) as [r3|] eqn:Esk; [|discriminate H].
        destruct (skip_block_sound _ _ _ _ _ Esk) as (a & b & Eab & ->).
        apply (later_token text (47 :: 42 :: a) b f tok rest'); [unfold text; rewrite Eab; reflexivity|exact Hsc| |].
        * rewrite blen_cons. pose proof (clen_pos 47). lia.
        * rewrite !blen_cons, !clen_ascii by lia. rewrite <- !Nat.add_assoc in *. exact H.
    - (* ! *)
      apply N.eqb_eq in Hcl; subst c. rewrite !cidx_ascii in H by lia.
      rewrite (ln_two uc _ _ f _ 33 TNot [(61, TNotEqual)]) in H by tauto.
      unfold two_char in H; cbn [find fst] in H; eqb_compute H; injection H as <- _; discriminate Heq.
  Qed.

  Lemma spells_clash_not_first t s c rest :
    spells uc t s -> clash uc t s c = true -> Forall scalar (s ++ c :: rest) ->
    not_first uc (s ++ c :: rest) t (blen s).
  Proof.
    intros Hsp Hcl Hsc.
    destruct Hsp as [t s Hfix|c0 cs Hc0 Hcs Hnk|ds Hne Hall Hv|ds Hne Hall Hv|ds Hne Hall Hn].
    - destruct (is_keyword_token t) eqn:Hk; [|apply op_clash; assumption].
      destruct t; try discriminate Hk; injection Hfix as <-; cbn [clash] in Hcl; compute_spelling;
        apply word_clash; try reflexivity; exact Hcl.
    - apply word_clash; assumption.
    - destruct ds as [|d ds']; [congruence|]. cbn [clash] in Hcl.
      destruct ds' as [|x2 ds''].
      + destruct (forallb_cons_true _ _ _ Hall) as [Hd _].
        apply orb_true_iff in Hcl. destruct Hcl as [Hcl|H98].
        * apply orb_true_iff in Hcl. destruct Hcl as [Hdc|H120].
          -- apply decimal_clash; assumption.
          -- apply N.eqb_eq in H120. rewrite (blen_ascii [d]) by (cbn [forallb]; rewrite (dec_lt128 _ Hd); reflexivity).
             apply digit_prefix_clash; [exact Hd|left; exact H120].
        * apply N.eqb_eq in H98. rewrite (blen_ascii [d]) by (cbn [forallb]; rewrite (dec_lt128 _ Hd); reflexivity).
          apply digit_prefix_clash; [exact Hd|right; exact H98].
      + assert (Hx2 : (x2 =? 120) = false).
        { apply forallb_cons_true in Hall. destruct Hall as [_ Hall]. apply forallb_cons_true in Hall.
          destruct Hall as [Hx2 _]. unfold dec_digit in Hx2. lia. }
        rewrite Hx2 in Hcl. apply decimal_clash; assumption.
    - destruct ds as [|h hs]; [congruence|]. cbn [clash app] in Hcl.
      apply (hex_clash uc h hs c rest); assumption.
    - destruct ds as [|b0 bs]; [congruence|]. cbn [clash app] in Hcl.
      apply (bin_clash uc b0 bs c rest); assumption.
  Qed.
End Clash3.

Theorem clash_exact_holds : stmt_clash_exact.
Proof.
  intros uc t s c rest Hsp Hcl Hsc. rewrite (first_token uc _ Hsc).
  destruct (lex_next uc (S (List.length (s ++ c :: rest))) (utf8 (s ++ c :: rest))
              (List.length (utf8 (s ++ c :: rest))) (cidx 0 (s ++ c :: rest))) as [tok rest'|e rest'|] eqn:E;
    [|discriminate|discriminate].
  intros Heq. injection Heq as Heq.
  exact (spells_clash_not_first uc t s c rest Hsp Hcl Hsc _ tok rest' E Heq).
Qed.

Theorem may_follow_exact_holds : stmt_may_follow_exact.
Proof.
  intros uc t s next Hsp Hsc. split.
  - intros Hmf. rewrite (first_token uc _ Hsc).
    pose proof (lex_token_step uc [] t s next (List.length (s ++ next)) Hsp Hmf) as H.
    cbn [app List.length] in H. rewrite H. reflexivity.
  - intros H. unfold may_follow. destruct next as [|c rest]; [exact I|].
    destruct (clash uc t s c) eqn:Hcl; [|reflexivity].
    exfalso. exact (clash_exact_holds uc t s c rest Hsp Hcl Hsc H).
Qed.

(* non-vacuity: one instance per class of clash; the first token differs or there is none *)
Example clash_exact_example :
  let first s := hd_error (fst (lex test_uclass (utf8 (bytes_of_string s)))) in
  spells test_uclass TAnd (bytes_of_string "&") /\ clash test_uclass TAnd (bytes_of_string "&") 38 = true /\
  first "&&" = Some (O, TAndAnd, 2%nat) /\ first "& &" = Some (O, TAnd, 1%nat) /\
  first "a1" = Some (O, TIdentifier (bytes_of_string "a1"), 2%nat) /\
  first "1x5" = Some (O, TLit (mkV 5 Unl), 3%nat) /\ first "7b" = None /\
  first "0x1f" = Some (O, TLit (mkV 31 Unl), 4%nat) /\ first "0b12" = None /\
  first "//*c*/ x" = None /\ first "/*c*/ /" = Some (6%nat, TDivide, 7%nat).
Proof.
  cbv zeta. split; [exact (sp_fixed test_uclass TAnd "&" eq_refl)|]. vm_compute. repeat split.
Qed.

Print Assumptions lexer_output_lexable_holds.
Print Assumptions lexer_output_lexable_any_bytes_refuted.
Print Assumptions print_lexes_back_holds.
Print Assumptions canonical_print_lexes_back_holds.
Print Assumptions reprint_same_meaning_holds.
Print Assumptions clash_exact_holds.
Print Assumptions may_follow_exact_holds.
