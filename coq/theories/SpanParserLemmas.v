(* Lemmas about SpanParser.v used by SpanParserProofs.v:
   1. one-step unfolding equations;
   2. erasing the spans of the spanned parser gives the plain parser (function by function);
   3. stability: the result of a parser depends only on the tokens it consumes and on the kind of
      the token that follows them (and not on the fuel, once it suffices). *)
From Coq Require Import Lia.
From HclV Require Import Base Expr Build Lexer Parser LexParseSpec LexParseProofs SpanParser.
Open Scope list_scope.
Open Scope N_scope.

(* ====================================================================================== *)
(* 1. unfolding                                                                           *)
(* ====================================================================================== *)
Section UnfoldSp.
  Variable tiers : list tier.

  Lemma parse_tiers_sp_S f ts toks :
    parse_tiers_sp tiers (S f) ts toks =
    match ts with
    | [] => parse_term_sp tiers f toks
    | (KLeft, ops) :: rest =>
        match parse_tiers_sp tiers f rest toks with
        | Some (l, ext, toks1) => left_loop_sp tiers f rest ops l ext toks1
        | None => None
        end
    | (KNonAssoc, ops) :: rest =>
        match parse_tiers_sp tiers f rest toks with
        | Some (l, ext, t :: toks1) =>
            match op_of_token ops (tk t) with
            | Some op =>
                match parse_tiers_sp tiers f rest toks1 with
                | Some (r, extr, toks2) =>
                    let sp := (fst ext, snd extr) in
                    Some (SEBin sp op l r, sp, toks2)
                | None => None
                end
            | None => Some (l, ext, t :: toks1)
            end
        | other => other
        end
    | (KIn, _) :: rest =>
        match parse_tiers_sp tiers f rest toks with
        | Some (l, ext, t :: toks1) =>
            if token_eqb (tk t) TIn then
              match toks1 with
              | t2 :: toks2 =>
                  if token_eqb (tk t2) TOpenBrace then
                    match parse_commas_exprs_sp tiers f toks2 with
                    | Some (items, t3 :: toks3) =>
                        if token_eqb (tk t3) TCloseBrace then
                          let sp := (fst ext, tend t3) in
                          Some (SEIn sp l items, sp, toks3)
                        else None
                    | _ => None
                    end
                  else None
              | [] => None
              end
            else Some (l, ext, t :: toks1)
        | other => other
        end
    | (KBad, _) :: _ => None
    end.
  Proof. reflexivity. Qed.

  Lemma left_loop_sp_S f rest ops l ext toks :
    left_loop_sp tiers (S f) rest ops l ext toks =
    match toks with
    | t :: toks1 =>
        match op_of_token ops (tk t) with
        | Some op =>
            match parse_tiers_sp tiers f rest toks1 with
            | Some (r, extr, toks2) =>
                let sp := (fst ext, snd extr) in
                left_loop_sp tiers f rest ops (SEBin sp op l r) sp toks2
            | None => None
            end
        | None => Some (l, ext, toks)
        end
    | [] => Some (l, ext, toks)
    end.
  Proof. reflexivity. Qed.

  Lemma parse_term_sp_S f toks :
    parse_term_sp tiers (S f) toks =
    match toks with
    | t :: toks1 =>
        match unop_of_token (tk t) with
        | Some u =>
            match parse_simple_sp tiers f toks1 with
            | Some (e, exte, toks2) =>
                let sp := (tstart t, snd exte) in
                Some (SEUn sp u e, sp, toks2)
            | None => None
            end
        | None =>
            match parse_simple_sp tiers f toks with
            | Some (e, exte, t1 :: t2 :: t3 :: t4 :: t5 :: toks2) =>
                if token_eqb (tk t1) TOpenBracket then
                  match small_constant (tk t2), small_constant (tk t4) with
                  | Some lo, Some hi =>
                      if token_eqb (tk t3) TDotDot && token_eqb (tk t5) TCloseBracket
                      then let sp := (fst exte, tend t5) in
                           Some (SESlice sp e lo hi, sp, toks2)
                      else None
                  | _, _ => None
                  end
                else Some (e, exte, t1 :: t2 :: t3 :: t4 :: t5 :: toks2)
            | Some (e, exte, t1 :: toks2) =>
                if token_eqb (tk t1) TOpenBracket then None else Some (e, exte, t1 :: toks2)
            | other => other
            end
        end
    | [] => None
    end.
  Proof. reflexivity. Qed.

  Lemma parse_simple_sp_S f toks :
    parse_simple_sp tiers (S f) toks =
    match toks with
    | t :: toks1 =>
        match tk t with
        | TLit v => Some (SEConst (tspan t) v, tspan t, toks1)
        | TIdentifier name => Some (SEWire (tspan t) (string_of_name name), tspan t, toks1)
        | TOpenParen =>
            match parse_tiers_sp tiers f tiers toks1 with
            | Some (e, _, t2 :: toks2) =>
                if token_eqb (tk t2) TCloseParen then Some (e, (tstart t, tend t2), toks2)
                else if token_eqb (tk t2) TDotDot then
                  match parse_tiers_sp tiers f tiers toks2 with
                  | Some (r, _, t3 :: toks3) =>
                      if token_eqb (tk t3) TCloseParen then
                        let sp := (tstart t, tend t3) in
                        Some (SECat sp e r, sp, toks3)
                      else None
                  | _ => None
                  end
                else None
            | _ => None
            end
        | TOpenBracket =>
            match parse_mux_options_sp tiers f toks1 with
            | Some (a, t2 :: toks2) =>
                if token_eqb (tk t2) TCloseBracket then
                  let sp := (tstart t, tend t2) in
                  Some (SEMux sp a, sp, toks2)
                else None
            | _ => None
            end
        | _ => None
        end
    | [] => None
    end.
  Proof. reflexivity. Qed.

  Lemma parse_mux_options_sp_S f toks :
    parse_mux_options_sp tiers (S f) toks =
    match toks with
    | t :: _ =>
        if token_eqb (tk t) TCloseBracket then Some (SANil, toks)
        else
          match parse_tiers_sp tiers f tiers toks with
          | Some (c, _, t1 :: toks1) =>
              if token_eqb (tk t1) TColon then
                match parse_tiers_sp tiers f tiers toks1 with
                | Some (v, _, t2 :: toks2) =>
                    if token_eqb (tk t2) TSemicolon then
                      match parse_mux_options_sp tiers f toks2 with
                      | Some (rest, toks3) => Some (SACons c v rest, toks3)
                      | None => None
                      end
                    else Some (SACons c v SANil, t2 :: toks2)
                | Some (v, _, []) => Some (SACons c v SANil, [])
                | None => None
                end
              else None
          | _ => None
          end
    | [] => Some (SANil, toks)
    end.
  Proof. reflexivity. Qed.

  Lemma parse_commas_exprs_sp_S f toks :
    parse_commas_exprs_sp tiers (S f) toks =
    match toks with
    | t :: _ =>
        if token_eqb (tk t) TCloseBrace then Some (SXNil, toks)
        else
          match parse_tiers_sp tiers f tiers toks with
          | Some (e, _, t1 :: toks1) =>
              if token_eqb (tk t1) TComma then
                match parse_commas_exprs_sp tiers f toks1 with
                | Some (rest, toks2) => Some (SXCons e rest, toks2)
                | None => None
                end
              else Some (SXCons e SXNil, t1 :: toks1)
          | Some (e, _, []) => Some (SXCons e SXNil, [])
          | None => None
          end
    | [] => Some (SXNil, toks)
    end.
  Proof. reflexivity. Qed.

  Lemma parse_wire_decls_sp_S f toks :
    parse_wire_decls_sp (S f) toks =
    match toks with
    | t1 :: t2 :: t3 :: toks1 =>
        match tk t1, small_constant (tk t3) with
        | TIdentifier name, Some w =>
            if token_eqb (tk t2) TColon then
              let d := (string_of_name name, Bits w, (tstart t1, tend t3)) in
              match toks1 with
              | t4 :: toks2 =>
                  if token_eqb (tk t4) TComma then
                    match parse_wire_decls_sp f toks2 with
                    | Some (rest, toks3) => Some (d :: rest, toks3)
                    | None => None
                    end
                  else Some ([d], toks1)
              | [] => Some ([d], toks1)
              end
            else None
        | TIdentifier _, None => None
        | _, _ => Some ([], toks)
        end
    | _ => match toks with
           | t1 :: _ => match tk t1 with TIdentifier _ => None | _ => Some ([], toks) end
           | [] => Some ([], toks)
           end
    end.
  Proof. reflexivity. Qed.

  Lemma parse_const_decls_sp_S f toks :
    parse_const_decls_sp tiers (S f) toks =
    match toks with
    | t1 :: t2 :: toks1 =>
        match tk t1 with
        | TIdentifier name =>
            if token_eqb (tk t2) TAssign then
              match parse_expr_sp tiers f toks1 with
              | Some (e, _, t3 :: toks2) =>
                  if token_eqb (tk t3) TComma then
                    match parse_const_decls_sp tiers f toks2 with
                    | Some (rest, toks3) => Some ((string_of_name name, tspan t1, e) :: rest, toks3)
                    | None => None
                    end
                  else Some ([(string_of_name name, tspan t1, e)], t3 :: toks2)
              | Some (e, _, []) => Some ([(string_of_name name, tspan t1, e)], [])
              | None => None
              end
            else None
        | _ => Some ([], toks)
        end
    | [t1] => match tk t1 with TIdentifier _ => None | _ => Some ([], toks) end
    | [] => Some ([], toks)
    end.
  Proof. reflexivity. Qed.

  Lemma parse_targets_sp_S f toks :
    parse_targets_sp (S f) toks =
    match toks with
    | t1 :: t2 :: toks1 =>
        match tk t1 with
        | TIdentifier name =>
            if token_eqb (tk t2) TAssign then
              let '(more, rest) := parse_targets_sp f toks1 in ((string_of_name name, tspan t1) :: more, rest)
            else ([], toks)
        | _ => ([], toks)
        end
    | _ => ([], toks)
    end.
  Proof. reflexivity. Qed.

  Lemma parse_assignments_sp_S f toks :
    parse_assignments_sp tiers (S f) toks =
    let '(names, toks1) := parse_targets_sp (List.length toks) toks in
    match names with
    | [] => None
    | n0 :: _ =>
        match parse_expr_sp tiers f toks1 with
        | Some (e, exte, t :: toks2) =>
            let a := (names, e, (fst (snd n0), snd exte)) in
            if token_eqb (tk t) TComma then
              match toks2 with
              | t2 :: _ =>
                  match tk t2 with
                  | TIdentifier _ =>
                      match parse_assignments_sp tiers f toks2 with
                      | Some (rest, toks3) => Some (a :: rest, toks3)
                      | None => None
                      end
                  | _ => Some ([a], toks2)          
                  end
              | [] => Some ([a], toks2)
              end
            else Some ([a], t :: toks2)
        | Some (e, exte, []) => Some ([(names, e, (fst (snd n0), snd exte))], [])
        | None => None
        end
    end.
  Proof. reflexivity. Qed.

  Lemma parse_register_decls_sp_S f toks :
    parse_register_decls_sp tiers (S f) toks =
    match toks with
    | t1 :: t2 :: t3 :: t4 :: toks1 =>
        match tk t1, small_constant (tk t3) with
        | TIdentifier name, Some w =>
            if token_eqb (tk t2) TColon && token_eqb (tk t4) TAssign then
              match parse_expr_sp tiers f toks1 with
              | Some (e, exte, t5 :: toks2) =>
                  let r := (string_of_name name, Bits w, e, (tstart t1, snd exte)) in
                  if token_eqb (tk t5) TSemicolon then
                    match parse_register_decls_sp tiers f toks2 with
                    | Some (rest, toks3) => Some (r :: rest, toks3)
                    | None => None
                    end
                  else Some ([r], t5 :: toks2)
              | Some (e, exte, []) => Some ([(string_of_name name, Bits w, e, (tstart t1, snd exte))], [])
              | None => None
              end
            else None
        | TIdentifier _, None => None
        | _, _ => Some ([], toks)
        end
    | t1 :: _ => match tk t1 with TIdentifier _ => None | _ => Some ([], toks) end
    | [] => Some ([], toks)
    end.
  Proof. reflexivity. Qed.

  Lemma parse_statements_sp_S f toks seen_one acc :
    parse_statements_sp tiers (S f) toks seen_one acc =
    match toks with
    | [] => if seen_one then Some (rev acc) else None
    | t :: toks1 =>
        if token_eqb (tk t) TSemicolon then
          if seen_one then parse_statements_sp tiers f toks1 true acc else None
        else
          match parse_statement_sp tiers (20 * S (List.length toks)) toks with
          | Some (s, NoSemi, rest) => parse_statements_sp tiers f rest true (s :: acc)
          | Some (s, NeedSemi, t2 :: rest) =>
              if token_eqb (tk t2) TSemicolon then parse_statements_sp tiers f rest true (s :: acc) else None
          | Some (s, NeedSemi, []) => if seen_one then Some (rev (s :: acc)) else None
          | None => None
          end
    end.
  Proof. reflexivity. Qed.

  (* the statement-level functions of Parser.v, for an arbitrary table *)
  Lemma parse_wire_decls_S_any f toks :
    parse_wire_decls (S f) toks =
    match toks with
    | t1 :: t2 :: t3 :: toks1 =>
        match tk t1, small_constant (tk t3) with
        | TIdentifier name, Some w =>
            if token_eqb (tk t2) TColon then
              match toks1 with
              | t4 :: toks2 =>
                  if token_eqb (tk t4) TComma then
                    match parse_wire_decls f toks2 with
                    | Some (rest, toks3) => Some ((string_of_name name, Bits w) :: rest, toks3)
                    | None => None
                    end
                  else Some ([(string_of_name name, Bits w)], toks1)
              | [] => Some ([(string_of_name name, Bits w)], toks1)
              end
            else None
        | TIdentifier _, None => None
        | _, _ => Some ([], toks)
        end
    | _ => match toks with
           | t1 :: _ => match tk t1 with TIdentifier _ => None | _ => Some ([], toks) end
           | [] => Some ([], toks)
           end
    end.
  Proof. reflexivity. Qed.

  Lemma parse_const_decls_S_any f toks :
    parse_const_decls tiers (S f) toks =
    match toks with
    | t1 :: t2 :: toks1 =>
        match tk t1 with
        | TIdentifier name =>
            if token_eqb (tk t2) TAssign then
              match parse_expr tiers f toks1 with
              | Some (e, t3 :: toks2) =>
                  if token_eqb (tk t3) TComma then
                    match parse_const_decls tiers f toks2 with
                    | Some (rest, toks3) => Some ((string_of_name name, e) :: rest, toks3)
                    | None => None
                    end
                  else Some ([(string_of_name name, e)], t3 :: toks2)
              | Some (e, []) => Some ([(string_of_name name, e)], [])
              | None => None
              end
            else None
        | _ => Some ([], toks)
        end
    | [t1] => match tk t1 with TIdentifier _ => None | _ => Some ([], toks) end
    | [] => Some ([], toks)
    end.
  Proof. reflexivity. Qed.

  Lemma parse_targets_S_any f toks :
    parse_targets (S f) toks =
    match toks with
    | t1 :: t2 :: toks1 =>
        match tk t1 with
        | TIdentifier name =>
            if token_eqb (tk t2) TAssign then
              let '(more, rest) := parse_targets f toks1 in (string_of_name name :: more, rest)
            else ([], toks)
        | _ => ([], toks)
        end
    | _ => ([], toks)
    end.
  Proof. reflexivity. Qed.

  Lemma parse_assignments_S_any f toks :
    parse_assignments tiers (S f) toks =
    let '(names, toks1) := parse_targets (List.length toks) toks in
    match names with
    | [] => None
    | _ =>
        match parse_expr tiers f toks1 with
        | Some (e, t :: toks2) =>
            if token_eqb (tk t) TComma then
              match toks2 with
              | t2 :: _ =>
                  match tk t2 with
                  | TIdentifier _ =>
                      match parse_assignments tiers f toks2 with
                      | Some (rest, toks3) => Some ((names, e) :: rest, toks3)
                      | None => None
                      end
                  | _ => Some ([(names, e)], toks2)          
                  end
              | [] => Some ([(names, e)], toks2)
              end
            else Some ([(names, e)], t :: toks2)
        | Some (e, []) => Some ([(names, e)], [])
        | None => None
        end
    end.
  Proof. reflexivity. Qed.

  Lemma parse_register_decls_S_any f toks :
    parse_register_decls tiers (S f) toks =
    match toks with
    | t1 :: t2 :: t3 :: t4 :: toks1 =>
        match tk t1, small_constant (tk t3) with
        | TIdentifier name, Some w =>
            if token_eqb (tk t2) TColon && token_eqb (tk t4) TAssign then
              match parse_expr tiers f toks1 with
              | Some (e, t5 :: toks2) =>
                  if token_eqb (tk t5) TSemicolon then
                    match parse_register_decls tiers f toks2 with
                    | Some (rest, toks3) => Some ((string_of_name name, Bits w, e) :: rest, toks3)
                    | None => None
                    end
                  else Some ([(string_of_name name, Bits w, e)], t5 :: toks2)
              | Some (e, []) => Some ([(string_of_name name, Bits w, e)], [])
              | None => None
              end
            else None
        | TIdentifier _, None => None
        | _, _ => Some ([], toks)
        end
    | t1 :: _ => match tk t1 with TIdentifier _ => None | _ => Some ([], toks) end
    | [] => Some ([], toks)
    end.
  Proof. reflexivity. Qed.

  Lemma parse_statements_S_any f toks seen_one acc :
    parse_statements tiers (S f) toks seen_one acc =
    match toks with
    | [] => if seen_one then Some (rev acc) else None
    | t :: toks1 =>
        if token_eqb (tk t) TSemicolon then
          if seen_one then parse_statements tiers f toks1 true acc else None
        else
          match parse_statement tiers (20 * S (List.length toks)) toks with
          | Some (s, NoSemi, rest) => parse_statements tiers f rest true (s :: acc)
          | Some (s, NeedSemi, t2 :: rest) =>
              if token_eqb (tk t2) TSemicolon then parse_statements tiers f rest true (s :: acc) else None
          | Some (s, NeedSemi, []) => if seen_one then Some (rev (s :: acc)) else None
          | None => None
          end
    end.
  Proof. reflexivity. Qed.

End UnfoldSp.

(* ====================================================================================== *)
(* 2. erasure                                                                             *)
(* ====================================================================================== *)
Definition er3 (r : option (sexpr * srcspan * list tok)) : option (expr * list tok) :=
  match r with Some (e, _, rest) => Some (erase_expr e, rest) | None => None end.
Definition erA (r : option (sarms * list tok)) : option (arms * list tok) :=
  match r with Some (a, rest) => Some (erase_arms a, rest) | None => None end.
Definition erX (r : option (sexprs * list tok)) : option (exprs * list tok) :=
  match r with Some (x, rest) => Some (erase_exprs x, rest) | None => None end.
Definition erL {A B : Type} (g : A -> B) (r : option (list A * list tok)) : option (list B * list tok) :=
  match r with Some (l, rest) => Some (map g l, rest) | None => None end.

Section EraseExpr.
  Variable tiers : list tier.

  Definition erase_at (f : nat) : Prop :=
    (forall ts toks, er3 (parse_tiers_sp tiers f ts toks) = parse_tiers tiers f ts toks) /\
    (forall rest ops l ext toks,
        er3 (left_loop_sp tiers f rest ops l ext toks) = left_loop tiers f rest ops (erase_expr l) toks) /\
    (forall toks, er3 (parse_term_sp tiers f toks) = parse_term tiers f toks) /\
    (forall toks, er3 (parse_simple_sp tiers f toks) = parse_simple tiers f toks) /\
    (forall toks, erA (parse_mux_options_sp tiers f toks) = parse_mux_options tiers f toks) /\
    (forall toks, erX (parse_commas_exprs_sp tiers f toks) = parse_commas_exprs tiers f toks).

  Lemma erase_all : forall f, erase_at f.
  Proof.
    induction f as [|f IH].
    - unfold erase_at. repeat split; intros; reflexivity.
    - destruct IH as (IH1 & IH2 & IH3 & IH4 & IH5 & IH6).
      unfold erase_at. repeat split.
      + intros ts toks. rewrite parse_tiers_sp_S, parse_tiers_S.
        destruct ts as [|[[| | |] ops] rest]; [apply IH3| | | |reflexivity].
        * rewrite <- IH1. destruct (parse_tiers_sp tiers f rest toks) as [[[l ext] toks1]|]; cbn [er3]; [apply IH2|reflexivity].
        * rewrite <- IH1. destruct (parse_tiers_sp tiers f rest toks) as [[[l ext] toks1]|]; cbn [er3]; [|reflexivity].
          destruct toks1 as [|t toks1]; [reflexivity|].
          destruct (op_of_token ops (tk t)); [|reflexivity].
          rewrite <- IH1. destruct (parse_tiers_sp tiers f rest toks1) as [[[r extr] toks2]|]; reflexivity.
        * rewrite <- IH1. destruct (parse_tiers_sp tiers f rest toks) as [[[l ext] toks1]|]; cbn [er3]; [|reflexivity].
          destruct toks1 as [|t toks1]; [reflexivity|].
          destruct (token_eqb (tk t) TIn); [|reflexivity].
          destruct toks1 as [|t2 toks2]; [reflexivity|].
          destruct (token_eqb (tk t2) TOpenBrace); [|reflexivity].
          rewrite <- IH6. destruct (parse_commas_exprs_sp tiers f toks2) as [[items toks3]|]; cbn [erX]; [|reflexivity].
          destruct toks3 as [|t3 toks3]; [reflexivity|].
          destruct (token_eqb (tk t3) TCloseBrace); reflexivity.
      + intros rest ops l ext toks. rewrite left_loop_sp_S, left_loop_S.
        destruct toks as [|t toks1]; [reflexivity|].
        destruct (op_of_token ops (tk t)); [|reflexivity].
        rewrite <- IH1. destruct (parse_tiers_sp tiers f rest toks1) as [[[r extr] toks2]|]; cbn [er3]; [|reflexivity].
        cbv zeta. rewrite IH2. reflexivity.
      + intros toks. rewrite parse_term_sp_S, parse_term_S.
        destruct toks as [|t toks1]; [reflexivity|].
        destruct (unop_of_token (tk t)).
        * rewrite <- IH4. destruct (parse_simple_sp tiers f toks1) as [[[e exte] toks2]|]; reflexivity.
        * rewrite <- IH4.
          destruct (parse_simple_sp tiers f (t :: toks1)) as [[[e exte] toks2]|]; cbn [er3]; [|reflexivity].
          destruct toks2 as [|t1 toks2]; [reflexivity|].
          destruct toks2 as [|t2 toks2].
          { destruct (token_eqb (tk t1) TOpenBracket); reflexivity. }
          destruct toks2 as [|t3 toks2].
          { destruct (token_eqb (tk t1) TOpenBracket); reflexivity. }
          destruct toks2 as [|t4 toks2].
          { destruct (token_eqb (tk t1) TOpenBracket); reflexivity. }
          destruct toks2 as [|t5 toks2].
          { destruct (token_eqb (tk t1) TOpenBracket); reflexivity. }
          destruct (token_eqb (tk t1) TOpenBracket); [|reflexivity].
          destruct (small_constant (tk t2)); [|reflexivity].
          destruct (small_constant (tk t4)); [|reflexivity].
          destruct (token_eqb (tk t3) TDotDot && token_eqb (tk t5) TCloseBracket); reflexivity.
      + intros toks. rewrite parse_simple_sp_S, parse_simple_S.
        destruct toks as [|t toks1]; [reflexivity|].
        destruct (tk t); try reflexivity.
        * rewrite <- IH1. destruct (parse_tiers_sp tiers f tiers toks1) as [[[e exte] toks2]|]; cbn [er3]; [|reflexivity].
          destruct toks2 as [|t2 toks2]; [reflexivity|].
          destruct (token_eqb (tk t2) TCloseParen); [reflexivity|].
          destruct (token_eqb (tk t2) TDotDot); [|reflexivity].
          rewrite <- IH1. destruct (parse_tiers_sp tiers f tiers toks2) as [[[r extr] toks3]|]; cbn [er3]; [|reflexivity].
          destruct toks3 as [|t3 toks3]; [reflexivity|].
          destruct (token_eqb (tk t3) TCloseParen); reflexivity.
        * rewrite <- IH5. destruct (parse_mux_options_sp tiers f toks1) as [[a toks2]|]; cbn [erA]; [|reflexivity].
          destruct toks2 as [|t2 toks2]; [reflexivity|].
          destruct (token_eqb (tk t2) TCloseBracket); reflexivity.
      + intros toks. rewrite parse_mux_options_sp_S, parse_mux_options_S.
        destruct toks as [|t toks1]; [reflexivity|].
        destruct (token_eqb (tk t) TCloseBracket); [reflexivity|].
        rewrite <- IH1.
        destruct (parse_tiers_sp tiers f tiers (t :: toks1)) as [[[c extc] toks2]|]; cbn [er3]; [|reflexivity].
        destruct toks2 as [|t1 toks2]; [reflexivity|].
        destruct (token_eqb (tk t1) TColon); [|reflexivity].
        rewrite <- IH1. destruct (parse_tiers_sp tiers f tiers toks2) as [[[v extv] toks3]|]; cbn [er3]; [|reflexivity].
        destruct toks3 as [|t2 toks3]; [reflexivity|].
        destruct (token_eqb (tk t2) TSemicolon); [|reflexivity].
        rewrite <- IH5. destruct (parse_mux_options_sp tiers f toks3) as [[rest toks4]|]; reflexivity.
      + intros toks. rewrite parse_commas_exprs_sp_S, parse_commas_exprs_S.
        destruct toks as [|t toks1]; [reflexivity|].
        destruct (token_eqb (tk t) TCloseBrace); [reflexivity|].
        rewrite <- IH1.
        destruct (parse_tiers_sp tiers f tiers (t :: toks1)) as [[[e exte] toks2]|]; cbn [er3]; [|reflexivity].
        destruct toks2 as [|t1 toks2]; [reflexivity|].
        destruct (token_eqb (tk t1) TComma); [|reflexivity].
        rewrite <- IH6. destruct (parse_commas_exprs_sp tiers f toks2) as [[rest toks3]|]; reflexivity.
  Qed.

  Lemma erase_parse_expr f toks : er3 (parse_expr_sp tiers f toks) = parse_expr tiers f toks.
  Proof. apply (proj1 (erase_all f)). Qed.
End EraseExpr.

Lemma erase_wire_decls f : forall toks,
  erL erase_wire_decl (parse_wire_decls_sp f toks) = parse_wire_decls f toks.
Proof.
  induction f as [|f IH]; intros toks; [reflexivity|].
  cbn [parse_wire_decls_sp parse_wire_decls].
  destruct toks as [|t1 toks]; [reflexivity|].
  destruct toks as [|t2 toks]; [destruct (tk t1); reflexivity|].
  destruct toks as [|t3 toks]; [destruct (tk t1); reflexivity|].
  destruct (tk t1); try reflexivity.
  destruct (small_constant (tk t3)); [|reflexivity].
  destruct (token_eqb (tk t2) TColon); [|reflexivity].
  destruct toks as [|t4 toks]; [reflexivity|].
  destruct (token_eqb (tk t4) TComma); [|reflexivity].
  rewrite <- IH. destruct (parse_wire_decls_sp f toks) as [[rest toks3]|]; reflexivity.
Qed.

Definition er_stmt3 (r : option (sstmt * stmt_kind * list tok)) : option (stmt * stmt_kind * list tok) :=
  match r with Some (s, k, rest) => Some (erase_stmt s, k, rest) | None => None end.

Section EraseStmt.
  Variable tiers : list tier.

  Lemma erase_const_decls f : forall toks,
    erL erase_const_decl (parse_const_decls_sp tiers f toks) = parse_const_decls tiers f toks.
  Proof.
    induction f as [|f IH]; intros toks; [reflexivity|].
    cbn [parse_const_decls_sp parse_const_decls].
    destruct toks as [|t1 toks]; [reflexivity|].
    destruct toks as [|t2 toks]; [destruct (tk t1); reflexivity|].
    destruct (tk t1); try reflexivity.
    destruct (token_eqb (tk t2) TAssign); [|reflexivity].
    rewrite <- erase_parse_expr.
    destruct (parse_expr_sp tiers f toks) as [[[e exte] toks2]|]; cbn [er3]; [|reflexivity].
    destruct toks2 as [|t3 toks2]; [reflexivity|].
    destruct (token_eqb (tk t3) TComma); [|reflexivity].
    rewrite <- IH. destruct (parse_const_decls_sp tiers f toks2) as [[rest toks3]|]; reflexivity.
  Qed.

  Lemma erase_targets f : forall toks,
    parse_targets f toks = (map fst (fst (parse_targets_sp f toks)), snd (parse_targets_sp f toks)).
  Proof.
    induction f as [|f IH]; intros toks; [reflexivity|].
    cbn [parse_targets_sp parse_targets].
    destruct toks as [|t1 toks]; [reflexivity|].
    destruct toks as [|t2 toks]; [reflexivity|].
    destruct (tk t1); try reflexivity.
    destruct (token_eqb (tk t2) TAssign); [|reflexivity].
    rewrite IH. destruct (parse_targets_sp f toks) as [more rest]. reflexivity.
  Qed.

  Lemma erase_assignments f : forall toks,
    erL erase_assign (parse_assignments_sp tiers f toks) = parse_assignments tiers f toks.
  Proof.
    induction f as [|f IH]; intros toks; [reflexivity|].
    cbn [parse_assignments_sp parse_assignments]. rewrite erase_targets.
    destruct (parse_targets_sp (List.length toks) toks) as [names toks1]. cbn [fst snd].
    destruct names as [|n0 names]; [reflexivity|]. cbn [map].
    rewrite <- erase_parse_expr.
    destruct (parse_expr_sp tiers f toks1) as [[[e exte] toks2]|]; cbn [er3]; [|reflexivity].
    destruct toks2 as [|t toks2]; [reflexivity|].
    destruct (token_eqb (tk t) TComma); [|reflexivity].
    destruct toks2 as [|t2 toks2]; [reflexivity|].
    destruct (tk t2) eqn:Ht2; try reflexivity.
    rewrite <- IH.
    destruct (parse_assignments_sp tiers f (t2 :: toks2)) as [[rest toks3]|]; reflexivity.
  Qed.

  Lemma erase_register_decls f : forall toks,
    erL erase_reg_decl (parse_register_decls_sp tiers f toks) = parse_register_decls tiers f toks.
  Proof.
    induction f as [|f IH]; intros toks; [reflexivity|].
    cbn [parse_register_decls_sp parse_register_decls].
    destruct toks as [|t1 toks]; [reflexivity|].
    destruct toks as [|t2 toks]; [destruct (tk t1); reflexivity|].
    destruct toks as [|t3 toks]; [destruct (tk t1); reflexivity|].
    destruct toks as [|t4 toks]; [destruct (tk t1); reflexivity|].
    destruct (tk t1); try reflexivity.
    destruct (small_constant (tk t3)); [|reflexivity].
    destruct (token_eqb (tk t2) TColon && token_eqb (tk t4) TAssign); [|reflexivity].
    rewrite <- erase_parse_expr.
    destruct (parse_expr_sp tiers f toks) as [[[e exte] toks2]|]; cbn [er3]; [|reflexivity].
    destruct toks2 as [|t5 toks2]; [reflexivity|].
    destruct (token_eqb (tk t5) TSemicolon); [|reflexivity].
    rewrite <- IH. destruct (parse_register_decls_sp tiers f toks2) as [[rest toks3]|]; reflexivity.
  Qed.

  Lemma erase_statement f toks :
    er_stmt3 (parse_statement_sp tiers f toks) = parse_statement tiers f toks.
  Proof.
    unfold parse_statement_sp, parse_statement.
    destruct toks as [|t toks1]; [reflexivity|].
    destruct (tk t) eqn:Ht; try reflexivity.
    - rewrite <- erase_wire_decls. destruct (parse_wire_decls_sp f toks1) as [[d rest]|]; reflexivity.
    - rewrite <- erase_const_decls. destruct (parse_const_decls_sp tiers f toks1) as [[d rest]|]; reflexivity.
    - destruct toks1 as [|t1 toks1]; [reflexivity|].
      destruct toks1 as [|t2 toks2]; [reflexivity|].
      destruct (tk t1); try reflexivity.
      destruct (token_eqb (tk t2) TOpenBrace); [|reflexivity].
      rewrite <- erase_register_decls.
      destruct (parse_register_decls_sp tiers f toks2) as [[regs rest]|]; cbn [erL]; [|reflexivity].
      destruct rest as [|t3 rest]; [reflexivity|].
      destruct (token_eqb (tk t3) TCloseBrace); reflexivity.
    - rewrite <- erase_assignments.
      destruct (parse_assignments_sp tiers f (t :: toks1)) as [[a rest]|]; reflexivity.
  Qed.

  Lemma erase_statements f : forall toks seen acc,
    option_map (map erase_stmt) (parse_statements_sp tiers f toks seen acc) =
    parse_statements tiers f toks seen (map erase_stmt acc).
  Proof.
    induction f as [|f IH]; intros toks seen acc; [reflexivity|].
    cbn [parse_statements_sp parse_statements].
    destruct toks as [|t toks1].
    - destruct seen; [|reflexivity]. cbn [option_map]. rewrite map_rev. reflexivity.
    - destruct (token_eqb (tk t) TSemicolon).
      + destruct seen; [apply IH|reflexivity].
      + rewrite <- erase_statement.
        destruct (parse_statement_sp tiers (20 * S (List.length (t :: toks1))) (t :: toks1)) as [[[s k] rest]|];
          cbn [er_stmt3]; [|reflexivity].
        destruct k.
        * destruct rest as [|t2 rest].
          { destruct seen; [|reflexivity]. cbn [option_map]. rewrite map_rev. reflexivity. }
          destruct (token_eqb (tk t2) TSemicolon); [apply (IH rest true (s :: acc))|reflexivity].
        * apply (IH rest true (s :: acc)).
  Qed.

  Lemma erase_parse toks : option_map (map erase_stmt) (parse_sp tiers toks) = parse tiers toks.
  Proof. unfold parse_sp, parse. apply (erase_statements _ toks false []). Qed.
End EraseStmt.

Lemma erase_parse_text uc tiers bytes :
  option_map (map erase_stmt) (parse_text_sp uc tiers bytes) = parse_text uc tiers bytes.
Proof.
  unfold parse_text_sp, parse_text. destruct (lex uc bytes) as [toks [e|]]; [reflexivity|apply erase_parse].
Qed.

(* ====================================================================================== *)
(* 3. stability                                                                           *)
(* ====================================================================================== *)
Definition hd_tk (l : list tok) : option token := match l with t :: _ => Some (tk t) | [] => None end.

(* [rest'] may replace [rest] after the consumed tokens: it is empty, or begins with a token of the
   same kind *)
Definition compat (rest rest' : list tok) : Prop :=
  match rest' with [] => True | t' :: _ => hd_tk rest = Some (tk t') end.

Lemma compat_refl l : compat l l.
Proof. destruct l; cbn; reflexivity. Qed.
Lemma compat_nil l : compat l [].
Proof. exact I. Qed.
Lemma compat_app w a b : compat a b -> compat (w ++ a) (w ++ b).
Proof. intros H. destruct w as [|t w]; [exact H|reflexivity]. Qed.
Lemma compat_cons t a b : compat (t :: a) (t :: b).
Proof. reflexivity. Qed.
Lemma compat_nil_l b : compat [] b -> b = [].
Proof. destruct b; [reflexivity|discriminate]. Qed.
Lemma compat_cons_inv t a b : compat (t :: a) b -> b = [] \/ exists t' b', b = t' :: b' /\ tk t' = tk t.
Proof.
  destruct b as [|t' b']; [left; reflexivity|]. cbn. intros H. injection H as H.
  right. exists t', b'. split; [reflexivity|symmetry; exact H].
Qed.
Lemma compat_app_extend a u : a <> [] -> compat a (a ++ u).
Proof. destruct a; [congruence|reflexivity]. Qed.

(* the result of [P] at [toks] depends only on the consumed tokens [w], the kind of the next token
   and - once it suffices - not on the fuel *)
Definition Stab {A : Type} (P : nat -> list tok -> option (A * list tok)) (f : nat) : Prop :=
  forall toks r rest, P f toks = Some (r, rest) ->
    exists w, toks = w ++ rest /\
      forall f' rest', (f <= f')%nat -> compat rest rest' -> P f' (w ++ rest') = Some (r, rest').
(* ... and at least one token is consumed *)
Definition Stab1 {A : Type} (P : nat -> list tok -> option (A * list tok)) (f : nat) : Prop :=
  forall toks r rest, P f toks = Some (r, rest) ->
    exists w, toks = w ++ rest /\ w <> [] /\
      forall f' rest', (f <= f')%nat -> compat rest rest' -> P f' (w ++ rest') = Some (r, rest').

Ltac napp := repeat first [rewrite <- app_assoc | progress (cbn [app])].
Ltac fuelS f' := destruct f' as [|f']; [lia|].

Section StableExpr.
  Variable tiers : list tier.

  Definition stable_at (f : nat) : Prop :=
    (forall ts, Stab1 (fun f toks => parse_tiers_sp tiers f ts toks) f) /\
    (forall rest ops l ext, Stab (fun f toks => left_loop_sp tiers f rest ops l ext toks) f) /\
    Stab1 (parse_term_sp tiers) f /\
    Stab1 (parse_simple_sp tiers) f /\
    Stab (parse_mux_options_sp tiers) f /\
    Stab (parse_commas_exprs_sp tiers) f.

  Lemma stable_all : forall f, stable_at f.
  Proof.
    induction f as [|f IH].
    - unfold stable_at, Stab, Stab1. repeat split; intros; discriminate.
    - destruct IH as (IH1 & IH2 & IH3 & IH4 & IH5 & IH6).
      unfold stable_at. repeat split.
      + (* parse_tiers *)
        intros ts toks r rest0 H. rewrite parse_tiers_sp_S in H.
        destruct ts as [|[[| | |] ops] rest]; [| | | |discriminate H].
        * destruct (IH3 _ _ _ H) as (w & Hw & Hne & St). exists w. split; [exact Hw|]. split; [exact Hne|].
          intros f' rest' Hf Hc. fuelS f'. rewrite parse_tiers_sp_S. apply St; [lia|exact Hc].
        * destruct (parse_tiers_sp tiers f rest toks) as [[[l ext] toks1]|] eqn:E1; [|discriminate H].
          destruct (IH1 _ _ _ _ E1) as (w1 & Hw1 & Hne1 & St1).
          destruct (IH2 _ _ _ _ _ _ _ H) as (w2 & Hw2 & St2).
          exists (w1 ++ w2). split; [rewrite Hw1, Hw2; napp; reflexivity|].
          split; [destruct w1; [congruence|discriminate]|].
          intros f' rest' Hf Hc. fuelS f'. rewrite parse_tiers_sp_S. napp.
          rewrite (St1 f' (w2 ++ rest')); [|lia|rewrite Hw2; apply compat_app; exact Hc].
          apply St2; [lia|exact Hc].
        * destruct (parse_tiers_sp tiers f rest toks) as [[[l ext] toks1]|] eqn:E1; [|discriminate H].
          destruct (IH1 _ _ _ _ E1) as (w1 & Hw1 & Hne1 & St1).
          assert (Hstop : forall toks1', toks1 = toks1' -> (toks1' = [] \/ exists t r, toks1' = t :: r /\ op_of_token ops (tk t) = None) ->
                    Some (l, ext, toks1') = Some (r, rest0) ->
                    exists w, toks = w ++ rest0 /\ w <> [] /\
                      forall f' rest', (S f <= f')%nat -> compat rest0 rest' ->
                        parse_tiers_sp tiers f' ((KNonAssoc, ops) :: rest) (w ++ rest') = Some (r, rest')).
          { intros toks1' <- Hcase Hinj. injection Hinj as <- <-.
            exists w1. split; [exact Hw1|]. split; [exact Hne1|].
            intros f' rest' Hf Hc. fuelS f'. rewrite parse_tiers_sp_S.
            rewrite (St1 f' rest'); [|lia|exact Hc].
            destruct rest' as [|t' r']; [reflexivity|].
            destruct Hcase as [->|(t & r0 & -> & Hnone)]; [discriminate Hc|].
            cbn in Hc. injection Hc as Hc. rewrite <- Hc, Hnone. reflexivity. }
          destruct toks1 as [|t toks1]; [apply (Hstop [] eq_refl); [left; reflexivity|exact H]|].
          destruct (op_of_token ops (tk t)) as [op|] eqn:Eop;
            [|apply (Hstop _ eq_refl); [right; exists t, toks1; split; [reflexivity|exact Eop]|exact H]].
          clear Hstop.
          destruct (parse_tiers_sp tiers f rest toks1) as [[[r0 extr] toks2]|] eqn:E2; [|discriminate H].
          destruct (IH1 _ _ _ _ E2) as (w2 & Hw2 & Hne2 & St2).
          cbv zeta in H. injection H as <- <-.
          exists (w1 ++ t :: w2). split; [rewrite Hw1, Hw2; napp; reflexivity|].
          split; [destruct w1; discriminate|].
          intros f' rest' Hf Hc. fuelS f'. rewrite parse_tiers_sp_S. napp.
          rewrite (St1 f' (t :: w2 ++ rest')); [|lia|reflexivity].
          rewrite Eop. rewrite (St2 f' rest'); [|lia|exact Hc]. reflexivity.
        * destruct (parse_tiers_sp tiers f rest toks) as [[[l ext] toks1]|] eqn:E1; [|discriminate H].
          destruct (IH1 _ _ _ _ E1) as (w1 & Hw1 & Hne1 & St1).
          assert (Hstop : forall toks1', toks1 = toks1' -> (toks1' = [] \/ exists t r, toks1' = t :: r /\ token_eqb (tk t) TIn = false) ->
                    Some (l, ext, toks1') = Some (r, rest0) ->
                    exists w, toks = w ++ rest0 /\ w <> [] /\
                      forall f' rest', (S f <= f')%nat -> compat rest0 rest' ->
                        parse_tiers_sp tiers f' ((KIn, ops) :: rest) (w ++ rest') = Some (r, rest')).
          { intros toks1' <- Hcase Hinj. injection Hinj as <- <-.
            exists w1. split; [exact Hw1|]. split; [exact Hne1|].
            intros f' rest' Hf Hc. fuelS f'. rewrite parse_tiers_sp_S.
            rewrite (St1 f' rest'); [|lia|exact Hc].
            destruct rest' as [|t' r']; [reflexivity|].
            destruct Hcase as [->|(t & r0 & -> & Hnone)]; [discriminate Hc|].
            cbn in Hc. injection Hc as Hc. rewrite <- Hc, Hnone. reflexivity. }
          destruct toks1 as [|t toks1]; [apply (Hstop [] eq_refl); [left; reflexivity|exact H]|].
          destruct (token_eqb (tk t) TIn) eqn:Et;
            [|apply (Hstop _ eq_refl); [right; exists t, toks1; split; [reflexivity|exact Et]|exact H]].
          clear Hstop.
          destruct toks1 as [|t2 toks2]; [discriminate H|].
          destruct (token_eqb (tk t2) TOpenBrace) eqn:Et2; [|discriminate H].
          destruct (parse_commas_exprs_sp tiers f toks2) as [[items toks3]|] eqn:E2; [|discriminate H].
          destruct toks3 as [|t3 toks3]; [discriminate H|].
          destruct (token_eqb (tk t3) TCloseBrace) eqn:Et3; [|discriminate H].
          destruct (IH6 _ _ _ E2) as (w2 & Hw2 & St2).
          cbv zeta in H. injection H as <- <-.
          exists (w1 ++ t :: t2 :: w2 ++ [t3]). split; [rewrite Hw1, Hw2; napp; reflexivity|].
          split; [destruct w1; discriminate|].
          intros f' rest' Hf Hc. fuelS f'. rewrite parse_tiers_sp_S. napp.
          rewrite (St1 f' (t :: t2 :: w2 ++ t3 :: rest')); [|lia|reflexivity].
          rewrite Et, Et2. rewrite (St2 f' (t3 :: rest')); [|lia|reflexivity].
          rewrite Et3. reflexivity.
      + (* left_loop *)
        intros rest ops l ext toks r rest0 H. rewrite left_loop_sp_S in H.
        destruct toks as [|t toks1].
        * injection H as <- <-. exists []. split; [reflexivity|].
          intros f' rest' Hf Hc. apply compat_nil_l in Hc. subst rest'. fuelS f'. reflexivity.
        * destruct (op_of_token ops (tk t)) as [op|] eqn:Eop.
          -- destruct (parse_tiers_sp tiers f rest toks1) as [[[r0 extr] toks2]|] eqn:E2; [|discriminate H].
             destruct (IH1 _ _ _ _ E2) as (w2 & Hw2 & Hne2 & St2).
             cbv zeta in H. destruct (IH2 _ _ _ _ _ _ _ H) as (w3 & Hw3 & St3).
             exists (t :: w2 ++ w3). split; [rewrite Hw2, Hw3; napp; reflexivity|].
             intros f' rest' Hf Hc. fuelS f'. rewrite left_loop_sp_S. napp.
             rewrite Eop. rewrite (St2 f' (w3 ++ rest')); [|lia|rewrite Hw3; apply compat_app; exact Hc].
             cbv zeta. apply St3; [lia|exact Hc].
          -- injection H as <- <-. exists []. split; [reflexivity|].
             intros f' rest' Hf Hc. fuelS f'. rewrite left_loop_sp_S. cbn [app].
             destruct rest' as [|t' r']; [reflexivity|].
             cbn in Hc. injection Hc as Hc. rewrite <- Hc, Eop. reflexivity.
      + (* parse_term *)
        intros toks r rest0 H. rewrite parse_term_sp_S in H.
        destruct toks as [|t toks1]; [discriminate H|].
        destruct (unop_of_token (tk t)) as [u|] eqn:Eu.
        * destruct (parse_simple_sp tiers f toks1) as [[[e exte] toks2]|] eqn:E1; [|discriminate H].
          destruct (IH4 _ _ _ E1) as (w1 & Hw1 & Hne1 & St1).
          cbv zeta in H. injection H as <- <-.
          exists (t :: w1). split; [rewrite Hw1; reflexivity|]. split; [discriminate|].
          intros f' rest' Hf Hc. fuelS f'. rewrite parse_term_sp_S. cbn [app]. rewrite Eu.
          rewrite (St1 f' rest'); [|lia|exact Hc]. reflexivity.
        * destruct (parse_simple_sp tiers f (t :: toks1)) as [[[e exte] toks2]|] eqn:E1; [|discriminate H].
          destruct (IH4 _ _ _ E1) as (w1 & Hw1 & Hne1 & St1).
          assert (Hhead : exists w1', w1 = t :: w1').
          { destruct w1 as [|x w1']; [congruence|]. cbn [app] in Hw1. injection Hw1 as <- _. exists w1'. reflexivity. }
          destruct Hhead as (w1' & ->).
          assert (Hstop : (toks2 = [] \/ exists t1 r1, toks2 = t1 :: r1 /\ token_eqb (tk t1) TOpenBracket = false) ->
                    Some (e, exte, toks2) = Some (r, rest0) ->
                    exists w, t :: toks1 = w ++ rest0 /\ w <> [] /\
                      forall f' rest', (S f <= f')%nat -> compat rest0 rest' ->
                        parse_term_sp tiers f' (w ++ rest') = Some (r, rest')).
          { intros Hcase Hinj. injection Hinj as <- <-.
            exists (t :: w1'). split; [exact Hw1|]. split; [discriminate|].
            intros f' rest' Hf Hc. fuelS f'. rewrite parse_term_sp_S. cbn [app]. rewrite Eu.
            change (t :: w1' ++ rest') with ((t :: w1') ++ rest').
            rewrite (St1 f' rest'); [|lia|exact Hc].
            destruct rest' as [|t1' r']; [reflexivity|].
            destruct Hcase as [->|(t1 & r1 & -> & Hb)]; [discriminate Hc|].
            cbn in Hc. injection Hc as Hc.
            destruct r' as [|t2' [|t3' [|t4' [|t5' r']]]]; rewrite <- Hc, Hb; reflexivity. }
          destruct toks2 as [|t1 toks2]; [apply Hstop; [left; reflexivity|exact H]|].
          destruct (token_eqb (tk t1) TOpenBracket) eqn:Eb.
          2:{ apply Hstop; [right; exists t1, toks2; split; [reflexivity|exact Eb]|].
              destruct toks2 as [|t2 [|t3 [|t4 [|t5 toks2]]]]; exact H. }
          clear Hstop.
          destruct toks2 as [|t2 [|t3 [|t4 [|t5 toks2]]]]; try discriminate H.
          destruct (small_constant (tk t2)) as [lo|] eqn:Elo; [|discriminate H].
          destruct (small_constant (tk t4)) as [hi|] eqn:Ehi; [|discriminate H].
          destruct (token_eqb (tk t3) TDotDot && token_eqb (tk t5) TCloseBracket) eqn:E35; [|discriminate H].
          cbv zeta in H. injection H as <- <-.
          exists ((t :: w1') ++ [t1; t2; t3; t4; t5]). split; [rewrite Hw1; napp; reflexivity|].
          split; [discriminate|].
          intros f' rest' Hf Hc. fuelS f'. rewrite parse_term_sp_S. napp. rewrite Eu.
          change (t :: w1' ++ t1 :: t2 :: t3 :: t4 :: t5 :: rest') with ((t :: w1') ++ t1 :: t2 :: t3 :: t4 :: t5 :: rest').
          rewrite (St1 f' (t1 :: t2 :: t3 :: t4 :: t5 :: rest')); [|lia|reflexivity].
          rewrite Eb, Elo, Ehi, E35. reflexivity.
      + (* parse_simple *)
        intros toks r rest0 H. rewrite parse_simple_sp_S in H.
        destruct toks as [|t toks1]; [discriminate H|].
        destruct (tk t) eqn:Ht; try discriminate H.
        * injection H as <- <-. exists [t]. split; [reflexivity|]. split; [discriminate|].
          intros f' rest' Hf Hc. fuelS f'. rewrite parse_simple_sp_S. cbn [app]. rewrite Ht. reflexivity.
        * destruct (parse_tiers_sp tiers f tiers toks1) as [[[e exte] toks2]|] eqn:E1; [|discriminate H].
          destruct (IH1 _ _ _ _ E1) as (w1 & Hw1 & Hne1 & St1).
          destruct toks2 as [|t2 toks2]; [discriminate H|].
          destruct (token_eqb (tk t2) TCloseParen) eqn:Ec.
          -- injection H as <- <-. exists (t :: w1 ++ [t2]). split; [rewrite Hw1; napp; reflexivity|].
             split; [discriminate|].
             intros f' rest' Hf Hc. fuelS f'. rewrite parse_simple_sp_S. napp. rewrite Ht.
             rewrite (St1 f' (t2 :: rest')); [|lia|reflexivity]. rewrite Ec. reflexivity.
          -- destruct (token_eqb (tk t2) TDotDot) eqn:Ed; [|discriminate H].
             destruct (parse_tiers_sp tiers f tiers toks2) as [[[r0 extr] toks3]|] eqn:E2; [|discriminate H].
             destruct (IH1 _ _ _ _ E2) as (w2 & Hw2 & Hne2 & St2).
             destruct toks3 as [|t3 toks3]; [discriminate H|].
             destruct (token_eqb (tk t3) TCloseParen) eqn:Ec3; [|discriminate H].
             cbv zeta in H. injection H as <- <-.
             exists (t :: w1 ++ t2 :: w2 ++ [t3]). split; [rewrite Hw1, Hw2; napp; reflexivity|].
             split; [discriminate|].
             intros f' rest' Hf Hc. fuelS f'. rewrite parse_simple_sp_S. napp. rewrite Ht.
             rewrite (St1 f' (t2 :: w2 ++ t3 :: rest')); [|lia|reflexivity]. rewrite Ec, Ed.
             rewrite (St2 f' (t3 :: rest')); [|lia|reflexivity]. rewrite Ec3. reflexivity.
        * destruct (parse_mux_options_sp tiers f toks1) as [[a toks2]|] eqn:E1; [|discriminate H].
          destruct (IH5 _ _ _ E1) as (w1 & Hw1 & St1).
          destruct toks2 as [|t2 toks2]; [discriminate H|].
          destruct (token_eqb (tk t2) TCloseBracket) eqn:Ec; [|discriminate H].
          cbv zeta in H. injection H as <- <-.
          exists (t :: w1 ++ [t2]). split; [rewrite Hw1; napp; reflexivity|]. split; [discriminate|].
          intros f' rest' Hf Hc. fuelS f'. rewrite parse_simple_sp_S. napp. rewrite Ht.
          rewrite (St1 f' (t2 :: rest')); [|lia|reflexivity]. rewrite Ec. reflexivity.
        * injection H as <- <-. exists [t]. split; [reflexivity|]. split; [discriminate|].
          intros f' rest' Hf Hc. fuelS f'. rewrite parse_simple_sp_S. cbn [app]. rewrite Ht. reflexivity.
      + (* parse_mux_options *)
        intros toks r rest0 H. rewrite parse_mux_options_sp_S in H.
        destruct toks as [|t toks1].
        { injection H as <- <-. exists []. split; [reflexivity|].
          intros f' rest' Hf Hc. apply compat_nil_l in Hc. subst rest'. fuelS f'. reflexivity. }
        destruct (token_eqb (tk t) TCloseBracket) eqn:Ecb.
        { injection H as <- <-. exists []. split; [reflexivity|].
          intros f' rest' Hf Hc. fuelS f'. rewrite parse_mux_options_sp_S. cbn [app].
          destruct rest' as [|t' r']; [reflexivity|]. cbn in Hc. injection Hc as Hc.
          rewrite <- Hc, Ecb. reflexivity. }
        destruct (parse_tiers_sp tiers f tiers (t :: toks1)) as [[[c extc] toks2]|] eqn:E1; [|discriminate H].
        destruct (IH1 _ _ _ _ E1) as (w1 & Hw1 & Hne1 & St1).
        assert (Hhead : exists w1', w1 = t :: w1').
        { destruct w1 as [|x w1']; [congruence|]. cbn [app] in Hw1. injection Hw1 as <- _. exists w1'. reflexivity. }
        destruct Hhead as (w1' & ->).
        destruct toks2 as [|t1 toks2]; [discriminate H|].
        destruct (token_eqb (tk t1) TColon) eqn:Ecol; [|discriminate H].
        destruct (parse_tiers_sp tiers f tiers toks2) as [[[v extv] toks3]|] eqn:E2; [|discriminate H].
        destruct (IH1 _ _ _ _ E2) as (w2 & Hw2 & Hne2 & St2).
        assert (Hstart : forall f' tail, (f <= f')%nat ->
                  parse_mux_options_sp tiers (S f') ((t :: w1') ++ t1 :: w2 ++ tail) =
                  match parse_tiers_sp tiers f' tiers (w2 ++ tail) with
                  | Some (v, _, t2 :: toks2) =>
                      if token_eqb (tk t2) TSemicolon then
                        match parse_mux_options_sp tiers f' toks2 with
                        | Some (rest, toks3) => Some (SACons c v rest, toks3)
                        | None => None
                        end
                      else Some (SACons c v SANil, t2 :: toks2)
                  | Some (v, _, []) => Some (SACons c v SANil, [])
                  | None => None
                  end).
        { intros f' tail Hf. rewrite parse_mux_options_sp_S. cbn [app]. rewrite Ecb.
          change (t :: w1' ++ t1 :: w2 ++ tail) with ((t :: w1') ++ t1 :: w2 ++ tail).
          rewrite (St1 f' (t1 :: w2 ++ tail)); [|lia|reflexivity]. rewrite Ecol. reflexivity. }
        destruct toks3 as [|t2 toks3].
        { injection H as <- <-. exists ((t :: w1') ++ t1 :: w2). split; [rewrite Hw1, Hw2; napp; reflexivity|].
          intros f' rest' Hf Hc. apply compat_nil_l in Hc. subst rest'. fuelS f'.
          rewrite app_nil_r. rewrite <- (app_nil_r w2) at 1. rewrite Hstart; [|lia].
          rewrite (St2 f' []); [|lia|exact I]. reflexivity. }
        destruct (token_eqb (tk t2) TSemicolon) eqn:Esc.
        * destruct (parse_mux_options_sp tiers f toks3) as [[more toks4]|] eqn:E3; [|discriminate H].
          destruct (IH5 _ _ _ E3) as (w3 & Hw3 & St3).
          injection H as <- <-.
          exists ((t :: w1') ++ t1 :: w2 ++ t2 :: w3). split; [rewrite Hw1, Hw2, Hw3; napp; reflexivity|].
          intros f' rest' Hf Hc. fuelS f'.
          replace (((t :: w1') ++ t1 :: w2 ++ t2 :: w3) ++ rest') with ((t :: w1') ++ t1 :: w2 ++ (t2 :: w3 ++ rest'))
            by (napp; reflexivity).
          rewrite Hstart; [|lia].
          rewrite (St2 f' (t2 :: w3 ++ rest')); [|lia|reflexivity]. rewrite Esc.
          rewrite (St3 f' rest'); [|lia|exact Hc]. reflexivity.
        * injection H as <- <-.
          exists ((t :: w1') ++ t1 :: w2). split; [rewrite Hw1, Hw2; napp; reflexivity|].
          intros f' rest' Hf Hc. fuelS f'.
          replace (((t :: w1') ++ t1 :: w2) ++ rest') with ((t :: w1') ++ t1 :: w2 ++ rest') by (napp; reflexivity).
          rewrite Hstart; [|lia].
          rewrite (St2 f' rest'); [|lia|exact Hc].
          destruct rest' as [|t2' r']; [reflexivity|]. cbn in Hc. injection Hc as Hc.
          rewrite <- Hc, Esc. reflexivity.
      + (* parse_commas_exprs *)
        intros toks r rest0 H. rewrite parse_commas_exprs_sp_S in H.
        destruct toks as [|t toks1].
        { injection H as <- <-. exists []. split; [reflexivity|].
          intros f' rest' Hf Hc. apply compat_nil_l in Hc. subst rest'. fuelS f'. reflexivity. }
        destruct (token_eqb (tk t) TCloseBrace) eqn:Ecb.
        { injection H as <- <-. exists []. split; [reflexivity|].
          intros f' rest' Hf Hc. fuelS f'. rewrite parse_commas_exprs_sp_S. cbn [app].
          destruct rest' as [|t' r']; [reflexivity|]. cbn in Hc. injection Hc as Hc.
          rewrite <- Hc, Ecb. reflexivity. }
        destruct (parse_tiers_sp tiers f tiers (t :: toks1)) as [[[e exte] toks2]|] eqn:E1; [|discriminate H].
        destruct (IH1 _ _ _ _ E1) as (w1 & Hw1 & Hne1 & St1).
        assert (Hhead : exists w1', w1 = t :: w1').
        { destruct w1 as [|x w1']; [congruence|]. cbn [app] in Hw1. injection Hw1 as <- _. exists w1'. reflexivity. }
        destruct Hhead as (w1' & ->).
        destruct toks2 as [|t1 toks2].
        { injection H as <- <-. exists (t :: w1'). split; [exact Hw1|].
          intros f' rest' Hf Hc. apply compat_nil_l in Hc. subst rest'. fuelS f'.
          rewrite parse_commas_exprs_sp_S. cbn [app]. rewrite Ecb.
          change (t :: w1' ++ []) with ((t :: w1') ++ []).
          rewrite (St1 f' []); [|lia|exact I]. reflexivity. }
        destruct (token_eqb (tk t1) TComma) eqn:Ecm.
        * destruct (parse_commas_exprs_sp tiers f toks2) as [[more toks3]|] eqn:E2; [|discriminate H].
          destruct (IH6 _ _ _ E2) as (w2 & Hw2 & St2).
          injection H as <- <-.
          exists ((t :: w1') ++ t1 :: w2). split; [rewrite Hw1, Hw2; napp; reflexivity|].
          intros f' rest' Hf Hc. fuelS f'. rewrite parse_commas_exprs_sp_S. napp. rewrite Ecb.
          change (t :: w1' ++ t1 :: w2 ++ rest') with ((t :: w1') ++ t1 :: w2 ++ rest').
          rewrite (St1 f' (t1 :: w2 ++ rest')); [|lia|reflexivity]. rewrite Ecm.
          rewrite (St2 f' rest'); [|lia|exact Hc]. reflexivity.
        * injection H as <- <-. exists (t :: w1'). split; [exact Hw1|].
          intros f' rest' Hf Hc. fuelS f'. rewrite parse_commas_exprs_sp_S. cbn [app]. rewrite Ecb.
          change (t :: w1' ++ rest') with ((t :: w1') ++ rest').
          rewrite (St1 f' rest'); [|lia|exact Hc].
          destruct rest' as [|t1' r']; [reflexivity|]. cbn in Hc. injection Hc as Hc.
          rewrite <- Hc, Ecm. reflexivity.
  Qed.

  Lemma parse_expr_sp_stable f : Stab1 (parse_expr_sp tiers) f.
  Proof. exact (proj1 (stable_all f) tiers). Qed.
End StableExpr.

(* ---- declarations and statements ---- *)
Lemma wire_decls_stable : forall f, Stab parse_wire_decls_sp f.
Proof.
  induction f as [|f IH]; intros toks r rest0 H; [discriminate H|].
  cbn [parse_wire_decls_sp] in H.
  assert (Hstop : forall t1 r1, toks = t1 :: r1 -> (match tk t1 with TIdentifier _ => false | _ => true end) = true ->
            Some (@nil swire_decl, toks) = Some (r, rest0) ->
            exists w, toks = w ++ rest0 /\
              forall f' rest', (S f <= f')%nat -> compat rest0 rest' -> parse_wire_decls_sp f' (w ++ rest') = Some (r, rest')).
  { intros t1 r1 -> Hni Hinj. injection Hinj as <- <-. exists []. split; [reflexivity|].
    intros f' rest' Hf Hc. fuelS f'. cbn [parse_wire_decls_sp app].
    destruct rest' as [|t1' r']; [reflexivity|]. cbn in Hc. injection Hc as Hc.
    destruct r' as [|t2' [|t3' r']]; rewrite <- Hc; destruct (tk t1); try discriminate Hni; reflexivity. }
  destruct toks as [|t1 toks].
  { injection H as <- <-. exists []. split; [reflexivity|].
    intros f' rest' Hf Hc. apply compat_nil_l in Hc. subst rest'. fuelS f'. reflexivity. }
  destruct toks as [|t2 toks].
  { destruct (tk t1) eqn:Ht1; try discriminate H; apply (Hstop t1 [] eq_refl); try exact H; rewrite Ht1; reflexivity. }
  destruct toks as [|t3 toks].
  { destruct (tk t1) eqn:Ht1; try discriminate H; apply (Hstop t1 [t2] eq_refl); try exact H; rewrite Ht1; reflexivity. }
  destruct (tk t1) eqn:Ht1;
    try (apply (Hstop t1 (t2 :: t3 :: toks) eq_refl); [rewrite Ht1; reflexivity|]; destruct (small_constant (tk t3)); exact H).
  clear Hstop.
  destruct (small_constant (tk t3)) as [w|] eqn:Ew; [|discriminate H].
  destruct (token_eqb (tk t2) TColon) eqn:Ec; [|discriminate H].
  assert (Hlast : forall rest1, Some ([(string_of_name name, Bits w, (tstart t1, tend t3))], rest1) = Some (r, rest0) ->
            (rest1 = [] \/ exists t4 r4, rest1 = t4 :: r4 /\ token_eqb (tk t4) TComma = false) ->
            exists w0, t1 :: t2 :: t3 :: rest1 = w0 ++ rest0 /\
              forall f' rest', (S f <= f')%nat -> compat rest0 rest' -> parse_wire_decls_sp f' (w0 ++ rest') = Some (r, rest')).
  { intros rest1 Hinj Hcase. injection Hinj as <- <-. exists [t1; t2; t3]. split; [reflexivity|].
    intros f' rest' Hf Hc. fuelS f'. cbn [parse_wire_decls_sp app]. rewrite Ht1, Ew, Ec.
    destruct rest' as [|t4' r']; [reflexivity|].
    destruct Hcase as [->|(t4 & r4 & -> & Hcm)]; [discriminate Hc|].
    cbn in Hc. injection Hc as Hc. rewrite <- Hc, Hcm. reflexivity. }
  destruct toks as [|t4 toks]; [apply Hlast; [exact H|left; reflexivity]|].
  destruct (token_eqb (tk t4) TComma) eqn:Ecm;
    [|apply Hlast; [exact H|right; exists t4, toks; split; [reflexivity|exact Ecm]]].
  clear Hlast.
  destruct (parse_wire_decls_sp f toks) as [[more toks3]|] eqn:E1; [|discriminate H].
  destruct (IH _ _ _ E1) as (w1 & Hw1 & St1). injection H as <- <-.
  exists (t1 :: t2 :: t3 :: t4 :: w1). split; [rewrite Hw1; reflexivity|].
  intros f' rest' Hf Hc. fuelS f'. cbn [parse_wire_decls_sp app]. rewrite Ht1, Ew, Ec, Ecm.
  rewrite (St1 f' rest'); [|lia|exact Hc]. reflexivity.
Qed.

Definition is_ident (t : token) : bool := match t with TIdentifier _ => true | _ => false end.

(* where the scan of the assigned names stops *)
Definition tstop (l : list tok) : Prop :=
  match l with
  | t1 :: t2 :: _ => is_ident (tk t1) && token_eqb (tk t2) TAssign = false
  | _ => True
  end.

Lemma targets_stable : forall f toks names toks1,
  (List.length toks <= f)%nat -> parse_targets_sp f toks = (names, toks1) ->
  exists w, toks = w ++ toks1 /\ tstop toks1 /\ (names = [] -> w = []) /\
    (forall n0 ns, names = n0 :: ns -> exists t0 w', w = t0 :: w' /\ snd n0 = tspan t0) /\
    forall f' toks1', tstop toks1' -> (List.length (w ++ toks1') <= f')%nat ->
      parse_targets_sp f' (w ++ toks1') = (names, toks1').
Proof.
  induction f as [|f IH]; intros toks names toks1 Hlen H.
  { destruct toks; [|cbn in Hlen; lia]. cbn in H. injection H as <- <-.
    exists []. split; [reflexivity|]. split; [exact I|]. split; [reflexivity|]. split; [discriminate|].
    intros f' toks1' Hs _. cbn [app]. destruct f' as [|f']; [reflexivity|]. cbn [parse_targets_sp].
    destruct toks1' as [|t1 [|t2 r]]; try reflexivity. cbn in Hs.
    destruct (tk t1); try reflexivity. cbn in Hs. rewrite Hs. reflexivity. }
  cbn [parse_targets_sp] in H.
  assert (Hstop : tstop toks -> (names, toks1) = (@nil (string * srcspan), toks) ->
            exists w, toks = w ++ toks1 /\ tstop toks1 /\ (names = [] -> w = []) /\
              (forall n0 ns, names = n0 :: ns -> exists t0 w', w = t0 :: w' /\ snd n0 = tspan t0) /\
              forall f' toks1', tstop toks1' -> (List.length (w ++ toks1') <= f')%nat ->
                parse_targets_sp f' (w ++ toks1') = (names, toks1')).
  { intros Hs Hinj. injection Hinj as -> ->. exists []. split; [reflexivity|]. split; [exact Hs|].
    split; [reflexivity|]. split; [discriminate|].
    intros f' toks1' Hs' _. cbn [app]. destruct f' as [|f']; [reflexivity|]. cbn [parse_targets_sp].
    destruct toks1' as [|t1 [|t2 r]]; try reflexivity. cbn in Hs'.
    destruct (tk t1); try reflexivity. cbn in Hs'. rewrite Hs'. reflexivity. }
  destruct toks as [|t1 [|t2 toks]]; try (apply Hstop; [exact I|symmetry; exact H]).
  destruct (tk t1) eqn:Ht1; try (apply Hstop; [cbn; rewrite Ht1; reflexivity|symmetry; exact H]).
  destruct (token_eqb (tk t2) TAssign) eqn:Ea; [|apply Hstop; [cbn; rewrite Ht1, Ea; reflexivity|symmetry; exact H]].
  clear Hstop.
  destruct (parse_targets_sp f toks) as [more rest] eqn:E1.
  destruct (IH toks more rest ltac:(cbn in Hlen; lia) E1) as (w1 & Hw1 & Hs1 & _ & _ & St1).
  injection H as <- <-.
  exists (t1 :: t2 :: w1). split; [rewrite Hw1; reflexivity|]. split; [exact Hs1|].
  split; [discriminate|].
  split; [intros n0 ns Hn; injection Hn as <- _; exists t1, (t2 :: w1); split; reflexivity|].
  intros f' toks1' Hs' Hlen'. cbn [app] in Hlen' |- *. destruct f' as [|f']; [cbn in Hlen'; lia|].
  cbn [parse_targets_sp]. rewrite Ht1, Ea.
  rewrite (St1 f' toks1' Hs'); [reflexivity|cbn in Hlen'; lia].
Qed.

Lemma tstop_after_expr we rest rest' : we <> [] -> compat rest rest' -> tstop (we ++ rest) -> tstop (we ++ rest').
Proof.
  intros Hne Hc Hs. destruct we as [|e1 [|e2 we]]; [congruence| |exact Hs].
  cbn [app] in Hs |- *. destruct rest' as [|t2' r']; [exact I|].
  destruct rest as [|t2 r]; [discriminate Hc|]. cbn in Hc. injection Hc as Hc.
  cbn in Hs |- *. rewrite <- Hc. exact Hs.
Qed.

Section StableStmt.
  Variable tiers : list tier.

  Lemma const_decls_stable : forall f, Stab (parse_const_decls_sp tiers) f.
  Proof.
    induction f as [|f IH]; intros toks r rest0 H; [discriminate H|].
    cbn [parse_const_decls_sp] in H.
    assert (Hstop : forall t1 r1, toks = t1 :: r1 -> is_ident (tk t1) = false ->
              Some (@nil sconst_decl, toks) = Some (r, rest0) ->
              exists w, toks = w ++ rest0 /\
                forall f' rest', (S f <= f')%nat -> compat rest0 rest' ->
                  parse_const_decls_sp tiers f' (w ++ rest') = Some (r, rest')).
    { intros t1 r1 -> Hni Hinj. injection Hinj as <- <-. exists []. split; [reflexivity|].
      intros f' rest' Hf Hc. fuelS f'. cbn [parse_const_decls_sp app].
      destruct rest' as [|t1' r']; [reflexivity|]. cbn in Hc. injection Hc as Hc.
      destruct r' as [|t2' r']; rewrite <- Hc; destruct (tk t1); try discriminate Hni; reflexivity. }
    destruct toks as [|t1 toks].
    { injection H as <- <-. exists []. split; [reflexivity|].
      intros f' rest' Hf Hc. apply compat_nil_l in Hc. subst rest'. fuelS f'. reflexivity. }
    destruct toks as [|t2 toks].
    { destruct (tk t1) eqn:Ht1; try discriminate H; apply (Hstop t1 [] eq_refl); try exact H; rewrite Ht1; reflexivity. }
    destruct (tk t1) eqn:Ht1;
      try (apply (Hstop t1 (t2 :: toks) eq_refl); [rewrite Ht1; reflexivity|exact H]).
    clear Hstop.
    destruct (token_eqb (tk t2) TAssign) eqn:Ea; [|discriminate H].
    destruct (parse_expr_sp tiers f toks) as [[[e exte] toks2]|] eqn:E1; [|discriminate H].
    destruct (parse_expr_sp_stable tiers f _ _ _ E1) as (w1 & Hw1 & Hne1 & St1).
    destruct toks2 as [|t3 toks2].
    { injection H as <- <-. exists (t1 :: t2 :: w1). split; [rewrite Hw1; reflexivity|].
      intros f' rest' Hf Hc. apply compat_nil_l in Hc. subst rest'. fuelS f'.
      cbn [parse_const_decls_sp app]. rewrite Ht1, Ea. rewrite (St1 f' []); [|lia|exact I]. reflexivity. }
    destruct (token_eqb (tk t3) TComma) eqn:Ecm.
    - destruct (parse_const_decls_sp tiers f toks2) as [[more toks3]|] eqn:E2; [|discriminate H].
      destruct (IH _ _ _ E2) as (w2 & Hw2 & St2). injection H as <- <-.
      exists (t1 :: t2 :: w1 ++ t3 :: w2). split; [rewrite Hw1, Hw2; napp; reflexivity|].
      intros f' rest' Hf Hc. fuelS f'. cbn [parse_const_decls_sp]. napp. rewrite Ht1, Ea.
      rewrite (St1 f' (t3 :: w2 ++ rest')); [|lia|reflexivity]. rewrite Ecm.
      rewrite (St2 f' rest'); [|lia|exact Hc]. reflexivity.
    - injection H as <- <-. exists (t1 :: t2 :: w1). split; [rewrite Hw1; reflexivity|].
      intros f' rest' Hf Hc. fuelS f'. cbn [parse_const_decls_sp app]. rewrite Ht1, Ea.
      rewrite (St1 f' rest'); [|lia|exact Hc].
      destruct rest' as [|t3' r']; [reflexivity|]. cbn in Hc. injection Hc as Hc.
      rewrite <- Hc, Ecm. reflexivity.
  Qed.

  Lemma assignments_stable : forall f, Stab1 (parse_assignments_sp tiers) f.
  Proof.
    induction f as [|f IH]; intros toks r rest0 H; [discriminate H|].
    cbn [parse_assignments_sp] in H.
    destruct (parse_targets_sp (List.length toks) toks) as [names toks1] eqn:Et.
    destruct (targets_stable _ _ _ _ (Nat.le_refl _) Et) as (w0 & Hw0 & Hs0 & _ & Hfirst & St0).
    destruct names as [|n0 names]; [discriminate H|].
    destruct (Hfirst n0 names eq_refl) as (t0 & w0' & -> & Hn0).
    destruct (parse_expr_sp tiers f toks1) as [[[e exte] toks2]|] eqn:E1; [|discriminate H].
    destruct (parse_expr_sp_stable tiers f _ _ _ E1) as (w1 & Hw1 & Hne1 & St1).
    assert (Hstart : forall f' tail, (f <= f')%nat -> compat toks2 tail ->
              parse_assignments_sp tiers (S f') ((t0 :: w0') ++ w1 ++ tail) =
              match tail with
              | t :: toks2 =>
                  let a := (n0 :: names, e, (fst (snd n0), snd exte)) in
                  if token_eqb (tk t) TComma then
                    match toks2 with
                    | t2 :: _ =>
                        match tk t2 with
                        | TIdentifier _ =>
                            match parse_assignments_sp tiers f' toks2 with
                            | Some (rest, toks3) => Some (a :: rest, toks3)
                            | None => None
                            end
                        | _ => Some ([a], toks2)
                        end
                    | [] => Some ([a], toks2)
                    end
                  else Some ([a], t :: toks2)
              | [] => Some ([(n0 :: names, e, (fst (snd n0), snd exte))], [])
              end).
    { intros f' tail Hf Hc. cbn [parse_assignments_sp].
      rewrite (St0 (List.length ((t0 :: w0') ++ w1 ++ tail)) (w1 ++ tail)); [|
        apply (tstop_after_expr w1 toks2 tail Hne1 Hc); rewrite <- Hw1; exact Hs0|apply Nat.le_refl].
      rewrite (St1 f' tail); [|lia|exact Hc]. reflexivity. }
    destruct toks2 as [|t toks2].
    { injection H as <- <-. exists ((t0 :: w0') ++ w1). split; [rewrite Hw0, Hw1; napp; reflexivity|].
      split; [discriminate|].
      intros f' rest' Hf Hc. apply compat_nil_l in Hc. subst rest'. fuelS f'.
      rewrite <- app_assoc. rewrite Hstart; [reflexivity|lia|exact I]. }
    cbv zeta in H.
    destruct (token_eqb (tk t) TComma) eqn:Ecm.
    - destruct toks2 as [|t2 toks2].
      { injection H as <- <-. exists ((t0 :: w0') ++ w1 ++ [t]). split; [rewrite Hw0, Hw1; napp; reflexivity|].
        split; [discriminate|].
        intros f' rest' Hf Hc. apply compat_nil_l in Hc. subst rest'. fuelS f'.
        rewrite app_nil_r. rewrite Hstart; [|lia|reflexivity]. cbv zeta. rewrite Ecm. reflexivity. }
      destruct (is_ident (tk t2)) eqn:Eid.
      + destruct (tk t2) eqn:Ht2; try discriminate Eid.
        destruct (parse_assignments_sp tiers f (t2 :: toks2)) as [[more toks3]|] eqn:E2; [|discriminate H].
        destruct (IH _ _ _ E2) as (w2 & Hw2 & Hne2 & St2). injection H as <- <-.
        assert (Hhead : exists w2', w2 = t2 :: w2').
        { destruct w2 as [|x w2']; [congruence|]. cbn [app] in Hw2. injection Hw2 as <- _. exists w2'. reflexivity. }
        destruct Hhead as (w2' & ->).
        exists ((t0 :: w0') ++ w1 ++ t :: t2 :: w2'). split; [rewrite Hw0, Hw1, Hw2; napp; reflexivity|].
        split; [discriminate|].
        intros f' rest' Hf Hc. fuelS f'.
        replace (((t0 :: w0') ++ w1 ++ t :: t2 :: w2') ++ rest') with ((t0 :: w0') ++ w1 ++ (t :: (t2 :: w2') ++ rest'))
          by (napp; reflexivity).
        rewrite Hstart; [|lia|reflexivity]. cbv zeta. rewrite Ecm. cbn [app]. rewrite Ht2.
        change (t2 :: w2' ++ rest') with ((t2 :: w2') ++ rest').
        rewrite (St2 f' rest'); [|lia|exact Hc]. reflexivity.
      + assert (Hres : Some ([(n0 :: names, e, (fst (snd n0), snd exte))], t2 :: toks2) = Some (r, rest0)).
        { destruct (tk t2); try exact H; discriminate Eid. }
        injection Hres as <- <-.
        exists ((t0 :: w0') ++ w1 ++ [t]). split; [rewrite Hw0, Hw1; napp; reflexivity|].
        split; [discriminate|].
        intros f' rest' Hf Hc. fuelS f'.
        replace (((t0 :: w0') ++ w1 ++ [t]) ++ rest') with ((t0 :: w0') ++ w1 ++ (t :: rest')) by (napp; reflexivity).
        rewrite Hstart; [|lia|reflexivity]. cbv zeta. rewrite Ecm.
        destruct rest' as [|t2' r']; [reflexivity|]. cbn in Hc. injection Hc as Hc. rewrite <- Hc.
        destruct (tk t2); try reflexivity; discriminate Eid.
    - injection H as <- <-. exists ((t0 :: w0') ++ w1). split; [rewrite Hw0, Hw1; napp; reflexivity|].
      split; [discriminate|].
      intros f' rest' Hf Hc. fuelS f'. rewrite <- app_assoc. rewrite Hstart; [|lia|exact Hc].
      destruct rest' as [|t' r']; [reflexivity|]. cbn in Hc. injection Hc as Hc. cbv zeta.
      rewrite <- Hc, Ecm. reflexivity.
  Qed.

  Lemma register_decls_stable : forall f, Stab (parse_register_decls_sp tiers) f.
  Proof.
    induction f as [|f IH]; intros toks r rest0 H; [discriminate H|].
    cbn [parse_register_decls_sp] in H.
    assert (Hstop : forall t1 r1, toks = t1 :: r1 -> is_ident (tk t1) = false ->
              Some (@nil sreg_decl, toks) = Some (r, rest0) ->
              exists w, toks = w ++ rest0 /\
                forall f' rest', (S f <= f')%nat -> compat rest0 rest' ->
                  parse_register_decls_sp tiers f' (w ++ rest') = Some (r, rest')).
    { intros t1 r1 -> Hni Hinj. injection Hinj as <- <-. exists []. split; [reflexivity|].
      intros f' rest' Hf Hc. fuelS f'. cbn [parse_register_decls_sp app].
      destruct rest' as [|t1' r']; [reflexivity|]. cbn in Hc. injection Hc as Hc.
      destruct r' as [|t2' [|t3' [|t4' r']]]; rewrite <- Hc; destruct (tk t1); try discriminate Hni; reflexivity. }
    destruct toks as [|t1 toks].
    { injection H as <- <-. exists []. split; [reflexivity|].
      intros f' rest' Hf Hc. apply compat_nil_l in Hc. subst rest'. fuelS f'. reflexivity. }
    destruct toks as [|t2 toks].
    { destruct (tk t1) eqn:Ht1; try discriminate H; apply (Hstop t1 [] eq_refl); try exact H; rewrite Ht1; reflexivity. }
    destruct toks as [|t3 toks].
    { destruct (tk t1) eqn:Ht1; try discriminate H; apply (Hstop t1 [t2] eq_refl); try exact H; rewrite Ht1; reflexivity. }
    destruct toks as [|t4 toks].
    { destruct (tk t1) eqn:Ht1; try discriminate H; apply (Hstop t1 [t2; t3] eq_refl); try exact H; rewrite Ht1; reflexivity. }
    destruct (tk t1) eqn:Ht1;
      try (apply (Hstop t1 (t2 :: t3 :: t4 :: toks) eq_refl); [rewrite Ht1; reflexivity|]; destruct (small_constant (tk t3)); exact H).
    clear Hstop.
    destruct (small_constant (tk t3)) as [w|] eqn:Ew; [|discriminate H].
    destruct (token_eqb (tk t2) TColon && token_eqb (tk t4) TAssign) eqn:Ec; [|discriminate H].
    destruct (parse_expr_sp tiers f toks) as [[[e exte] toks2]|] eqn:E1; [|discriminate H].
    destruct (parse_expr_sp_stable tiers f _ _ _ E1) as (w1 & Hw1 & Hne1 & St1).
    destruct toks2 as [|t5 toks2].
    { injection H as <- <-. exists (t1 :: t2 :: t3 :: t4 :: w1). split; [rewrite Hw1; reflexivity|].
      intros f' rest' Hf Hc. apply compat_nil_l in Hc. subst rest'. fuelS f'.
      cbn [parse_register_decls_sp app]. rewrite Ht1, Ew, Ec. rewrite (St1 f' []); [|lia|exact I]. reflexivity. }
    cbv zeta in H.
    destruct (token_eqb (tk t5) TSemicolon) eqn:Esc.
    - destruct (parse_register_decls_sp tiers f toks2) as [[more toks3]|] eqn:E2; [|discriminate H].
      destruct (IH _ _ _ E2) as (w2 & Hw2 & St2). injection H as <- <-.
      exists (t1 :: t2 :: t3 :: t4 :: w1 ++ t5 :: w2). split; [rewrite Hw1, Hw2; napp; reflexivity|].
      intros f' rest' Hf Hc. fuelS f'. cbn [parse_register_decls_sp]. napp. rewrite Ht1, Ew, Ec.
      rewrite (St1 f' (t5 :: w2 ++ rest')); [|lia|reflexivity]. cbv zeta. rewrite Esc.
      rewrite (St2 f' rest'); [|lia|exact Hc]. reflexivity.
    - injection H as <- <-. exists (t1 :: t2 :: t3 :: t4 :: w1). split; [rewrite Hw1; reflexivity|].
      intros f' rest' Hf Hc. fuelS f'. cbn [parse_register_decls_sp app]. rewrite Ht1, Ew, Ec.
      rewrite (St1 f' rest'); [|lia|exact Hc].
      destruct rest' as [|t5' r']; [reflexivity|]. cbn in Hc. injection Hc as Hc. cbv zeta.
      rewrite <- Hc, Esc. reflexivity.
  Qed.

  (* a statement: a register bank ends with its "}" and looks at nothing after it *)
  Lemma statement_stable f toks s k rest :
    parse_statement_sp tiers f toks = Some (s, k, rest) ->
    exists w, toks = w ++ rest /\ w <> [] /\
      forall f' rest', (f <= f')%nat -> k = NoSemi \/ compat rest rest' ->
        parse_statement_sp tiers f' (w ++ rest') = Some (s, k, rest').
  Proof.
    intros H. unfold parse_statement_sp in H.
    destruct toks as [|t toks1]; [discriminate H|].
    destruct (tk t) eqn:Ht; try discriminate H.
    - destruct (parse_wire_decls_sp f toks1) as [[d rest1]|] eqn:E1; [|discriminate H].
      destruct (wire_decls_stable f _ _ _ E1) as (w1 & Hw1 & St1). injection H as <- <- <-.
      exists (t :: w1). split; [rewrite Hw1; reflexivity|]. split; [discriminate|].
      intros f' rest' Hf [Hk|Hc]; [discriminate Hk|]. unfold parse_statement_sp. cbn [app]. rewrite Ht.
      rewrite (St1 f' rest' Hf Hc). reflexivity.
    - destruct (parse_const_decls_sp tiers f toks1) as [[d rest1]|] eqn:E1; [|discriminate H].
      destruct (const_decls_stable f _ _ _ E1) as (w1 & Hw1 & St1). injection H as <- <- <-.
      exists (t :: w1). split; [rewrite Hw1; reflexivity|]. split; [discriminate|].
      intros f' rest' Hf [Hk|Hc]; [discriminate Hk|]. unfold parse_statement_sp. cbn [app]. rewrite Ht.
      rewrite (St1 f' rest' Hf Hc). reflexivity.
    - destruct toks1 as [|t1 [|t2 toks2]]; try discriminate H.
      destruct (tk t1) eqn:Ht1; try discriminate H.
      destruct (token_eqb (tk t2) TOpenBrace) eqn:Eb; [|discriminate H].
      destruct (parse_register_decls_sp tiers f toks2) as [[regs rest1]|] eqn:E1; [|discriminate H].
      destruct rest1 as [|t3 rest1]; [discriminate H|].
      destruct (token_eqb (tk t3) TCloseBrace) eqn:Ecb; [|discriminate H].
      destruct (register_decls_stable f _ _ _ E1) as (w1 & Hw1 & St1). injection H as <- <- <-.
      exists (t :: t1 :: t2 :: w1 ++ [t3]). split; [rewrite Hw1; napp; reflexivity|]. split; [discriminate|].
      intros f' rest' Hf _. unfold parse_statement_sp. napp. rewrite Ht, Ht1, Eb.
      rewrite (St1 f' (t3 :: rest')); [|exact Hf|reflexivity]. rewrite Ecb. reflexivity.
    - destruct (parse_assignments_sp tiers f (t :: toks1)) as [[a rest1]|] eqn:E1; [|discriminate H].
      destruct (assignments_stable f _ _ _ E1) as (w1 & Hw1 & Hne1 & St1). injection H as <- <- <-.
      assert (Hhead : exists w1', w1 = t :: w1').
      { destruct w1 as [|x w1']; [congruence|]. cbn [app] in Hw1. injection Hw1 as <- _. exists w1'. reflexivity. }
      destruct Hhead as (w1' & ->).
      exists (t :: w1'). split; [exact Hw1|]. split; [discriminate|].
      intros f' rest' Hf [Hk|Hc]; [discriminate Hk|]. unfold parse_statement_sp. cbn [app]. rewrite Ht.
      change (t :: w1' ++ rest') with ((t :: w1') ++ rest').
      rewrite (St1 f' rest' Hf Hc). reflexivity.
  Qed.
End StableStmt.
